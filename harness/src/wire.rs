//! Wire format shared with the Lean driver: shapes as s-expressions, texts as hex.
use json_shape::JsonShape;
use std::collections::{BTreeMap, BTreeSet};

pub fn hex(s: &[u8]) -> String {
    let mut out = String::with_capacity(s.len() * 2);
    for b in s {
        out.push_str(&format!("{b:02x}"));
    }
    out
}

pub fn unhex(s: &str) -> Option<Vec<u8>> {
    let b = s.as_bytes();
    if b.len() % 2 != 0 {
        return None;
    }
    let v = |c: u8| match c {
        b'0'..=b'9' => Some(c - b'0'),
        b'a'..=b'f' => Some(c - b'a' + 10),
        _ => None,
    };
    let mut out = Vec::with_capacity(b.len() / 2);
    for p in b.chunks(2) {
        out.push(v(p[0])? * 16 + v(p[1])?);
    }
    Some(out)
}

pub fn unhex_str(s: &str) -> Option<String> {
    String::from_utf8(unhex(s)?).ok()
}

fn flag(o: bool) -> char {
    if o { '1' } else { '0' }
}

pub fn sexp(v: &JsonShape) -> String {
    let mut s = String::new();
    sexp_into(v, &mut s);
    s
}

fn sexp_into(v: &JsonShape, out: &mut String) {
    match v {
        JsonShape::Null => out.push('N'),
        JsonShape::Bool { optional } => {
            out.push('B');
            out.push(flag(*optional));
        }
        JsonShape::Number { optional } => {
            out.push('U');
            out.push(flag(*optional));
        }
        JsonShape::String { optional } => {
            out.push('S');
            out.push(flag(*optional));
        }
        JsonShape::Array { r#type, optional } => {
            out.push_str("(A");
            out.push(flag(*optional));
            out.push(' ');
            sexp_into(r#type, out);
            out.push(')');
        }
        JsonShape::Object { content, optional } => {
            out.push_str("(O");
            out.push(flag(*optional));
            for (k, v) in content {
                out.push_str(" (k");
                out.push_str(&hex(k.as_bytes()));
                out.push(' ');
                sexp_into(v, out);
                out.push(')');
            }
            out.push(')');
        }
        JsonShape::OneOf { variants, optional } => {
            out.push_str("(V");
            out.push(flag(*optional));
            for v in variants {
                out.push(' ');
                sexp_into(v, out);
            }
            out.push(')');
        }
        JsonShape::Tuple { elements, optional } => {
            out.push_str("(T");
            out.push(flag(*optional));
            for v in elements {
                out.push(' ');
                sexp_into(v, out);
            }
            out.push(')');
        }
    }
}

fn tokens(s: &str) -> Vec<String> {
    let mut out = Vec::new();
    let mut cur = String::new();
    for c in s.chars() {
        match c {
            '(' | ')' | ' ' => {
                if !cur.is_empty() {
                    out.push(std::mem::take(&mut cur));
                }
                if c != ' ' {
                    out.push(c.to_string());
                }
            }
            c => cur.push(c),
        }
    }
    if !cur.is_empty() {
        out.push(cur);
    }
    out
}

/// Parses a shape. Sets and maps are built by insertion, so the resulting value is whatever the
/// real `BTreeSet`/`BTreeMap` make of the listed elements (order of listing is irrelevant).
pub fn parse_shape(s: &str) -> Option<JsonShape> {
    let toks = tokens(s);
    let mut pos = 0;
    let v = read(&toks, &mut pos)?;
    if pos == toks.len() { Some(v) } else { None }
}

fn read(t: &[String], pos: &mut usize) -> Option<JsonShape> {
    let tok = t.get(*pos)?.as_str();
    *pos += 1;
    let fl = |s: &str| match s.as_bytes().get(1) {
        Some(b'0') => Some(false),
        Some(b'1') => Some(true),
        _ => None,
    };
    match tok {
        "N" => Some(JsonShape::Null),
        "B0" | "B1" => Some(JsonShape::Bool { optional: fl(tok)? }),
        "U0" | "U1" => Some(JsonShape::Number { optional: fl(tok)? }),
        "S0" | "S1" => Some(JsonShape::String { optional: fl(tok)? }),
        "(" => {
            let hd = t.get(*pos)?.clone();
            *pos += 1;
            let optional = fl(&hd)?;
            match hd.as_bytes()[0] {
                b'A' => {
                    let ty = read(t, pos)?;
                    if t.get(*pos)? != ")" {
                        return None;
                    }
                    *pos += 1;
                    Some(JsonShape::Array { r#type: Box::new(ty), optional })
                }
                b'O' => {
                    let mut content = BTreeMap::new();
                    loop {
                        let tk = t.get(*pos)?.as_str();
                        if tk == ")" {
                            *pos += 1;
                            break;
                        }
                        if tk != "(" {
                            return None;
                        }
                        *pos += 1;
                        let k = t.get(*pos)?;
                        *pos += 1;
                        let key = unhex_str(k.strip_prefix('k')?)?;
                        let v = read(t, pos)?;
                        if t.get(*pos)? != ")" {
                            return None;
                        }
                        *pos += 1;
                        content.insert(key, v);
                    }
                    Some(JsonShape::Object { content, optional })
                }
                b'V' => {
                    let mut variants = BTreeSet::new();
                    loop {
                        if t.get(*pos)? == ")" {
                            *pos += 1;
                            break;
                        }
                        variants.insert(read(t, pos)?);
                    }
                    Some(JsonShape::OneOf { variants, optional })
                }
                b'T' => {
                    let mut elements = Vec::new();
                    loop {
                        if t.get(*pos)? == ")" {
                            *pos += 1;
                            break;
                        }
                        elements.push(read(t, pos)?);
                    }
                    Some(JsonShape::Tuple { elements, optional })
                }
                _ => None,
            }
        }
        _ => None,
    }
}
