//! Search for a failing input around a correspondence disagreement.
//!
//! A disagreement between the model and the code on `merger a b` / `subset a b` is stated on
//! *shapes*; the properties C01/C03/C08/C09 are stated on *histories of documents*. This module
//! rebuilds, from the two shapes, histories of documents whose accumulated shape passes through
//! (shapes close to) `a` and whose last document has (a shape close to) `b`, so that the property
//! oracles can be evaluated by the real code on inputs that reach the arm on which the disagreement
//! was observed. It is a search heuristic: what it finds is replayed on the implementation and judged
//! by the reference definitions; what it does not find proves nothing.
use crate::r#gen::{hex_doc, J};
use json_shape::JsonShape;

fn key(k: &str) -> String {
    let q = serde_json::to_string(k).unwrap();
    q[1..q.len() - 1].to_string()
}

/// Documents whose merge plausibly yields `s` (first element: the "main" document).
pub fn history_of(s: &JsonShape, depth: usize) -> Vec<J> {
    let mut out: Vec<J> = Vec::new();
    let opt;
    match s {
        JsonShape::Null => return vec![J::Null],
        JsonShape::Bool { optional } => {
            opt = *optional;
            out.push(J::Bool(true));
        }
        JsonShape::Number { optional } => {
            opt = *optional;
            out.push(J::Num("1".into()));
        }
        JsonShape::String { optional } => {
            opt = *optional;
            out.push(J::Str("s".into()));
        }
        JsonShape::Array { r#type, optional } => {
            opt = *optional;
            let inner = if depth == 0 { vec![J::Null] } else { history_of(r#type, depth - 1) };
            // one array holding two copies of the main element, then one array per further element
            out.push(J::Arr(vec![inner[0].clone(), inner[0].clone()]));
            for d in inner.iter().skip(1).take(4) {
                out.push(J::Arr(vec![d.clone()]));
            }
            if inner.len() > 1 && inner.iter().all(|d| matches!(d, J::Obj(_))) {
                out.push(J::Arr(inner.iter().take(4).cloned().collect()));
            }
        }
        JsonShape::Tuple { elements, optional } => {
            opt = *optional;
            let hs: Vec<Vec<J>> = elements.iter().map(|e| if depth == 0 { vec![J::Null] } else { history_of(e, depth - 1) }).collect();
            let base: Vec<J> = hs.iter().map(|h| h[0].clone()).collect();
            out.push(J::Arr(base.clone()));
            for (i, h) in hs.iter().enumerate() {
                for d in h.iter().skip(1).take(2) {
                    let mut v = base.clone();
                    v[i] = d.clone();
                    out.push(J::Arr(v));
                }
            }
        }
        JsonShape::Object { content, optional } => {
            opt = *optional;
            let hs: Vec<(String, Vec<J>, bool)> = content
                .iter()
                .map(|(k, v)| (key(k), if depth == 0 { vec![J::Null] } else { history_of(v, depth - 1) }, v.is_optional()))
                .collect();
            let base: Vec<(String, J)> = hs.iter().map(|(k, h, _)| (k.clone(), h[0].clone())).collect();
            out.push(J::Obj(base.clone()));
            for (i, (_, h, nullable)) in hs.iter().enumerate() {
                for d in h.iter().skip(1).take(2) {
                    let mut v = base.clone();
                    v[i].1 = d.clone();
                    out.push(J::Obj(v));
                }
                if *nullable {
                    let mut v = base.clone();
                    v.remove(i);
                    out.push(J::Obj(v));
                }
            }
        }
        JsonShape::OneOf { variants, optional } => {
            opt = *optional;
            for v in variants {
                let h = if depth == 0 { vec![J::Null] } else { history_of(v, depth - 1) };
                out.extend(h.into_iter().take(3));
            }
            if out.is_empty() {
                out.push(J::Null);
            }
        }
    }
    if opt {
        out.push(J::Null);
    }
    out.truncate(8);
    out
}

fn hexes(h: &[J]) -> Vec<String> {
    h.iter().map(|d| hex_doc(d, 0)).collect()
}

/// Extra operations (with property expectations) for a disagreeing operation.
pub fn widen(pid: &str, op: &str, out: &mut Vec<String>) {
    let f: Vec<&str> = op.split('\t').collect();
    if f.len() != 3 || !(f[0] == "merger" || f[0] == "subset" || f[0] == "p_keeps") && f.len() == 3 {
        return;
    }
    let (a, b) = match (crate::wire::parse_shape(f[1]), crate::wire::parse_shape(f[2])) {
        (Some(a), Some(b)) => (a, b),
        _ => return,
    };
    let (a, b) = if f[0] == "subset" { (b, a) } else { (a, b) };
    let ha = history_of(&a, 4);
    let hb = history_of(&b, 4);
    let mut hist: Vec<Vec<J>> = Vec::new();
    // accumulate `a`, then feed the documents of `b` (main one first, and alone)
    let mut h1 = ha.clone();
    h1.push(hb[0].clone());
    hist.push(h1);
    let mut h2 = ha.clone();
    h2.extend(hb.iter().cloned());
    hist.push(h2);
    hist.push(vec![ha[0].clone(), hb[0].clone()]);
    hist.push(vec![hb[0].clone(), ha[0].clone()]);
    let mut h3 = hb.clone();
    h3.extend(ha.iter().cloned());
    hist.push(h3);
    // the same below an object member, an array element and a tuple position
    let wrap_all = |h: &Vec<J>, w: &dyn Fn(&J) -> J| -> Vec<J> { h.iter().map(|d| w(d)).collect() };
    let first = hist[0].clone();
    hist.push(wrap_all(&first, &|d| J::Obj(vec![("k".into(), d.clone())])));
    hist.push(wrap_all(&first, &|d| J::Arr(vec![d.clone()])));
    hist.push(wrap_all(&first, &|d| J::Arr(vec![J::Num("1".into()), d.clone(), J::Str("s".into())])));
    // the second operand below an object member that a later element of the same array lacks: the
    // only way for the incoming operand of a nested merge to carry the optional flag
    let mut h4: Vec<J> = ha.iter().map(|d| J::Arr(vec![J::Obj(vec![("k".into(), d.clone())])])).collect();
    h4.push(J::Arr(vec![J::Obj(vec![("k".into(), hb[0].clone())]), J::Obj(vec![])]));
    hist.push(h4.clone());
    hist.push(vec![h4[0].clone(), h4[h4.len() - 1].clone()]);
    hist.push(vec![h4[h4.len() - 1].clone(), h4[0].clone()]);
    // the second operand FIRST (bare, and as the optional member of an array of objects), then the documents of the
    // first with arrays before objects before scalars, and the other way round: what an accumulated tuple or array
    // turns into depends on which kind meets it first
    let rank = |d: &J| match d {
        J::Arr(_) => 0,
        J::Obj(_) => 1,
        _ => 2,
    };
    let mut sorted_a = ha.clone();
    sorted_a.sort_by_key(rank);
    let mut rev_a = sorted_a.clone();
    rev_a.reverse();
    for order in [&sorted_a, &rev_a] {
        let mut h5 = vec![hb[0].clone()];
        h5.extend(order.iter().cloned());
        hist.push(h5);
        let mut h6 = vec![J::Arr(vec![J::Obj(vec![("k".into(), hb[0].clone())]), J::Obj(vec![])])];
        h6.extend(order.iter().map(|d| J::Arr(vec![J::Obj(vec![("k".into(), d.clone())])])));
        hist.push(h6);
    }
    for h in hist {
        let hx = hexes(&h);
        match pid {
            "C01" => {
                for n in 1..=hx.len() {
                    out.push(format!("sourcesdoc\t{}\t!ok *", hx[..n].join("\t")));
                }
            }
            "C03" => out.push(format!("p_c03\t{}\t!ok", hx.join("\t"))),
            "C09" => {
                for k in [1usize, 3] {
                    out.push(format!("p_c09\t{}\t{}\t!ok *", k, hx.join("\t")));
                }
            }
            "C08" => {
                if hx.len() >= 2 {
                    out.push(format!("p_c08\t{}\t{}\t!ok *", hx[0], hx[hx.len() - 1]));
                    out.push(format!("p_c08\t{}\t{}\t!ok *", hx[hx.len() - 1], hx[0]));
                }
            }
            _ => {}
        }
    }
}
