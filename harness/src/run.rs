//! Executes operations against the real library, one canonical result line per operation.
use crate::wire::{hex, parse_shape, sexp, unhex_str};
use json_shape::error::Error;
use json_shape::{IsSubset, JsonShape, Similar};
use std::panic::{AssertUnwindSafe, catch_unwind};
use std::str::FromStr;

fn show_err(e: &Error) -> String {
    match e {
        Error::Unknown => "err Unknown".into(),
        Error::EmptyFile => "err EmptyFile".into(),
        Error::InvalidJson { value, span } => {
            format!("err InvalidJson {} {} {}", span.start, span.end, hex(value.as_bytes()))
        }
        Error::TooManyRootNodes(n) => format!("err TooManyRootNodes {n}"),
        Error::InvalidType(s) => format!("err InvalidType {}", hex(s.as_bytes())),
        Error::InvalidObjectKey => "err InvalidObjectKey".into(),
        Error::InvalidObjectValue => "err InvalidObjectValue".into(),
        Error::InvalidObjectValueType(a, b) => {
            format!("err InvalidObjectValueType {} {}", sexp(a), sexp(b))
        }
        Error::CannotMerge(a, b) => format!("err CannotMerge {} {}", sexp(a), sexp(b)),
    }
}

fn show_res(r: &Result<JsonShape, Error>) -> String {
    match r {
        Ok(s) => format!("ok {}", sexp(s)),
        Err(e) => show_err(e),
    }
}

fn b(x: bool) -> String {
    if x { "true".into() } else { "false".into() }
}

pub fn exec(line: &str) -> String {
    let f: Vec<&str> = line.split('\t').collect();
    let sh = |s: &str| parse_shape(s);
    macro_rules! shape {
        ($e:expr) => {
            match sh($e) {
                Some(v) => v,
                None => return "bad-shape".into(),
            }
        };
    }
    macro_rules! text {
        ($e:expr) => {
            match unhex_str($e) {
                Some(v) => v,
                None => return "bad-text".into(),
            }
        };
    }
    match f.as_slice() {
        ["subset", a, c] => b(shape!(a).is_subset(&shape!(c))),
        ["similar", a, c] => match shape!(a).similar(&shape!(c)) {
            Some(s) => format!("some {}", sexp(&s)),
            None => "none".into(),
        },
        ["merger", a, c] => show_res(&json_shape::verif::merger(shape!(a), shape!(c))),
        ["asopt", a] => sexp(&json_shape::verif::as_optional(shape!(a))),
        ["asnonopt", a] => sexp(&json_shape::verif::as_non_optional(shape!(a))),
        ["isopt", a] => b(shape!(a).is_optional()),
        ["keys", a] => match shape!(a).keys() {
            Some(ks) => {
                let mut s = "some".to_string();
                for k in ks {
                    s.push(' ');
                    s.push_str(&hex(k.as_bytes()));
                }
                s
            }
            None => "none".into(),
        },
        ["cmp", a, c] => match shape!(a).cmp(&shape!(c)) {
            std::cmp::Ordering::Less => "lt".into(),
            std::cmp::Ordering::Equal => "eq".into(),
            std::cmp::Ordering::Greater => "gt".into(),
        },
        ["display", a] => hex(shape!(a).to_string().as_bytes()),
        ["echo", a] => sexp(&shape!(a)),
        ["inferdoc", h] => show_res(&JsonShape::from_str(&text!(h))),
        ["inferv", h] => match serde_json::from_str::<serde_json::Value>(&text!(h)) {
            Ok(v) => {
                let by_ref = JsonShape::from(&v);
                let visitor = json_shape::serde::JsonVisitor::from(&v);
                if visitor.shape() != &by_ref || visitor.value() != &v {
                    return "visitor-mismatch".into();
                }
                let by_val = JsonShape::from(v);
                if by_val != by_ref {
                    return "from-owned-mismatch".into();
                }
                format!("ok {}", sexp(&by_ref))
            }
            Err(_) => "unparsable".into(),
        },
        ["sourcesdoc", rest @ ..] => {
            let mut srcs = Vec::new();
            for h in rest {
                srcs.push(text!(h));
            }
            show_res(&JsonShape::from_sources(&srcs))
        }
        ["p_similar", a, c] => {
            let (a, c) = (shape!(a), shape!(c));
            match a.similar(&c) {
                None => "ok".into(),
                Some(r) => {
                    let non = json_shape::verif::as_non_optional;
                    if non(r.clone()) != non(a.clone()) || non(r.clone()) != non(c.clone()) {
                        "violated: differs beyond the optional flag".into()
                    } else if r.is_optional() != (a.is_optional() || c.is_optional()) {
                        "violated: optional flag".into()
                    } else if c.similar(&a) != Some(r.clone()) {
                        "violated: not symmetric".into()
                    } else if !a.is_subset(&r) || !c.is_subset(&r) {
                        "violated: input not subset of result".into()
                    } else {
                        "ok".into()
                    }
                }
            }
        }
        ["superset", a, h] => b(shape!(a).is_superset(&text!(h))),
        ["supersetchk", a, h] => match shape!(a).is_superset_checked(&text!(h)) {
            Ok(x) => format!("ok {}", b(x)),
            Err(e) => show_err(&e),
        },
        _ => "bad-op".into(),
    }
}

pub fn exec_guarded(line: &str) -> String {
    match catch_unwind(AssertUnwindSafe(|| exec(line))) {
        Ok(s) => s,
        Err(_) => "panic".into(),
    }
}
