//! Executes operations against the real library, one canonical result line per operation.
use crate::wire::{hex, parse_shape, sexp, unhex_str};
use json_shape::error::Error;
use json_shape::{IsSubset, JsonShape, Similar};
use std::panic::{AssertUnwindSafe, catch_unwind};
use std::str::FromStr;

fn show_err(e: &Error) -> String {
    match e {
        Error::Unknown => "err Unknown".into(),
        Error::EmptyFile => "err EmptyFile".into(),
        Error::InvalidJson { value, span } => {
            format!("err InvalidJson {} {} {}", span.start, span.end, hex(value.as_bytes()))
        }
        Error::TooManyRootNodes(n) => format!("err TooManyRootNodes {n}"),
        Error::InvalidType(s) => format!("err InvalidType {}", hex(s.as_bytes())),
        Error::InvalidObjectKey => "err InvalidObjectKey".into(),
        Error::InvalidObjectValue => "err InvalidObjectValue".into(),
        Error::InvalidObjectValueType(a, b) => {
            format!("err InvalidObjectValueType {} {}", sexp(a), sexp(b))
        }
        Error::CannotMerge(a, b) => format!("err CannotMerge {} {}", sexp(a), sexp(b)),
    }
}

fn show_res(r: &Result<JsonShape, Error>) -> String {
    match r {
        Ok(s) => format!("ok {}", sexp(s)),
        Err(e) => show_err(e),
    }
}

fn b(x: bool) -> String {
    if x { "true".into() } else { "false".into() }
}

pub fn exec(line: &str) -> String {
    let f: Vec<&str> = line.split('\t').collect();
    let sh = |s: &str| parse_shape(s);
    macro_rules! shape {
        ($e:expr) => {
            match sh($e) {
                Some(v) => v,
                None => return "bad-shape".into(),
            }
        };
    }
    macro_rules! text {
        ($e:expr) => {
            match unhex_str($e) {
                Some(v) => v,
                None => return "bad-text".into(),
            }
        };
    }
    match f.as_slice() {
        ["subset", a, c] => b(shape!(a).is_subset(&shape!(c))),
        ["similar", a, c] => match shape!(a).similar(&shape!(c)) {
            Some(s) => format!("some {}", sexp(&s)),
            None => "none".into(),
        },
        ["merger", a, c] => show_res(&json_shape::verif::merger(shape!(a), shape!(c))),
        ["asopt", a] => sexp(&json_shape::verif::as_optional(shape!(a))),
        ["asnonopt", a] => sexp(&json_shape::verif::as_non_optional(shape!(a))),
        ["isopt", a] => b(shape!(a).is_optional()),
        ["kinds", a] => {
            let s = shape!(a);
            [s.is_null(), s.is_boolean(), s.is_number(), s.is_string(), s.is_array(), s.is_tuple(), s.is_object(), s.is_oneof()]
                .iter()
                .map(|x| if *x { '1' } else { '0' })
                .collect()
        }
        ["keys", a] => match shape!(a).keys() {
            Some(ks) => {
                let mut s = "some".to_string();
                for k in ks {
                    s.push(' ');
                    s.push_str(&hex(k.as_bytes()));
                }
                s
            }
            None => "none".into(),
        },
        ["cmp", a, c] => match shape!(a).cmp(&shape!(c)) {
            std::cmp::Ordering::Less => "lt".into(),
            std::cmp::Ordering::Equal => "eq".into(),
            std::cmp::Ordering::Greater => "gt".into(),
        },
        ["display", a] => hex(shape!(a).to_string().as_bytes()),
        ["echo", a] => sexp(&shape!(a)),
        ["compile", name, rest @ ..] => {
            let mut srcs = Vec::new();
            for h in rest {
                srcs.push(text!(h));
            }
            compile_op(&text!(name), &srcs, false)
        }
        ["p_c16h", mode, steps @ ..] => build_history(mode, steps),
        ["sub", q, t, a, key, i] => {
            match json_shape::verif::subtype_query(q, t, &shape!(a), &text!(key), i.parse().unwrap_or(0)) {
                Some(x) => b(x),
                None => "n/a".into(),
            }
        }
        ["tupof", a, types @ ..] => {
            let mut ts = Vec::new();
            for t in types {
                ts.push(shape!(t));
            }
            b(shape!(a).is_tuple_of(&ts))
        }
        ["p_c16", name, rest @ ..] => {
            let mut srcs = Vec::new();
            for h in rest {
                srcs.push(text!(h));
            }
            compile_op(&text!(name), &srcs, true)
        }
        ["gen" | "genx", a] => {
            // json_shape_build links the published json_shape 0.5.1: convert through serde
            // through the serde form: the harness does not name the JsonShape type the build crate links
            let s0 = shape!(a);
            let j = serde_json::to_string(&s0).unwrap();
            match json_shape_build::verif_generate_json(&j) {
                Some(t) => hex(t.as_bytes()),
                None => "violated: build crate cannot read the library's serde form of the shape".to_string(),
            }
        }
        ["lex", h] => {
            let (toks, diags) = json_shape::verif::lex(&text!(h));
            let mut out = String::new();
            for (k, s0, e) in toks {
                out.push_str(&format!("{k}@{s0}..{e} "));
            }
            out.push('|');
            for (m, s0, e) in diags {
                out.push_str(&format!(" {}@{s0}..{e}", diag_kind(&m)));
            }
            out
        }
        ["cst", h] => {
            let (tree, diags) = json_shape::verif::cst(&text!(h));
            let mut out = tree;
            out.push_str(" |");
            for (m, s0, e) in diags {
                out.push_str(&format!(" {}@{s0}..{e}", diag_kind(&m)));
            }
            out
        }
        ["allocs", family, n] => allocs_family(family, n.parse().unwrap_or(1)),
        ["ticks_subset", a, c] => {
            let (a, c) = (shape!(a), shape!(c));
            json_shape::verif::reset_ticks();
            let r = a.is_subset(&c);
            format!("{} {}", b(r), json_shape::verif::ticks()[3])
        }
        ["ticks_merger", a, c] => {
            let (a, c) = (shape!(a), shape!(c));
            json_shape::verif::reset_ticks();
            let _ = json_shape::verif::merger(a, c);
            format!("{}", json_shape::verif::ticks()[2])
        }
        ["ticks_infer", h] => {
            let t = text!(h);
            json_shape::verif::reset_ticks();
            let _ = JsonShape::from_str(&t);
            format!("{}", json_shape::verif::ticks()[1])
        }
        ["ticks_inferv", h] => match serde_json::from_str::<serde_json::Value>(&text!(h)) {
            Ok(v) => {
                json_shape::verif::reset_ticks();
                let _ = JsonShape::from(&v);
                format!("{}", json_shape::verif::ticks()[0])
            }
            Err(_) => "unparsable".into(),
        },
        ["serde", a] => match serde_json::to_string(&shape!(a)) {
            Ok(t) => hex(t.as_bytes()),
            Err(_) => "err".into(),
        },
        ["serdert", a] => {
            let s0 = shape!(a);
            let t = serde_json::to_string(&s0).unwrap();
            match serde_json::from_str::<JsonShape>(&t) {
                Ok(back) => format!("ok {}", sexp(&back)),
                Err(_) => "err".into(),
            }
        }
        ["p_c11", a] => {
            let s0 = shape!(a);
            let t1 = serde_json::to_string(&s0).unwrap();
            let t2 = serde_json::to_string(&s0.clone()).unwrap();
            let v = serde_json::to_value(&s0).unwrap();
            if t1 != t2 || serde_json::to_value(&s0).unwrap() != v {
                return "violated: serialisation not deterministic".into();
            }
            if s0.to_string() != s0.clone().to_string() || format!("{s0}") != s0.to_string() {
                return "violated: Display not deterministic".into();
            }
            match serde_json::from_str::<JsonShape>(&t1) {
                Ok(back) if back == s0 => {}
                _ => return "violated: serde round trip".into(),
            }
            match serde_json::from_value::<JsonShape>(v) {
                Ok(back) if back == s0 => "ok".into(),
                _ => "violated: serde round trip through Value".into(),
            }
        }
        ["inferdoc", h] => show_res(&JsonShape::from_str(&text!(h))),
        ["inferv", h] => match serde_json::from_str::<serde_json::Value>(&text!(h)) {
            Ok(v) => {
                let by_ref = JsonShape::from(&v);
                let visitor = json_shape::serde::JsonVisitor::from(&v);
                if visitor.shape() != &by_ref || visitor.value() != &v {
                    return "visitor-mismatch".into();
                }
                let by_val = JsonShape::from(v);
                if by_val != by_ref {
                    return "from-owned-mismatch".into();
                }
                format!("ok {}", sexp(&by_ref))
            }
            Err(_) => "unparsable".into(),
        },
        ["sourcesdoc", rest @ ..] => {
            let mut srcs = Vec::new();
            for h in rest {
                srcs.push(text!(h));
            }
            show_res(&JsonShape::from_sources(&srcs))
        }
        ["p_similar", a, c] => {
            let (a, c) = (shape!(a), shape!(c));
            match a.similar(&c) {
                None => "ok".into(),
                Some(r) => {
                    let non = json_shape::verif::as_non_optional;
                    if non(r.clone()) != non(a.clone()) || non(r.clone()) != non(c.clone()) {
                        "violated: differs beyond the optional flag".into()
                    } else if r.is_optional() != (a.is_optional() || c.is_optional()) {
                        "violated: optional flag".into()
                    } else if c.similar(&a) != Some(r.clone()) {
                        "violated: not symmetric".into()
                    } else if !a.is_subset(&r) || !c.is_subset(&r) {
                        "violated: input not subset of result".into()
                    } else {
                        "ok".into()
                    }
                }
            }
        }
        ["p_c08", hd, he] => p_c08(&text!(hd), &text!(he)),
        ["p_c17", hd] => p_c17(&text!(hd)),
        ["p_c07", h1, h2] => {
            let (a, c) = (JsonShape::from_str(&text!(h1)), JsonShape::from_str(&text!(h2)));
            match (a, c) {
                (Ok(x), Ok(y)) if x == y => "ok".into(),
                (Ok(x), Ok(y)) => format!("violated: {} vs {}", sexp(&x), sexp(&y)),
                (x, y) => format!("violated: {} vs {}", show_res(&x), show_res(&y)),
            }
        }
        ["p_keeps", s0, a, c] => {
            let (s0, a, c) = (shape!(s0), shape!(a), shape!(c));
            let m = json_shape::verif::merger(a.clone(), c.clone()).unwrap();
            let mut out = String::from("ok");
            if s0.is_subset(&a) && !s0.is_subset(&m) {
                out = format!("violated keeps: {} in {} but not in {}", sexp(&s0), sexp(&a), sexp(&m));
            }
            if !c.is_subset(&m) {
                out = format!("violated new: {} not in {}", sexp(&c), sexp(&m));
            }
            out
        }
        ["p_c03", rest @ ..] => {
            let mut srcs = Vec::new();
            for h in rest {
                srcs.push(text!(h));
            }
            p_c03(&srcs)
        }
        ["p_c09", k, rest @ ..] => {
            let mut srcs = Vec::new();
            for h in rest {
                srcs.push(text!(h));
            }
            p_c09(k.parse().unwrap_or(1), &srcs)
        }
        ["p_readd", k, idx, rest @ ..] => {
            let mut srcs = Vec::new();
            for h in rest {
                srcs.push(text!(h));
            }
            p_readd(k.parse().unwrap_or(1), idx.parse().unwrap_or(0), &srcs)
        }
        ["p_display_wide", n] => p_display_wide(n.parse().unwrap_or(1000)),
        ["p_wide_algebra", n] => p_wide_algebra(n.parse().unwrap_or(1000)),
        ["p_cycle", rest @ ..] => {
            let mut srcs = Vec::new();
            for h in rest {
                srcs.push(text!(h));
            }
            p_cycle(&srcs)
        }
        ["p_reorder", rest @ ..] => {
            let mut srcs = Vec::new();
            for h in rest {
                srcs.push(text!(h));
            }
            p_reorder(&srcs)
        }
        ["superset", a, h] => b(shape!(a).is_superset(&text!(h))),
        ["supersetchk", a, h] => match shape!(a).is_superset_checked(&text!(h)) {
            Ok(x) => format!("ok {}", b(x)),
            Err(e) => show_err(&e),
        },
        _ => "bad-op".into(),
    }
}

/// C08 evaluated on the implementation: idempotence, null absorption, object/array structure;
/// prints the two merge orders so that their meanings can be compared by the reference semantics.
fn p_c08(d: &str, e: &str) -> String {
    let (Ok(sd), Ok(se)) = (JsonShape::from_str(d), JsonShape::from_str(e)) else {
        return "skip".into();
    };
    let src = |v: &[&str]| JsonShape::from_sources(&v.iter().map(|s| s.to_string()).collect::<Vec<_>>());
    if src(&[d, d]) != Ok(sd.clone()) {
        return "violated: from_sources([d,d]) != from_str(d)".into();
    }
    // idempotence for more than two copies (`sources_idem_k`)
    if src(&[d, d, d]) != Ok(sd.clone()) || src(&[d, d, d, d, d]) != Ok(sd.clone()) {
        return "violated: from_sources of 3 or 5 copies of d != from_str(d)".into();
    }
    let opt = json_shape::verif::as_optional(sd.clone());
    if src(&[d, "null"]) != Ok(opt.clone()) || src(&["null", d]) != Ok(opt) {
        return "violated: null absorption".into();
    }
    let (Ok(s1), Ok(s2)) = (src(&[d, e]), src(&[e, d])) else {
        return "violated: from_sources([d,e]) failed".into();
    };
    let o1 = format!("{{\"k\":{d},\"x\":1}}");
    let o2 = format!("{{\"k\":{e},\"y\":\"s\"}}");
    match src(&[&o1, &o2]) {
        Ok(JsonShape::Object { content, optional: false }) => {
            if content.get("k") != Some(&s1)
                || content.get("x") != Some(&JsonShape::Number { optional: true })
                || content.get("y") != Some(&JsonShape::String { optional: true })
                || content.len() != 3
            {
                return "violated: object structure".into();
            }
        }
        _ => return "violated: object structure (not an object)".into(),
    }
    let a1 = format!("[{d},{d}]");
    let a2 = format!("[{e}]");
    let want = JsonShape::Array { r#type: Box::new(s1.clone()), optional: false };
    if src(&[&a1, &a2]) != Ok(want) {
        return "violated: array structure".into();
    }
    format!("ok {} {}", sexp(&s1), sexp(&s2))
}

fn compile_op(name: &str, srcs: &[String], check: bool) -> String {
    use std::sync::atomic::{AtomicU64, Ordering};
    static N: AtomicU64 = AtomicU64::new(0);
    let base = std::env::temp_dir().join(format!("verif_compile_{}_{}", std::process::id(), N.fetch_add(1, Ordering::Relaxed)));
    let src_dir = base.join("src");
    let out_dir = base.join("out");
    std::fs::create_dir_all(&src_dir).unwrap();
    std::fs::create_dir_all(&out_dir).unwrap();
    let mut paths = Vec::new();
    let same_base_names = N.load(Ordering::Relaxed) % 2 == 0;
    for (i, t) in srcs.iter().enumerate() {
        // file names sort in the REVERSE of the order in which the paths are given: the output must depend on
        // the order of the list, not on the names; every other request puts its sources into different directories
        // under ONE base name (`v1/user.json`, `v2/user.json`): a source is identified by its path, not its name
        let p = if same_base_names {
            let d = src_dir.join(format!("d{:03}", 999 - i));
            std::fs::create_dir_all(&d).unwrap();
            d.join("source.json")
        } else {
            src_dir.join(format!("s{:03}_{i}.json", 999 - i))
        };
        std::fs::write(&p, t).unwrap();
        paths.push(p);
    }
    // SAFETY: operations run sequentially in this process
    unsafe { std::env::set_var("OUT_DIR", &out_dir) };
    let leaked: &'static str = Box::leak(name.to_string().into_boxed_str());
    let run = |paths: &[std::path::PathBuf]| {
        std::panic::catch_unwind(std::panic::AssertUnwindSafe(|| json_shape_build::compile_json(leaked, paths)))
    };
    let listing = |d: &std::path::Path| -> Vec<String> {
        let mut v: Vec<String> = std::fs::read_dir(d)
            .map(|r| r.filter_map(|e| e.ok()).map(|e| e.file_name().to_string_lossy().to_string()).collect())
            .unwrap_or_default();
        v.sort();
        v
    };
    let first = run(&paths);
    let out = match first {
        Err(_) => {
            let files = listing(&out_dir);
            if check && !files.is_empty() {
                "violated: panic left an output file".to_string()
            } else {
                "panic".to_string()
            }
        }
        Ok(Err(e)) => {
            let files = listing(&out_dir);
            if check && !files.is_empty() {
                format!("violated: error `{}` left files {:?}", e.kind(), files)
            } else if check && !srcs.is_empty() && JsonShape::from_sources(srcs).is_ok() {
                format!("violated: error `{}` although inference accepts the sources", e.kind())
            } else {
                "err".to_string()
            }
        }
        Ok(Ok(text)) => {
            let expected_file = out_dir.join(format!("{name}.gen.shape.rs"));
            let shape = JsonShape::from_sources(srcs).ok();
            let shape_json = shape.as_ref().map(|s| serde_json::to_string(s).unwrap());
            let linked = json_shape_build::verif_infer_json(srcs);
            let mut verdict = String::new();
            // the file is what a user includes inside a module: the returned items behind a header in which nothing
            // is illegal at that place (an inner attribute or an inner doc comment is; comments, `use`, outer
            // attributes are not)
            let file_text = std::fs::read_to_string(&expected_file).unwrap_or_default();
            let header_ok = file_text.strip_suffix(text.as_str()).is_some_and(|h| {
                h.lines().all(|l| {
                    let l = l.trim();
                    !(l.starts_with("#![") || l.starts_with("//!") || l.starts_with("/*!"))
                })
            });
            if !header_ok {
                verdict = "violated: the file written is not the returned items behind a header that is legal inside a module".into();
            } else if check && shape.is_none() {
                verdict = "violated: compiled although inference rejects the sources".into();
            } else if check {
                let files = listing(&out_dir);
                let content = std::fs::read_to_string(&expected_file);
                if files != vec![format!("{name}.gen.shape.rs")] {
                    verdict = format!("violated: files {:?}, expected exactly {name}.gen.shape.rs", files);
                } else if content.as_deref().ok() != Some(&format!("// Generated `JsonShape` file.\nuse serde;\n\n{text}")) {
                    verdict = "violated: file is not header + returned text".into();
                } else {
                    // determinism: a second run, same bytes
                    let second = run(&paths);
                    let again = std::fs::read_to_string(&expected_file).ok();
                    match second {
                        Ok(Ok(t2)) if t2 == text && again == content.ok() => {}
                        _ => verdict = "violated: second compilation differs".into(),
                    }
                    let as_value = |j: &Option<String>| j.as_ref().and_then(|j| serde_json::from_str::<serde_json::Value>(j).ok());
                    if verdict.is_empty() && as_value(&linked) != as_value(&shape_json) {
                        verdict = "violated: the build crate infers a different shape from the sources than the library".into();
                    }
                    if let Some(j) = &shape_json {
                        if verdict.is_empty() && json_shape_build::verif_generate_json(j).as_deref() != Some(text.as_str()) {
                            verdict = "violated: returned text is not the generator's text for the inferred shape".into();
                        }
                    }
                }
            }
            if !verdict.is_empty() {
                verdict
            } else {
                format!("ok {} {}", hex(text.as_bytes()), shape.map_or("?".to_string(), |s| sexp(&s)))
            }
        }
    };
    let _ = std::fs::remove_dir_all(&base);
    out
}

/// A history of `compile_json` requests into ONE output directory. Step syntax `namehex:src,src,..`
/// (`!` = a path that does not exist). Mode `pre`: every source file is written before the first
/// request (so all sources are older than any output); `lazy`: a step's sources are written just
/// before it. After every step the directory must hold, for each collection name, the header plus
/// the text returned by the last successful request for that name, and nothing else.
fn build_history(mode: &str, steps: &[&str]) -> String {
    use std::collections::BTreeMap;
    use std::sync::atomic::{AtomicU64, Ordering};
    static N: AtomicU64 = AtomicU64::new(0);
    let base = std::env::temp_dir().join(format!("verif_hist_{}_{}", std::process::id(), N.fetch_add(1, Ordering::Relaxed)));
    let src_dir = base.join("src");
    // values of OUT_DIR: plain, with a trailing slash, with spaces/dots/non-ASCII in the directory name,
    // relative to the current directory, and unset (the current directory is used)
    let out_dir = if mode.ends_with("-space") {
        base.join("out dir.v1 \u{e9}")
    } else if mode.ends_with("-nonutf8") {
        // a directory name that is not valid UTF-8 (legal on this platform): OUT_DIR is an OsString, not a String
        use std::os::unix::ffi::OsStrExt;
        base.join(std::ffi::OsStr::from_bytes(b"out-\xff\xfe.d"))
    } else {
        base.join("out")
    };
    std::fs::create_dir_all(&src_dir).unwrap();
    std::fs::create_dir_all(&out_dir).unwrap();
    let old_cwd = std::env::current_dir().ok();
    let mut parsed: Vec<(String, Vec<(std::path::PathBuf, Option<String>)>)> = Vec::new();
    for (i, st) in steps.iter().enumerate() {
        let Some((n, srcs)) = st.split_once(':') else { return "bad-op".into() };
        let Some(name) = unhex_str(n) else { return "bad-op".into() };
        let mut files = Vec::new();
        if !srcs.is_empty() {
            for (j, h) in srcs.split(',').enumerate() {
                if h == "!" {
                    files.push((src_dir.join(format!("missing_{i}_{j}")), None));
                } else {
                    let Some(t) = unhex_str(h) else { return "bad-op".into() };
                    files.push((src_dir.join(format!("s{i}_{:03}_{j}.json", 999 - j)), Some(t)));
                }
            }
        }
        parsed.push((name, files));
    }
    let write_sources = |files: &[(std::path::PathBuf, Option<String>)]| {
        for (p, t) in files {
            if let Some(t) = t {
                std::fs::write(p, t).unwrap();
            }
        }
    };
    if mode.starts_with("pre") {
        for (_, files) in &parsed {
            write_sources(files);
        }
    }
    // SAFETY: operations run sequentially in this process
    if mode.ends_with("-slash") {
        unsafe { std::env::set_var("OUT_DIR", format!("{}/", out_dir.display())) };
    } else if mode.ends_with("-relative") {
        std::env::set_current_dir(&base).unwrap();
        unsafe { std::env::set_var("OUT_DIR", "out") };
    } else if mode.ends_with("-unset") {
        std::env::set_current_dir(&out_dir).unwrap();
        unsafe { std::env::remove_var("OUT_DIR") };
    } else {
        unsafe { std::env::set_var("OUT_DIR", &out_dir) };
    }
    let snapshot = |d: &std::path::Path| -> BTreeMap<String, String> {
        let mut m = BTreeMap::new();
        if let Ok(rd) = std::fs::read_dir(d) {
            for e in rd.filter_map(|e| e.ok()) {
                m.insert(e.file_name().to_string_lossy().to_string(), std::fs::read_to_string(e.path()).unwrap_or_default());
            }
        }
        m
    };
    let mut expected: BTreeMap<String, String> = BTreeMap::new();
    let mut results = Vec::new();
    let mut verdict = String::new();
    for (k, (name, files)) in parsed.iter().enumerate() {
        if !mode.starts_with("pre") {
            write_sources(files);
        }
        let leaked: &'static str = Box::leak(name.clone().into_boxed_str());
        let paths: Vec<std::path::PathBuf> = files.iter().map(|(p, _)| p.clone()).collect();
        let r = std::panic::catch_unwind(std::panic::AssertUnwindSafe(|| json_shape_build::compile_json(leaked, &paths)));
        match r {
            Ok(Ok(text)) => {
                results.push("ok");
                expected.insert(format!("{name}.gen.shape.rs"), format!("// Generated `JsonShape` file.\nuse serde;\n\n{text}"));
            }
            Ok(Err(_)) => results.push("err"),
            Err(_) => results.push("panic"),
        }
        let now = snapshot(&out_dir);
        if verdict.is_empty() && now != expected {
            let bad: Vec<&String> = now.keys().chain(expected.keys()).filter(|f| now.get(*f) != expected.get(*f)).collect();
            verdict = format!(
                "violated: after request {} ({}) the directory is not {{name ↦ header + last returned text}}: differs at {:?}",
                k + 1,
                results[k],
                bad
            );
        }
    }
    let fin = snapshot(&out_dir);
    if let Some(d) = old_cwd {
        let _ = std::env::set_current_dir(d);
    }
    unsafe { std::env::set_var("OUT_DIR", &out_dir) };
    let _ = std::fs::remove_dir_all(&base);
    if !verdict.is_empty() {
        return verdict;
    }
    let mut out = format!("steps {} |", results.join(" "));
    for (f, c) in &fin {
        out.push_str(&format!(" {}={}", hex(f.as_bytes()), hex(c.as_bytes())));
    }
    out
}

/// diagnostics are compared by a small kind enum, not by message text
fn diag_kind(m: &str) -> &'static str {
    if m.starts_with("invalid token") {
        "invalid-token"
    } else if m.starts_with("unterminated string") {
        "unterminated"
    } else if m.starts_with("invalid unicode escape") {
        "bad-unicode-escape"
    } else if m.starts_with("invalid escape") {
        "bad-escape"
    } else if m.starts_with("string contains invalid character") {
        "bad-char"
    } else if m.starts_with("bracket nesting") {
        "too-deep"
    } else if m.starts_with("invalid syntax") {
        "syntax"
    } else {
        "other"
    }
}

fn nested(depth: usize) -> String {
    let mut s = String::from("1");
    for _ in 0..depth {
        s = format!("[{s},1,\"a\"]");
    }
    s
}

fn nested_objs(depth: usize) -> String {
    let mut s = String::from("{\"k\":1}");
    for _ in 0..depth {
        s = format!("[{{\"k\":{s},\"m\":1}},{{\"k\":{s}}}]");
    }
    s
}

/// Heap allocations performed by one call on a member of a growth family (`n` = the family parameter).
fn allocs_family(family: &str, n: usize) -> String {
    let measure = |f: &mut dyn FnMut()| {
        let before = crate::allocs();
        f();
        crate::allocs() - before
    };
    let mut size = 0usize;
    let count = match family {
        "infer_depth" => {
            let t = nested(n);
            size = t.len();
            measure(&mut || {
                let _ = JsonShape::from_str(&t);
            })
        }
        "inferv_depth" => {
            size = nested(n).len();
            let v: serde_json::Value = serde_json::from_str(&nested(n)).unwrap();
            measure(&mut || {
                let _ = JsonShape::from(&v);
            })
        }
        "infer_objdepth" => {
            let t = nested_objs(n.min(12));
            size = t.len();
            measure(&mut || {
                let _ = JsonShape::from_str(&t);
            })
        }
        "inferv_objdepth" => {
            size = nested_objs(n.min(12)).len();
            let v: serde_json::Value = serde_json::from_str(&nested_objs(n.min(12))).unwrap();
            measure(&mut || {
                let _ = JsonShape::from(&v);
            })
        }
        "infer_width" | "inferv_width" => {
            let mut t = String::from("[");
            for i in 0..n {
                if i > 0 {
                    t.push(',');
                }
                t.push_str(if i % 2 == 0 { "1" } else { "{\"a\":[1,2],\"b\":\"x\"}" });
            }
            t.push(']');
            size = t.len();
            if family == "infer_width" {
                measure(&mut || {
                    let _ = JsonShape::from_str(&t);
                })
            } else {
                let v: serde_json::Value = serde_json::from_str(&t).unwrap();
                measure(&mut || {
                    let _ = JsonShape::from(&v);
                })
            }
        }
        "sources" => {
            let srcs: Vec<String> = (0..n)
                .map(|i| match i % 4 {
                    0 => format!("{{\"a\":{i},\"b\":[1,2]}}"),
                    1 => format!("{{\"a\":\"s\",\"c{}\":null}}", i % 7),
                    2 => "[1,\"a\"]".to_string(),
                    _ => "[1,2,3]".to_string(),
                })
                .collect();
            size = srcs.iter().map(String::len).sum();
            measure(&mut || {
                let _ = JsonShape::from_sources(&srcs);
            })
        }
        "merge_wide_disjoint" | "merge_wide_same" | "merge_wide_half" => {
            // two objects of n members: no name in common / all names in common / half of them
            let a: Vec<String> = (0..n).map(|i| format!("\"a{i:05}\":{i}")).collect();
            let b: Vec<String> = (0..n)
                .map(|i| match family {
                    "merge_wide_disjoint" => format!("\"b{i:05}\":\"s\""),
                    "merge_wide_same" => format!("\"a{i:05}\":\"s\""),
                    _ => if i % 2 == 0 { format!("\"a{i:05}\":null") } else { format!("\"b{i:05}\":[1]") },
                })
                .collect();
            let srcs = vec![format!("{{{}}}", a.join(",")), format!("{{{}}}", b.join(","))];
            size = srcs.iter().map(String::len).sum();
            let shapes: Vec<JsonShape> = srcs.iter().map(|t| JsonShape::from_str(t).unwrap()).collect();
            measure(&mut || {
                let _ = json_shape::verif::merger(shapes[0].clone(), shapes[1].clone());
            })
        }
        "sources_distinct" => {
            // n one-member sources, every member name different
            let srcs: Vec<String> = (0..n).map(|i| format!("{{\"k{i:05}\":{i}}}")).collect();
            size = srcs.iter().map(String::len).sum();
            measure(&mut || {
                let _ = JsonShape::from_sources(&srcs);
            })
        }
        "sources_variants" => {
            // n sources of n different shapes at one place: a OneOf of n variants
            let srcs: Vec<String> = (0..n).map(|i| format!("{{\"v\":{}1{}}}", "[".repeat(i), "]".repeat(i))).collect();
            size = srcs.iter().map(String::len).sum();
            measure(&mut || {
                let _ = JsonShape::from_sources(&srcs);
            })
        }
        "merge_wide_tuple" => {
            let a: Vec<&str> = (0..n).map(|i| ["1", "\"s\"", "true"][i % 3]).collect();
            let b: Vec<&str> = (0..n).map(|i| ["1", "\"s\"", "null"][i % 3]).collect();
            let srcs = vec![format!("[{}]", a.join(",")), format!("[{}]", b.join(","))];
            size = srcs.iter().map(String::len).sum();
            measure(&mut || {
                let _ = JsonShape::from_sources(&srcs);
            })
        }
        "subset_wide" | "subset_wide_oneof" => {
            let a: Vec<String> = (0..n).map(|i| format!("\"a{i:05}\":{}", ["1", "\"s\"", "[1,\"x\"]", "{\"k\":true}"][i % 4])).collect();
            let t = format!("{{{}}}", a.join(","));
            size = t.len();
            let x = JsonShape::from_str(&t).unwrap();
            let y = if family == "subset_wide" {
                json_shape::verif::merger(x.clone(), JsonShape::Null).unwrap()
            } else {
                JsonShape::from_sources(&[t.clone(), "1".to_string(), "[1]".to_string(), "\"s\"".to_string()]).unwrap()
            };
            measure(&mut || {
                let _ = x.is_subset(&y);
            })
        }
        "subset_depth" => {
            size = nested_objs(n.min(12)).len();
            let a = JsonShape::from_str(&nested_objs(n.min(12))).unwrap();
            let c = json_shape::verif::merger(a.clone(), JsonShape::Null).unwrap();
            measure(&mut || {
                let _ = a.is_subset(&c);
            })
        }
        _ => return "bad-family".into(),
    };
    format!("{count} {size}")
}

/// C03 evaluated on the implementation: every source is accepted by the merged shape, three ways.
fn p_c03(srcs: &[String]) -> String {
    let Ok(s) = JsonShape::from_sources(srcs) else { return "skip".into() };
    for (i, d) in srcs.iter().enumerate() {
        let Ok(sd) = JsonShape::from_str(d) else { return "skip".into() };
        if !sd.is_subset(&s) {
            return format!("violated: i={i} from_str(d_i).is_subset(from_sources(d)) is false; {} vs {}", sexp(&sd), sexp(&s));
        }
        if !s.is_superset(d) {
            return format!("violated: i={i} is_superset false");
        }
        if s.is_superset_checked(d) != Ok(true) {
            return format!("violated: i={i} is_superset_checked not Ok(true)");
        }
    }
    if !s.is_subset(&s) {
        return "violated: merged shape not a subset of itself".into();
    }
    "ok".into()
}

/// C09 evaluated on the implementation: the last source repeated k more times changes neither the
/// shape (after the first repetition) nor, as reported through the printed shapes, its meaning.
fn p_c09(k: usize, srcs: &[String]) -> String {
    let Ok(base) = JsonShape::from_sources(srcs) else { return "skip".into() };
    let mut h = srcs.to_vec();
    let mut shapes = vec![base.clone()];
    // every document of the history is re-fed in turn, k times each
    for d in srcs {
        let mut hh = h.clone();
        let mut prev: Option<JsonShape> = None;
        for rep in 0..k {
            hh.push(d.clone());
            let Ok(s) = JsonShape::from_sources(&hh) else { return "violated: from_sources failed on a repetition".into() };
            if let Some(p) = &prev {
                if *p != s {
                    return format!("violated: shape still changing at repetition {}: {} -> {}", rep + 1, sexp(p), sexp(&s));
                }
            }
            prev = Some(s);
        }
        shapes.push(prev.unwrap());
    }
    h.clear();
    let mut out = "ok".to_string();
    for s in shapes {
        out.push(' ');
        out.push_str(&sexp(&s).replace(' ', "_"));
    }
    out
}

/// Display of ONE object with `n` members of pairwise different shapes must be made of the members' own Display
/// texts; where a member prints as another member does, the object and its twin with that member replaced are two
/// different shapes with one Display text (C11's injectivity) — a birthday-sized case for anything keyed by a hash
fn p_display_wide(n: usize) -> String {
    use std::collections::BTreeMap;
    let member = |i: usize| -> JsonShape {
        let mut c = BTreeMap::new();
        c.insert(format!("m{i}"), JsonShape::Number { optional: i % 2 == 1 });
        let o = JsonShape::Object { content: c, optional: i % 3 == 0 };
        if i % 5 == 0 { JsonShape::Array { r#type: Box::new(o), optional: false } } else { o }
    };
    let mut content = BTreeMap::new();
    for i in 0..n {
        content.insert(format!("k{i:07}"), member(i));
    }
    let big = JsonShape::Object { content: content.clone(), optional: false };
    let text = big.to_string();
    let mut pos = 0usize;
    for (i, (k, v)) in content.iter().enumerate() {
        let want = format!("{k}: {v}");
        match text[pos..].find(&want) {
            Some(off) if off <= 4 + k.len() => pos += off + want.len(),
            _ => {
                // which earlier member's text stands here?
                let here: String = text[pos..].chars().take(120).collect();
                let mut twin = content.clone();
                for (k2, v2) in content.iter().take(i) {
                    if here.contains(&format!("{k}: {v2}")) {
                        twin.insert(k.clone(), v2.clone());
                        let t2 = JsonShape::Object { content: twin.clone(), optional: false }.to_string();
                        if t2 == text {
                            return format!("violated: member {k} prints as member {k2} does: the object and its twin with {k} := {k2}'s shape are different shapes with one Display text");
                        }
                        break;
                    }
                }
                return format!("violated: member {k} of a {n}-member object does not print as its own Display text; found `{here}`");
            }
        }
    }
    "ok".into()
}

/// the algebra on ONE birthday-sized object (n members of pairwise different shapes): reflexivity, optional widening,
/// a single incompatible member, idempotent merge, round trip through serde — for anything keyed by a hash
fn p_wide_algebra(n: usize) -> String {
    use std::collections::BTreeMap;
    let member = |i: usize| -> JsonShape {
        let mut c = BTreeMap::new();
        c.insert(format!("m{i}"), JsonShape::Number { optional: i % 2 == 1 });
        let o = JsonShape::Object { content: c, optional: i % 3 == 0 };
        if i % 5 == 0 { JsonShape::Array { r#type: Box::new(o), optional: false } } else { o }
    };
    let mut content = BTreeMap::new();
    for i in 0..n {
        content.insert(format!("k{i:07}"), member(i));
    }
    let big = JsonShape::Object { content: content.clone(), optional: false };
    let opt = json_shape::verif::as_optional(big.clone());
    if !big.is_subset(&big) {
        return "violated: a wide object is not a subset of itself".into();
    }
    if !big.is_subset(&opt) {
        return "violated: a wide object is not a subset of its optional form".into();
    }
    for probe in [0usize, n / 3, n / 2, n - 1] {
        let mut other = content.clone();
        other.insert(format!("k{probe:07}"), JsonShape::String { optional: false });
        if big.is_subset(&JsonShape::Object { content: other, optional: false }) {
            return format!("violated: a wide object is reported a subset of one whose member k{probe:07} is a String");
        }
    }
    match json_shape::verif::merger(big.clone(), big.clone()) {
        Ok(m) if m == big => {}
        Ok(_) => return "violated: merging a wide object with itself changes it".into(),
        Err(e) => return format!("violated: merging a wide object with itself fails: {e}"),
    }
    if n <= 50_000 {
        match serde_json::to_string(&big).ok().and_then(|t| serde_json::from_str::<JsonShape>(&t).ok()) {
            Some(b) if b == big => {}
            _ => return "violated: a wide object does not round-trip through serde".into(),
        }
    }
    "ok".into()
}

/// C09 for ONE document of a (long) history: the document at `idx` is re-fed k times; same answer format as `p_c09`
fn p_readd(k: usize, idx: usize, srcs: &[String]) -> String {
    let Ok(base) = JsonShape::from_sources(srcs) else { return "skip".into() };
    let Some(d) = srcs.get(idx) else { return "skip".into() };
    let mut hh = srcs.to_vec();
    let mut prev: Option<JsonShape> = None;
    for rep in 0..k {
        hh.push(d.clone());
        let Ok(s) = JsonShape::from_sources(&hh) else { return "violated: from_sources failed on a repetition".into() };
        if let Some(p) = &prev {
            if *p != s {
                return format!("violated: shape still changing at repetition {}: {} -> {}", rep + 1, sexp(p), sexp(&s));
            }
        }
        prev = Some(s);
    }
    format!("ok {} {}", sexp(&base).replace(' ', "_"), sexp(&prev.unwrap()).replace(' ', "_"))
}

/// C09 (`readd_any`): after the sources, a sequence of already-seen sources in another order (reversed, then in
/// order, then the first once more) is fed; answer format as `p_c09`: the base shape and the shape afterwards
fn p_reorder(srcs: &[String]) -> String {
    let Ok(base) = JsonShape::from_sources(srcs) else { return "skip".into() };
    let mut h = srcs.to_vec();
    h.extend(srcs.iter().rev().cloned());
    h.extend(srcs.iter().cloned());
    h.push(srcs[0].clone());
    let Ok(s) = JsonShape::from_sources(&h) else { return "violated: from_sources failed on re-fed sources".into() };
    format!("ok {} {}", sexp(&base).replace(' ', "_"), sexp(&s).replace(' ', "_"))
}

/// size (length of the printed s-expression) of the shape of a group of documents fed 2, 4, 8 and 16 times
/// in turn: "bounded by the variety of the sources, not by how often similar documents occur" (C09)
fn p_cycle(srcs: &[String]) -> String {
    let mut out = "ok".to_string();
    for m in [2usize, 4, 8, 16] {
        let mut h = Vec::new();
        for _ in 0..m {
            h.extend(srcs.iter().cloned());
        }
        let Ok(s) = JsonShape::from_sources(&h) else { return "skip".into() };
        out.push_str(&format!(" {}", sexp(&s).len()));
    }
    out
}

/// C17 evaluated on the implementation: the shape of a document is recomputed from the shapes the
/// implementation gives to its direct sub-documents, by an independent reading of the specification.
fn p_c17(d: &str) -> String {
    let Ok(v) = serde_json::from_str::<serde_json::Value>(d) else { return "skip".into() };
    fn walk(v: &serde_json::Value) -> Result<(), String> {
        let text = serde_json::to_string(v).unwrap();
        let got = JsonShape::from_str(&text).map_err(|e| format!("from_str failed on {text}: {e}"))?;
        let sub = |x: &serde_json::Value| JsonShape::from_str(&serde_json::to_string(x).unwrap()).unwrap();
        let want: Option<JsonShape> = match v {
            serde_json::Value::Null => Some(JsonShape::Null),
            serde_json::Value::Bool(_) => Some(JsonShape::Bool { optional: false }),
            serde_json::Value::Number(_) => Some(JsonShape::Number { optional: false }),
            serde_json::Value::String(_) => Some(JsonShape::String { optional: false }),
            serde_json::Value::Object(m) => Some(JsonShape::Object {
                content: m.iter().map(|(k, x)| (k.clone(), sub(x))).collect(),
                optional: false,
            }),
            serde_json::Value::Array(xs) => {
                let es: Vec<JsonShape> = xs.iter().map(sub).collect();
                if es.is_empty() {
                    None // the property leaves `[]` unspecified
                } else if es.iter().all(|e| *e == es[0]) {
                    Some(JsonShape::Array { r#type: Box::new(es[0].clone()), optional: false })
                } else if es.iter().all(|e| matches!(e, JsonShape::Object { .. })) {
                    let mut content = std::collections::BTreeMap::new();
                    let mut specified = true;
                    let maps: Vec<&std::collections::BTreeMap<String, JsonShape>> = es
                        .iter()
                        .map(|e| match e {
                            JsonShape::Object { content, .. } => content,
                            _ => unreachable!(),
                        })
                        .collect();
                    let keys: std::collections::BTreeSet<&String> = maps.iter().flat_map(|m| m.keys()).collect();
                    for k in keys {
                        let occ: Vec<&JsonShape> = maps.iter().filter_map(|m| m.get(k)).collect();
                        if occ.iter().any(|s| *s != occ[0]) {
                            specified = false; // one key, two value shapes: not covered by the statement
                            break;
                        }
                        let s = if occ.len() == maps.len() {
                            occ[0].clone()
                        } else {
                            json_shape::verif::as_optional(occ[0].clone())
                        };
                        content.insert(k.clone(), s);
                    }
                    if specified {
                        Some(JsonShape::Array {
                            r#type: Box::new(JsonShape::Object { content, optional: false }),
                            optional: false,
                        })
                    } else {
                        None
                    }
                } else {
                    Some(JsonShape::Tuple { elements: es, optional: false })
                }
            }
        };
        if let Some(w) = want {
            if w != got {
                return Err(format!("{text}: expected {w}, got {got}"));
            }
        }
        match v {
            serde_json::Value::Array(xs) => xs.iter().try_for_each(walk),
            serde_json::Value::Object(m) => m.values().try_for_each(walk),
            _ => Ok(()),
        }
    }
    match walk(&v) {
        Ok(()) => "ok".into(),
        Err(e) => format!("violated: {}", hex(e.as_bytes())),
    }
}

pub fn exec_guarded(line: &str) -> String {
    match catch_unwind(AssertUnwindSafe(|| exec(line))) {
        Ok(s) => s,
        Err(_) => "panic".into(),
    }
}
