//! The generators' dictionary, harvested by the orchestrator from the library's own source (string and
//! integer literals of non-test code) and passed through the file named by `VERIF_DICT`:
//! lines `w <hex of a string>` and `n <integer>`. A member name, string or text that the code treats
//! specially, and a size threshold it mentions, reach the generators this way without anybody
//! having to guess them. Without the variable both lists are empty.

fn lines() -> Vec<String> {
    match std::env::var("VERIF_DICT") {
        Ok(p) => std::fs::read_to_string(p).map(|t| t.lines().map(str::to_string).collect()).unwrap_or_default(),
        Err(_) => Vec::new(),
    }
}

pub fn words() -> Vec<String> {
    let mut out = Vec::new();
    for l in lines() {
        if let Some(h) = l.strip_prefix("w ") {
            if let Some(w) = crate::wire::unhex(h).and_then(|b| String::from_utf8(b).ok()) {
                if !w.is_empty() && !out.contains(&w) {
                    out.push(w);
                }
            }
        }
    }
    out.truncate(400);
    out
}

/// the thresholds of the source and their neighbours (n-1, n, n+1), at most `cap`
pub fn sizes(cap: usize) -> Vec<usize> {
    let mut out = Vec::new();
    for l in lines() {
        if let Some(n) = l.strip_prefix("n ").and_then(|x| x.trim().parse::<usize>().ok()) {
            for k in [n.saturating_sub(1), n, n + 1] {
                if k >= 2 && k <= cap && !out.contains(&k) {
                    out.push(k);
                }
            }
        }
    }
    out.sort_unstable();
    out.truncate(60);
    out
}

/// thresholds above the range of the ordinary width families (a `1 << 15`): only a few, cheap families use them
pub fn big_sizes() -> Vec<usize> {
    sizes(100_001).into_iter().filter(|n| *n > 2000).take(9).collect()
}
