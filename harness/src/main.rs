mod dict;
mod r#gen;
mod props;
mod run;
mod widen;
mod wire;

use std::alloc::{GlobalAlloc, Layout, System};
use std::io::{BufRead, Write};
use std::sync::atomic::{AtomicU64, Ordering};

/// Counting allocator: the deterministic work measure the property names (heap allocations per call).
pub struct Counting;
pub static ALLOCS: AtomicU64 = AtomicU64::new(0);
unsafe impl GlobalAlloc for Counting {
    unsafe fn alloc(&self, layout: Layout) -> *mut u8 {
        ALLOCS.fetch_add(1, Ordering::Relaxed);
        unsafe { System.alloc(layout) }
    }
    unsafe fn dealloc(&self, ptr: *mut u8, layout: Layout) {
        unsafe { System.dealloc(ptr, layout) }
    }
    unsafe fn realloc(&self, ptr: *mut u8, layout: Layout, new_size: usize) -> *mut u8 {
        ALLOCS.fetch_add(1, Ordering::Relaxed);
        unsafe { System.realloc(ptr, layout, new_size) }
    }
}
#[global_allocator]
static GLOBAL: Counting = Counting;
pub fn allocs() -> u64 {
    ALLOCS.load(Ordering::Relaxed)
}

fn main() {
    let args: Vec<String> = std::env::args().collect();
    match args.get(1).map(String::as_str) {
        Some("gen") => {
            let prop = &args[2];
            let tier = &args[3];
            let seed: u64 = args[4].parse().expect("seed");
            let out = std::io::stdout();
            let mut w = std::io::BufWriter::new(out.lock());
            for l in props::generate(prop, tier, seed) {
                writeln!(w, "{l}").unwrap();
            }
        }
        Some("run") => {
            std::panic::set_hook(Box::new(|_| {}));
            let stdin = std::io::stdin();
            let out = std::io::stdout();
            let mut w = std::io::BufWriter::new(out.lock());
            for line in stdin.lock().lines() {
                let line = line.unwrap();
                writeln!(w, "{}", run::exec_guarded(&line)).unwrap();
                // one result per line, visible at once: a hang is attributed to the right operation
                w.flush().unwrap();
            }
        }
        Some("widen") => {
            // disagreeing operations on stdin -> extra operations (with expectations) around them
            let prop = &args[2];
            let stdin = std::io::stdin();
            let mut res = Vec::new();
            for line in stdin.lock().lines() {
                widen::widen(prop, &line.unwrap(), &mut res);
            }
            let mut seen = std::collections::HashSet::new();
            for l in res {
                if seen.insert(l.clone()) {
                    println!("{l}");
                }
            }
        }
        _ => {
            eprintln!("usage: harness gen <prop> <tier> <seed> | harness run < ops");
            std::process::exit(2);
        }
    }
}
