mod r#gen;
mod props;
mod run;
mod wire;

use std::io::{BufRead, Write};

fn main() {
    let args: Vec<String> = std::env::args().collect();
    match args.get(1).map(String::as_str) {
        Some("gen") => {
            let prop = &args[2];
            let tier = &args[3];
            let seed: u64 = args[4].parse().expect("seed");
            let out = std::io::stdout();
            let mut w = std::io::BufWriter::new(out.lock());
            for l in props::generate(prop, tier, seed) {
                writeln!(w, "{l}").unwrap();
            }
        }
        Some("run") => {
            std::panic::set_hook(Box::new(|_| {}));
            let stdin = std::io::stdin();
            let out = std::io::stdout();
            let mut w = std::io::BufWriter::new(out.lock());
            for line in stdin.lock().lines() {
                let line = line.unwrap();
                writeln!(w, "{}", run::exec_guarded(&line)).unwrap();
            }
        }
        _ => {
            eprintln!("usage: harness gen <prop> <tier> <seed> | harness run < ops");
            std::process::exit(2);
        }
    }
}
