//! Per-property operation lists. A trailing field starting with `!` is the result the property
//! demands from the implementation (the orchestrator strips it before running either side).
use crate::r#gen::*;
use json_shape::JsonShape;

pub struct Sizes {
    pub pairs: usize,
    pub shapes: usize,
    pub docs: usize,
    pub histories: usize,
    pub exhaustive_pairs: bool,
}

pub fn sizes(tier: &str) -> Sizes {
    if tier == "thorough" {
        Sizes { pairs: 60_000, shapes: 6_000, docs: 20_000, histories: 20_000, exhaustive_pairs: true }
    } else {
        Sizes { pairs: 6_000, shapes: 1_500, docs: 2_500, histories: 2_500, exhaustive_pairs: true }
    }
}

fn pool(r: &mut Rng, n: usize) -> Vec<JsonShape> {
    let mut p = small_shapes();
    p.extend(medium_shapes());
    p.extend(dict_shapes());
    p.extend(related_unions());
    for i in 0..n {
        p.push(rand_shape(r, 1 + i % 4));
    }
    p
}

fn pairs(r: &mut Rng, sz: &Sizes) -> Vec<(JsonShape, JsonShape)> {
    let mut out = Vec::new();
    let small = small_shapes();
    if sz.exhaustive_pairs {
        for a in &small {
            for b in &small {
                out.push((a.clone(), b.clone()));
            }
        }
    }
    // the depth-2 universe (every container of width <= 2 over fifteen depth-1 shapes, both flags: 519 shapes) as
    // ordered pairs: all of them in the thorough tier, one of two residue classes (chosen by the seed) in the quick tier
    let med = medium_shapes();
    let k = if sz.pairs > 10_000 { 1 } else { 2 };
    let off = r.below(k);
    for (i, a) in med.iter().enumerate() {
        for (j, b) in med.iter().enumerate() {
            if (i * 31 + j) % k == off {
                out.push((a.clone(), b.clone()));
            }
        }
    }
    // chain words: ordered pairs of 2 457 three-level chains, one pair in `k2` (chosen by the seed): about 190 000 pairs
    // in the quick tier, 1.5 million in the thorough tier
    {
        let cw = chain_words();
        let k2 = if sz.pairs > 10_000 { 4 } else { 32 };
        let off2 = r.below(k2);
        for (i, a) in cw.iter().enumerate() {
            for (j, b) in cw.iter().enumerate() {
                if (i * 7 + j) % k2 == off2 {
                    out.push((a.clone(), b.clone()));
                }
            }
        }
    }
    for d in dict_shapes().into_iter().chain(related_unions()) {
        let o = json_shape::verif::as_optional(d.clone());
        out.push((d.clone(), d.clone()));
        out.push((d.clone(), o.clone()));
        out.push((o, d));
    }
    let p = pool(r, 200);
    for _ in 0..sz.pairs {
        let a = r.pick(&p).clone();
        let b = near(r, &a, &p);
        if r.chance(1, 2) {
            out.push((a, b));
        } else {
            out.push((b, a));
        }
    }
    out
}

pub fn c10(r: &mut Rng, sz: &Sizes, out: &mut Vec<String>) {
    out.push("p_wide_algebra\t300000\t!ok".to_string());
    out.push("p_wide_algebra\t40000\t!ok".to_string());
    let mut p = pool(r, sz.shapes);
    for (a, b) in display_twins() {
        out.push(format!("similar\t{}\t{}", sx(&a), sx(&b)));
        out.push(format!("similar\t{}\t{}", sx(&b), sx(&a)));
        out.push(format!("p_similar\t{}\t{}\t!ok", sx(&a), sx(&b)));
        out.push(format!("p_similar\t{}\t{}\t!ok", sx(&b), sx(&a)));
        out.push(format!("subset\t{}\t{}", sx(&a), sx(&b)));
    }
    for (a, b) in wide_shapes() {
        out.push(format!("similar\t{}\t{}", sx(&a), sx(&b)));
        out.push(format!("p_similar\t{}\t{}\t!ok", sx(&a), sx(&json_shape::verif::as_optional(a.clone()))));
        out.push(format!("subset\t{}\t{}", sx(&a), sx(&b)));
        p.push(a);
        p.push(b);
    }
    for s in &p {
        let o = json_shape::verif::as_optional(s.clone());
        out.push(format!("subset\t{}\t{}\t!true", sx(s), sx(s)));
        out.push(format!("subset\t{}\t{}\t!true", sx(s), sx(&o)));
        if s.is_optional() {
            out.push(format!("subset\tN\t{}\t!true", sx(s)));
        }
        out.push(format!("asopt\t{}", sx(s)));
        out.push(format!("asnonopt\t{}", sx(s)));
        out.push(format!("isopt\t{}", sx(s)));
        out.push(format!("kinds\t{}", sx(s)));
        out.push(format!("keys\t{}", sx(s)));
    }
    for (a, b) in pairs(r, sz) {
        out.push(format!("similar\t{}\t{}", sx(&a), sx(&b)));
        out.push(format!("p_similar\t{}\t{}\t!ok", sx(&a), sx(&b)));
    }
    // deep chains of every container kind and flag, up to and beyond the deepest shape a document can
    // produce (256 brackets): a depth-dependent slip shows only here
    for ctor in 0..4 {
        for opt in [false, true] {
            for depth in [8usize, 64, 255, 256, 257, 300] {
                let s = chain(ctor, opt, depth);
                let o = json_shape::verif::as_optional(s.clone());
                out.push(format!("subset\t{}\t{}\t!true", sx(&s), sx(&s)));
                out.push(format!("subset\t{}\t{}\t!true", sx(&s), sx(&o)));
                out.push(format!("p_similar\t{}\t{}\t!ok", sx(&s), sx(&o)));
                if opt {
                    out.push(format!("subset\tN\t{}\t!true", sx(&s)));
                }
            }
        }
    }
}

/// the typed queries of value/subtypes.rs on every shape of a pool: every (query, type argument) that has
/// an impl, member names that are present / absent, tuple positions inside / outside
pub fn subtype_ops(shapes: &[JsonShape], out: &mut Vec<String>) {
    let tys = [
        "Null", "Number", "String", "Boolean", "Array", "Tuple", "Object", "OneOf", "ONumber", "OString", "OBoolean", "OArray",
        "OTuple", "OObject", "OOneOf",
    ];
    let hx = |t: &str| crate::wire::hex(t.as_bytes());
    for s in shapes {
        for t in tys {
            out.push(format!("sub\tarr\t{t}\t{}\t{}\t0", sx(s), hx("")));
            out.push(format!("sub\tone\t{t}\t{}\t{}\t0", sx(s), hx("")));
            if let JsonShape::Object { content, .. } = s {
                for k in content.keys().take(3) {
                    out.push(format!("sub\tobj\t{t}\t{}\t{}\t0", sx(s), hx(k)));
                }
                out.push(format!("sub\tobj\t{t}\t{}\t{}\t0", sx(s), hx("no such key")));
            }
            if let JsonShape::Tuple { elements, .. } = s {
                for i in 0..=elements.len().min(3) {
                    out.push(format!("sub\ttup\t{t}\t{}\t{}\t{i}", sx(s), hx("")));
                }
            } else {
                out.push(format!("sub\ttup\t{t}\t{}\t{}\t0", sx(s), hx("")));
            }
            if !matches!(s, JsonShape::Object { .. }) {
                out.push(format!("sub\tobj\t{t}\t{}\t{}\t0", sx(s), hx("a")));
            }
        }
        if !matches!(s, JsonShape::Tuple { .. }) {
            out.push(format!("tupof\t{}", sx(s)));
            out.push(format!("tupof\t{}\tN", sx(s)));
        }
        if let JsonShape::Tuple { elements, .. } = s {
            let same: Vec<String> = elements.iter().map(sx).collect();
            out.push(format!("tupof\t{}\t{}", sx(s), same.join("\t")).trim_end().to_string());
            if !elements.is_empty() {
                out.push(format!("tupof\t{}\t{}", sx(s), same[1..].join("\t")).trim_end().to_string());
                let mut other = same.clone();
                other[0] = "N".into();
                out.push(format!("tupof\t{}\t{}", sx(s), other.join("\t")));
            }
        }
    }
}

pub fn c02(r: &mut Rng, sz: &Sizes, out: &mut Vec<String>) {
    let mut sp = small_shapes();
    sp.extend(pool(r, sz.shapes / 4));
    subtype_ops(&sp, out);
    for (a, b) in pairs(r, sz) {
        out.push(format!("subset\t{}\t{}", sx(&a), sx(&b)));
    }
    for (a, b) in oneof_wraps().into_iter().chain(wide_shapes()).chain(split_unions()) {
        out.push(format!("subset\t{}\t{}", sx(&a), sx(&b)));
        out.push(format!("subset\t{}\t{}", sx(&b), sx(&a)));
    }
    for (_, u) in split_unions() {
        for t in ["{\"a\":1,\"b\":\"x\"}", "{\"a\":[1],\"b\":{\"k\":2}}", "{\"a\":1,\"b\":null}", "{\"a\":1}", "{\"b\":\"x\"}", "[{\"a\":1,\"b\":\"x\"}]"] {
            let h = crate::wire::hex(t.as_bytes());
            out.push(format!("superset\t{}\t{h}", sx(&u)));
            out.push(format!("supersetchk\t{}\t{h}", sx(&u)));
        }
    }
    // every small shape — including the ones no document infers, such as a tuple of equal slots — against short
    // texts of every kind and length, through both text entry points
    let n = JsonShape::Number { optional: false };
    let mut hand = small_shapes();
    for k in 1..=4 {
        hand.push(tup(vec![n.clone(); k], false));
        hand.push(tup(vec![n.clone(); k], true));
        hand.push(arr(tup(vec![n.clone(); k], false), false));
        hand.push(obj(vec![("a", tup(vec![n.clone(); k], false))], false));
        hand.push(tup(vec![one_of(vec![n.clone(), JsonShape::String { optional: false }], false); k], false));
        hand.push(one_of(vec![tup(vec![n.clone(); k], false), JsonShape::Bool { optional: false }], false));
    }
    let texts = [
        "[]", "[7]", "[1,2]", "[1,2,3]", "[1,2,3,4]", "[1,2,3,4,5]", "[1,\"x\"]", "[\"x\",\"y\"]", "[null,1]", "[null]", "[[1],[2]]", "[[1,2]]", "[[1,2,3]]", "{}",
        "{\"a\":1}", "{\"a\":[1,2,3]}", "{\"a\":[1]}", "1", "null", "\"s\"", "true", "[true,false]", "[true,false,true]", "[{\"a\":1},{\"a\":2}]",
    ];
    for s in &hand {
        for t in texts {
            let h = crate::wire::hex(t.as_bytes());
            out.push(format!("superset\t{}\t{h}", sx(s)));
            out.push(format!("supersetchk\t{}\t{h}", sx(s)));
        }
    }
    // a member name repeated in one object (alike or respelled): whatever the text query answers, true needs the
    // document — whose member holds the LAST value — to be admitted
    {
        let (dup, sib) = spelled_names();
        let num = JsonShape::Number { optional: false };
        let shapes = [
            obj(vec![("a", num.clone())], false),
            obj(vec![("ab", num.clone())], false),
            obj(vec![("\u{e9}", num.clone())], false),
            obj(vec![("\u{1f600}", arr(num.clone(), false))], false),
            obj(vec![("/", obj(vec![], false))], false),
            arr(obj(vec![("a", num.clone())], false), false),
            obj(vec![("a", JsonShape::Null)], false),
        ];
        for t in dup.iter().chain(sib.iter()) {
            let h = crate::wire::hex(t.as_bytes());
            for sh in &shapes {
                out.push(format!("superset\t{}\t{h}", sx(sh)));
                out.push(format!("supersetchk\t{}\t{h}", sx(sh)));
            }
        }
    }
    // (shape, text) pairs: the shape is inferred from a related history
    for _ in 0..sz.docs {
        let h = rand_history(r, &DKEYS[..12]);
        let srcs: Vec<String> = h.iter().map(|d| d.render(0)).collect();
        let Ok(s) = JsonShape::from_sources(&srcs) else { continue };
        let p = [s.clone()];
        let s2 = if r.chance(1, 2) { s } else { mutate(r, &s, &p) };
        let base = r.pick(&h).clone();
        let d = if r.chance(1, 2) { base } else { tweak(r, &base, &DKEYS[..12]) };
        let style = r.below(4);
        out.push(format!("superset\t{}\t{}", sx(&s2), hex_doc(&d, style)));
        out.push(format!("supersetchk\t{}\t{}", sx(&s2), hex_doc(&d, style)));
    }
}

/// every kind of shape, optional and not, against one and two layers of `OneOf` around a variant it fits
/// (as is, made optional, made non-optional), with each layer's own flag and with / without a `Null`
/// variant beside it: where the permission for null comes from is the whole question
pub fn oneof_wraps() -> Vec<(JsonShape, JsonShape)> {
    let n = JsonShape::Number { optional: false };
    let st = JsonShape::String { optional: false };
    let b = JsonShape::Bool { optional: false };
    let lefts = vec![
        n.clone(),
        obj(vec![("a", n.clone())], false),
        obj(vec![], false),
        arr(n.clone(), false),
        tup(vec![n.clone(), st.clone()], false),
        one_of(vec![n.clone(), st.clone()], false),
    ];
    let mut out = Vec::new();
    for l in &lefts {
        let wider = match l {
            JsonShape::Object { .. } => obj(vec![("a", JsonShape::Number { optional: true })], false),
            JsonShape::Array { .. } => arr(one_of(vec![n.clone(), st.clone()], false), false),
            other => other.clone(),
        };
        for lo in [false, true] {
            let a = if lo { json_shape::verif::as_optional(l.clone()) } else { l.clone() };
            for inner in [l.clone(), json_shape::verif::as_optional(l.clone()), wider.clone(), json_shape::verif::as_optional(wider.clone())] {
                for f1 in [false, true] {
                    for null1 in [false, true] {
                        let mut v1 = vec![inner.clone(), b.clone()];
                        if null1 {
                            v1.push(JsonShape::Null);
                        }
                        let w1 = one_of(v1, f1);
                        out.push((a.clone(), w1.clone()));
                        out.push((a.clone(), arr(w1.clone(), false)));
                        for f2 in [false, true] {
                            for null2 in [false, true] {
                                let mut v2 = vec![w1.clone(), st.clone()];
                                if null2 {
                                    v2.push(JsonShape::Null);
                                }
                                let w2 = one_of(v2, f2);
                                out.push((a.clone(), w2.clone()));
                                let w3 = one_of(vec![w2.clone(), JsonShape::Bool { optional: true }], false);
                                out.push((a.clone(), w3));
                            }
                        }
                    }
                }
            }
        }
    }
    out
}

/// Documents for the single-document inference ops, each in a random formatting style.
fn docs(r: &mut Rng, sz: &Sizes) -> Vec<J> {
    let mut out = vec![
        J::Arr(vec![]),
        J::Arr(vec![J::Arr(vec![])]),
        J::Obj(vec![("a".into(), J::Arr(vec![]))]),
        J::Obj(vec![]),
        J::Arr(vec![J::Obj(vec![]), J::Obj(vec![])]),
        J::Arr(vec![J::Obj(vec![]), J::Obj(vec![("a".into(), J::Null)])]),
        J::Arr(vec![J::Null, J::Null]),
        J::Arr(vec![J::Arr(vec![]), J::Num("1".into())]),
    ];
    out.extend(conflict_docs());
    out.extend(width_docs());
    out.extend(near_equal_docs());
    out.extend(small_scope_docs());
    out.extend(dict_docs());
    // two arrays whose record shapes RENDER alike (a member name containing the rendered text of another member list)
    for t in [
        "[[{\"p q\":1,\"r s\":2}],[{\"p q\\\": Number, \\\"r s\":3}]]",
        "[[{\"x!\":1,\"y!\":2}],[{\"x!\\\": Number, \\\"y!\":3}]]",
        "[{\"k\":{\"p q\":1,\"r s\":\"t\"}},{\"k\":{\"p q\\\": Number, \\\"r s\":\"u\"}}]",
    ] {
        if serde_json::from_str::<serde_json::Value>(t).is_ok() {
            out.push(parse_j(t));
        }
    }
    for i in 0..sz.docs {
        let depth = i % 5;
        out.push(rand_doc(r, depth, DKEYS));
    }
    out
}

/// DICTIONARY: every string literal of the library's source as a member name (alone, beside others, missing from
/// a sibling, nested in itself), as a string value; and the WIDTH families once more at the neighbours of every
/// integer literal of the source (a threshold the code mentions)
pub fn dict_docs() -> Vec<J> {
    let mut t: Vec<String> = Vec::new();
    for w in crate::dict::words() {
        let q = serde_json::to_string(&w).unwrap();
        t.push(format!("{{{q}:1}}"));
        t.push(format!("{{{q}:\"s\",\"name\":\"x\",\"n\":null}}"));
        t.push(format!("[{{{q}:1,\"id\":1}},{{\"id\":2}}]"));
        t.push(format!("[{{\"id\":1}},{{{q}:[1,\"x\"],\"id\":2}}]"));
        t.push(format!("{{{q}:{{{q}:[{q}]}}}}"));
        t.push(format!("[{q},{q}]"));
    }
    // short literals (separators, brackets, quotes) JOINING ordinary names: a name that looks like two names glued by
    // whatever the code itself uses as a separator, beside objects that have exactly those two names
    for w in crate::dict::words() {
        if w.chars().count() > 3 {
            continue;
        }
        let j = serde_json::to_string(&format!("a{w}b")).unwrap();
        let l = serde_json::to_string(&format!("a{w}")).unwrap();
        let r2 = serde_json::to_string(&format!("{w}b")).unwrap();
        t.push(format!("[{{\"a\":1,\"b\":2}},{{{j}:3}}]"));
        t.push(format!("[{{{j}:3}},{{\"a\":1,\"b\":2}}]"));
        t.push(format!("[{{\"a\":1}},{{{l}:2}},{{{r2}:3,\"b\":4}}]"));
        t.push(format!("{{{j}:1,\"a\":2,\"b\":3}}"));
        t.push(format!("[{{\"a\":1,\"b\":2}},{{\"a\":1,\"b\":2}},{{{j}:3}}]"));
    }
    let mut out: Vec<J> = t.iter().filter_map(|x| serde_json::from_str::<serde_json::Value>(x).ok().map(|_| parse_j(x))).collect();
    out.extend(width_docs_at(&crate::dict::sizes(1200)));
    // thresholds beyond the ordinary width families: a handful of very long arrays (rows that conflict about a member,
    // one odd element last / first, a member missing in the last row)
    for n in crate::dict::big_sizes() {
        let rep = |e: &str| vec![e; n].join(",");
        for t in [
            format!("[{{\"a\":\"x\"}},{}]", rep("{\"a\":1}")),
            format!("[{},\"x\"]", rep("1")),
            format!("[{},{{}}]", rep("{\"id\":1}")),
            format!("[{{\"k\":[1]}},{}]", rep("{\"k\":[]}")),
        ] {
            out.push(parse_j(&t));
        }
    }
    // member names and strings whose LENGTH sits at a threshold
    for n in crate::dict::sizes(2000) {
        let k = "k".repeat(n);
        out.push(parse_j(&format!("{{\"{k}\":1}}")));
        out.push(parse_j(&format!("[{{\"{k}a\":1}},{{\"{k}b\":2}}]")));
        out.push(parse_j(&format!("[\"{k}\"]")));
    }
    out
}

/// SMALL SCOPE, exhaustively: every array of 1-3 elements over twelve base documents, every object with members
/// a / b over them, every array of 2-3 objects over eight small objects, every array of two 2-element arrays
pub fn small_scope_docs() -> Vec<J> {
    let base = ["null", "1", "\"s\"", "true", "[]", "[1]", "[null]", "{}", "{\"a\":1}", "{\"a\":null}", "{\"b\":\"x\"}", "[1,\"x\"]"];
    let objs = ["{}", "{\"a\":1}", "{\"a\":null}", "{\"a\":\"s\"}", "{\"b\":1}", "{\"a\":1,\"b\":2}", "{\"a\":[1]}", "{\"a\":{\"c\":1}}"];
    let mut t: Vec<String> = Vec::new();
    for x in base {
        t.push(format!("[{x}]"));
        for y in base {
            t.push(format!("[{x},{y}]"));
            t.push(format!("{{\"a\":{x},\"b\":{y}}}"));
            for z in base {
                t.push(format!("[{x},{y},{z}]"));
            }
        }
    }
    for x in objs {
        for y in objs {
            t.push(format!("[{x},{y}]"));
            for z in objs {
                t.push(format!("[{x},{y},{z}]"));
            }
        }
    }
    let two: Vec<String> = base.iter().flat_map(|x| base.iter().map(move |y| format!("[{x},{y}]"))).collect();
    for (i, p) in two.iter().enumerate() {
        for (j, q) in two.iter().enumerate() {
            if (i + j) % 3 == 0 {
                t.push(format!("[{p},{q}]"));
            }
        }
    }
    t.iter().map(|x| parse_j(x)).collect()
}

/// arrays whose elements are equal up to ONE nested optional flag or one nested Null (`[]` is an optional array of
/// Null, `[null]` a plain one; a member that is null in one element and absent in another; ...): "equally shaped"
/// has to be decided on the whole shape, flags included
pub fn near_equal_docs() -> Vec<J> {
    let pairs = [
        ("[]", "[null]"), ("[[]]", "[[null]]"), ("{\"a\":[]}", "{\"a\":[null]}"), ("[[],1]", "[[null],1]"), ("[1,[]]", "[1,[null]]"),
        ("{\"a\":{\"b\":[]}}", "{\"a\":{\"b\":[null]}}"), ("[{\"a\":1},{}]", "[{\"a\":1},{\"a\":2}]"), ("[[1],[]]", "[[1],[2]]"),
        ("null", "[]"), ("[null,null]", "[null]"), ("{\"a\":null}", "{}"), ("[[],[]]", "[[],[null]]"),
    ];
    let mut out = Vec::new();
    for (x, y) in pairs {
        for t in [
            format!("[{x},{y}]"), format!("[{y},{x}]"), format!("[{x},{y},{x}]"), format!("[{y},{y},{x}]"), format!("[{x},{x},{y}]"),
            format!("{{\"rows\":[{x},{y}]}}"), format!("[[{x},{y}],[{y},{x}]]"), format!("[{{\"k\":{x}}},{{\"k\":{y}}}]"),
        ] {
            out.push(parse_j(&t));
        }
    }
    out
}

/// WIDTH: arrays of n equally shaped elements whose LAST (or middle) element alone differs, objects of n
/// members whose last member alone is special, arrays of n objects of which only the last lacks / adds a key,
/// for n around every power of two up to 300 — a loop that samples, batches or stops early shows only here
pub fn width_docs() -> Vec<J> {
    width_docs_at(&[7, 8, 9, 15, 16, 17, 31, 32, 33, 63, 64, 65, 100, 127, 128, 129, 255, 256, 257, 300])
}

pub fn width_docs_at(ns: &[usize]) -> Vec<J> {
    let mut out = Vec::new();
    for &n in ns {
        if n < 2 {
            continue;
        }
        let many = |e: &str, last: &str| -> String {
            let mut v = vec![e.to_string(); n];
            v.push(last.to_string());
            format!("[{}]", v.join(","))
        };
        let mid = |e: &str, odd: &str| -> String {
            let mut v = vec![e.to_string(); n];
            v[n / 2] = odd.to_string();
            format!("[{}]", v.join(","))
        };
        for t in [
            many("1", "2"), many("1", "\"x\""), many("1", "null"), mid("1", "\"x\""), many("[1]", "[]"), many("[1]", "[\"x\"]"),
            many("{\"id\":1}", "{\"id\":2}"), many("{\"id\":1}", "{}"), many("{\"id\":1}", "{\"id\":2,\"extra\":true}"),
            many("{\"id\":1}", "{\"id\":null}"), mid("{\"id\":1}", "{\"id\":1,\"extra\":[1]}"), many("{\"id\":1}", "7"),
            many("{\"id\":1,\"t\":[1,\"a\"]}", "{\"id\":1}"),
        ] {
            out.push(parse_j(&t));
            out.push(parse_j(&format!("{{\"rows\":{t}}}")));
        }
        // wide objects: n members of one kind and a last one of another, in both key orders
        let members: Vec<String> = (0..n).map(|i| format!("\"k{i:03}\":{i}")).collect();
        out.push(parse_j(&format!("{{{},\"zz\":\"s\"}}", members.join(","))));
        out.push(parse_j(&format!("{{\"aa\":[1],{}}}", members.join(","))));
        out.push(parse_j(&format!("[{{{}}},{{{},\"zz\":null}}]", members.join(","), members[..n - 1].join(","))));
    }
    out
}

/// arrays of objects whose elements disagree about one key: the key absent from the first element and
/// two later elements giving it every ordered pair of value kinds (which of them the inferred shape keeps
/// is decided by element order, nothing else), and the key present everywhere with every ordered triple
pub fn conflict_docs() -> Vec<J> {
    let vals = ["1", "\"x\"", "true", "null", "[1]", "[\"x\"]", "{\"b\":1}", "[1,\"x\"]", "[]", "{}"];
    let mut out = Vec::new();
    for first in ["{\"id\":1}", "{}"] {
        for v1 in vals {
            for v2 in vals {
                out.push(parse_j(&format!("[{first},{{\"id\":2,\"tag\":{v1}}},{{\"id\":3,\"tag\":{v2}}}]")));
            }
        }
    }
    for v0 in &vals[..6] {
        for v1 in &vals[..6] {
            for v2 in &vals[..6] {
                out.push(parse_j(&format!("[{{\"tag\":{v0}}},{{\"tag\":{v1}}},{{\"tag\":{v2}}}]")));
            }
        }
    }
    // the same below a member and below another array
    for v1 in &vals[..8] {
        for v2 in &vals[..8] {
            out.push(parse_j(&format!("{{\"rows\":[{{\"id\":1}},{{\"tag\":{v1}}},{{\"tag\":{v2}}},{{\"tag\":{v1}}}]}}")));
            out.push(parse_j(&format!("[[{{\"id\":1}},{{\"tag\":{v1}}},{{\"tag\":{v2}}}],[{{\"id\":1}},{{\"tag\":{v2}}},{{\"tag\":{v1}}}]]")));
        }
    }
    out
}

pub fn infer_ops(r: &mut Rng, sz: &Sizes, out: &mut Vec<String>, value_path: bool) {
    for d in docs(r, sz) {
        let style = r.below(4);
        out.push(format!("inferdoc\t{}", hex_doc(&d, style)));
        if value_path {
            out.push(format!("inferv\t{}", hex_doc(&d, style)));
        }
    }
}

pub fn merger_ops(r: &mut Rng, sz: &Sizes, out: &mut Vec<String>) {
    for (a, b) in pairs(r, sz) {
        out.push(format!("merger\t{}\t{}", sx(&a), sx(&b)));
    }
}

pub fn history_ops(r: &mut Rng, sz: &Sizes, out: &mut Vec<String>) {
    for _ in 0..sz.histories {
        let h = rand_history(r, DKEYS);
        let mut line = "sourcesdoc".to_string();
        for d in &h {
            line.push('\t');
            line.push_str(&hex_doc(d, r.below(4)));
        }
        out.push(line);
    }
}

pub fn core(r: &mut Rng, sz: &Sizes, out: &mut Vec<String>) {
    merger_ops(r, sz, out);
    infer_ops(r, sz, out, true);
    history_ops(r, sz, out);
    let p = pool(r, sz.shapes);
    for s in &p {
        out.push(format!("display\t{}", sx(s)));
    }
    for _ in 0..sz.pairs {
        let a = r.pick(&p).clone();
        let b = near(r, &a, &p);
        out.push(format!("cmp\t{}\t{}", sx(&a), sx(&b)));
    }
}

/// C01: every prefix of random histories, consecutive so that monotonicity can be checked.
pub fn c01(r: &mut Rng, sz: &Sizes, out: &mut Vec<String>) {
    merger_ops(r, sz, out);
    infer_ops(r, sz, out, false);
    for h in small_histories().into_iter().chain(width_histories()) {
        let hexes: Vec<String> = h.iter().map(|d| crate::wire::hex(d.as_bytes())).collect();
        out.push(format!("sourcesdoc\t{}\t!ok *", hexes.join("\t")));
    }
    for h in position_histories(true) {
        let hexes: Vec<String> = h.iter().map(|d| crate::wire::hex(d.as_bytes())).collect();
        for n in 1..=hexes.len() {
            out.push(format!("sourcesdoc\t{}\t!ok *", hexes[..n].join("\t")));
        }
    }
    for h in two_special_histories() {
        let hexes: Vec<String> = h.iter().map(|d| crate::wire::hex(d.as_bytes())).collect();
        out.push(format!("sourcesdoc\t{}\t!ok *", hexes.join("\t")));
    }
    for (d, e) in space_twins() {
        out.push(format!("sourcesdoc\t{}\t{}\t!ok *", crate::wire::hex(d.as_bytes()), crate::wire::hex(e.as_bytes())));
        out.push(format!("sourcesdoc\t{}\t{}\t{}\t!ok *", crate::wire::hex(e.as_bytes()), crate::wire::hex(e.as_bytes()), crate::wire::hex(d.as_bytes())));
    }
    // one member name spelled differently in sibling elements, as a source
    for t in spelled_names().1 {
        out.push(format!("sourcesdoc\t{}\t!ok *", crate::wire::hex(t.as_bytes())));
    }
    // wide documents as single sources and next to a narrow sibling
    for d in width_docs().into_iter().chain(conflict_docs()) {
        out.push(format!("sourcesdoc\t{}\t!ok *", hex_doc(&d, 0)));
        out.push(format!("sourcesdoc\t{}\t{}\t!ok *", hex_doc(&d, 0), crate::wire::hex(b"[]")));
    }
    for _ in 0..sz.histories {
        let h = rand_history(r, DKEYS);
        let hexes: Vec<String> = h.iter().map(|d| hex_doc(d, r.below(4))).collect();
        for n in 1..=hexes.len() {
            out.push(format!("sourcesdoc\t{}\t!ok *", hexes[..n].join("\t")));
        }
        // a permutation with a repetition
        if hexes.len() > 1 {
            let mut p = hexes.clone();
            p.reverse();
            p.push(hexes[0].clone());
            out.push(format!("sourcesdoc\t{}\t!ok *", p.join("\t")));
        }
    }
}

pub fn c06(r: &mut Rng, sz: &Sizes, out: &mut Vec<String>) {
    for t in spelled_names().1 {
        let h = crate::wire::hex(t.as_bytes());
        out.push(format!("inferdoc\t{h}"));
        out.push(format!("inferv\t{h}"));
    }
    for d in docs(r, sz) {
        for style in 0..4 {
            if style == 0 || r.chance(1, 3) {
                out.push(format!("inferdoc\t{}", hex_doc(&d, style)));
                out.push(format!("inferv\t{}", hex_doc(&d, style)));
            }
        }
    }
}

pub fn c08(r: &mut Rng, sz: &Sizes, out: &mut Vec<String>) {
    out.push("p_wide_algebra\t300000\t!ok".to_string());
    merger_ops(r, sz, out);
    let mut pool: Vec<J> = vec![
        J::Null, J::Bool(true), J::Num("1".into()), J::Str("s".into()), J::Arr(vec![]), J::Obj(vec![]),
        J::Arr(vec![J::Arr(vec![]), J::Num("1".into())]),
        J::Arr(vec![J::Num("1".into()), J::Num("2".into())]),
        J::Arr(vec![J::Num("1".into()), J::Str("a".into())]),
        J::Arr(vec![J::Null, J::Num("1".into())]),
        J::Obj(vec![("a".into(), J::Num("1".into()))]),
    ];
    // optional members of every kind (an array of objects one of which lacks the key) against the plain form
    for t in [
        "[{\"a\":[1]}]", "[{\"a\":[1,\"x\"]},{}]", "[{\"a\":[1,\"x\"]}]", "[{\"a\":1},{}]", "[{\"a\":{\"b\":1}},{}]",
        "[{\"a\":[1]},{}]", "[{\"a\":{\"b\":1}}]", "[{\"a\":\"s\"}]", "[{\"a\":[[1],[2,\"x\"]]},{}]",
    ] {
        pool.push(parse_j(t));
    }
    let fixed = pool.len();
    for i in 0..sz.docs / 4 {
        pool.push(rand_doc(r, i % 4, &DKEYS[..12]));
    }
    for i in 0..fixed {
        for j in 0..fixed {
            out.push(format!("p_c08\t{}\t{}\t!ok *", hex_doc(&pool[i], 0), hex_doc(&pool[j], 0)));
        }
    }
    for (d, e) in space_twins() {
        out.push(format!("p_c08\t{}\t{}\t!ok *", crate::wire::hex(d.as_bytes()), crate::wire::hex(e.as_bytes())));
        out.push(format!("p_c08\t{}\t{}\t!ok *", crate::wire::hex(e.as_bytes()), crate::wire::hex(d.as_bytes())));
    }
    // both merge orders for every ordered pair of twenty small documents at every kind of position
    for h in position_histories(false) {
        out.push(format!("p_c08\t{}\t{}\t!ok *", crate::wire::hex(h[0].as_bytes()), crate::wire::hex(h[1].as_bytes())));
    }
    for _ in 0..sz.docs {
        let d = r.pick(&pool).clone();
        let e = if r.chance(1, 3) { tweak(r, &d, &DKEYS[..12]) } else { r.pick(&pool).clone() };
        out.push(format!("p_c08\t{}\t{}\t!ok *", hex_doc(&d, r.below(4)), hex_doc(&e, r.below(4))));
    }
}

pub fn c17(r: &mut Rng, sz: &Sizes, out: &mut Vec<String>) {
    for t in spelled_names().1 {
        let h = crate::wire::hex(t.as_bytes());
        out.push(format!("inferdoc\t{h}"));
        out.push(format!("inferv\t{h}"));
        out.push(format!("p_c17\t{h}\t!ok"));
    }
    fn subdocs(d: &J, out: &mut Vec<J>) {
        out.push(d.clone());
        match d {
            J::Arr(xs) => xs.iter().for_each(|x| subdocs(x, out)),
            J::Obj(ms) => ms.iter().for_each(|(_, x)| subdocs(x, out)),
            _ => {}
        }
    }
    for d in docs(r, sz) {
        let mut subs = Vec::new();
        subdocs(&d, &mut subs);
        for (i, s) in subs.iter().enumerate() {
            if i < 12 {
                out.push(format!("inferdoc\t{}", hex_doc(s, r.below(4))));
                out.push(format!("inferv\t{}", hex_doc(s, 0)));
            }
        }
        out.push(format!("p_c17\t{}\t!ok", hex_doc(&d, 0)));
    }
}

/// (single-document shape, accumulated shape, single-document shape) triples reachable through the
/// public API: the domain on which C03/C09 need the model to agree with the code.
fn reachable(r: &mut Rng, n: usize) -> (Vec<JsonShape>, Vec<JsonShape>) {
    let samples = sample_shapes(r, 300);
    let mut accs: Vec<JsonShape> = samples.clone();
    for _ in 0..n {
        let a = r.pick(&accs).clone();
        let b = r.pick(&samples).clone();
        accs.push(json_shape::verif::merger(a, b).unwrap());
    }
    let mut parts = Vec::new();
    for a in &accs {
        collect_parts(a, &mut parts);
    }
    parts.sort();
    parts.dedup();
    (samples, parts)
}

pub fn reachable_ops(r: &mut Rng, sz: &Sizes, out: &mut Vec<String>) {
    let (samples, parts) = reachable(r, 1500);
    use json_shape::IsSubset;
    for i in 0..sz.pairs * 2 {
        let a = r.pick(&parts);
        let b = r.pick(&samples);
        // half of the triples use a sample that really is below the accumulator
        let below: Vec<&JsonShape> = if i % 2 == 0 { samples.iter().filter(|s| s.is_subset(a)).collect() } else { vec![] };
        let s0 = if below.is_empty() { r.pick(&samples) } else { *r.pick(&below) };
        out.push(format!("subset\t{}\t{}", sx(s0), sx(a)));
        out.push(format!("merger\t{}\t{}", sx(a), sx(b)));
        // a lemma instance (keeps/newSample), not a property instance: compared with the model, never an oracle
        out.push(format!("p_keeps\t{}\t{}\t{}", sx(s0), sx(a), sx(b)));
    }
}

/// small-scope exhaustive histories: every sequence of length <= 3 over a fixed pool of documents
pub fn small_histories() -> Vec<Vec<String>> {
    let pool = [
        "null", "true", "1", "\"s\"", "[]", "[null]", "[1]", "[true]", "[2,\"a\"]", "[1,null]", "{}",
        "{\"a\":1}", "{\"a\":null}", "[{\"a\":1},{}]", "[[]]", "{\"a\":[]}", "[[1],[\"a\"]]", "[{\"a\":{}}]", "[{\"a\":{}},{}]",
        "[1,\"a\",true]", "[null,\"a\"]",
        // tuples whose compound elements are widened by a later document and then met again
        "[{\"a\":1},1]", "[{\"a\":1,\"b\":null},1]", "[[{\"a\":1}],\"x\"]", "[[{\"a\":1},{}],\"x\"]",
        // an optional member of every kind (the element that lacks it makes it optional) and followers of every
        // kind at the same path
        "[{\"a\":[1,\"s\"]},{}]", "[{\"a\":[true]}]", "[{\"a\":2}]", "[{\"a\":[1,2]},{}]", "[{\"a\":\"x\"}]", "[{\"a\":{\"b\":1}}]",
        "[{\"a\":[1,\"s\",null]}]",
    ];
    let mut out = Vec::new();
    for a in pool {
        out.push(vec![a.to_string()]);
        for b in pool {
            out.push(vec![a.to_string(), b.to_string()]);
            for c in pool {
                out.push(vec![a.to_string(), b.to_string(), c.to_string()]);
            }
        }
    }
    out
}

/// a document and its twins that differ by ONE space inserted or removed anywhere (between tokens: the same document;
/// inside a string or a member name: another one), for documents whose strings end in escaped backslashes and quotes
pub fn space_twins() -> Vec<(String, String)> {
    let docs = [
        "{\"path\": \"C:\\\\tmp\\\\\", \"first name\": \"Ada\"}",
        "{\"q\": \"say \\\"hi\\\"\", \"a b\": [1, 2]}",
        "[{\"x y\": 1}, {\"x y\": 2, \"z\": \"\\\\\"}]",
        "{\"a\": {\"b c\": null}, \"d\": \"e f\"}",
        "[\"a b\", \"c\\\\\", \"d e\"]",
    ];
    let mut out = Vec::new();
    for d in docs {
        let cs: Vec<char> = d.chars().collect();
        for p in 0..=cs.len() {
            let mut ins: String = cs[..p].iter().collect();
            ins.push(' ');
            ins.extend(cs[p..].iter());
            let mut cands = vec![ins];
            if p < cs.len() && cs[p] == ' ' {
                let mut del: String = cs[..p].iter().collect();
                del.extend(cs[p + 1..].iter());
                cands.push(del);
            }
            for e in cands {
                if e != d && serde_json::from_str::<serde_json::Value>(&e).is_ok() {
                    out.push((d.to_string(), e));
                }
            }
        }
    }
    out
}

/// twenty small documents and six one-hole contexts: "what does this position keep when X meets Y there"
pub const POS_DOCS: [&str; 22] = [
    "null", "1", "\"s\"", "[]", "[1]", "[null]", "{}", "{\"a\":1}", "{\"a\":1,\"b\":null}", "{\"a\":1,\"b\":[]}", "[1,\"x\"]", "[[]]", "[[],[]]", "[[],[null]]", "[[1],[2]]", "[[1],[\"x\"]]",
    "[{\"x\":1}]", "[{\"x\":1},{\"y\":2}]", "[[{\"x\":1}],[{\"y\":2}]]", "[[{\"x\":1},{\"y\":2}],[{\"x\":3},{\"y\":4}]]", "[1,[2]]", "[[1,\"x\"],[2,\"y\"]]",
];
pub const POS_CTX: [&str; 6] = ["[@,1]", "[\"g\",@]", "{\"k\":@}", "[@]", "[{\"k\":@},{}]", "{\"k\":[@,true]}"];

/// every ordered pair of POS_DOCS in every context (2-histories), and every ordered triple in two contexts
pub fn position_histories(triples: bool) -> Vec<Vec<String>> {
    let mut out = Vec::new();
    for c in POS_CTX {
        for x in POS_DOCS {
            for y in POS_DOCS {
                if x != y {
                    out.push(vec![c.replace('@', x), c.replace('@', y)]);
                }
            }
        }
    }
    if triples {
        for c in [POS_CTX[0], POS_CTX[2]] {
            for x in POS_DOCS {
                for y in POS_DOCS {
                    for z in POS_DOCS {
                        if x != y && y != z {
                            out.push(vec![c.replace('@', x), c.replace('@', y), c.replace('@', z)]);
                        }
                    }
                }
            }
        }
    }
    out
}

/// n sources of one background document with TWO different documents among them, at the ends, around the middle and
/// next to each other (n from the usual sizes and the thresholds of the source): a fold that regroups its sources
/// (in halves, in chunks) merges the two in another order
pub fn two_special_histories() -> Vec<Vec<String>> {
    let mut ns: Vec<usize> = vec![8, 9, 63, 64, 65, 66];
    for k in crate::dict::sizes(400) {
        if k >= 6 && !ns.contains(&k) {
            ns.push(k);
        }
    }
    ns.truncate(10);
    let specials = ["{\"f\":{\"a\":1}}", "{\"f\":{\"b\":2}}", "{\"f\":[1,\"x\"]}", "{\"f\":null}", "{\"f\":\"s\"}", "{}", "{\"f\":[1]}"];
    let mut out = Vec::new();
    for bg in ["{\"f\":3}", "{\"f\":[2]}"] {
        for (ai, a) in specials.iter().enumerate() {
            for (bi, b) in specials.iter().enumerate() {
                if ai == bi {
                    continue;
                }
                for &n in &ns {
                    for (i, j) in [(0, n - 1), (n / 2 - 1, n / 2), (1, n - 2), (n / 2 - 2, n / 2 + 2)] {
                        if i < j && j < n {
                            let mut h = vec![bg.to_string(); n];
                            h[i] = a.to_string();
                            h[j] = b.to_string();
                            out.push(h);
                        }
                    }
                }
            }
        }
    }
    out
}

/// WIDTH for histories: n equally shaped sources and one last source that differs (another kind, a missing
/// member, a null), n around powers of two up to 300
pub fn width_histories() -> Vec<Vec<String>> {
    let mut out = Vec::new();
    let mut ns = vec![8usize, 9, 16, 17, 32, 33, 64, 65, 128, 129, 256, 257, 300];
    for k in crate::dict::sizes(400) {
        if !ns.contains(&k) {
            ns.push(k);
        }
    }
    for n in ns {
        for (e, last) in [
            ("{\"id\":1,\"tag\":\"x\"}", "{\"id\":2}"), ("{\"id\":1}", "{\"id\":null}"), ("{\"id\":1}", "null"), ("[1,2]", "[1,\"x\"]"),
            ("[1,\"x\"]", "[null]"), ("1", "\"s\""), ("{\"a\":[1]}", "{\"a\":[]}"), ("[{\"k\":1}]", "[{\"k\":1},{}]"),
        ] {
            let mut h = vec![e.to_string(); n];
            h.push(last.to_string());
            out.push(h.clone());
            h.swap(0, n);
            out.push(h);
        }
    }
    out
}

pub fn c03(r: &mut Rng, sz: &Sizes, out: &mut Vec<String>) {
    reachable_ops(r, sz, out);
    infer_ops(r, sz, out, false);
    for h in small_histories().into_iter().chain(width_histories()).chain(position_histories(true)).chain(two_special_histories()) {
        let hexes: Vec<String> = h.iter().map(|d| crate::wire::hex(d.as_bytes())).collect();
        out.push(format!("p_c03\t{}\t!ok", hexes.join("\t")));
    }
    for _ in 0..sz.histories {
        let h = rand_history(r, DKEYS);
        let hexes: Vec<String> = h.iter().map(|d| hex_doc(d, r.below(4))).collect();
        out.push(format!("p_c03\t{}\t!ok", hexes.join("\t")));
    }
    // documents as deep as the parser accepts, alone and merged with a sibling of another leaf kind
    for (open, close) in [("[", "]"), ("{\"a\":", "}"), ("[{\"a\":", "}]")] {
        let per = open.matches(['[', '{']).count();
        for depth in [100usize, 254, 255, 256] {
            let k = depth / per;
            let d1 = format!("{}1{}", open.repeat(k), close.repeat(k));
            let d2 = format!("{}\"s\"{}", open.repeat(k), close.repeat(k));
            let hx = |t: &str| crate::wire::hex(t.as_bytes());
            out.push(format!("p_c03\t{}\t!ok", hx(&d1)));
            out.push(format!("p_c03\t{}\t{}\t!ok", hx(&d1), hx(&d2)));
            out.push(format!("p_c03\t{}\tnull\t{}\t!ok", hx(&d1), hx(&d2)).replace("\tnull\t", &format!("\t{}\t", hx("null"))));
        }
    }
}

/// shapes as single-document inference produces them, from random documents and their parts
fn sample_shapes(r: &mut Rng, n: usize) -> Vec<JsonShape> {
    use std::str::FromStr;
    let mut out = Vec::new();
    for i in 0..n {
        let d = rand_doc(r, i % 4, &KEYS[..4]);
        if let Ok(s) = JsonShape::from_str(&d.render(0)) {
            collect_parts(&s, &mut out);
        }
    }
    out.sort();
    out.dedup();
    out
}

fn collect_parts(s: &JsonShape, out: &mut Vec<JsonShape>) {
    out.push(s.clone());
    match s {
        JsonShape::Array { r#type, .. } => collect_parts(r#type, out),
        JsonShape::Object { content, .. } => content.values().for_each(|v| collect_parts(v, out)),
        JsonShape::Tuple { elements, .. } => elements.iter().for_each(|v| collect_parts(v, out)),
        JsonShape::OneOf { variants, .. } => variants.iter().for_each(|v| collect_parts(v, out)),
        _ => {}
    }
}

pub fn keeps(r: &mut Rng, sz: &Sizes, out: &mut Vec<String>) {
    let samples = sample_shapes(r, 400);
    // accumulators: folds of merger over samples
    let mut accs: Vec<JsonShape> = samples.clone();
    for _ in 0..2000 {
        let a = r.pick(&accs).clone();
        let b = r.pick(&samples).clone();
        let m = json_shape::verif::merger(a, b).unwrap();
        accs.push(m);
    }
    let mut parts = Vec::new();
    for a in &accs {
        collect_parts(a, &mut parts);
    }
    parts.sort();
    parts.dedup();
    for _ in 0..sz.pairs * 10 {
        let s0 = r.pick(&samples);
        let a = if r.chance(1, 2) { r.pick(&parts) } else { r.pick(&accs) };
        let b = if r.chance(2, 3) { r.pick(&samples) } else { r.pick(&parts) };
        // a lemma instance (keeps/newSample), not a property instance: compared with the model, never an oracle
        out.push(format!("p_keeps\t{}\t{}\t{}", sx(s0), sx(a), sx(b)));
    }
}

pub fn c09(r: &mut Rng, sz: &Sizes, out: &mut Vec<String>) {
    reachable_ops(r, sz, out);
    let k = if sz.histories > 10_000 { 16 } else { 4 };
    for h in small_histories().into_iter().chain(width_histories()) {
        if h.len() <= 2 || (h.len() > 3 && h.len() <= 34) {
            let hexes: Vec<String> = h.iter().map(|d| crate::wire::hex(d.as_bytes())).collect();
            out.push(format!("p_c09\t{k}\t{}\t!ok *", hexes.join("\t")));
        }
    }
    for _ in 0..sz.histories / 2 {
        let h = rand_history(r, DKEYS);
        let hexes: Vec<String> = h.iter().map(|d| hex_doc(d, r.below(4))).collect();
        out.push(format!("p_c09\t{k}\t{}\t!ok *", hexes.join("\t")));
    }
    // long histories of one background record with two different records among them: a background record re-added
    for h in two_special_histories() {
        let hexes: Vec<String> = h.iter().map(|d| crate::wire::hex(d.as_bytes())).collect();
        let idx = (2..h.len()).find(|i| h[*i] == h[h.len() / 3] ).unwrap_or(2);
        out.push(format!("p_readd\t{k}\t{idx}\t{}\t!ok *", hexes.join("\t")));
    }
    // one position (a tuple slot, a member, an array element, an optional member, ...) taken by every ordered pair of
    // twenty small documents, then each re-fed: what the position keeps when a tuple meets an array there, an array
    // a tuple, a narrower a wider one
    for h in position_histories(true) {
        let hexes: Vec<String> = h.iter().map(|d| crate::wire::hex(d.as_bytes())).collect();
        out.push(format!("p_c09\t{k}\t{}\t!ok *", hexes.join("\t")));
        if h.len() == 2 {
            out.push(format!("p_cycle\t{}", hexes.join("\t")));
            out.push(format!("p_reorder\t{}", hexes.join("\t")));
        }
    }
    // groups of documents fed over and over in turn (a, b, a, b, ...): every ordered pair and a sample of
    // triples of the fixed documents, each also below a member and below an array; random groups
    let fixed = cycle_docs();
    let hx = |d: &String| crate::wire::hex(d.as_bytes());
    for a in &fixed {
        for b in &fixed {
            if a != b {
                out.push(format!("p_cycle\t{}\t{}", hx(a), hx(b)));
                out.push(format!("p_reorder\t{}\t{}", hx(a), hx(b)));
                out.push(format!("p_cycle\t{}\t{}", hx(&format!("{{\"k\":{a}}}")), hx(&format!("{{\"k\":{b}}}"))));
                out.push(format!("p_reorder\t{}\t{}", hx(&format!("{{\"k\":{a}}}")), hx(&format!("{{\"k\":{b}}}"))));
                out.push(format!("p_cycle\t{}\t{}", hx(&format!("[{a},1]")), hx(&format!("[{b},1]"))));
                out.push(format!("p_reorder\t{}\t{}", hx(&format!("[{a},1]")), hx(&format!("[{b},1]"))));
            }
        }
    }
    for _ in 0..sz.histories / 4 {
        let n = 2 + r.below(2);
        let g: Vec<String> = (0..n).map(|_| hx(r.pick(&fixed))).collect();
        out.push(format!("p_cycle\t{}", g.join("\t")));
        out.push(format!("p_reorder\t{}", g.join("\t")));
        let h = rand_history(r, DKEYS);
        let hexes: Vec<String> = h.iter().map(|d| hex_doc(d, 0)).collect();
        out.push(format!("p_cycle\t{}", hexes.join("\t")));
        out.push(format!("p_reorder\t{}", hexes.join("\t")));
    }
}

pub fn cycle_docs() -> Vec<String> {
    [
        "null", "1", "\"x\"", "[]", "[null]", "[null,null]", "[1]", "[1,2]", "[1,\"x\"]", "[\"x\",1]", "[1,\"x\",true]", "[[1],[2]]",
        "[[1],\"x\"]", "[[],1]", "[{}]", "[{\"a\":1}]", "[{\"a\":1},{}]", "{}", "{\"a\":1}", "{\"a\":null}", "{\"a\":[1,\"x\"]}", "{\"a\":[]}",
        "[true,null]", "[[1,\"x\"]]", "[[null]]",
    ]
    .iter()
    .map(|s| s.to_string())
    .collect()
}

pub fn c11(r: &mut Rng, sz: &Sizes, out: &mut Vec<String>) {
    let mut p = small_shapes();
    p.extend(medium_shapes());
    for i in 0..sz.shapes * 2 {
        p.push(rand_shape(r, 1 + i % 4));
    }
    p.extend(dict_shapes());
    // (serde_json reads 128 levels: shapes nested deeper than about 40 levels are outside what its round trip can do)
    let shallow = |x: &JsonShape| {
        let t = sx(x);
        let mut d = 0i32;
        let mut m = 0i32;
        for c in t.chars() {
            if c == '(' {
                d += 1;
                m = m.max(d);
            } else if c == ')' {
                d -= 1;
            }
        }
        m <= 30
    };
    for (a, b) in wide_shapes().into_iter().chain(display_twins()) {
        if shallow(&a) && shallow(&b) {
            p.push(a);
            p.push(b);
        }
    }
    // a few shapes whose keys need quoting / escaping in JSON
    for k in ["key space", "q\"uote", "back\\slash", "tab\tkey", "new\nline", "\u{1}ctl", "\u{e9}", ""] {
        let mut c = std::collections::BTreeMap::new();
        c.insert(k.to_string(), JsonShape::Number { optional: false });
        p.push(JsonShape::Object { content: c, optional: false });
    }
    // a shape and its optional twin side by side as variants of one OneOf (only the flag tells them apart:
    // a set order that forgets a flag merges them), alone, beside a third variant, and one level down
    let twins: Vec<JsonShape> = small_shapes().into_iter().chain(medium_shapes()).filter(|s| !s.is_optional() && !matches!(s, JsonShape::Null)).collect();
    for s in &twins {
        let o = json_shape::verif::as_optional(s.clone());
        for f in [false, true] {
            p.push(one_of(vec![s.clone(), o.clone()], f));
            p.push(one_of(vec![o.clone(), JsonShape::Null, s.clone()], f));
        }
        p.push(arr(one_of(vec![s.clone(), o.clone()], false), false));
        p.push(tup(vec![one_of(vec![o.clone(), s.clone()], false), s.clone()], true));
        out.push(format!("cmp\t{}\t{}", sx(s), sx(&o)));
        out.push(format!("cmp\t{}\t{}", sx(&o), sx(s)));
        out.push(format!("cmp\t{}\t{}", sx(&arr(s.clone(), false)), sx(&arr(o.clone(), false))));
    }
    for s in &p {
        out.push(format!("display\t{}", sx(s)));
        out.push(format!("serde\t{}", sx(s)));
        out.push(format!("serdert\t{}\t!ok {}", sx(s), sx(s)));
        out.push(format!("p_c11\t{}\t!ok", sx(s)));
    }
    for _ in 0..sz.pairs {
        let a = r.pick(&p).clone();
        let b = near(r, &a, &p);
        out.push(format!("cmp\t{}\t{}", sx(&a), sx(&b)));
    }
    // birthday-sized: one object of 300 000 (thorough 600 000) members with pairwise different shapes
    out.push(format!("p_display_wide\t{}\t!ok", if sz.pairs > 10_000 { 600_000 } else { 300_000 }));
    out.push("p_display_wide\t1000\t!ok".to_string());
    out.push("p_wide_algebra\t40000\t!ok".to_string());
}

pub fn c12(r: &mut Rng, sz: &Sizes, out: &mut Vec<String>) {
    for (a, b) in pairs(r, sz) {
        out.push(format!("ticks_subset\t{}\t{}", sx(&a), sx(&b)));
        out.push(format!("ticks_merger\t{}\t{}", sx(&a), sx(&b)));
    }
    // one nesting family per container kind and flag: a doubled recursive call is exponential in exactly
    // one of them
    for ctor in 0..4 {
        for opt in [false, true] {
            for depth in [2usize, 4, 8, 12, 16, 20] {
                let s = chain(ctor, opt, depth);
                let o = json_shape::verif::as_optional(s.clone());
                let t = chain(ctor, !opt, depth);
                for (a, b) in [(&s, &s), (&s, &o), (&s, &t), (&t, &s)] {
                    out.push(format!("ticks_subset\t{}\t{}", sx(a), sx(b)));
                    out.push(format!("ticks_merger\t{}\t{}", sx(a), sx(b)));
                }
            }
        }
    }
    // every container kind on the left against every kind on the right, the right (and then the left) wrapped in a
    // OneOf at every level, leaves that fit and leaves that do not: a retried variant costs a factor per level
    // only where a nested comparison fails late
    for cl in 0..3 {
        for cr in 0..3 {
            for (ol, or) in [(false, false), (true, true), (false, true)] {
                for wrap in 0..4 {
                    for fit in [true, false] {
                        for depth in [4usize, 8, 12, 16, 20] {
                            let leaf_l = JsonShape::Bool { optional: false };
                            let leaf_r = if fit { JsonShape::Bool { optional: false } } else { JsonShape::Number { optional: false } };
                            let a = chain_wrapped(cl, ol, depth, leaf_l.clone(), 0);
                            let b = chain_wrapped(cr, or, depth, leaf_r.clone(), wrap);
                            out.push(format!("ticks_subset\t{}\t{}", sx(&a), sx(&b)));
                            out.push(format!("ticks_merger\t{}\t{}", sx(&b), sx(&a)));
                            if wrap > 0 {
                                let a2 = chain_wrapped(cl, ol, depth, leaf_l, wrap);
                                out.push(format!("ticks_subset\t{}\t{}", sx(&a2), sx(&b)));
                                out.push(format!("ticks_merger\t{}\t{}", sx(&a2), sx(&b)));
                            }
                        }
                    }
                }
            }
        }
    }
    let (samples, parts) = reachable(r, 800);
    for _ in 0..sz.pairs {
        let s0 = r.pick(&samples);
        let a = r.pick(&parts);
        out.push(format!("ticks_subset\t{}\t{}", sx(s0), sx(a)));
        out.push(format!("ticks_merger\t{}\t{}", sx(a), sx(s0)));
    }
    for d in docs(r, sz) {
        out.push(format!("ticks_infer\t{}", hex_doc(&d, r.below(4))));
        out.push(format!("ticks_inferv\t{}", hex_doc(&d, 0)));
    }
    // a member name repeated at every level (equal shapes: accepted; a conflict at the innermost level: rejected):
    // a second conversion of the members doubles the work per level
    for k in 1..=16 {
        let mut plain = String::from("1");
        let mut dup = String::from("1");
        let mut bad = String::from("{\"a\":1,\"a\":true}");
        for _ in 0..k {
            dup = format!("{{\"a\":{dup},\"a\":{plain}}}");
            plain = format!("{{\"a\":{plain}}}");
            bad = format!("{{\"a\":{bad}}}");
        }
        out.push(format!("ticks_infer\t{}", crate::wire::hex(dup.as_bytes())));
        out.push(format!("ticks_infer\t{}", crate::wire::hex(bad.as_bytes())));
        out.push(format!("ticks_infer\t{}", crate::wire::hex(format!("[{dup},{dup}]").as_bytes())));
    }
    // deep nesting: the D10 witness family
    for k in 1..=24 {
        let mut t = String::from("1");
        for _ in 0..k {
            t = format!("[{t},1]");
        }
        out.push(format!("ticks_inferv\t{}", crate::wire::hex(t.as_bytes())));
        out.push(format!("ticks_infer\t{}", crate::wire::hex(t.as_bytes())));
    }
    // nesting families, one per branch of the array classification: homogeneous arrays, one-element
    // arrays of objects, arrays of equal objects, arrays of two equal arrays
    for k in 1..=24 {
        let mut hom = String::from("1");
        let mut items = String::from("{\"id\":1}");
        let mut objs = String::from("1");
        for _ in 0..k {
            hom = format!("[{hom}]");
            items = format!("{{\"items\":[{items}]}}");
            objs = format!("[{{\"k\":{objs}}},{{\"k\":1}}]");
        }
        for t in [&hom, &items, &objs] {
            out.push(format!("ticks_inferv\t{}", crate::wire::hex(t.as_bytes())));
            out.push(format!("ticks_infer\t{}", crate::wire::hex(t.as_bytes())));
        }
    }
    // every position a nested value can take (first/last/middle element, member value, array of objects ...)
    for ctx in CONTEXTS {
        for core in CORES {
            for k in [1usize, 2, 3, 5, 8, 12, 16, 20, 24] {
                let t = nest(ctx, core, k);
                out.push(format!("ticks_inferv\t{}", crate::wire::hex(t.as_bytes())));
                out.push(format!("ticks_infer\t{}", crate::wire::hex(t.as_bytes())));
            }
        }
    }
    for k in 1..=9 {
        let mut dbl = String::from("1");
        for _ in 0..k {
            dbl = format!("[{dbl},{dbl}]");
        }
        out.push(format!("ticks_inferv\t{}", crate::wire::hex(dbl.as_bytes())));
        out.push(format!("ticks_infer\t{}", crate::wire::hex(dbl.as_bytes())));
    }
    let big = sz.histories > 10_000;
    for fam in ["infer_depth", "inferv_depth"] {
        for n in 1..=20 {
            out.push(format!("allocs\t{fam}\t{n}"));
        }
    }
    for fam in ["infer_objdepth", "inferv_objdepth", "subset_depth"] {
        for n in 1..=10 {
            out.push(format!("allocs\t{fam}\t{n}"));
        }
    }
    let widths: &[usize] = if big { &[10, 100, 1000, 10_000] } else { &[10, 100, 1000] };
    for fam in ["infer_width", "inferv_width"] {
        for n in widths {
            out.push(format!("allocs\t{fam}\t{n}"));
        }
    }
    for n in [10, 100, 1000] {
        out.push(format!("allocs\tsources\t{n}"));
    }
    // WIDTH per arm: two wide objects (disjoint / equal / half-shared names), many one-member sources with distinct
    // names, a OneOf of n variants, two wide tuples, a wide subset query
    for fam in ["merge_wide_disjoint", "merge_wide_same", "merge_wide_half", "sources_distinct", "merge_wide_tuple", "subset_wide", "subset_wide_oneof"] {
        for n in [10usize, 40, 160, 640] {
            out.push(format!("allocs\t{fam}\t{n}"));
        }
    }
    for n in [5usize, 10, 20, 40, 80] {
        out.push(format!("allocs\tsources_variants\t{n}"));
    }
}

/// One-hole contexts (`@` is the hole) covering every position a nested value can take: first, last and
/// middle element, member value, element of an array of objects in first / later position, below a
/// one-element array. Nesting a context `k` times gives a document of size O(k).
pub const CONTEXTS: &[&str] = &[
    "[@,1]", "[1,@]", "[1,@,\"x\"]", "[\"x\",@]", "[@]", "{\"k\":@}", "{\"a\":1,\"k\":@}",
    "[{\"k\":@},{\"k\":1}]", "[{\"k\":1},{\"k\":@}]", "[{\"k\":1},{\"j\":@}]", "[[@],[1]]", "[[1],[@]]",
    "[null,@]", "[@,null]", "[[],@]", "{\"a\":[@,true],\"b\":[]}",
];
pub const CORES: &[&str] = &["1", "[1,\"x\"]", "{}", "[]", "[{\"a\":1},{\"b\":2}]"];

pub fn nest(ctx: &str, core: &str, k: usize) -> String {
    let (pre, post) = ctx.split_once('@').unwrap();
    format!("{}{}{}", pre.repeat(k), core, post.repeat(k))
}

/// valid texts and their single-character corruptions / prefixes
fn malformed(r: &mut Rng, base: &str, out: &mut Vec<String>, limit: usize) {
    let chars: Vec<char> = base.chars().collect();
    let alphabet: Vec<char> = "\"\\,:[]{}0-.e+ \t\n\rtuxa\u{1}\u{e9}".chars().collect();
    let mut n = 0;
    for i in 0..=chars.len() {
        if n >= limit {
            break;
        }
        // prefix
        out.push(chars[..i].iter().collect());
        n += 1;
        if i < chars.len() {
            // deletion
            let mut v = chars.clone();
            v.remove(i);
            out.push(v.into_iter().collect());
            // substitution and insertion by a random alphabet character
            let c = *r.pick(&alphabet);
            let mut v = chars.clone();
            v[i] = c;
            out.push(v.into_iter().collect());
            let mut v = chars.clone();
            v.insert(i, c);
            out.push(v.into_iter().collect());
            n += 3;
        }
    }
}

/// Lexeme-directed families: the places where a lexer decides character by character — the four hex
/// digits of `\\u`, the character after a backslash, raw characters inside a string, the number grammar,
/// the literal names — enumerated exhaustively over alphabets that contain the near-misses (`+`, `-`,
/// space, non-ASCII digits/letters, upper case), plus every single-character substitution and insertion
/// over printable ASCII in texts that contain every lexeme kind.
pub fn lexeme_corpus(thorough: bool) -> Vec<String> {
    let mut t: Vec<String> = Vec::new();
    let hex_alpha: Vec<char> = if thorough { "09aFgG+- \"\\\u{e9}x.u\u{1}\u{663}".chars().collect() } else { "09aFg+- \"\\\u{e9}x".chars().collect() };
    for a in &hex_alpha {
        for b in &hex_alpha {
            for c in &hex_alpha {
                for d in &hex_alpha {
                    t.push(format!("\"\\u{a}{b}{c}{d}\""));
                }
            }
        }
    }
    let mut any: Vec<char> = (0u32..0x80).filter_map(char::from_u32).collect();
    // code points at every encoding-length and range boundary (the last one is the largest scalar value)
    any.extend(['\u{80}', '\u{e9}', '\u{2028}', '\u{1F600}', '\u{663}', '\u{ff11}', '\u{7ff}', '\u{800}', '\u{d7ff}', '\u{e000}',
        '\u{fffd}', '\u{ffff}', '\u{10000}', '\u{10fffe}', '\u{10ffff}']);
    for c in &any {
        t.push(format!("\"\\{c}\""));
        t.push(format!("[\"a\\{c}b\",1]"));
        t.push(format!("\"a{c}b\""));
        t.push(format!("{{\"k{c}\":1}}"));
        t.push(format!("{{\"\\{c}\":1}}"));
        t.push(format!("1{c}"));
        t.push(format!("{c}1"));
        t.push(format!("[1{c}2]"));
        t.push(format!("-{c}"));
        t.push(format!("1.{c}"));
        t.push(format!("1e{c}1"));
        t.push(format!("0{c}"));
    }
    let num_alpha: Vec<char> = "01-+.eE".chars().collect();
    let nmax = if thorough { 6 } else { 5 };
    let mut cur: Vec<String> = vec![String::new()];
    for len in 1..=nmax {
        let mut next = Vec::new();
        for p in &cur {
            for c in &num_alpha {
                let q = format!("{p}{c}");
                t.push(q.clone());
                if len <= 4 {
                    t.push(format!("[{q},{q}]"));
                }
                next.push(q);
            }
        }
        cur = next;
    }
    // long invalid fragments around power-of-two lengths, with multi-byte characters at every alignment: an
    // error that carries a long piece of the input is where clipping, buffering and offset arithmetic slip
    let lens: &[usize] = if thorough { &[100, 255, 256, 257, 511, 512, 513, 1023, 1024, 1025, 2047, 2048, 2049, 4096, 65_536] }
        else { &[255, 256, 511, 512, 1023, 1024, 1025, 2048, 4097] };
    for &n in lens {
        for shift in 0..3usize {
            let pad = "x".repeat(shift);
            let body = "\u{e9}".repeat(n);
            t.push(format!("\"{pad}{body}"));                                  // unterminated string
            t.push(format!("[1, \"{pad}{body}"));
            t.push(format!("{{\"a\":1}}\n{{\"{pad}b\":\"{body}\"}}"));           // a second root value
            t.push(format!("{pad}{body}"));                                     // a run of invalid characters
            t.push(format!("[{}{pad}\u{e9}]", "a".repeat(n)));                    // a long invalid word
            t.push(format!("\"{pad}{body}\\q\""));                             // a bad escape after a long body
            t.push(format!("{{\"{pad}{body}\" 1}}"));                            // missing colon after a long name
        }
    }
    let printable: Vec<char> = (0x20u32..0x7f).filter_map(char::from_u32).collect();
    let seeds = [
        "true", "false", "null", "[true,false,null]",
        "{\"a\\u00e9\\n\":[-1.5e+3,true,false,null,\"x\"]}",
        "[ 10.25E-7 , \"\\\\\\/\\b\\f\\r\\t\\\"\" ]",
    ];
    for sd in seeds {
        let chars: Vec<char> = sd.chars().collect();
        for i in 0..=chars.len() {
            for c in &printable {
                if i < chars.len() {
                    let mut v = chars.clone();
                    v[i] = *c;
                    t.push(v.into_iter().collect());
                }
                let mut v = chars.clone();
                v.insert(i, *c);
                t.push(v.into_iter().collect());
            }
        }
    }
    t
}

pub fn text_corpus(r: &mut Rng, sz: &Sizes, thorough: bool) -> Vec<String> {
    let mut texts: Vec<String> = lexeme_corpus(thorough);
    // DICTIONARY: every string literal of the library's source bare, as a JSON string, as a member name, as an
    // element, and cut into a document in place of a value; strings / names / arrays sized at its integer literals
    for w in crate::dict::words() {
        let q = serde_json::to_string(&w).unwrap();
        texts.push(w.clone());
        texts.push(q.clone());
        texts.push(format!("{{{q}:1}}"));
        texts.push(format!("[{q},{q}]"));
        texts.push(format!("[{w}]"));
        texts.push(format!("{{\"a\":{w}}}"));
        texts.push(format!("{{{q}:{q},\"k\":[{q}]}}"));
    }
    // characters that are neither JSON whitespace nor part of any lexeme (byte order mark, no-break and zero-width
    // spaces, line/paragraph separators, NEL, vertical tab, form feed, DEL, a C1 control) before, after and between
    // the tokens of small documents with and without member names
    for c in ['\u{feff}', '\u{a0}', '\u{200b}', '\u{2028}', '\u{2029}', '\u{85}', '\u{b}', '\u{c}', '\u{7f}', '\u{9b}', '\u{1f}', '\u{fffe}'] {
        for d in ["{\"a\": 1}", "[{\"a\":1}]", "x", " ", "[1, 2]", "{}", "tru", "\"s\"", "{\"\u{e9}\":[1,\"x\"]}", "", "1"] {
            texts.push(format!("{c}{d}"));
            texts.push(format!("{d}{c}"));
            texts.push(format!("{c}{c}{d}"));
            texts.push(d.replace(' ', &c.to_string()).replace(':', &format!(":{c}")));
            texts.push(d.replacen('"', &format!("{c}\""), 1));
        }
    }
    for n in crate::dict::sizes(2000) {
        texts.push(format!("\"{}\"", "s".repeat(n)));
        texts.push(format!("{{\"{}\":1}}", "k".repeat(n)));
        texts.push(format!("[{}]", vec!["1"; n].join(",")));
        texts.push(format!("{}", "9".repeat(n)));
        texts.push(format!("{}1{}", " ".repeat(n), "\n".repeat(n)));
    }
    // exhaustive short strings over a JSON alphabet
    let alpha: Vec<char> = "\"\\ua10-.e+ \n\r\t[]{},:trnl\u{e9}\u{1}/Ef".chars().collect();
    let maxlen = if thorough { 4 } else { 3 };
    let mut cur: Vec<Vec<char>> = vec![vec![]];
    for _ in 0..maxlen {
        let mut next = Vec::new();
        for p in &cur {
            for c in &alpha {
                let mut q = p.clone();
                q.push(*c);
                texts.push(q.iter().collect());
                next.push(q);
            }
        }
        cur = next;
    }
    // exhaustive short token strings
    let toks = ["[", "]", "{", "}", ",", ":", "\"a\"", "1", "true", "null", " ", "x", "\"b\""];
    let tmax = if thorough { 6 } else { 5 };
    let mut cur: Vec<String> = vec![String::new()];
    for _ in 0..tmax {
        let mut next = Vec::new();
        for p in &cur {
            for t in toks {
                let q = format!("{p}{t}");
                texts.push(q.clone());
                next.push(q);
            }
        }
        cur = next;
    }
    // grammar-directed valid texts in every formatting, with corruptions
    let fixed = [
        "{\"a\":1,\"b\":[true,false,null],\"c\":{\"d\":\"x\\n\\u00e9\\\"\"}}",
        "[1,-0,0.5,1e3,-2.5E-2,123456789]",
        " \r\n\t[ ] ",
        "{\"a\":1,\"a\":2}",
        "{\"a\":1,\"a\":\"s\"}",
        "{\"a\\u0041\":1,\"aA\":2}",
        "{\"\\ud83d\\ude00\":1}",
        "{\"\\ud800\":1}",
        "\"\u{e9}\\x\"",
        "[\"\u{1F600}\", \"\\u12\"]",
        "\"a\tb\"",
    ];
    for t in fixed {
        texts.push(t.to_string());
        malformed(r, t, &mut texts, 400);
    }
    for i in 0..sz.docs / 5 {
        let d = rand_doc(r, i % 4, &DKEYS[..12]);
        let t = d.render(r.below(4));
        texts.push(t.clone());
        if t.len() < 120 {
            malformed(r, &t, &mut texts, 60);
        }
    }
    // nesting around the documented limit
    for n in [200usize, 255, 256, 257, 258, 300] {
        texts.push(format!("{}{}", "[".repeat(n), "]".repeat(n)));
        texts.push(format!("{}1{}", "[".repeat(n), "]".repeat(n)));
        let mut t = String::new();
        for _ in 0..n / 2 {
            t.push_str("{\"a\":[");
        }
        t.push('1');
        for _ in 0..n / 2 {
            t.push_str("]}");
        }
        texts.push(t);
        texts.push("[".repeat(n));
        // asymmetric mixes of the two bracket kinds
        let (a, b) = (n * 2 / 3, n - n * 2 / 3);
        texts.push(format!("{}{}1{}{}", "[".repeat(a), "{\"a\":".repeat(b), "}".repeat(b), "]".repeat(a)));
        texts.push(format!("{}{}1{}{}", "{\"a\":".repeat(a), "[".repeat(b), "]".repeat(b), "}".repeat(a)));
    }
    // many siblings: brackets that are opened *and closed* do not count towards the nesting limit
    for n in [100usize, 257, 300, 700] {
        for elem in ["[1]", "{\"a\":1}", "{\"id\":7,\"tags\":[\"a\",\"b\"]}", "[]", "{}", "[[1],{\"k\":[]}]"] {
            let body = vec![elem; n].join(",");
            texts.push(format!("[{body}]"));
            texts.push(format!("{{\"k\":[{body}],\"z\":{{\"deep\":[[[1]]]}}}}"));
        }
        // siblings (of either bracket kind) first, then real nesting up to and beyond the limit: closed
        // brackets neither count towards the limit nor earn extra depth
        for sibkind in ["[]", "{}", "{\"a\":[]}"] {
            let sib = vec![sibkind; n].join(",");
            for depth in [200usize, 254, 255, 256, 257, 300] {
                texts.push(format!("[{sib},{}1{}]", "[".repeat(depth), "]".repeat(depth)));
                texts.push(format!("[{}1{},{sib}]", "[".repeat(depth), "]".repeat(depth)));
                let d2 = depth / 2;
                texts.push(format!("[{sib},{}1{}]", "{\"a\":[".repeat(d2), "]}".repeat(d2)));
            }
        }
    }
    texts
}

/// objects that REPEAT a member name, the two occurrences spelled alike or differently (literal, `\\uXXXX` in either
/// hex case, surrogate pair, short escape), with values of equal and of conflicting shapes, at top level, inside an
/// array, in a later element of an array of objects, between other members; and one name spelled differently in
/// sibling elements of an array of objects (no repetition inside one object)
pub fn spelled_names() -> (Vec<String>, Vec<String>) {
    let spellings: [(&str, &str); 9] = [
        ("a", "a"), ("a", "\\u0061"), ("\\u0061", "a"), ("\\u00e9", "\u{e9}"), ("\\u00E9", "\\u00e9"), ("\u{1f600}", "\\ud83d\\ude00"),
        ("\\/", "/"), ("a\\u0062", "ab"), ("\\n", "\\u000a"),
    ];
    let values: [(&str, &str); 7] = [("1", "2"), ("1", "\"x\""), ("[1]", "[2]"), ("[1]", "[\"x\"]"), ("{}", "{\"b\":1}"), ("null", "1"), ("[1,2]", "{\"n\":true}")];
    let mut dup = Vec::new();
    let mut sib = Vec::new();
    for (k1, k2) in spellings {
        for (v1, v2) in values {
            dup.push(format!("{{\"{k1}\":{v1},\"{k2}\":{v2}}}"));
            dup.push(format!("[{{\"{k1}\":{v1},\"{k2}\":{v2}}}]"));
            dup.push(format!("[{{\"id\":1}},{{\"id\":2,\"{k1}\":{v1},\"z\":0,\"{k2}\":{v2}}}]"));
            dup.push(format!("{{\"m\":{{\"x\":true,\"{k1}\":{v1},\"{k2}\":{v2},\"y\":null}}}}"));
            sib.push(format!("[{{\"{k1}\":{v1},\"c\":true}},{{\"{k2}\":{v1},\"c\":false}}]"));
            sib.push(format!("[{{\"{k1}\":{v1}}},{{\"{k2}\":{v2}}},{{}}]"));
            sib.push(format!("{{\"rows\":[{{\"{k2}\":{v1},\"id\":1}},{{\"id\":2,\"{k1}\":{v1}}},{{\"id\":3,\"{k2}\":{v1}}}]}}"));
        }
    }
    (dup, sib)
}

pub fn c04(r: &mut Rng, sz: &Sizes, out: &mut Vec<String>) {
    // a valid source directly followed (or preceded) by a near twin of itself: the same text padded with characters
    // that Unicode, but not JSON, calls white space, in another letter case, cut short, doubled — from_sources has to
    // judge every source on its own
    {
        let docs = ["1", "\"s\"", "true", "[1,2]", "{\"a\":1}", "null", "[]", "{\"k\":[1,\"x\"]}"];
        let pads = ['\u{c}', '\u{b}', '\u{a0}', '\u{85}', '\u{2028}', '\u{3000}', '\u{feff}', '\u{200b}', '\u{1680}', '\0'];
        let hx = |t: &str| crate::wire::hex(t.as_bytes());
        for d in docs {
            let mut twins: Vec<String> = Vec::new();
            for c in pads {
                twins.push(format!("{d}{c}"));
                twins.push(format!("{c}{d}"));
                twins.push(format!("{c}{d}{c}"));
            }
            twins.push(d.to_uppercase());
            twins.push(d[..d.len() - 1].to_string());
            twins.push(format!("{d}{d}"));
            twins.push(format!("{d} {d}"));
            twins.push(format!(" {d}\r\n"));
            for t in twins {
                out.push(format!("sourcesdoc\t{}\t{}", hx(d), hx(&t)));
                out.push(format!("sourcesdoc\t{}\t{}\t{}", hx(d), hx(d), hx(&t)));
                out.push(format!("sourcesdoc\t{}\t{}\t{}", hx("[7]"), hx(d), hx(&t)));
                out.push(format!("inferdoc\t{}", hx(&t)));
                out.push(format!("supersetchk\t(V0 N U0 S0 B0 (A0 U0) (O0 (k61 U0)))\t{}", hx(&t)));
            }
        }
    }
    for t in ["[\"\\q\"]", "[\"\\u12\"]", "{\"a\" 1}", "[1,]", "@"] {
        let h = crate::wire::hex(t.as_bytes());
        out.push(format!("sourcesdoc\t{h}\t{}", crate::wire::hex(b"{\"id\": 2}")));
        out.push(format!("sourcesdoc\t{}\t{h}\t{}", crate::wire::hex(b"[1]"), crate::wire::hex(b"[2]")));
    }
    let (dup, sib) = spelled_names();
    for t in dup.iter().chain(sib.iter()) {
        let h = crate::wire::hex(t.as_bytes());
        out.push(format!("inferdoc\t{h}"));
        out.push(format!("supersetchk\t(O0 (k61 U0))\t{h}"));
        out.push(format!("superset\t(O0 (k61 U0))\t{h}"));
        out.push(format!("sourcesdoc\t{}\t{h}", crate::wire::hex(b"{}")));
    }
    let thorough = sz.histories > 10_000;
    let shape = "(A0 U0)";
    for t in text_corpus(r, sz, thorough) {
        let h = crate::wire::hex(t.as_bytes());
        out.push(format!("inferdoc\t{h}"));
        if t.len() > 3 && r.chance(1, 8) {
            out.push(format!("supersetchk\t{shape}\t{h}"));
            out.push(format!("superset\t{shape}\t{h}"));
            out.push(format!("sourcesdoc\t{}\t{h}", crate::wire::hex(b"[1]")));
        }
    }
}

pub fn c05(r: &mut Rng, sz: &Sizes, out: &mut Vec<String>) {
    let thorough = sz.histories > 10_000;
    // a faulty source in FIRST and MIDDLE position among valid ones (lexical faults the parser recovers from, and
    // structural ones): the error must describe the source that is at fault
    for t in [
        "{\"id\": 1, \"comment\": \"first line\\qsecond line\"}", "[\"\\u12\"]", "[\"a\u{1}b\"]", "{\"a\" 1}", "[1,]", "[1 2]", "{\"k\":tru}", "\"\u{e9}\\x\"",
        "[\"\u{1f600}\\q\", 1]", "{\"a\":1,,\"b\":2}", "@", "[01]",
    ] {
        let h = crate::wire::hex(t.as_bytes());
        let ok1 = crate::wire::hex(b"{\"id\": 2}");
        let ok2 = crate::wire::hex(b"[1]");
        out.push(format!("sourcesdoc\t{h}\t{ok1}"));
        out.push(format!("sourcesdoc\t{ok2}\t{h}\t{ok1}"));
        out.push(format!("sourcesdoc\t{h}\t{ok1}\t{ok2}\t{ok1}"));
        out.push(format!("sourcesdoc\t{ok1}\t{h}"));
    }
    for t in text_corpus(r, sz, thorough) {
        let h = crate::wire::hex(t.as_bytes());
        out.push(format!("inferdoc\t{h}"));
        if r.chance(1, 10) {
            out.push(format!("lex\t{h}"));
            out.push(format!("cst\t{h}"));
        }
    }
    // hostile sizes: the answer is not compared with the model beyond "returns an error or a shape"
    for n in [1000usize, 100_000] {
        out.push(format!("inferdoc\t{}", crate::wire::hex("[".repeat(n).as_bytes())));
        out.push(format!("inferdoc\t{}", crate::wire::hex(format!("{}{}", "[".repeat(n), "]".repeat(n)).as_bytes())));
        out.push(format!("inferdoc\t{}", crate::wire::hex("{\"a\":".repeat(n).as_bytes())));
    }
    let big = if thorough { 4_000_000 } else { 300_000 };
    out.push(format!("inferdoc\t{}", crate::wire::hex(format!("\"{}\"", "a\u{e9}".repeat(big / 3)).as_bytes())));
    out.push(format!("inferdoc\t{}", crate::wire::hex(format!("[{}1]", "1,".repeat(big / 2)).as_bytes())));
    out.push(format!("inferdoc\t{}", crate::wire::hex(format!("\"{}", "\\u00e9".repeat(big / 6)).as_bytes())));
    // width instead of depth: many members, many distinct keys across the elements of one array, long
    // lexemes, many sources — on both paths where the value path applies
    let wide = if thorough { 20_000 } else { 3_000 };
    let members: Vec<String> = (0..wide).map(|i| format!("\"k{i}\":{}", i % 7)).collect();
    let wide_obj = format!("{{{}}}", members.join(","));
    let distinct: Vec<String> = (0..wide / 4).map(|i| format!("{{\"k{i}\":1,\"common\":\"x\"}}")).collect();
    let many_keys = format!("[{}]", distinct.join(","));
    let same_keys: Vec<String> = (0..wide).map(|i| format!("{{\"id\":{i},\"tag\":null}}")).collect();
    let homogeneous = format!("[{}]", same_keys.join(","));
    let long_number = format!("[{}.{}e+{}]", "9".repeat(wide), "1".repeat(wide), "7".repeat(3));
    let long_key = format!("{{\"{}\":[]}}", "k\\u00e9".repeat(wide / 2));
    let dup_keys = format!("{{{}}}", vec!["\"a\":1"; wide].join(","));
    for t in [&wide_obj, &many_keys, &homogeneous, &long_number, &long_key, &dup_keys] {
        out.push(format!("inferdoc\t{}", crate::wire::hex(t.as_bytes())));
        out.push(format!("inferv\t{}", crate::wire::hex(t.as_bytes())));
    }
    let mut srcs = String::from("sourcesdoc");
    for i in 0..(wide / 10) {
        srcs.push('\t');
        srcs.push_str(&crate::wire::hex(format!("{{\"k{}\":[{},\"s\"],\"n\":null}}", i % 50, i).as_bytes()));
    }
    out.push(srcs);
    // serde_json values up to its depth limit (127 nested arrays), value path
    for n in [1usize, 10, 64, 127] {
        let t = format!("{}1{}", "[".repeat(n), "]".repeat(n));
        out.push(format!("inferv\t{}", crate::wire::hex(t.as_bytes())));
        let mut t = String::new();
        for _ in 0..n / 2 {
            t.push_str("{\"a\":[");
        }
        t.push_str("null");
        for _ in 0..n / 2 {
            t.push_str("]}");
        }
        out.push(format!("inferv\t{}", crate::wire::hex(t.as_bytes())));
    }
    for d in docs(r, sz) {
        out.push(format!("inferv\t{}", hex_doc(&d, r.below(4))));
    }
    // nesting in every position: an algorithm that re-converts a child once per level is exponential in
    // exactly one of these families and polynomial in the others
    for ctx in CONTEXTS {
        let per_level = ctx.matches('[').count() + ctx.matches('{').count();
        for core in CORES {
            for k in [30usize, 60, 120] {
                let t = nest(ctx, core, k);
                if k * per_level + 3 <= 120 {
                    out.push(format!("inferv\t{}", crate::wire::hex(t.as_bytes())));
                }
                if k * per_level + 3 <= 250 {
                    out.push(format!("inferdoc\t{}", crate::wire::hex(t.as_bytes())));
                }
            }
        }
    }
}

pub fn c07(r: &mut Rng, sz: &Sizes, out: &mut Vec<String>) {
    infer_ops(r, sz, out, false);
    for d in docs(r, sz) {
        for _ in 0..3 {
            let d2 = rerender(r, &d);
            out.push(format!("p_c07\t{}\t{}\t!ok", hex_doc(&d, r.below(4)), hex_doc(&d2, r.below(4))));
        }
    }
    // lexical forms of one document
    let forms = [
        ("{\"a\":1,\"b\":[\"x\",\"y\"]}", "{\r\"b\"\t:\r\n[ \"\\u0078\\n\" ,\"\u{e9}\"],\"\\u0061\":-0.0e+10 }\r"),
        ("[1,2,3]", "[ 1.5E3 ]"),
        ("[true]", "[false,true,false]"),
        ("{\"k\":null}", " { \"k\" : null } "),
    ];
    for (a, b) in forms {
        out.push(format!("p_c07\t{}\t{}\t!ok", crate::wire::hex(a.as_bytes()), crate::wire::hex(b.as_bytes())));
    }
    // the number of repetitions of same-shaped elements, small and large
    for elem in ["1", "[1]", "{\"a\":1}", "{\"id\":7,\"tags\":[\"a\",\"b\"]}", "[[],[]]", "{\"k\":{\"m\":[1,\"x\"]}}"] {
        for n in [2usize, 3, 50, 257, 300, 1000] {
            let one = format!("[{elem}]");
            let many = format!("[{}]", vec![elem; n].join(","));
            out.push(format!("p_c07\t{}\t{}\t!ok", crate::wire::hex(one.as_bytes()), crate::wire::hex(many.as_bytes())));
            let one = format!("{{\"list\":[{elem}],\"n\":1}}");
            let many = format!("{{\"n\":2,\"list\":[{}]}}", vec![elem; n].join(" , "));
            out.push(format!("p_c07\t{}\t{}\t!ok", crate::wire::hex(one.as_bytes()), crate::wire::hex(many.as_bytes())));
        }
    }
    // a first element and a differently shaped one after it, the second repeated n times (n from the usual sizes, the
    // thresholds of the source and their neighbours, also the very large ones): more copies of an element that is
    // already there must not change the shape
    let mut ns: Vec<usize> = vec![2, 9, 33, 257, 1000];
    ns.extend(crate::dict::sizes(2000));
    ns.extend(crate::dict::big_sizes());
    // (rows of an array of objects: the array stays an array of one record shape whatever the number of rows)
    for (first, rest) in [("{\"a\":\"x\"}", "{\"a\":1}"), ("{\"k\":[1],\"id\":0}", "{\"k\":[]}"), ("{\"a\":1}", "{}"), ("{\"a\":{\"b\":1}}", "{\"a\":{\"c\":2}}")] {
        for &n in &ns {
            let one = format!("[{first},{rest}]");
            let many = format!("[{first},{}]", vec![rest; n].join(","));
            out.push(format!("p_c07\t{}\t{}\t!ok", crate::wire::hex(one.as_bytes()), crate::wire::hex(many.as_bytes())));
        }
    }
}

/// shapes for the generator: inferred from random source sets, plus hand-built ones with ASCII keys
/// (shape, reachable): reachable shapes come out of `from_sources`; the others only feed the
/// model/code comparison of the generator (the properties quantify over inferred shapes)
fn gen_shapes(r: &mut Rng, sz: &Sizes) -> Vec<(JsonShape, bool)> {
    let mut out: Vec<(JsonShape, bool)> = Vec::new();
    let keys = ["a", "b", "c", "id", "user_name", "camelCase", "key space", "type", "1a", "A", "x-y"];
    for i in 0..sz.histories / 2 {
        let mut h = rand_history(r, &keys[..5 + (i % 6)]);
        if r.chance(1, 3) {
            h.truncate(1);
        }
        let srcs: Vec<String> = h.iter().map(|d| d.render(0)).collect();
        if let Ok(s) = JsonShape::from_sources(&srcs) {
            out.push((s, true));
        }
    }
    out.extend(small_shapes().into_iter().map(|s| (s, false)));
    out.extend(medium_shapes().into_iter().map(|s| (s, false)));
    for i in 0..sz.shapes / 3 {
        out.push((rand_shape_keys(r, 1 + i % 4, &keys), false));
    }
    out
}

fn rand_shape_keys(r: &mut Rng, depth: usize, keys: &[&str]) -> JsonShape {
    // random_shape with ASCII keys only
    let s = rand_shape(r, depth);
    rekey(&s, r, keys)
}

fn rekey(s: &JsonShape, r: &mut Rng, keys: &[&str]) -> JsonShape {
    match s {
        JsonShape::Array { r#type, optional } => JsonShape::Array { r#type: Box::new(rekey(r#type, r, keys)), optional: *optional },
        JsonShape::Object { content, optional } => JsonShape::Object {
            content: content.values().map(|v| (r.pick(keys).to_string(), rekey(v, r, keys))).collect(),
            optional: *optional,
        },
        JsonShape::OneOf { variants, optional } => JsonShape::OneOf {
            variants: variants.iter().map(|v| rekey(v, r, keys)).collect(),
            optional: *optional,
        },
        JsonShape::Tuple { elements, optional } => JsonShape::Tuple {
            elements: elements.iter().map(|v| rekey(v, r, keys)).collect(),
            optional: *optional,
        },
        other => other.clone(),
    }
}

pub fn gen_ops(r: &mut Rng, sz: &Sizes, out: &mut Vec<String>) {
    for (s, reachable) in gen_shapes(r, sz) {
        out.push(format!("{}\t{}", if reachable { "gen" } else { "genx" }, sx(&s)));
    }
}

/// documents whose inferred shapes stay inside the fragment where the generated types are expected
/// to read their sources back: non-empty objects with snake_case keys, no bare nulls at first
fn clean_doc(r: &mut Rng, depth: usize) -> J {
    let keys = ["a", "b", "c", "id", "user_name", "value", "x1", "inner"];
    let scalar = |r: &mut Rng| match r.below(3) {
        0 => J::Bool(r.chance(1, 2)),
        1 => J::Num(r.pick(NUMS).to_string()),
        _ => J::Str(r.pick(STRS).to_string()),
    };
    if depth == 0 {
        return scalar(r);
    }
    match r.below(6) {
        0 => scalar(r),
        1 => {
            // homogeneous array (possibly empty)
            let proto = clean_doc(r, depth - 1);
            let n = r.below(4);
            J::Arr((0..n).map(|_| same_shape(r, &proto)).collect())
        }
        2 => {
            // tuple: differently shaped scalars
            let mut v = vec![J::Num("1".into()), J::Str("s".into())];
            if r.chance(1, 2) {
                v.push(J::Bool(true));
            }
            if r.chance(1, 3) {
                v.push(clean_doc(r, depth - 1));
            }
            J::Arr(v)
        }
        _ => {
            let n = 1 + r.below(4);
            let mut ms: Vec<(String, J)> = Vec::new();
            for _ in 0..n {
                let k = r.pick(&keys).to_string();
                if !ms.iter().any(|(k2, _)| *k2 == k) {
                    ms.push((k, clean_doc(r, depth - 1)));
                }
            }
            J::Obj(ms)
        }
    }
}

/// drops a member or replaces a member's value by null somewhere in the document
fn loosen(r: &mut Rng, x: &J) -> J {
    match x {
        J::Obj(ms) if !ms.is_empty() => {
            let i = r.below(ms.len());
            let mut v = ms.clone();
            match r.below(3) {
                0 if v.len() > 1 => {
                    v.remove(i);
                }
                1 => v[i].1 = J::Null,
                _ => v[i].1 = loosen(r, &ms[i].1),
            }
            J::Obj(v)
        }
        J::Arr(xs) if !xs.is_empty() => {
            let i = r.below(xs.len());
            let mut v = xs.clone();
            v[i] = loosen(r, &xs[i]);
            J::Arr(v)
        }
        other => other.clone(),
    }
}

fn clean_history(r: &mut Rng) -> Vec<J> {
    let depth = 1 + r.below(3);
    let proto = clean_doc(r, depth);
    let n = 1 + r.below(4);
    let mut h = vec![proto.clone()];
    for _ in 1..n {
        let d = same_shape(r, &proto);
        h.push(if r.chance(1, 2) { loosen(r, &d) } else { d });
    }
    h
}

fn source_sets(r: &mut Rng, n: usize) -> Vec<Vec<String>> {
    let keys = ["a", "b", "c", "id", "user_name", "value"];
    let mut out = vec![
        vec!["{\"a\":1,\"b\":[1,2],\"c\":{\"d\":\"x\"}}".to_string()],
        vec!["{\"x\":{\"p\":1},\"y\":{\"p\":2}}".to_string()],
        vec!["[1,\"a\",true]".to_string()],
        vec!["{\"a\":[[1],[2,3]]}".to_string(), "{\"a\":null}".to_string()],
        vec!["{\"items\":[{\"id\":1,\"tag\":\"x\"},{\"id\":2}]}".to_string()],
        vec!["{\"a\":1}".to_string(), "{\"a\":\"s\"}".to_string()],
        vec!["{}".to_string()],
        vec!["{}".to_string(), "null".to_string()],
        vec!["{\"x\":{\"p\":1},\"y\":{\"q\":2}}".to_string()],
        vec!["{\"camelCase\":1,\"key space\":2}".to_string()],
        vec!["{\"type\":1}".to_string()],
        vec!["1".to_string()],
        vec!["null".to_string(), "\"s\"".to_string()],
        // a member of every kind that later (or earlier) elements of an array of objects lack
        vec!["[{\"id\":1,\"pos\":[1.5,\"north\"]},{\"id\":2}]".to_string()],
        vec!["[{\"id\":1},{\"id\":2,\"pos\":[1.5,\"north\"]}]".to_string()],
        vec!["[{\"id\":1,\"tags\":[\"a\"]},{\"id\":2}]".to_string()],
        vec!["[{\"id\":1,\"o\":{\"k\":1}},{\"id\":2}]".to_string()],
        vec!["[{\"id\":1,\"s\":\"x\",\"b\":true,\"n\":2},{\"id\":2}]".to_string()],
        vec!["{\"route\":{\"stops\":[{\"name\":\"a\",\"at\":[10,\"km\",true]},{\"name\":\"b\",\"at\":[20,\"km\",false]},{\"name\":\"c\"}]}}".to_string()],
        vec!["{\"p\":{\"a\":{\"k\":1}},\"q\":{\"a\":{\"k\":1}}}".to_string(), "{\"p\":{\"a\":{\"k\":2}},\"q\":{\"a\":null}}".to_string()],
        vec!["{\"x\":{\"b\":1},\"y\":{\"b\":2}}".to_string(), "{\"x\":null,\"y\":{\"b\":3}}".to_string()],
        vec!["{\"entry\":[\"id\",[{\"k\":1},{\"k\":2}]]}".to_string()],
        vec!["{\"entry\":[1,[\"a\",{\"k\":true}]]}".to_string()],
        vec!["{\"a\":[[{\"k\":1}],[{\"k\":2}]],\"t\":[1,[[{\"m\":\"x\"}]]]}".to_string()],
    ];
    // sibling members of one layout whose values differ only in an INNER optional position (a tuple slot, an array
    // element, a nested member that is null in one sibling): their types must not share a name
    for (x, xn) in [
        ("[1,\"a\"]", "[null,\"a\"]"), ("{\"k\":1}", "{\"k\":null}"), ("[[1,\"a\"]]", "[[null,\"a\"]]"), ("[{\"k\":1}]", "[{\"k\":null}]"),
        ("[1,[2,\"b\"]]", "[1,[null,\"b\"]]"), ("{\"t\":[1,\"a\"]}", "{\"t\":[null,\"a\"]}"),
    ] {
        out.push(vec![format!("{{\"p\":{x},\"q\":{x}}}"), format!("{{\"p\":{x},\"q\":{xn}}}")]);
        out.push(vec![format!("{{\"p\":{x},\"q\":{x}}}"), format!("{{\"p\":{xn},\"q\":{x}}}")]);
        out.push(vec![format!("{{\"p\":{x},\"q\":{x}}}"), format!("{{\"p\":{x},\"q\":{xn}}}"), "{\"p\":4,\"q\":5}".to_string()]);
        out.push(vec![format!("{{\"p\":{{\"m\":{x}}},\"q\":{{\"m\":{x}}}}}"), format!("{{\"p\":{{\"m\":{x}}},\"q\":{{\"m\":{xn}}}}}")]);
    }
    // tuples that only REGROUP the same leaves, as variants of one OneOf (a scalar first, so that the OneOf exists)
    {
        let groupings = [
            "[1,\"x\",true,null]", "[[1,\"x\"],true,null]", "[[1,\"x\",true],null]", "[1,[\"x\",true],null]", "[1,\"x\",[true,null]]",
            "[[1,\"x\"],[true,null]]", "[[[1,\"x\"],true],null]",
        ];
        for (i, a) in groupings.iter().enumerate() {
            for b in groupings.iter().skip(i + 1) {
                out.push(vec!["12".to_string(), a.to_string(), b.to_string()]);
                out.push(vec!["{\"payload\":\"none\"}".to_string(), format!("{{\"payload\":{a}}}"), format!("{{\"payload\":{b}}}")]);
            }
        }
    }
    // numbers of every lexical kind under member names of every flavour (an `id` is still just a Number), in
    // arrays and tuples too: the generated field type has to read all of them
    let nums = ["0", "-0", "-7", "2.5", "1e3", "2E-2", "-1.5e-3", "18446744073709551615", "1234567890123456789012345", "0.1", "9007199254740993"];
    for key in ["id", "user_id", "n", "count", "price"] {
        let docs: Vec<String> = nums.iter().map(|v| format!("{{\"{key}\":{v},\"name\":\"x\"}}")).collect();
        out.push(docs.clone());
        out.push(vec![format!("[{}]", docs.join(","))]);
    }
    out.push(nums.iter().map(|v| format!("[{v},\"u\"]")).collect());
    out.push(vec![format!("[{}]", nums.join(","))]);
    // objects nested 40 deep, an object under 40 arrays (the comparison hook passes shapes as JSON, which serde_json
    // reads to 128 levels: about 42 levels of shape), and hundreds of repeats of one sub-struct followed by a new one
    for depth in [40usize] {
        let mut o = String::from("1");
        let mut a = String::from("{\"leaf\":true}");
        for _ in 0..depth {
            o = format!("{{\"a\":{o}}}");
            a = format!("[{a}]");
        }
        out.push(vec![o]);
        out.push(vec![a]);
    }
    for reps in [130usize, 150, 260] {
        let ms: Vec<String> = (0..reps).map(|i| format!("\"u{i:03}\":{{\"score\":{i}}}")).collect();
        out.push(vec![format!("{{{},\"zsummary\":{{\"total\":1,\"label\":\"x\"}}}}", ms.join(","))]);
    }
    // sibling objects of one layout where a member (of every kind) is optional in one sibling only, in
    // both visiting orders: type names are derived from structure, so "same layout, different
    // optionality" is where two definitions can be confused
    let kinds = ["1", "\"s\"", "true", "[1,2]", "[1.5,\"N\"]", "{\"k\":1}", "[{\"k\":1}]", "[[1],[2]]"];
    for x in kinds {
        out.push(vec![
            format!("{{\"home\":{{\"id\":1,\"m\":{x}}},\"work\":{{\"id\":2,\"m\":{x}}}}}"),
            format!("{{\"home\":{{\"id\":3,\"m\":{x}}},\"work\":{{\"id\":4}}}}"),
        ]);
        out.push(vec![
            format!("{{\"home\":{{\"id\":1,\"m\":{x}}},\"work\":{{\"id\":2,\"m\":{x}}}}}"),
            format!("{{\"home\":{{\"id\":3}},\"work\":{{\"id\":4,\"m\":{x}}}}}"),
        ]);
        out.push(vec![
            format!("{{\"home\":{{\"id\":1,\"m\":{x}}},\"work\":{{\"id\":2,\"m\":{x}}}}}"),
            format!("{{\"home\":{{\"id\":3,\"m\":{x}}},\"work\":{{\"id\":4,\"m\":null}}}}"),
        ]);
    }
    // merge sequences value / null / other kind / null in member, element and root position: the only way
    // to an optional OneOf, a OneOf with a Null variant, or both at once
    let vals = ["1", "\"s\"", "[1]", "{\"k\":1}"];
    let ctxs = ["{\"a\":@}", "{\"v\":[@]}", "@", "{\"o\":{\"id\":1,\"a\":@}}"];
    for (i, v1) in vals.iter().enumerate() {
        for v2 in vals.iter().skip(i + 1) {
            for c in ctxs {
                let w = |v: &str| c.replace('@', v);
                out.push(vec![w(v1), w("null"), w(v2), w("null")]);
                out.push(vec![w("null"), w(v1), w(v2)]);
                out.push(vec![w(v1), w(v2), w("null")]);
            }
        }
    }
    // an array whose element type became optional, then a tuple at the same place: the merge puts the optional
    // element type, flag and all, among the variants of a OneOf — the only way to an optional variant
    for x in ["{\"id\":1}", "[1]", "\"s\"", "[1,\"x\"]", "{\"o\":{\"k\":true}}", "[{\"k\":1}]", "true"] {
        for c in ["@", "{\"v\":@}", "[@,7]"] {
            let w = |v: &str| c.replace('@', v);
            out.push(vec![w(&format!("[{x}]")), w("[null]"), w("[1,\"x\"]")]);
            out.push(vec![w(&format!("[{x},null]")), w("[true,\"x\",2]")]);
            out.push(vec![w("[1,\"x\"]"), w(&format!("[{x}]")), w("[null]")]);
        }
    }
    // WIDTH and DEPTH for the generator: an object of 40 members of mixed kinds, 30 levels of objects / arrays,
    // 24 distinct sub-structs of growing arity, tuples of 11 and 12 slots, a OneOf of seven variants
    {
        let kinds = ["1", "\"s\"", "true", "[1,2]", "{\"in\":1}", "[1,\"x\"]", "null"];
        let wide: Vec<String> = (0..40).map(|i| format!("\"m{i:02}\":{}", kinds[i % kinds.len()])).collect();
        out.push(vec![format!("{{{}}}", wide.join(","))]);
        out.push(vec![format!("{{{}}}", wide.join(",")), format!("{{{}}}", wide[..39].join(","))]);
        let mut deep_o = String::from("1");
        let mut deep_a = String::from("{\"leaf\":true}");
        for _ in 0..30 {
            deep_o = format!("{{\"a\":{deep_o}}}");
            deep_a = format!("[{deep_a}]");
        }
        out.push(vec![deep_o]);
        out.push(vec![deep_a]);
        let subs: Vec<String> = (0..24)
            .map(|i| {
                let fs: Vec<String> = (0..=i).map(|j| format!("\"f{j:02}\":{}", kinds[(i + j) % 3])).collect();
                format!("\"s{i:02}\":{{{}}}", fs.join(","))
            })
            .collect();
        out.push(vec![format!("{{{}}}", subs.join(","))]);
        for n in [11usize, 12, 13, 14, 25] {
            let slots: Vec<&str> = (0..n).map(|i| ["1", "\"a\"", "true"][i % 3]).collect();
            out.push(vec![format!("{{\"t\":[{}]}}", slots.join(","))]);
            out.push(vec![format!("[{}]", slots.join(","))]);
        }
        out.push(vec!["{\"v\":1}", "{\"v\":\"s\"}", "{\"v\":true}", "{\"v\":[1]}", "{\"v\":{\"a\":1}}", "{\"v\":[1,\"x\"]}", "{\"v\":null}"].iter().map(|x| x.to_string()).collect());
    }
    // DICTIONARY: the string literals of the library's and the generator's own source as member names
    // (names with a line break are left out here: the `codegen` crate re-indents after every line break it
    // writes, which the model of the rendering does not follow — such names are no identifiers anyway, D17)
    for w in crate::dict::words() {
        if w.contains('\n') || w.contains('\r') {
            continue;
        }
        let q = serde_json::to_string(&w).unwrap();
        out.push(vec![format!("{{{q}:1,\"plain\":\"x\"}}")]);
    }
    // member names of every awkward category: non-ASCII letters (legal identifiers), keywords and reserved
    // words, leading digits, underscores only, names that differ only in case or separators, very long
    // names, names equal to the types and crates the generated code itself mentions
    let long = "x".repeat(300);
    let names = [
        "caf\u{e9}", "gr\u{f6}\u{df}e", "\u{540d}\u{524d}", "na\u{ef}ve key", "smile\u{1f600}", "type", "fn", "self", "Self", "crate", "super",
        "async", "dyn", "try", "union", "1st", "9", "_", "__", "a_b", "aB", "A_B", "Vec", "Option", "String", "serde", "Struct1",
        "Deserialize", "Root", "std", long.as_str(),
    ];
    for (i, nm) in names.iter().enumerate() {
        let q = serde_json::to_string(nm).unwrap();
        out.push(vec![format!("{{{q}:1}}")]);
        out.push(vec![format!("{{{q}:{{{q}:[1,2]}},\"plain\":true}}"), format!("{{{q}:null,\"plain\":false}}")]);
        let q2 = serde_json::to_string(names[(i + 1) % names.len()]).unwrap();
        out.push(vec![format!("[{{{q}:1,{q2}:\"s\"}},{{{q}:2}}]")]);
    }
    // SMALL SCOPE for the generator: every pair and triple of nine small object documents as a source set, bare
    // and below a member / inside an array
    {
        let objs = [
            "{}", "{\"a\":1}", "{\"a\":null}", "{\"a\":\"s\"}", "{\"b\":true}", "{\"a\":1,\"b\":2}", "{\"a\":[1]}", "{\"a\":{\"c\":1}}",
            "{\"a\":[1,\"x\"]}",
        ];
        for x in objs {
            for y in objs {
                out.push(vec![x.to_string(), y.to_string()]);
                out.push(vec![format!("{{\"m\":{x},\"n\":{y}}}")]);
                out.push(vec![format!("[{x},{y}]")]);
                for z in objs {
                    out.push(vec![x.to_string(), y.to_string(), z.to_string()]);
                }
            }
        }
    }
    for i in 0..n {
        let h = if i % 2 == 0 { clean_history(r) } else { rand_history(r, &keys) };
        let style = if i % 7 == 0 { 2 } else { 0 };
        out.push(h.iter().map(|d| d.render(style)).collect());
    }
    out
}

pub fn compile_ops(r: &mut Rng, n: usize, op: &str, out: &mut Vec<String>) {
    // collection names that END in a dotted suffix the source itself uses (a name ending in the generated file's
    // own extension), next to the plain name
    for w in crate::dict::words() {
        if let Some(i) = w.find('.') {
            let suf = &w[i..];
            if suf.len() > 1 && suf.len() <= 24 && suf.chars().all(|c| c.is_ascii_alphanumeric() || c == '.' || c == '_' || c == '-') {
                for base in ["users", "x"] {
                    out.push(format!("{op}\t{}\t{}", crate::wire::hex(format!("{base}{suf}").as_bytes()), crate::wire::hex(b"{\"a\":1}")));
                }
            }
        }
    }
    // DICTIONARY: the source's string literals that can be file names, as collection names
    for w in crate::dict::words() {
        if !w.is_empty() && w.len() <= 24 && w.chars().all(|c| c.is_ascii_alphanumeric() || "._- ".contains(c)) && w != "." && w != ".." {
            out.push(format!("{op}\t{}\t{}", crate::wire::hex(w.as_bytes()), crate::wire::hex(b"{\"a\":1}")));
        }
    }
    for (i, set) in source_sets(r, n).iter().enumerate() {
        let name = ["collection", "a.b", "x", "my-shapes", "v1.2.3", "a b", "\u{fc}n\u{ef}", ".hidden", "x..y", "UPPER.Case"][i % 10];
        let mut line = format!("{op}\t{}", crate::wire::hex(name.as_bytes()));
        for s in set {
            line.push('\t');
            line.push_str(&crate::wire::hex(s.as_bytes()));
        }
        out.push(line);
    }
}

pub fn c13(r: &mut Rng, sz: &Sizes, out: &mut Vec<String>) {
    gen_ops(r, sz, out);
    compile_ops(r, sz.histories / 10, "compile", out);
}

pub fn c16(r: &mut Rng, sz: &Sizes, out: &mut Vec<String>) {
    gen_ops(r, sz, out);
    compile_ops(r, sz.histories / 10, "p_c16", out);
    // error cases: invalid, empty list, unreadable path are exercised by the orchestrator-independent op below
    out.push(format!("p_c16\t{}\t{}", crate::wire::hex(b"bad"), crate::wire::hex(b"{\"a\":")));
    out.push(format!("p_c16\t{}\t{}\t{}", crate::wire::hex(b"bad2"), crate::wire::hex(b"1"), crate::wire::hex(b"tru")));
    out.push(format!("p_c16\t{}", crate::wire::hex(b"empty")));
    // sources that are ALMOST JSON (a byte order mark, a non-JSON blank, a NUL, a comment before / after a valid
    // document): compile_json must refuse what the library refuses, alone and next to valid sources
    for d in ["{\"a\": 1, \"b\": [true, null]}", "[1,2]", "\"s\""] {
        for pad in ["\u{feff}", "\u{a0}", "\u{c}", "\u{b}", "\u{85}", "\0", "//c\n", "/*c*/", "\u{2028}"] {
            for t in [format!("{pad}{d}"), format!("{d}{pad}")] {
                out.push(format!("p_c16\t{}\t{}", crate::wire::hex(b"almost"), crate::wire::hex(t.as_bytes())));
                out.push(format!("p_c16\t{}\t{}\t{}", crate::wire::hex(b"almost2"), crate::wire::hex(d.as_bytes()), crate::wire::hex(t.as_bytes())));
            }
        }
    }
    // histories of requests into one directory: repeated names with different source lists, failing
    // requests in between (unreadable path, invalid text, empty list), several names, dotted names
    let hx = |t: &str| crate::wire::hex(t.as_bytes());
    let sets: Vec<Vec<&str>> = vec![
        vec!["{\"name\":\"n\",\"age\":3}"],
        vec!["{\"id\":1,\"items\":[1,2],\"paid\":true}"],
        vec!["{\"name\":\"n\",\"age\":3}", "{\"name\":null}"],
        vec!["[1,\"a\"]"],
        vec!["1"],
        vec!["{\"a\":"],          // invalid
        vec!["!"],                 // unreadable
        vec![],                    // empty list
        vec!["1", "!"],
        vec!["true", "tru"],
    ];
    let names = ["api", "v1.2", "my-shapes", "api.v2"];
    let step = |name: &str, set: &Vec<&str>| -> String {
        format!("{}:{}", hx(name), set.iter().map(|t| if *t == "!" { "!".to_string() } else { hx(t) }).collect::<Vec<_>>().join(","))
    };
    let mut hist: Vec<Vec<String>> = Vec::new();
    for a in 0..sets.len() {
        for b in 0..sets.len() {
            hist.push(vec![step("api", &sets[a]), step("api", &sets[b])]);
        }
    }
    for _ in 0..sz.histories / 10 {
        let n = 2 + r.below(4);
        let mut h = Vec::new();
        for _ in 0..n {
            let name = if r.chance(2, 3) { names[0] } else { *r.pick(&names) };
            h.push(step(name, r.pick(&sets)));
        }
        hist.push(h);
    }
    for (i, h) in hist.iter().enumerate() {
        for mode in ["pre", "lazy"] {
            out.push(format!("p_c16h\t{mode}\t{}\t!steps *", h.join("\t")));
        }
        // every value of OUT_DIR: trailing slash, unusual directory name, relative, unset
        let variant = ["pre-slash", "lazy-space", "pre-relative", "lazy-unset", "pre-nonutf8"][i % 5];
        out.push(format!("p_c16h\t{variant}\t{}\t!steps *", h.join("\t")));
    }
}

pub fn generate(prop: &str, tier: &str, seed: u64) -> Vec<String> {
    let mut r = Rng(seed ^ 0x5eed_0000 ^ (prop.bytes().fold(0u64, |a, b| a * 131 + b as u64)));
    let sz = sizes(tier);
    let mut out = Vec::new();
    match prop {
        "C10" => c10(&mut r, &sz, &mut out),
        "C01" => c01(&mut r, &sz, &mut out),
        "C02" => c02(&mut r, &sz, &mut out),
        "C03" => c03(&mut r, &sz, &mut out),
        "keeps" => keeps(&mut r, &sz, &mut out),
        "C04" => c04(&mut r, &sz, &mut out),
        "C05" => c05(&mut r, &sz, &mut out),
        "C07" => c07(&mut r, &sz, &mut out),
        "C06" => c06(&mut r, &sz, &mut out),
        "C09" => c09(&mut r, &sz, &mut out),
        "C11" => c11(&mut r, &sz, &mut out),
        "C12" => c12(&mut r, &sz, &mut out),
        "C13" | "C14" | "C15" => c13(&mut r, &sz, &mut out),
        "C16" => c16(&mut r, &sz, &mut out),
        "C08" => c08(&mut r, &sz, &mut out),
        "C17" => c17(&mut r, &sz, &mut out),
        "core" => core(&mut r, &sz, &mut out),
        _ => {}
    }
    out
}
