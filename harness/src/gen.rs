//! Case generation. Every random choice derives from one splitmix64 state (VERIF_SEED).
use crate::wire::{hex, sexp};
use json_shape::JsonShape;
use std::collections::{BTreeMap, BTreeSet};

pub struct Rng(pub u64);
impl Rng {
    pub fn next(&mut self) -> u64 {
        self.0 = self.0.wrapping_add(0x9E37_79B9_7F4A_7C15);
        let mut z = self.0;
        z = (z ^ (z >> 30)).wrapping_mul(0xBF58_476D_1CE4_E5B9);
        z = (z ^ (z >> 27)).wrapping_mul(0x94D0_49BB_1331_11EB);
        z ^ (z >> 31)
    }
    pub fn below(&mut self, n: usize) -> usize {
        (self.next() % (n as u64)) as usize
    }
    pub fn chance(&mut self, num: u64, den: u64) -> bool {
        self.next() % den < num
    }
    pub fn pick<'a, T>(&mut self, v: &'a [T]) -> &'a T {
        &v[self.below(v.len())]
    }
}

pub const KEYS: &[&str] = &["a", "b", "c", "d", "key space", "k-1", "Z_9", "\u{e9}t\u{e9}", "", "0x"];
/// member names of generated *documents*, in source form (they are placed between quotes as they are):
/// plain, spaced, non-ASCII, and every escape form incl. a surrogate pair, an escaped quote at the end
/// and names ending in an escaped backslash; no two of them denote the same name
pub const DKEYS: &[&str] = &[
    "a", "b", "c", "d", "key space", "k-1", "Z_9", "\u{e9}t\u{e9}", "\\u0041", "\\ud83d\\ude00", "q\\\"", "\\\\", "e\\\\",
    "\\/\\n", "\u{1f601}lit", "\\uD834\\uDD1E",
];

// ---------------------------------------------------------------- shapes

pub fn scalars() -> Vec<JsonShape> {
    vec![
        JsonShape::Null,
        JsonShape::Bool { optional: false },
        JsonShape::Bool { optional: true },
        JsonShape::Number { optional: false },
        JsonShape::Number { optional: true },
        JsonShape::String { optional: false },
        JsonShape::String { optional: true },
    ]
}

pub fn arr(t: JsonShape, optional: bool) -> JsonShape {
    JsonShape::Array { r#type: Box::new(t), optional }
}
pub fn obj(c: Vec<(&str, JsonShape)>, optional: bool) -> JsonShape {
    JsonShape::Object {
        content: c.into_iter().map(|(k, v)| (k.to_string(), v)).collect::<BTreeMap<_, _>>(),
        optional,
    }
}
pub fn one_of(v: Vec<JsonShape>, optional: bool) -> JsonShape {
    JsonShape::OneOf { variants: v.into_iter().collect::<BTreeSet<_>>(), optional }
}
pub fn tup(v: Vec<JsonShape>, optional: bool) -> JsonShape {
    JsonShape::Tuple { elements: v, optional }
}

/// All containers one level above `inner` (width <= 2, keys {a,b}), both flags.
pub fn containers_over(inner: &[JsonShape], wide: &[JsonShape]) -> Vec<JsonShape> {
    let mut out = Vec::new();
    for o in [false, true] {
        for t in wide {
            out.push(arr(t.clone(), o));
        }
        out.push(obj(vec![], o));
        out.push(one_of(vec![], o));
        out.push(tup(vec![], o));
        for x in inner {
            out.push(obj(vec![("a", x.clone())], o));
            out.push(obj(vec![("b", x.clone())], o));
            out.push(one_of(vec![x.clone()], o));
            out.push(tup(vec![x.clone()], o));
            for y in inner {
                out.push(obj(vec![("a", x.clone()), ("b", y.clone())], o));
                out.push(tup(vec![x.clone(), y.clone()], o));
                if x < y {
                    out.push(one_of(vec![x.clone(), y.clone()], o));
                }
            }
        }
    }
    out
}

/// Small-scope universe: scalars, and every container of width <= 2 over a reduced base.
pub fn small_shapes() -> Vec<JsonShape> {
    let sc = scalars();
    let base = vec![
        JsonShape::Null,
        JsonShape::Bool { optional: false },
        JsonShape::Number { optional: true },
        JsonShape::String { optional: false },
    ];
    let mut out = sc.clone();
    out.extend(containers_over(&base, &sc));
    out
}

/// Depth-2 universe (sampled from): containers over a few depth-1 shapes.
pub fn medium_shapes() -> Vec<JsonShape> {
    let n = JsonShape::Number { optional: false };
    let s = JsonShape::String { optional: false };
    let inner = vec![
        JsonShape::Null,
        n.clone(),
        JsonShape::String { optional: true },
        arr(n.clone(), false),
        arr(s.clone(), true),
        arr(one_of(vec![n.clone(), s.clone()], false), false),
        obj(vec![("a", n.clone())], false),
        obj(vec![("a", JsonShape::Number { optional: true })], true),
        obj(vec![("a", n.clone()), ("b", s.clone())], false),
        one_of(vec![n.clone(), s.clone()], false),
        one_of(vec![JsonShape::Null, n.clone()], false),
        one_of(vec![n.clone(), s.clone()], true),
        tup(vec![n.clone(), s.clone()], false),
        tup(vec![n.clone(), s.clone()], true),
        tup(vec![JsonShape::Null, n.clone()], false),
    ];
    let mut out = inner.clone();
    out.extend(containers_over(&inner[..9], &inner));
    out
}

pub fn rand_shape(r: &mut Rng, depth: usize) -> JsonShape {
    let o = r.chance(1, 3);
    let k = if depth == 0 { r.below(4) } else { r.below(9) };
    match k {
        0 => JsonShape::Null,
        1 => JsonShape::Bool { optional: o },
        2 => JsonShape::Number { optional: o },
        3 => JsonShape::String { optional: o },
        4 => arr(rand_shape(r, depth - 1), o),
        5 | 8 => {
            let n = r.below(4);
            let mut c = BTreeMap::new();
            for _ in 0..n {
                c.insert(r.pick(KEYS).to_string(), rand_shape(r, depth - 1));
            }
            JsonShape::Object { content: c, optional: o }
        }
        6 => {
            let n = r.below(4);
            let mut c = BTreeSet::new();
            for _ in 0..n {
                c.insert(rand_shape(r, depth - 1));
            }
            JsonShape::OneOf { variants: c, optional: o }
        }
        _ => {
            let n = r.below(4);
            tup((0..n).map(|_| rand_shape(r, depth - 1)).collect(), o)
        }
    }
}

/// A shape derived from `a` that is likely to be related to it by subset/similar.
pub fn near(r: &mut Rng, a: &JsonShape, pool: &[JsonShape]) -> JsonShape {
    let other = r.pick(pool).clone();
    match r.below(9) {
        0 => a.clone(),
        1 => json_shape::verif::as_optional(a.clone()),
        2 => json_shape::verif::as_non_optional(a.clone()),
        3 => json_shape::verif::merger(a.clone(), other).unwrap(),
        4 => json_shape::verif::merger(other, a.clone()).unwrap(),
        5 => one_of(vec![a.clone(), other], r.chance(1, 2)),
        6 => one_of(vec![json_shape::verif::as_non_optional(a.clone()), JsonShape::Null, other], false),
        7 => mutate(r, a, pool),
        _ => other,
    }
}

/// Replace one random sub-shape of `a`.
pub fn mutate(r: &mut Rng, a: &JsonShape, pool: &[JsonShape]) -> JsonShape {
    if r.chance(1, 3) {
        return near_shallow(r, a, pool);
    }
    match a {
        JsonShape::Array { r#type, optional } => arr(mutate(r, r#type, pool), *optional),
        JsonShape::Object { content, optional } if !content.is_empty() => {
            let mut c = content.clone();
            let k = c.keys().nth(r.below(c.len())).unwrap().clone();
            match r.below(4) {
                0 => {
                    c.remove(&k);
                }
                1 => {
                    c.insert(r.pick(KEYS).to_string(), r.pick(pool).clone());
                }
                _ => {
                    let v = mutate(r, &c[&k], pool);
                    c.insert(k, v);
                }
            }
            JsonShape::Object { content: c, optional: *optional }
        }
        JsonShape::OneOf { variants, optional } if !variants.is_empty() => {
            let mut c = variants.clone();
            let k = c.iter().nth(r.below(c.len())).unwrap().clone();
            match r.below(4) {
                0 => {
                    c.remove(&k);
                }
                1 => {
                    c.insert(r.pick(pool).clone());
                }
                _ => {
                    c.remove(&k);
                    c.insert(mutate(r, &k, pool));
                }
            }
            JsonShape::OneOf { variants: c, optional: *optional }
        }
        JsonShape::Tuple { elements, optional } if !elements.is_empty() => {
            let mut e = elements.clone();
            let i = r.below(e.len());
            match r.below(5) {
                0 => {
                    e.remove(i);
                }
                1 => e.push(r.pick(pool).clone()),
                _ => e[i] = mutate(r, &e[i], pool),
            }
            tup(e, *optional)
        }
        _ => near_shallow(r, a, pool),
    }
}

fn near_shallow(r: &mut Rng, a: &JsonShape, pool: &[JsonShape]) -> JsonShape {
    match r.below(4) {
        0 => json_shape::verif::as_optional(a.clone()),
        1 => json_shape::verif::as_non_optional(a.clone()),
        2 => r.pick(pool).clone(),
        _ => one_of(vec![a.clone(), r.pick(pool).clone()], false),
    }
}

// ---------------------------------------------------------------- documents

#[derive(Clone, Debug, PartialEq)]
pub enum J {
    Null,
    Bool(bool),
    Num(String),
    Str(String),
    Arr(Vec<J>),
    Obj(Vec<(String, J)>),
}

pub const NUMS: &[&str] = &[
    "0", "-0", "1", "12", "-3.5", "1e3", "2E-2", "0.0", "123456789", "1.5e+10",
    // magnitudes no machine number holds, zero-padded exponents, long digit strings: all of them JSON numbers
    "1e400", "-1.5E+309", "1e-400", "2e308", "1e-05", "6.02e023", "0e999", "1E+007", "123456789012345678901234567890123456789012345678901234567890",
    "0.000000000000000000000000000000000000000000000000000000000000001", "-0.0e-0",
];
pub const STRS: &[&str] = &[
    "", "x", "hello world", "\\n", "\\u00e9", "\u{e9}", "\\\"q\\\"", "a\\\\b", "\u{1F600}", "/", "x\\\\", "\\\\", "\\\\\\\\", "C:\\\\tmp\\\\",
    "\\ud834\\udd1e", "\\\\\\\"", "a\u{7f}b", "\u{85}", "x\u{9f}", "\u{a0}\u{2028}",
];

impl J {
    /// Renders with a formatting style: 0 compact, 1 spaces, 2 newlines+tabs, 3 CRLF.
    pub fn render(&self, style: usize) -> String {
        let mut s = String::new();
        self.render_into(style, 0, &mut s);
        s
    }
    fn nl(style: usize, indent: usize, out: &mut String) {
        match style {
            0 => {}
            1 => out.push(' '),
            2 => {
                out.push('\n');
                for _ in 0..indent {
                    out.push('\t');
                }
            }
            _ => {
                out.push_str("\r\n");
                for _ in 0..indent {
                    out.push_str("  ");
                }
            }
        }
    }
    fn render_into(&self, style: usize, indent: usize, out: &mut String) {
        match self {
            J::Null => out.push_str("null"),
            J::Bool(b) => out.push_str(if *b { "true" } else { "false" }),
            J::Num(n) => out.push_str(n),
            J::Str(s) => {
                out.push('"');
                out.push_str(s);
                out.push('"');
            }
            J::Arr(xs) => {
                out.push('[');
                for (i, x) in xs.iter().enumerate() {
                    if i > 0 {
                        out.push(',');
                    }
                    Self::nl(style, indent + 1, out);
                    x.render_into(style, indent + 1, out);
                }
                if !xs.is_empty() || style == 1 {
                    Self::nl(style, indent, out);
                }
                out.push(']');
            }
            J::Obj(ms) => {
                out.push('{');
                for (i, (k, v)) in ms.iter().enumerate() {
                    if i > 0 {
                        out.push(',');
                    }
                    Self::nl(style, indent + 1, out);
                    out.push('"');
                    out.push_str(k);
                    out.push('"');
                    if style > 0 {
                        out.push(' ');
                    }
                    out.push(':');
                    if style > 0 {
                        out.push(' ');
                    }
                    v.render_into(style, indent + 1, out);
                }
                if !ms.is_empty() || style == 1 {
                    Self::nl(style, indent, out);
                }
                out.push('}');
            }
        }
    }
}

pub fn rand_scalar(r: &mut Rng) -> J {
    match r.below(5) {
        0 => J::Null,
        1 => J::Bool(r.chance(1, 2)),
        2 | 3 => J::Num(r.pick(NUMS).to_string()),
        _ => J::Str(r.pick(STRS).to_string()),
    }
}

/// Type-directed random document. `dup` allows repeated member names.
pub fn rand_doc(r: &mut Rng, depth: usize, keys: &[&str]) -> J {
    if depth == 0 {
        return match r.below(8) {
            0 => J::Arr(vec![]),
            1 => J::Obj(vec![]),
            _ => rand_scalar(r),
        };
    }
    match r.below(10) {
        0 | 1 => rand_scalar(r),
        // homogeneous array
        2 => {
            let n = r.below(4);
            let x = rand_doc(r, depth - 1, keys);
            J::Arr((0..n).map(|_| same_shape(r, &x)).collect())
        }
        // tuple-ish array
        3 => {
            let n = r.below(4);
            J::Arr((0..n).map(|_| rand_doc(r, depth - 1, keys)).collect())
        }
        // array of objects with missing keys
        4 | 5 => {
            let n = 1 + r.below(4);
            let nk = 1 + r.below(4);
            let mut ks: Vec<&str> = (0..nk).map(|_| *r.pick(keys)).collect();
            ks.sort_unstable();
            ks.dedup();
            let proto: Vec<J> = ks.iter().map(|_| rand_doc(r, depth - 1, keys)).collect();
            let mut xs = Vec::new();
            for _ in 0..n {
                let mut ms = Vec::new();
                let mut seen = BTreeSet::new();
                for (k, p) in ks.iter().zip(proto.iter()) {
                    if r.chance(2, 3) && seen.insert(*k) {
                        ms.push((k.to_string(), same_shape(r, p)));
                    }
                }
                if r.chance(1, 2) {
                    ms.reverse();
                }
                xs.push(J::Obj(ms));
            }
            J::Arr(xs)
        }
        // object
        _ => {
            let n = r.below(5);
            let mut ms = Vec::new();
            let mut seen = BTreeSet::new();
            for _ in 0..n {
                let k = *r.pick(keys);
                if seen.insert(k) {
                    ms.push((k.to_string(), rand_doc(r, depth - 1, keys)));
                }
            }
            J::Obj(ms)
        }
    }
}

/// A document with the same inferred shape as `x` but different scalar payloads / member order.
pub fn same_shape(r: &mut Rng, x: &J) -> J {
    match x {
        J::Null => J::Null,
        J::Bool(_) => J::Bool(r.chance(1, 2)),
        J::Num(_) => J::Num(r.pick(NUMS).to_string()),
        J::Str(_) => J::Str(r.pick(STRS).to_string()),
        J::Arr(xs) => J::Arr(xs.iter().map(|y| same_shape(r, y)).collect()),
        J::Obj(ms) => {
            let mut v: Vec<(String, J)> = ms.iter().map(|(k, y)| (k.clone(), same_shape(r, y))).collect();
            if r.chance(1, 3) {
                v.reverse();
            }
            J::Obj(v)
        }
    }
}

pub fn rand_history(r: &mut Rng, keys: &[&str]) -> Vec<J> {
    let n = 1 + r.below(5);
    let mut h: Vec<J> = Vec::new();
    for _ in 0..n {
        let d = match r.below(6) {
            0 if !h.is_empty() => r.pick(&h).clone(),
            1 if !h.is_empty() => {
                let p = r.pick(&h).clone();
                same_shape(r, &p)
            }
            2 if !h.is_empty() => {
                let p = r.pick(&h).clone();
                tweak(r, &p, keys)
            }
            _ => {
                let depth = r.below(4);
                rand_doc(r, depth, keys)
            }
        };
        h.push(d);
    }
    h
}

/// A structurally close document: one sub-document replaced / a member dropped or added.
pub fn tweak(r: &mut Rng, x: &J, keys: &[&str]) -> J {
    if r.chance(1, 4) {
        return rand_doc(r, 1, keys);
    }
    match x {
        J::Arr(xs) if !xs.is_empty() => {
            let mut v = xs.clone();
            let i = r.below(v.len());
            match r.below(4) {
                0 => {
                    v.remove(i);
                }
                1 => v.push(rand_doc(r, 1, keys)),
                _ => v[i] = tweak(r, &v[i], keys),
            }
            J::Arr(v)
        }
        J::Obj(ms) if !ms.is_empty() => {
            let mut v = ms.clone();
            let i = r.below(v.len());
            match r.below(4) {
                0 => {
                    v.remove(i);
                }
                1 => {
                    let k = *r.pick(keys);
                    if !v.iter().any(|(kk, _)| kk == k) {
                        v.push((k.to_string(), rand_doc(r, 1, keys)));
                    }
                }
                _ => v[i].1 = tweak(r, &v[i].1, keys),
            }
            J::Obj(v)
        }
        _ => rand_doc(r, 1, keys),
    }
}

/// A re-rendering that must not change the inferred shape: other scalars of the same kind, other
/// lexical forms, shuffled members, same-shaped elements repeated, different whitespace.
pub fn rerender(r: &mut Rng, x: &J) -> J {
    match x {
        J::Null => J::Null,
        J::Bool(_) => J::Bool(r.chance(1, 2)),
        J::Num(_) => J::Num(r.pick(NUMS).to_string()),
        J::Str(_) => J::Str(r.pick(STRS).to_string()),
        J::Arr(xs) => {
            let mut v: Vec<J> = xs.iter().map(|y| rerender(r, y)).collect();
            // repeat a same-shaped element when the array is homogeneous (all elements one shape)
            if !xs.is_empty() && r.chance(1, 3) {
                use std::str::FromStr;
                let shapes: Vec<_> = xs.iter().map(|y| JsonShape::from_str(&y.render(0))).collect();
                if shapes.iter().all(|s| s.is_ok() && *s == shapes[0]) {
                    let extra = rerender(r, &xs[0]);
                    v.push(extra);
                }
            }
            J::Arr(v)
        }
        J::Obj(ms) => {
            let mut v: Vec<(String, J)> = ms.iter().map(|(k, y)| (respell_key(r, k), rerender(r, y))).collect();
            if r.chance(1, 2) {
                v.reverse();
            }
            if v.len() > 2 && r.chance(1, 2) {
                v.swap(0, 1);
            }
            J::Obj(v)
        }
    }
}

/// another spelling of the same member name: every character literal, as a `\\uXXXX` escape (a surrogate
/// pair above the basic plane, hex digits in either case) or as its short escape
pub fn respell_key(r: &mut Rng, k: &str) -> String {
    if r.chance(1, 2) {
        return k.to_string();
    }
    let Ok(name) = serde_json::from_str::<String>(&format!("\"{k}\"")) else { return k.to_string() };
    let mut out = String::new();
    for c in name.chars() {
        let short = match c {
            '"' => Some("\\\""),
            '\\' => Some("\\\\"),
            '/' => Some("\\/"),
            '\u{8}' => Some("\\b"),
            '\u{c}' => Some("\\f"),
            '\n' => Some("\\n"),
            '\r' => Some("\\r"),
            '\t' => Some("\\t"),
            _ => None,
        };
        let literal_ok = c >= ' ' && c != '"' && c != '\\';
        let upper = r.chance(1, 2);
        let esc = |u: u32| if upper { format!("\\u{u:04X}") } else { format!("\\u{u:04x}") };
        let uni = {
            let mut b = [0u16; 2];
            c.encode_utf16(&mut b).iter().map(|u| esc(*u as u32)).collect::<String>()
        };
        match r.below(3) {
            0 if literal_ok => out.push(c),
            1 if short.is_some() => out.push_str(short.unwrap()),
            _ => out.push_str(&uni),
        }
    }
    out
}

pub fn hex_doc(d: &J, style: usize) -> String {
    hex(d.render(style).as_bytes())
}

pub fn sx(s: &JsonShape) -> String {
    sexp(s)
}

/// a document given as JSON text (plain ASCII member names and strings)
pub fn parse_j(text: &str) -> J {
    fn conv(v: &serde_json::Value) -> J {
        let src = |s: &str| {
            let q = serde_json::to_string(s).unwrap();
            q[1..q.len() - 1].to_string()
        };
        match v {
            serde_json::Value::Null => J::Null,
            serde_json::Value::Bool(b) => J::Bool(*b),
            serde_json::Value::Number(n) => J::Num(n.to_string()),
            serde_json::Value::String(s) => J::Str(src(s)),
            serde_json::Value::Array(xs) => J::Arr(xs.iter().map(conv).collect()),
            serde_json::Value::Object(ms) => J::Obj(ms.iter().map(|(k, x)| (src(k), conv(x))).collect()),
        }
    }
    conv(&serde_json::from_str(text).expect("parse_j: fixed text"))
}

/// an object with two quoted member names and its twin with ONE member whose name is the text that Display prints
/// between the first and the last quote of the former (Display does not escape names): two different shapes with one
/// Display text whenever something compares renderings instead of shapes
pub fn display_twins() -> Vec<(JsonShape, JsonShape)> {
    let n = JsonShape::Number { optional: false };
    let st = JsonShape::String { optional: false };
    let mut out = Vec::new();
    for (k1, k2, v1, v2) in [("x!", "y!", n.clone(), n.clone()), ("p q", "r s", n.clone(), st.clone()), ("a b", "c d", arr(n.clone(), false), n.clone())] {
        for o in [false, true] {
            let a = obj(vec![(k1, v1.clone()), (k2, v2.clone())], o);
            let text = a.to_string();
            if let (Some(i), Some(j)) = (text.find('"'), text.rfind("\": ")) {
                if i + 1 < j {
                    let key = text[i + 1..j].to_string();
                    let b = obj(vec![(key.as_str(), v2.clone())], o);
                    out.push((a.clone(), b.clone()));
                    out.push((arr(a.clone(), false), arr(b.clone(), false)));
                    out.push((tup(vec![a.clone(), n.clone()], false), tup(vec![b, n.clone()], false)));
                }
            }
        }
    }
    out
}

/// an object against a union none of whose object variants fits it WHOLE although every member fits some variant:
/// members split over two variants, crossed over two variants, with either flag on the object and the union
pub fn split_unions() -> Vec<(JsonShape, JsonShape)> {
    let n = JsonShape::Number { optional: false };
    let st = JsonShape::String { optional: false };
    let b = JsonShape::Bool { optional: false };
    let mut out = Vec::new();
    for (x, y, z) in [(n.clone(), st.clone(), b.clone()), (arr(n.clone(), false), obj(vec![("k", n.clone())], false), st.clone()), (n.clone(), JsonShape::Number { optional: true }, JsonShape::Null)] {
        for lo in [false, true] {
            for ro in [false, true] {
                let left = obj(vec![("a", x.clone()), ("b", y.clone())], lo);
                out.push((left.clone(), one_of(vec![obj(vec![("a", x.clone())], false), obj(vec![("b", y.clone())], false)], ro)));
                out.push((left.clone(), one_of(vec![obj(vec![("a", x.clone()), ("b", z.clone())], false), obj(vec![("a", z.clone()), ("b", y.clone())], false)], ro)));
                out.push((left.clone(), one_of(vec![obj(vec![("a", x.clone())], true), obj(vec![("b", y.clone())], true), JsonShape::Null], ro)));
                out.push((left.clone(), one_of(vec![obj(vec![("a", x.clone()), ("b", y.clone())], false), obj(vec![("b", y.clone())], false)], ro)));
                out.push((arr(left.clone(), false), arr(one_of(vec![obj(vec![("a", x.clone())], false), obj(vec![("b", y.clone())], false)], ro), false)));
                let l3 = obj(vec![("a", x.clone()), ("b", y.clone()), ("c", z.clone())], lo);
                out.push((l3, one_of(vec![obj(vec![("a", x.clone()), ("b", y.clone())], false), obj(vec![("c", z.clone())], false), obj(vec![("b", y.clone()), ("c", z.clone())], false)], ro)));
            }
        }
    }
    out
}

/// unions of RELATED objects: every pair and triple of eight objects whose one member ranges over shapes that cover
/// each other in part (Number, Option<Number>, Null, OneOf[Null], OneOf[Option<Number>], OneOf[Number | Option<Number>],
/// OneOf[Number | Null]; and the empty object), as the variants of one OneOf of either flag — the subset relation is
/// neither antisymmetric nor transitive on such variants
pub fn related_unions() -> Vec<JsonShape> {
    let n = JsonShape::Number { optional: false };
    let on = JsonShape::Number { optional: true };
    let vals = vec![
        n.clone(),
        on.clone(),
        JsonShape::Null,
        one_of(vec![JsonShape::Null], false),
        one_of(vec![on.clone()], false),
        one_of(vec![n.clone(), on.clone()], false),
        one_of(vec![n.clone(), JsonShape::Null], false),
    ];
    let mut objs: Vec<JsonShape> = vals.iter().map(|v| obj(vec![("id", v.clone())], false)).collect();
    objs.push(obj(vec![], false));
    let mut out = Vec::new();
    for i in 0..objs.len() {
        for j in i + 1..objs.len() {
            for f in [false, true] {
                out.push(one_of(vec![objs[i].clone(), objs[j].clone()], f));
            }
            for k in j + 1..objs.len() {
                for f in [false, true] {
                    out.push(one_of(vec![objs[i].clone(), objs[j].clone(), objs[k].clone()], f));
                }
            }
        }
    }
    let nested: Vec<JsonShape> = out.iter().take(40).map(|u| arr(u.clone(), false)).collect();
    out.extend(nested);
    out
}

/// CHAIN WORDS: shapes that are chains of at most three one-slot containers (array, one-slot tuple, one-member object,
/// one-variant OneOf, OneOf beside Null — each with either flag) around a leaf: 2 700 shapes in which every
/// combination of kinds and flags occurs at every one of three levels
pub fn chain_words() -> Vec<JsonShape> {
    let leaves = [JsonShape::Number { optional: false }, JsonShape::Number { optional: true }, JsonShape::Null];
    let wrap = |k: usize, x: JsonShape| -> JsonShape {
        match k {
            0 => arr(x, false),
            1 => arr(x, true),
            2 => tup(vec![x], false),
            3 => tup(vec![x], true),
            4 => obj(vec![("a", x)], false),
            5 => obj(vec![("a", x)], true),
            6 => one_of(vec![x], false),
            7 => one_of(vec![x], true),
            _ => one_of(vec![x, JsonShape::Null], false),
        }
    };
    let mut out = Vec::new();
    for l in &leaves {
        for a in 0..9 {
            let s1 = wrap(a, l.clone());
            out.push(s1.clone());
            for b in 0..9 {
                let s2 = wrap(b, s1.clone());
                out.push(s2.clone());
                for c in 0..9 {
                    out.push(wrap(c, s2.clone()));
                }
            }
        }
    }
    out
}

/// DICTIONARY at the level of shapes: every string literal of the library's source as a member name, in objects
/// of both flags, beside other members, inside an array / a tuple / a OneOf; member names whose length sits at a
/// threshold the source mentions, with a twin that differs only in the last character
pub fn dict_shapes() -> Vec<JsonShape> {
    let num = JsonShape::Number { optional: false };
    let st = JsonShape::String { optional: false };
    let mut out = Vec::new();
    for w in crate::dict::words() {
        for o in [false, true] {
            let one = obj(vec![(w.as_str(), num.clone())], o);
            let three = obj(vec![(w.as_str(), st.clone()), ("name", st.clone()), ("retries", JsonShape::Number { optional: true })], o);
            out.push(one.clone());
            out.push(three.clone());
            out.push(arr(one.clone(), o));
            out.push(tup(vec![three.clone(), num.clone()], o));
            out.push(one_of(vec![one, st.clone()], o));
            out.push(obj(vec![("outer", three)], o));
        }
    }
    for n in crate::dict::sizes(2000) {
        let k = "k".repeat(n);
        out.push(obj(vec![(format!("{k}a").as_str(), num.clone())], false));
        out.push(obj(vec![(format!("{k}b").as_str(), num.clone())], false));
        out.push(obj(vec![(k.as_str(), num.clone())], true));
    }
    out
}

/// WIDTH at the level of shapes: objects of n members, OneOfs of n variants, tuples of n elements (n around
/// powers of two up to 65), each with a twin whose LAST entry alone differs (another kind / made optional)
pub fn wide_shapes() -> Vec<(JsonShape, JsonShape)> {
    let num = JsonShape::Number { optional: false };
    let st = JsonShape::String { optional: false };
    let mut out = Vec::new();
    let mut ns = vec![5usize, 8, 9, 16, 17, 32, 33, 64, 65];
    for k in crate::dict::sizes(130) {
        if k >= 3 && !ns.contains(&k) {
            ns.push(k);
        }
    }
    for n in ns {
        let keys: Vec<String> = (0..n).map(|i| format!("k{i:03}")).collect();
        for (last_a, last_b) in [(num.clone(), st.clone()), (num.clone(), JsonShape::Number { optional: true }), (arr(num.clone(), false), arr(st.clone(), false))] {
            let mk = |last: &JsonShape| -> JsonShape {
                let mut c = BTreeMap::new();
                for (i, k) in keys.iter().enumerate() {
                    c.insert(k.clone(), if i + 1 == n { last.clone() } else { num.clone() });
                }
                JsonShape::Object { content: c, optional: false }
            };
            out.push((mk(&last_a), mk(&last_b)));
            let mkt = |last: &JsonShape| -> JsonShape {
                let mut v = vec![num.clone(); n - 1];
                v.push(last.clone());
                tup(v, false)
            };
            out.push((mkt(&last_a), mkt(&last_b)));
        }
        // n variants: arrays nested 0..n deep around a number; the twin lacks the last / has another last
        let nest = |d: usize, leaf: &JsonShape| -> JsonShape {
            let mut x = leaf.clone();
            for _ in 0..d {
                x = arr(x, false);
            }
            x
        };
        let vs: Vec<JsonShape> = (1..=n).map(|d| nest(d, &num)).collect();
        let mut ws = vs.clone();
        ws[n - 1] = nest(n, &st);
        out.push((one_of(vs.clone(), false), one_of(ws, false)));
        out.push((one_of(vs[..n - 1].to_vec(), false), one_of(vs.clone(), false)));
        out.push((vs[n - 1].clone(), one_of(vs, false)));
    }
    out
}

/// `depth` levels of one container kind (0 array, 1 object, 2 tuple) around `leaf`, every level optionally
/// wrapped in a OneOf beside a String (wrap 1) or a Null (wrap 2) variant
pub fn chain_wrapped(ctor: usize, opt: bool, depth: usize, leaf: JsonShape, wrap: usize) -> JsonShape {
    let mut s = leaf;
    for _ in 0..depth {
        let inner = match ctor {
            0 => arr(s, opt),
            1 => obj(vec![("a", s)], opt),
            _ => tup(vec![JsonShape::Number { optional: false }, s], opt),
        };
        s = match wrap {
            0 => inner,
            1 => one_of(vec![inner, JsonShape::String { optional: false }], false),
            2 => one_of(vec![inner, JsonShape::Null], false),
            // beside a sibling container of the same kind (another member name / element type) and Null
            _ => one_of(
                vec![
                    inner,
                    match ctor {
                        0 => arr(JsonShape::String { optional: false }, false),
                        1 => obj(vec![("b", JsonShape::Number { optional: false })], false),
                        _ => tup(vec![JsonShape::String { optional: false }, JsonShape::Null], false),
                    },
                    JsonShape::Null,
                ],
                false,
            ),
        };
    }
    s
}

/// `depth` nested containers of one kind (0 array, 1 object, 2 tuple, 3 one-of) with one optional flag
/// around a number: the families on which a per-level slip (a dropped flag, a doubled recursive call,
/// a depth cut-off) shows
pub fn chain(ctor: usize, opt: bool, depth: usize) -> JsonShape {
    let mut s = JsonShape::Number { optional: false };
    for _ in 0..depth {
        s = match ctor {
            0 => arr(s, opt),
            1 => obj(vec![("a", s)], opt),
            2 => tup(vec![s, JsonShape::String { optional: false }], opt),
            _ => one_of(vec![s, JsonShape::Null], opt),
        };
    }
    s
}
