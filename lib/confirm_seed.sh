#!/bin/bash
# usage: confirm_seed.sh <worktree> : confirms (1) existing suite passes with the change,
# (2) demo fails with the change, (3) demo passes without it. Leaves the change applied.
set -u
W=$1
cd "$W" || exit 2
git diff -- json_shape/src json_shape_build/src > /tmp/confirm_patch.diff
[ -s /tmp/confirm_patch.diff ] || { echo "no source change in worktree"; exit 2; }
mv json_shape/tests/seed_demo.rs /tmp/confirm_demo.rs 2>/dev/null || mv json_shape_build/tests/seed_demo.rs /tmp/confirm_demo.rs 2>/dev/null
echo "== existing suite with change"; cargo test --workspace --offline 2>&1 | grep -E "^test result|FAILED|error" | sort | uniq -c
DEMO_DIR=json_shape/tests; grep -q json_shape_build /tmp/confirm_demo.rs && DEMO_DIR=json_shape_build/tests
mkdir -p $DEMO_DIR; cp /tmp/confirm_demo.rs $DEMO_DIR/seed_demo.rs
P=json_shape; [ $DEMO_DIR = json_shape_build/tests ] && P=json_shape_build
echo "== demo with change (expect failure)"; cargo test -p $P --test seed_demo --offline 2>&1 | grep -E "^test result|error\[" 
git apply -R /tmp/confirm_patch.diff
echo "== demo without change (expect ok)"; cargo test -p $P --test seed_demo --offline 2>&1 | grep -E "^test result|error\["
git apply /tmp/confirm_patch.diff
