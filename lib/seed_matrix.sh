#!/bin/bash
# Re-runs every stored seeded change against the checks of the properties it breaks (meta.json: property +
# breaks) with the current machinery and writes seeded/MATRIX.md. Applies each patch to /repo and restores it.
cd /verif
OUT=seeded/MATRIX.md
echo "# seeded changes x checks (quick tier), $(date -u +%F), /verif $(git rev-parse --short HEAD)" > $OUT
echo >> $OUT
echo "| seed | check | outcome |" >> $OUT
echo "|---|---|---|" >> $OUT
for d in seeded/*/; do
  id=$(basename $d)
  [ -f $d/patch.diff ] || continue
  props=$(python3 -c "
import json,sys
m=json.load(open('$d/meta.json'))
ps=[m.get('property')]+list(m.get('breaks',[]))
seen=[]
for p in ps:
    if p and p not in seen: seen.append(p)
print(' '.join(seen))")
  git -C /repo apply "$(realpath $d/patch.diff)" 2>/dev/null || { echo "| $id | - | patch does not apply |" >> $OUT; continue; }
  for p in $props; do
    ./check $p > /tmp/matrix.out 2>&1
    if grep -q "^VIOLATION.*no-failing-input-found" /tmp/matrix.out; then o="VIOLATION, no-failing-input-found";
    elif grep -q "^VIOLATION" /tmp/matrix.out; then o="VIOLATION with failing input";
    elif grep -q "^\[$p\]" /tmp/matrix.out; then o="quiet"; else o="check did not run ($(tail -1 /tmp/matrix.out | cut -c1-80))"; fi
    echo "| $id | $p | $o |" >> $OUT
  done
  git -C /repo checkout -- .
done
git -C /repo status --short >> $OUT
