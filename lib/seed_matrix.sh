#!/bin/bash
# evidence of runs against a modified tree goes to a scratch directory, never to /verif/evidence
export VERIF_EVIDENCE_DIR=${VERIF_EVIDENCE_DIR:-/verif/out/evidence-scratch}
# Re-runs every stored seeded change against the checks of the properties it breaks (meta.json: property +
# breaks) with the current machinery and writes seeded/MATRIX.md. Applies each patch to /repo and restores it.
REPO=${REPO:-/repo}
VERIF=${VERIF:-/verif}
cd $VERIF
OUT=${OUT:-seeded/MATRIX.md}
echo "# seeded changes x checks (quick tier), $(date -u +%F), /verif $(git rev-parse --short HEAD)" > $OUT
[ -n "${SEEDS:-}" ] || SEEDS=$(ls -d seeded/*/ | xargs -n1 basename)
echo >> $OUT
echo "| seed | check | outcome |" >> $OUT
echo "|---|---|---|" >> $OUT
for id in $SEEDS; do
  d=seeded/$id/
  [ -f $d/patch.diff ] || continue
  props=$(python3 -c "
import json,sys
m=json.load(open('$d/meta.json'))
ps=[m.get('property')]+list(m.get('breaks',[]))
seen=[]
for p in ps:
    if p and p not in seen: seen.append(p)
print(' '.join(seen))")
  git -C $REPO apply "$(realpath $d/patch.diff)" 2>/dev/null || { echo "| $id | - | patch does not apply |" >> $OUT; continue; }
  for p in $props; do
    ./check $p > /tmp/matrix.out 2>&1
    if grep -q "^VIOLATION.*no-failing-input-found" /tmp/matrix.out; then o="VIOLATION, no-failing-input-found";
    elif grep -q "^VIOLATION" /tmp/matrix.out; then o="VIOLATION with failing input";
    elif grep -q "^\[$p\]" /tmp/matrix.out; then o="quiet"; else o="check did not run ($(tail -1 /tmp/matrix.out | cut -c1-80))"; fi
    echo "| $id | $p | $o |" >> $OUT
  done
  git -C $REPO checkout -- .
done
git -C $REPO status --short >> $OUT
