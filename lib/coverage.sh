#!/bin/bash
# Measures which lines of /repo's sources the correspondence operations of the quick (or thorough) tier
# execute. It answers "how much of the modelled code does the tie actually exercise?": a line of
# merger.rs / subset.rs / shape/mod.rs / serde.rs / lexer.rs / the lelwel parser / json_shape_build
# that no operation reaches is a line on which the model is not compared with the code.
# Not a property check (registers nothing in MANIFEST.json); output: /verif/coverage/report.txt
# usage: lib/coverage.sh [quick|thorough]
set -eu
TIER=${1:-quick}
ROOT=/verif
T=$ROOT/out/covtarget
W=$ROOT/out/cov
B=$(dirname "$(rustup which --toolchain nightly rustc)")/../lib/rustlib/x86_64-unknown-linux-gnu/bin
rm -rf $W; mkdir -p $W $ROOT/coverage
cd $ROOT/harness
# build scripts are instrumented too: keep their profiles out of /repo
LLVM_PROFILE_FILE=$W/build-%p-%m.profraw CARGO_NET_OFFLINE=true RUSTFLAGS="-C instrument-coverage" \
  CARGO_TARGET_DIR=$T cargo +nightly build --release --offline 2>&1 | tail -1
H=$T/release/harness
for p in C01 C02 C03 C04 C05 C06 C07 C08 C09 C10 C11 C12 C13 C14 C15 C16 C17; do
  ( [ -f $ROOT/corpus/$p.txt ] && grep -v '^#' $ROOT/corpus/$p.txt || true
    LLVM_PROFILE_FILE=$W/gen-$p.profraw $H gen $p $TIER 1 ) | sed 's/\t![^\t]*$//' \
    | LLVM_PROFILE_FILE=$W/run-$p-%p.profraw $H run > /dev/null 2>&1 || true
done
$B/llvm-profdata merge -sparse $W/run-*.profraw -o $W/run.profdata
IGN='(registry|rustc/|harness/src|/library/)'
{
  echo "# correspondence coverage, tier=$TIER, /repo HEAD $(git -C /repo rev-parse --short HEAD), $(date -u +%F)"
  $B/llvm-cov report $H -instr-profile=$W/run.profdata --ignore-filename-regex="$IGN" 2>/dev/null \
    | awk 'NF>=10 && $1 !~ /^-/ {printf "%-75s lines %6s missed %6s  %s\n", $1, $(NF-5), $(NF-4), $(NF-3)}' 
  echo
  echo "# uncovered line ranges"
  $B/llvm-cov export $H -instr-profile=$W/run.profdata -format=lcov --ignore-filename-regex="$IGN" 2>/dev/null | python3 -c '
import sys,collections
cur=None; miss=collections.defaultdict(list)
for l in sys.stdin:
    l=l.strip()
    if l.startswith("SF:"): cur=l[3:]
    elif l.startswith("DA:"):
        a,b=l[3:].split(",")[:2]
        if int(b)==0: miss[cur].append(int(a))
for f,xs in sorted(miss.items()):
    out=[];s=p=None
    for x in xs:
        if s is None: s=p=x
        elif x==p+1: p=x
        else: out.append((s,p)); s=p=x
    if s is not None: out.append((s,p))
    f=f.replace("/verif/out/covtarget/release/build/","")
    print(f, " ".join(f"{a}-{b}" if a!=b else str(a) for a,b in out))
'
} > $ROOT/coverage/report.txt
rm -rf $W/*.profraw
cat $ROOT/coverage/report.txt | head -20
