#!/bin/bash
# usage: eval_seed.sh <patch> <prop>... : apply patch to /repo, run the named checks, restore /repo
P=$1; shift
git -C /repo apply "$P" || { echo "patch does not apply"; exit 2; }
for p in "$@"; do
  /verif/check $p 2>&1 | grep -E "^\[|VIOLATION|failing input|disagreement|broken" | head -4 | cut -c1-330
done
git -C /repo checkout -- .
git -C /repo status --short
