#!/bin/bash
# evidence of runs against a modified tree goes to a scratch directory, never to /verif/evidence
export VERIF_EVIDENCE_DIR=${VERIF_EVIDENCE_DIR:-/verif/out/evidence-scratch}
# usage: eval_seed.sh <patch> <prop>... : apply patch to /repo, run the named checks (quick tier), restore /repo
P=$1; shift
git -C /repo apply "$(realpath "$P")" || { echo "patch does not apply"; exit 2; }
for p in "$@"; do
  /verif/check $p > /tmp/eval_seed.out 2>&1
  grep -E "^\[" /tmp/eval_seed.out | cut -c1-200
  grep -E "failing input|disagreement|broken" /tmp/eval_seed.out | head -2 | cut -c1-330
  grep -E "^VIOLATION" /tmp/eval_seed.out
done
git -C /repo checkout -- .
git -C /repo status --short
