"""Compiles generated modules with rustc (through cargo, offline) the way the documentation shows
(`mod m { include!(..) }`), and deserialises their sources into the root types with the real serde.

run(cases) with cases = [(text, root_type_name, [source, ...])] returns, per case,
  {"compiles": bool, "diagnostics": [..], "sources": [("ok" | "de-fail <msg>" | "rt-fail"), ...]}
A module rustc rejects is removed and the batch is rebuilt, so one bad module does not hide the others.
"""
import os
import re
import shutil
import subprocess

ROOT = os.path.dirname(os.path.dirname(os.path.abspath(__file__)))
CRATE = os.path.join(ROOT, "genbatch")
HEADER = "// Generated `JsonShape` file.\nuse serde;\n\n"

MAIN_PRELUDE = r'''#![allow(warnings)]
use serde_json::Value;

/// equality up to number formatting and explicit nulls for absent optional members
fn eqv(src: &Value, back: &Value) -> bool {
    match (src, back) {
        (Value::Number(a), Value::Number(b)) => a.as_f64() == b.as_f64(),
        (Value::Array(a), Value::Array(b)) => a.len() == b.len() && a.iter().zip(b).all(|(x, y)| eqv(x, y)),
        (Value::Object(a), Value::Object(b)) => {
            a.iter().all(|(k, v)| b.get(k).is_some_and(|w| eqv(v, w)))
                && b.iter().all(|(k, w)| a.contains_key(k) || w.is_null())
        }
        (a, b) => a == b,
    }
}

fn check<T: serde::de::DeserializeOwned + serde::Serialize>(m: usize, j: usize, src: &str) {
    match serde_json::from_str::<T>(src) {
        Err(e) => println!("{m} {j} de-fail {}", e.to_string().replace('\n', " ")),
        Ok(v) => {
            let back = serde_json::to_value(&v).unwrap();
            let s: Value = serde_json::from_str(src).unwrap();
            println!("{m} {j} {}", if eqv(&s, &back) { "ok" } else { "rt-fail" });
        }
    }
}
'''


def rust_str(s):
    out = []
    for ch in s:
        if ch == "\\":
            out.append("\\\\")
        elif ch == '"':
            out.append('\\"')
        elif ch == "\n":
            out.append("\\n")
        elif ch == "\r":
            out.append("\\r")
        elif ch == "\t":
            out.append("\\t")
        elif ord(ch) < 0x20 or ord(ch) == 0x7f:
            out.append("\\u{%x}" % ord(ch))
        else:
            out.append(ch)
    return '"' + "".join(out) + '"'


def _write(cases, alive):
    src = os.path.join(CRATE, "src")
    gen = os.path.join(src, "gen")
    shutil.rmtree(gen, ignore_errors=True)
    os.makedirs(gen)
    main = [MAIN_PRELUDE]
    calls = []
    for i, (text, root, sources) in enumerate(cases):
        if not alive[i]:
            continue
        with open(os.path.join(gen, f"{i}.gen.shape.rs"), "w") as fh:
            fh.write(HEADER + text)
        main.append(f'mod m{i} {{ include!("gen/{i}.gen.shape.rs"); }}\n')
        for j, s in enumerate(sources):
            calls.append(f"    check::<m{i}::{root}>({i}, {j}, {rust_str(s)});\n")
    main.append("fn main() {\n" + "".join(calls) + "}\n")
    with open(os.path.join(src, "main.rs"), "w") as fh:
        fh.write("".join(main))


def _build():
    env = dict(os.environ, CARGO_NET_OFFLINE="true")
    p = subprocess.run(["cargo", "build", "--offline", "--message-format=short"], cwd=CRATE, env=env,
                       stdout=subprocess.PIPE, stderr=subprocess.STDOUT)
    return p.returncode, p.stdout.decode(errors="replace")


def run(cases):
    alive = [True] * len(cases)
    diags = [[] for _ in cases]
    results = [{"compiles": True, "diagnostics": [], "sources": []} for _ in cases]
    for _round in range(len(cases) + 1):
        _write(cases, alive)
        rc, log = _build()
        if rc == 0:
            break
        bad = set()
        for line in log.split("\n"):
            m = re.match(r"^src/gen/(\d+)\.gen\.shape\.rs:\d+:\d+: error(.*)$", line)
            if m:
                bad.add(int(m.group(1)))
                diags[int(m.group(1))].append(line)
        # errors reported against main.rs (e.g. a root type that does not implement Deserialize)
        for line in log.split("\n"):
            m = re.match(r"^src/main\.rs:(\d+):\d+: error(.*)$", line)
            if m:
                ln = int(m.group(1))
                src_line = open(os.path.join(CRATE, "src", "main.rs")).read().split("\n")[ln - 1]
                mm = re.search(r"check::<m(\d+)::", src_line)
                if mm:
                    bad.add(int(mm.group(1)))
                    diags[int(mm.group(1))].append(line)
        if not bad:
            raise RuntimeError("rustc batch failed without attributable diagnostics:\n" + log[-3000:])
        for b in bad:
            alive[b] = False
    else:
        raise RuntimeError("rustc batch did not converge")
    for i in range(len(cases)):
        if not alive[i]:
            results[i]["compiles"] = False
            results[i]["diagnostics"] = diags[i][:5]
    p = subprocess.run([os.path.join(CRATE, "target", "debug", "genbatch")], stdout=subprocess.PIPE)
    for line in p.stdout.decode(errors="replace").split("\n"):
        if not line:
            continue
        a, b, rest = line.split(" ", 2)
        results[int(a)]["sources"].append((int(b), rest))
    for i, r in enumerate(results):
        r["sources"] = [x[1] for x in sorted(r["sources"])]
        if alive[i] and len(r["sources"]) != len(cases[i][2]):
            raise RuntimeError(f"batch program answered {len(r['sources'])} of {len(cases[i][2])} sources for case {i}")
    # leave the crate in its committed (empty) state
    shutil.rmtree(os.path.join(CRATE, "src", "gen"), ignore_errors=True)
    with open(os.path.join(CRATE, "src", "main.rs"), "w") as fh:
        fh.write("fn main() {}\n")
    return results
