#!/bin/bash
# evidence of runs against a modified tree goes to a scratch directory, never to /verif/evidence
export VERIF_EVIDENCE_DIR=${VERIF_EVIDENCE_DIR:-/verif/out/evidence-scratch}
# usage: eval_refactor.sh <worktree> <id> : store a behaviour-preserving refactoring as a negative seed and run
# ALL 17 quick checks against it (expected: quiet, or at most no-failing-input-found where an internal count changed)
W=$1; ID=$2; D=/verif/seeded/$ID; mkdir -p $D
git -C $W diff -- json_shape/src json_shape_build/src > $D/patch.diff
cp $W/agent_meta.json $D/agent_meta.json 2>/dev/null
git -C /repo apply $D/patch.diff || { echo "patch does not apply"; exit 2; }
( cd /repo && cargo test --workspace --no-fail-fast --offline 2>&1 | grep -E "^test result" | awk '{p+=$4; f+=$6} END {print "suite: passed",p,"failed",f}' ) | tee $D/eval.log
for i in 01 02 03 04 05 06 07 08 09 10 11 12 13 14 15 16 17; do
  /verif/check C$i > /tmp/eval_refac.out 2>&1
  grep -E "^\[" /tmp/eval_refac.out | cut -c1-160
  grep -E "^VIOLATION" /tmp/eval_refac.out
  grep -E "disagreement|failing input|broken" /tmp/eval_refac.out | head -1 | cut -c1-300
done 2>&1 | tee -a $D/eval.log
git -C /repo checkout -- .
git -C /repo status --short
