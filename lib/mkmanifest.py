#!/usr/bin/env python3
"""Regenerates /verif/MANIFEST.json from lib/propdefs.py (run after adding a property)."""
import json, os, sys
ROOT = os.path.dirname(os.path.dirname(os.path.abspath(__file__)))
sys.path.insert(0, os.path.join(ROOT, "lib"))
import propdefs

ALL = [f"C{i:02d}" for i in range(1, 18)]
checks = []
for pid in ALL:
    if pid not in propdefs.PROPS:
        continue
    P = propdefs.PROPS[pid]
    checks.append({
        "property_id": pid,
        "quick_cmd": f"./check {pid} --tier quick",
        "thorough_cmd": f"./check {pid} --tier thorough",
        "evidence_file": f"/verif/evidence/{pid}.json",
        "replay_cmd_template": f"./check {pid} --replay {{path}}",
        "engine": "lean4-proof+correspondence",
        "level_claimed": {
            "category": "proof",
            "text": P["level_text"],
            "design_ref": P.get("design_ref", f"DESIGN.md §5 {pid}"),
        },
        "level_note": P["level_note"],
        "technique": P.get("technique", "Lean 4 theorem over a hand-written executable model + differential correspondence check against the real code"),
    })
manifest = {
    "version": 1,
    "setup_cmd": "cd /verif/lean && lake build driver ShapeVerif && cd /verif/harness && CARGO_NET_OFFLINE=true cargo build --release --offline && cd /verif/genbatch && CARGO_NET_OFFLINE=true cargo build --offline && cd /verif/macrocheck && CARGO_NET_OFFLINE=true cargo build --offline",
    "hooks": {
        "guard": "cargo feature `verif` of json_shape and json_shape_build (off by default)",
        "enable": "the harness crate /verif/harness depends on /repo/json_shape and /repo/json_shape_build by path with features = [\"verif\"]",
        "baseline_off_cmd": "cd /repo && cargo test --workspace --no-fail-fast --offline",
        "source_commits": propdefs.HOOK_COMMITS,
        "add_only": True,
    },
    "engines": [{
        "name": "lean4-proof+correspondence",
        "path": "/verif/check",
        "serves_properties": [c["property_id"] for c in checks],
        "kind_free_text": "Lean 4 theorems (lean/ShapeVerif/Props) about a hand-written executable model (lean/ShapeVerif/Model), tied to /repo on every run by a differential correspondence check (Rust harness in-process vs compiled Lean driver over one line protocol) and a property oracle on the implementation's own results using independent reference definitions (lean/ShapeVerif/Ref).",
    }],
    "checks": checks,
    "notes": "Genuine defects repaired in /repo as `fix:` commits and defects recorded instead are listed in /verif/known_findings.json and DESIGN.md §4.",
    "not_applicable": [{"property_id": p, "reason": propdefs.PENDING.get(p, "not yet built (planned in DESIGN.md §5)")}
                       for p in ALL if p not in propdefs.PROPS],
}
json.dump(manifest, open(os.path.join(ROOT, "MANIFEST.json"), "w"), indent=1)
print("MANIFEST.json:", len(checks), "checks,", len(manifest["not_applicable"]), "not claimed")
