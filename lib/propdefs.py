"""Per-property definitions for ./check: Lean obligations, oracles over the implementation's results."""

TRUSTED_BASE = [
    "Lean 4.33 kernel (thorough tier: re-checked with leanchecker); axioms limited to propext, Classical.choice, Quot.sound",
    "hand-written Lean model of /repo, tied to the code only by the correspondence check of this run (differential testing: exhaustive small scope + seeded random)",
    "reference definitions Ref/Sem.lean (admits) and Ref/Rfc8259.lean (grammar) are the specification",
    "std BTreeMap/BTreeSet/Vec modelled as sorted lists; serde_json, logos, lelwel output, codegen, convert_case, crc32 modelled or assumed, exercised by correspondence operations",
    "Lean compiler/runtime for the driver executable and the Rust harness (affect only the correspondence/oracle tests, not the theorems)",
]

HOOK_COMMITS = ["f98da77"]

PENDING = {}

PROPS = {
    "C10": {
        "module": "ShapeVerif.Props.C10",
        "theorems": ["ShapeVerif.subset_refl", "ShapeVerif.subset_as_optional",
                     "ShapeVerif.null_subset_optional", "ShapeVerif.similar_spec"],
        "statements": {
            "subset_refl": "∀ s, s.wf → isSubset s s = true",
            "subset_as_optional": "∀ s, s.wf → isSubset s s.asOptional = true",
            "null_subset_optional": "∀ s, s.isOptional → isSubset null s = true",
            "similar_spec": "similar a b = some c → c≈a ∧ c≈b up to the flag ∧ c.isOptional = (a.isOptional || b.isOptional) ∧ similar b a = some c ∧ a ⊑ c ∧ b ⊑ c",
        },
        "rule": "ops = subset/similar/as_optional/is_optional/keys on every shape of the small-scope universe (scalars, all containers of width<=2 over a 4-shape base, both flags), a depth-2 universe and seeded random shapes up to depth 4; all ordered pairs of the small universe plus random related pairs. Non-trivial = container shape involved or answer true.",
        "assumptions": ["shapes reaching the library are well-formed (BTreeMap/BTreeSet invariants), which the harness cannot violate"],
        "level_text": "All four clauses are Lean theorems over every shape (structural induction, no bound): subset_refl, subset_as_optional, null_subset_optional, similar_spec. The model's isSubset/similar/as_optional are compared with the real functions on every run (all pairs of a small-scope universe + random deep shapes), and the property is also evaluated directly on the real code for each generated case.",
        "level_note": "Trusted: Lean kernel; the hand-written model of value.rs/subset.rs/subtypes.rs (tied by differential testing only); BTreeMap/BTreeSet as sorted lists. Well-formedness (sorted, duplicate-free maps/sets) is a hypothesis every Rust value satisfies by construction.",
    },
    "C01": {
        "module": "ShapeVerif.Props.C01",
        "theorems": ["ShapeVerif.sources_sound", "ShapeVerif.one_more", "ShapeVerif.merger_never_evicts",
                     "ShapeVerif.infer_sound_C01", "ShapeVerif.d3_counterexample",
                     "ShapeVerif.merger_wf", "ShapeVerif.infer_wf"],
        "statements": {
            "sources_sound": "h ≠ [] → (∀ d ∈ h, inferDoc d succeeds) → (∀ d ∈ h, conflictFree d) → ∃ s, fromSourcesDoc h = ok s ∧ s.wf ∧ ∀ d ∈ h, admits s d",
            "one_more": "fromSourcesDoc h = ok s → fromSourcesDoc (h ++ [d]) = ok s' → admits s x → admits s' x   (no side condition)",
            "merger_never_evicts": "a.wf → b.wf → admits a x ∨ admits b x → admits (merger a b) x",
            "d3_counterexample": "[{\"a\":1},{\"a\":\"s\"}] is inferred as Array<Object{a: Number}>, which does not admit it (negation of the full statement on the known-finding witness)",
        },
        "partial": ["sources_sound carries the hypothesis conflictFree (the exact complement of known finding D3); the full statement is refuted by d3_counterexample",
                    "text level (JsonShape::from_sources on strings) composes with the parser model (C04); until then the text layer is covered by the correspondence/oracle on real texts"],
        "rule": "histories of 1-5 type-directed random documents (nesting <= 4, empty containers, arrays of objects with missing keys, tuples, repeated/re-rendered/tweaked documents), every prefix of each history, plus merger on all ordered pairs of the small-scope shape universe and single-document inference on random documents. Oracle: admits(from_sources(h), d) for every d in h and witness monotonicity between consecutive prefixes. Non-trivial = container shape involved.",
        "assumptions": ["documents are compared as parsed by the reference RFC 8259 parser (Ref/Rfc8259.lean); member names without escapes"],
        "level_text": "sources_sound (every source is a member of the inferred shape, any order/repetition) and one_more (adding a document never evicts) are Lean theorems over all histories, resting on merger_sound/merger_wf/infer_sound/infer_wf proved by induction over all shapes/documents. sources_sound is stated under conflictFree, the exact complement of recorded known finding D3 (pinned by the repo's own snapshot test); the negation on the D3 witness is proved too. merger, inference and from_sources of the model are compared with the real code on every run, and membership is re-checked on the real code's results with the independent `admits`.",
        "level_note": "Trusted: Lean kernel; hand-written model of shape/mod.rs (parse_rule on document trees), merger.rs, subset.rs tied by differential testing; reference semantics Ref/Sem.lean; the reference JSON parser stands in for the library's lexer/parser at this level (the text layer is C04's subject).",
    },
    "C02": {
        "module": "ShapeVerif.Props.C02",
        "theorems": ["ShapeVerif.subset_sound"],
        "statements": {
            "subset_sound": "∀ a b, b.wf → isSubset a b = true → ∀ d, admits a d → admits b d",
        },
        "partial": ["superset_sound (text level: is_superset(s, t) = true → t parses to a document admitted by s) is covered by the oracle only until the parser model lands; see DESIGN §5 C02"],
        "rule": "subset on all ordered pairs of the small-scope universe + random related pairs (widenings, merges, mutations); for every pair the code answers true, witness documents drawn from meaning(a) are checked against admits(b); (shape,text) pairs from inferred histories for is_superset / is_superset_checked, each true answer checked with admits. Non-trivial = answer true with a container on either side.",
        "assumptions": [],
        "level_text": "subset_sound is a Lean theorem for every pair of shapes (any constructor, both flags, any nesting): isSubset a b = true implies every document admitted by a is admitted by b, with `admits` an independent reference semantics. The consequence for is_superset on texts is checked by an oracle on the real code (admits on every true answer) and has one recorded known finding (D3 class).",
        "level_note": "Trusted: Lean kernel; model of subset.rs/subtypes.rs tied by differential testing; reference semantics Ref/Sem.lean. Text-level clause (is_superset) is not yet a theorem: it depends on the parser model and on inference soundness, which fails on the D3 class (known finding).",
    },
}


def skip_compare(op, impl, model):
    """Lines outside the modelled fragment are counted, not compared."""
    if impl == "unparsable":          # serde_json rejected the text: outside C06's quantifier
        return True
    if model == "unmodelled":
        return True
    return False


def nontrivial(pid, op, res):
    f = op.split("\t")
    if any("(" in x for x in f[1:]):
        return True
    return res in ("true",) or res.startswith("some")


def sample_indices(n):
    if n == 0:
        return []
    return sorted({0, n // 7, n // 3, n // 2, (2 * n) // 3, n - 1})


def oracle(pid, ops, impl, tier):
    """Returns [(driver_op, wanted_result_prefix, why, source_op)] evaluated with reference definitions."""
    out = []
    if pid in ("C01",):
        prev = None
        for o, r in zip(ops, impl):
            f = o.split("\t")
            if f[0] != "sourcesdoc":
                prev = None
                continue
            if r.startswith("ok "):
                shape = r[3:]
                for t in f[1:]:
                    out.append((f"admits\t{shape}\t{t}", "true", "every source must be a member of the shape inferred from the sources", o))
                # history monotonicity: this history extends the previous one by one document
                if prev is not None and f[1:-1] == prev[0]:
                    out.append((f"witness\t{prev[1]}\t{shape}", "ok", "feeding one more document must not remove an admitted document (witnesses of the previous shape)", o))
                prev = (f[1:], shape)
            else:
                prev = None
    if pid == "C02":
        for o, r in zip(ops, impl):
            f = o.split("\t")
            if f[0] == "subset" and r == "true":
                out.append((f"witness\t{f[1]}\t{f[2]}", "ok", "subset answered true: every witness of a must be admitted by b", o))
            elif f[0] == "superset" and r == "true":
                out.append((f"admits\t{f[1]}\t{f[2]}", "true", "is_superset answered true: the text must be admitted", o))
            elif f[0] == "supersetchk" and r == "ok true":
                out.append((f"admits\t{f[1]}\t{f[2]}", "true", "is_superset_checked answered Ok(true): the text must be admitted", o))
    return out


def expect_ok(got, want):
    """`want` ending in * is a prefix pattern."""
    if want.endswith("*"):
        return got.startswith(want[:-1])
    return got == want


def oracle_ok(got, want):
    return got == want or got.startswith(want + " ")


def widen(pid, ops):
    """Extra cases around disagreeing operations (sub-terms and rebuilt contexts)."""
    extra = []
    for o in ops:
        f = o.split("\t")
        if f[0] in ("subset",) and len(f) == 3:
            extra.append(o)
            extra.append(f"subset\t{f[1]}\t{f[1]}\t!true")
            extra.append(f"subset\t{f[2]}\t{f[2]}\t!true")
            extra.append(f"subset\t(A0 {f[1]})\t(A0 {f[2]})")
            extra.append(f"subset\t(T0 {f[1]})\t(T0 {f[2]})")
            extra.append(f"subset\t(V0 {f[1]})\t(V0 {f[2]})")
        elif f[0] in ("similar", "p_similar") and len(f) == 3:
            extra.append(f"p_similar\t{f[1]}\t{f[2]}\t!ok")
            extra.append(f"p_similar\t{f[2]}\t{f[1]}\t!ok")
        elif f[0] == "merger" and len(f) == 3:
            extra.append(o)
    return extra


TEXT_FIELDS = {"superset": [2], "supersetchk": [2], "inferdoc": [1], "inferv": [1], "admits": [2]}


def texts_of(op):
    f = op.split("\t")
    if f[0] in ("sourcesdoc", "sources", "p_sources"):
        return f[1:]
    return [f[i] for i in TEXT_FIELDS.get(f[0], []) if i < len(f)]


def match_known_batch(pid, failures, known, run_model):
    """For each failure the known-finding entry that covers it, or None.
    Class `d3`: some text of the failing operation contains an array of objects whose elements give
    one key two different value shapes (decided by the Lean reference function `conflictFree`)."""
    res = [None] * len(failures)
    if not known or not failures:
        return res
    by_class = {}
    for k in known:
        m = k.get("match", {})
        if "class" in m:
            by_class.setdefault(m["class"], k)
    for i, f in enumerate(failures):
        for k in known:
            m = k.get("match", {})
            if "op_equals" in m and f.get("op") == m["op_equals"]:
                res[i] = k
    if "d3" in by_class:
        def texts(f):
            # a failed membership check is classified by the failing document alone
            oo = f.get("oracle_op", "")
            if oo.startswith("admits\t"):
                return texts_of(oo)
            return texts_of(f.get("op", ""))
        idx = [i for i, f in enumerate(failures) if res[i] is None and texts(f)]
        if idx:
            ops = ["kfclass\td3\t" + "\t".join(texts(failures[i])) for i in idx]
            _, out = run_model(ops)
            for i, r in zip(idx, out):
                if r == "true":
                    res[i] = by_class["d3"]
    return res
