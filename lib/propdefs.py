"""Per-property definitions for ./check: Lean obligations, oracles over the implementation's results."""
import os
import re

TRUSTED_BASE = [
    "Lean 4.33 kernel (thorough tier: re-checked with leanchecker); axioms limited to propext, Classical.choice, Quot.sound",
    "hand-written Lean model of /repo, tied to the code only by the correspondence check of this run (differential testing: exhaustive small scope + seeded random)",
    "reference definitions Ref/Sem.lean (admits) and Ref/Rfc8259.lean (grammar) are the specification",
    "std BTreeMap/BTreeSet/Vec modelled as sorted lists; serde_json, logos, lelwel output, codegen, convert_case, crc32 modelled or assumed, exercised by correspondence operations",
    "Lean compiler/runtime for the driver executable and the Rust harness (affect only the correspondence/oracle tests, not the theorems)",
]

HOOK_COMMITS = ["f98da77", "3658628", "c3e47df"]

PENDING = {}

PENDING_TEXT = {
    "C04": ["ShapeVerif.accept_iff", "ShapeVerif.json_is_inferred", "ShapeVerif.json_rejected_only_for_conflict",
            "ShapeVerif.sources_iff", "ShapeVerif.rules_complete", "ShapeVerif.lexLoop_complete", "ShapeVerif.tvalue_unique",
            "ShapeVerif.accepted_is_json", "ShapeVerif.sources_accepted_are_json", "ShapeVerif.checked_ok_is_json",
            "ShapeVerif.accept_sound", "ShapeVerif.tokenize_sound", "ShapeVerif.rules_sound",
            "ShapeVerif.accept_no_diagnostics", "ShapeVerif.unchecked_false", "ShapeVerif.checked_iff",
            "ShapeVerif.sources_accept", "ShapeVerif.parse_sound", "ShapeVerif.parse_complete",
            "ShapeVerif.parse_iff_jsonText", "ShapeVerif.number_follow"],
    "C05": ["ShapeVerif.fromStr_total", "ShapeVerif.span_faithful", "ShapeVerif.entry_points_total",
            "ShapeVerif.sources_span_faithful", "ShapeVerif.tokenize_ok", "ShapeVerif.parse_leaves",
            "ShapeVerif.classifyArray_never_fails", "ShapeVerif.classifyArrayV_total",
            "ShapeVerif.rejectDiagnostics_no_panic", "ShapeVerif.isSuperset_never_errs", "ShapeVerif.work_bounds",
            "ShapeVerif.text_layer_terminates", "ShapeVerif.parser_steps_linear", "ShapeVerif.twin_agrees",
            "ShapeVerif.twin_total", "ShapeVerif.lexLoopO_eq", "ShapeVerif.tree_depth_bounded", "ShapeVerif.rules_depth",
            "ShapeVerif.tokenize_depth"],
    "C07": ["ShapeVerif.render_independent", "ShapeVerif.same_document_same_result",
            "ShapeVerif.rerender_same_shape", "ShapeVerif.infer_member_order",
            "ShapeVerif.infer_payload_independent", "ShapeVerif.infer_factors", "ShapeVerif.infer_repetition",
            "ShapeVerif.infer_scalar_forms"],
}

PROPS = {
    "C13": {
        "module": "ShapeVerif.Props.C13",
        "theorems": ["ShapeVerif.defined_once", "ShapeVerif.refs_defined", "ShapeVerif.createSubtype_covers",
                     "ShapeVerif.createSubtype_definesOnce_aux", "ShapeVerif.fields_legal", "ShapeVerif.toSnake_lower"],
        "extra_modules": ["ShapeVerif.Props.C13Fields"],
        "statements": {
            "defined_once": "∀ s, the names of the struct/enum items emitted for s are pairwise distinct",
            "refs_defined": "∀ s, ∀ item ∈ firstPass s, every named type occurring in the item's field / variant / alias types is the name of an item of firstPass s (the module is self-contained)",
            "fields_legal": "badFields s = false → every struct emitted for s (at any nesting depth) has field names that are legal Rust identifiers (letters/digits/underscore, not a keyword, not `_`) and pairwise distinct — badFields is exactly the recorded class D17 (a member name that is not a legal field name as it stands, is changed by snake-casing, or shares its snake form with another member of the same object)",
            "toSnake_lower": "every non-empty name of lower-case ASCII letters is left unchanged by convert_case's snake conversion (so D17's complement contains all such names)",
        },
        "partial": ["proved for all shapes: every struct/enum name is defined once (D15 repair) and every referenced type name is defined in the module (refs_defined); proved for all shapes outside the recorded class D17: every field name is a legal, distinct identifier (fields_legal). Not theorems: legality of field names inside D17 (false of the code) and everything else rustc checks (variant-name clashes D16, tuple arity D19, derive bounds); decided on every generated file by the independent item parser and name-resolution check, and on batches by rustc",
                    "known findings: member names whose snake form is not a legal or distinct field name (D17), tuples of more than 12 elements (D19)"],
        "rule": "gen on shapes inferred from random histories (`gen`, property domain) and on arbitrary shapes (`genx`, model/code comparison only), compile on source sets: the returned text is parsed by an independent parser of codegen's item syntax, names are resolved (each referenced type defined exactly once or standard, legal distinct field/variant/type names, tuple arity), and the first 60 (thorough: 600) modules that pass are included in a module as documented and compiled by rustc against serde. Non-trivial = a module with at least one struct or enum. Third session: source sets with member names of every awkward category (non-ASCII letters, keywords, leading digits, underscores, case/separator collisions, 300 characters, names of types the code mentions), 40-member objects, 40 levels, 24 distinct sub-structs, 130-260 repeats of one sub-struct then a new one, tuples of 11-25 slots, numbers of every lexical kind, every pair/triple of nine small objects; the FILE written is checked to be the returned items behind a header legal inside a module; macrocheck includes a non-ASCII collection through the real macro. Also: sibling values that differ only in an inner optional position, tuples that only regroup the same leaves as variants of one OneOf, dictionary words as member names and collection names. Every run also uses the source dictionary (string and integer literals of the library's non-test source as member names / values / texts / collection names and as sizes n-1, n, n+1) and repeats the whole operation list in reverse order in fresh processes, with env-var-like literals set, reporting answers that differ (hidden state).",
        "assumptions": ["rustc and serde_derive as installed decide 'compiles' for the batches; the item parser + resolution check decides it on every case"],
        "level_text": "The generator (first_pass, create_subtype, shape_name with CRC-32 and convert_case, shape_representation, codegen's rendering) is modelled in Lean and compared with the real generator on every case of the run. Theorems over all shapes: no struct/enum name is emitted twice (defined_once) and every type name the module refers to is defined in it (refs_defined). Field-name legality is false of the code (known finding D17); it and the rest of 'compiles' are decided per generated file by an independent parser + resolution check and by rustc on batches.",
        "level_note": "Trusted: Lean kernel; Lean model of json_shape_build (differential, byte-exact); lib/rustitems.py as the Rust-item parser; rustc for batches.",
        "trusted_extra": ["lib/rustitems.py: parser of codegen's item syntax and name-resolution check (independent of the Lean model)", "rustc + serde_derive for the compiled batches"],
    },
    "C14": {
        "module": "ShapeVerif.Props.C14",
        "theorems": ["ShapeVerif.generated_types_mirror", "ShapeVerif.definitions_mirror", "ShapeVerif.repr_decodes",
                     "ShapeVerif.resolver_exists", "ShapeVerif.items_from_named", "ShapeVerif.repr_decodes_nameless"],
        "statements": {
            "repr_decodes": "∀ s (no Tuple of length 1) and resolver env, Resolves env s → decodeTy env (shapeRepr s) = some s: the type expression written for a shape in field/variant/alias position reads back as that shape (f64/String/bool/(), Option for optional, Vec, tuples in order, named types through the resolver)",
            "repr_decodes_nameless": "for shapes without Object/OneOf the read-back needs no resolver at all",
        },
        "partial": ["generated_types_mirror: for every shape whose type names do not clash (NoClash, the complement of known finding D16) the root type expression reads back as the shape and every struct/enum of the module mirrors its sub-shape (one field per member in order, field name = snake form of the member name, field type reading back as the member's shape; one variant per variant shape) with respect to one resolver read off the shape. The root item of an optional Object/OneOf is the bare struct (known finding D22); the rendering of items to text is compared, not proved",
                    "known findings: name clashes (D16) make a reference resolve to another shape's struct; a root optional Object/OneOf is emitted without Option (D22)"],
        "rule": "every generated file (gen on inferred shapes, compile on source sets) with identifier-like member names is parsed and decoded back into a shape, following type references from the root item, and compared with the inferred shape: kinds, optional flags, element order, variants as sets, members by position (and by name when names are already snake_case). Non-trivial = a shape with a container. Third session: same added source sets as C13, incl. the sequences that reach an optional OneOf variant of every kind and tuples of 13-25 slots. Also: as C13. Every run also uses the source dictionary (string and integer literals of the library's non-test source as member names / values / texts / collection names and as sizes n-1, n, n+1) and repeats the whole operation list in reverse order in fresh processes, with env-var-like literals set, reporting answers that differ (hidden state).",
        "assumptions": [],
        "level_text": "generated_types_mirror is a Lean theorem over all shapes without type-name clashes: the type written for a shape reads back as exactly that shape (f64/String/bool/(), Option, Vec, tuples in order, named types) and every generated struct/enum definition mirrors its Object/OneOf sub-shape member by member / variant by variant. The generator model is compared with the real generator each run, and the read-back is recomputed on the real output by an independent decoder.",
        "level_note": "Trusted: Lean kernel; Lean model of json_shape_build (differential, byte-exact); lib/rustitems.py decoder.",
        "trusted_extra": ["lib/rustitems.py: parser of codegen's item syntax and decoder of items into shapes (independent of the Lean model)"],
    },
    "C15": {
        "module": "ShapeVerif.Props.C15",
        "extra_modules": ["ShapeVerif.Props.C01", "ShapeVerif.Props.C15Back"],
        "theorems": ["ShapeVerif.admits_deserializes", "ShapeVerif.admits_deserializes_root", "ShapeVerif.sources_deserialize",
                     "ShapeVerif.oneOf_rejects_sources", "ShapeVerif.null_member_missing", "ShapeVerif.empty_object_rejects",
                     "ShapeVerif.root_optional_rejects_null", "ShapeVerif.admits_roundtrips", "ShapeVerif.serdeBack_accepts",
                     "ShapeVerif.serdeBackFields_spec"],
        "statements": {
            "sources_deserialize": "∀ non-empty conflict-free history h of documents without repeated member names: fromSourcesDoc h = ok s, and if s has no OneOf, no empty object, no Null-typed member and is not a root optional object, every d ∈ h is accepted by serde for the generated root type (C01 composed with admits_deserializes_root)",
            "admits_deserializes": "s.wf → hasOneOf s = false → hasEmptyObject s = false → noNullMembers s = true → docNoDup d → admits s d → serdeAccepts s d: every document admitted by the shape is accepted by serde's derive for the generated type (struct = map with unknown fields ignored and only Option fields omissible, Vec, fixed-length tuple, () and Option read null)",
            "admits_roundtrips": "(same hypotheses) → ∃ d', serdeBack s d = some d' ∧ backEq d d': the value read from an admitted document is written back as a document equal to the source up to number formatting, member order and explicit nulls for absent optional members (serdeBack = to_value ∘ from_str for the generated type: structs write every field in declaration order, an absent Option field as null, unknown members are gone)",
            "serdeBack_accepts": "(serdeBack s d).isSome = serdeAccepts s d for every shape and document: the two models of the derive agree on when a document is read",
            "oneOf_rejects_sources": "no non-null bare document is accepted by the externally tagged enum generated for OneOf (known finding D18)",
            "null_member_missing": "a member of shape Null absent from a source is a missing `()` field (known finding D23)",
        },
        "partial": ["deserialisation clause proved in the model for OneOf-free shapes without Null-typed members and legal field names; with C01 (sources admitted by the inferred shape) it gives: every source deserialises. The serialise-back clause is a theorem in the same fragment (admits_roundtrips) about serdeBack, the model of to_value ∘ from_str, whose verdict is compared with the generated program's on every accepted (shape, source)",
                    "serde's derive is a model (serdeAccepts), validated against the real serde on every compiled case",
                    "known findings: D18 (OneOf → externally tagged enum), D17 (renamed fields without serde(rename)), D19 (empty object → unit struct), D22 (root optional), D23 (Null member absent), D16 (name clash), D3 (unsound inference on conflicting arrays of objects)"],
        "rule": "source sets (half from a generator of clean histories: non-empty snake_case objects, homogeneous arrays, tuples, dropped/null members; half arbitrary histories) are compiled by compile_json; modules that pass C13's resolution check are compiled by rustc in a batch (quick: 60 sets, thorough: 600) and every source is deserialised into the root type, serialised back and compared up to number formatting and explicit nulls. The real verdict is compared with serdeAccepts on the same (shape, document). Non-trivial = document accepted into a type with a struct. Third session: same added source sets as C13; the resolver knows Rust's primitive types, so a field typed e.g. u64 reaches the rustc/serde batch instead of being dropped. Also: as C13. Every run also uses the source dictionary (string and integer literals of the library's non-test source as member names / values / texts / collection names and as sizes n-1, n, n+1) and repeats the whole operation list in reverse order in fresh processes, with env-var-like literals set, reporting answers that differ (hidden state).",
        "assumptions": ["rustc, serde_derive, serde_json as installed"],
        "level_text": "admits_deserializes (every admitted document is read) and admits_roundtrips (and written back equal to the source up to number formatting and explicit nulls) are Lean theorems over all shapes in the stated fragment and all documents; the excluded classes are exactly the recorded known findings, each with a proved witness. The derive model is compared with the real serde on every (shape, source) of the compiled batches, and the generator model byte for byte with the real generator.",
        "level_note": "Trusted: Lean kernel; serdeAccepts as model of serde's derive (differential against real serde); generator model (differential); reference semantics admits.",
        "trusted_extra": ["rustc + serde_derive + serde_json for the compiled batches", "lib/rustitems.py for the root type name"],
    },
    "C16": {
        "module": "ShapeVerif.Props.C16",
        "theorems": ["ShapeVerif.path_matches", "ShapeVerif.file_is_header_plus_text", "ShapeVerif.compile_deterministic",
                     "ShapeVerif.name_congr", "ShapeVerif.name_clash_witness", "ShapeVerif.name_prefix_separates",
                     "ShapeVerif.compile_ok_writes", "ShapeVerif.compile_error_leaves_fs", "ShapeVerif.compile_ok_iff",
                     "ShapeVerif.compile_twice", "ShapeVerif.compile_never_panics", "ShapeVerif.history_file_is_last_text",
                     "ShapeVerif.targetPath_inj"],
        "statements": {
            "path_matches": "the path written (OUT_DIR joined with `<name>.gen.shape.rs`) is the path the include macro reads, for every name without `/` (dots included)",
            "compile_deterministic": "the model compiler is a function of the source texts: same sources, same bytes",
            "name_congr": "equal shapes receive equal names (shapeName is a function of the shape)",
            "name_clash_witness": "two different object shapes with the same value types receive the same name (known finding D16, concrete witness)",
            "compile_ok_writes": "compileJson fs env name paths = (fs', ok t) → fs'.read (macroPath dir name) = some (header ++ t) ∧ ∀ p ≠ target, fs'.read p = fs.read p   (any prior file system, e.g. one that already holds an older output)",
            "compile_error_leaves_fs": "compileJson fs env name paths = (fs', out) → out is not ok → fs' = fs",
            "compile_ok_iff": "a request succeeds ↔ every path is readable ∧ the list is non-empty ∧ from_str accepts every text (so unreadable / invalid / empty lists are errors, and nothing else is)",
            "compile_twice": "target ∉ paths → compileJson fs .. = (fs1, ok t) → ∃ fs2, compileJson fs1 .. = (fs2, ok t) ∧ ∀ p, fs2.read p = fs1.read p",
            "history_file_is_last_text": "after ANY sequence of requests into one directory (any names and source lists, failures in between), the file of each collection name holds header ++ the text returned by the last successful request for that name; names that never succeeded keep their previous file",
            "targetPath_inj": "different collection names are written to different files",
        },
        "partial": ["'different sub-shapes receive different names' is false of the code (D16, pinned by the build tests' expected names) and is a recorded known finding; proved instead: names separate shapes of different kind/arity/optional flag (name_prefix_separates)",
                    "the file system is an abstract map path → content (Model/Build.lean): std::fs::{read_to_string, write}, PathBuf::join, env::var_os are assumed to behave as that map; the real compile_json is run on the same request histories and its directory compared with the model's after every request"],
        "rule": "p_c16 on source sets x 5 collection names (with dots and dashes) in fresh OUT_DIRs: exactly one file `<name>.gen.shape.rs`, content = header + returned text, second run byte-identical, returned text = generator's text for the shape the library infers, build crate's inference = library's inference; invalid/empty source lists: Err and empty OUT_DIR. p_c16h: histories of 2-5 requests into ONE directory (all ordered pairs of 10 source lists incl. invalid, unreadable, empty and mixed lists under one name; random histories over 4 names incl. dotted ones), sources written before the first request or just before each: after every request the directory must be exactly {name ↦ header + last returned text}; the results and the final directory are compared with the model's runBuild. Names: across all generated files of the run the maps sub-shape → type name and type name → sub-shape must both be functions. Non-trivial = successful compilation. Third session: same added source sets as C13; OUT_DIR variants (trailing slash, unusual directory name, relative, unset), source file names sorting in reverse of the list order. Also: as C13; a non-UTF-8 OUT_DIR among the request histories. Every run also uses the source dictionary (string and integer literals of the library's non-test source as member names / values / texts / collection names and as sizes n-1, n, n+1) and repeats the whole operation list in reverse order in fresh processes, with env-var-like literals set, reporting answers that differ (hidden state).",
        "assumptions": ["std::fs and PathBuf behave as the abstract map of Model/Build.lean (exercised by p_c16 / p_c16h on a real temporary directory)"],
        "level_text": "compile_json is modelled as a step of a state machine over an abstract file system; for every prior state and every history of requests Lean proves: a failing request changes nothing, a successful one leaves header + returned text at the path the macro reads and touches no other file, requests succeed exactly on readable non-empty lists of accepted texts, recompiling is idempotent, and after any history each collection's file is the last returned text. Path agreement and name congruence are theorems; name injectivity is false (D16, known finding with proved witness). The model's generated text is compared byte for byte with the real generator, and the real compile_json is run on the same request histories (fresh and reused OUT_DIRs) with its directory compared with the model's.",
        "level_note": "Trusted: Lean kernel; Lean model of json_shape_build incl. the abstract file system (differential: byte-exact text, directory contents per request history); std::fs and PathBuf::join assumed to behave as the abstract map.",
    },
    "C09": {
        "module": "ShapeVerif.Props.C09",
        "theorems": ["ShapeVerif.converge", "ShapeVerif.mergeRep_stable", "ShapeVerif.absorb_meaning_shapes",
                     "ShapeVerif.absorb_stable", "ShapeVerif.absorbed_upper",
                     "ShapeVerif.size_independent_of_repetitions", "ShapeVerif.converge_text",
                     "ShapeVerif.readd_any", "ShapeVerif.readd_any_text"],
        "extra_modules": ["ShapeVerif.Props.TextLevel"],
        "statements": {
            "readd_any": "fromSourcesDoc h = ok a → (∀ d ∈ r, d ∈ h) → ∃ s, fromSourcesDoc (h ++ r) = ok s ∧ meaningEq s a   (any sequence r of already-seen documents, any order and multiplicity)",
            "converge": "d ∈ h → fromSourcesDoc h = ok a → ∀ k, ∃ sk, fromSourcesDoc (h ++ [d]*k) = ok sk ∧ meaningEq sk a ∧ (1 ≤ k → fromSourcesDoc (h ++ [d]*(k+1)) = ok sk)",
            "absorb_stable": "a.wf → b.wf → isSubset b a → merger (merger a b) b = merger a b",
            "absorbed_upper": "a.wf → b.wf → isSubset b a → admits (merger a b) x → admits a x",
        },
        "partial": ["the property's last clause (size bounded by the structural variety of the sources) is proved in the form it is quantified: the shape, hence its size, does not depend on the number of repetitions (size_independent_of_repetitions); no closed-form bound in terms of variety is claimed"],
        "rule": "p_c09: for every history (all sequences of length <= 2 over 19 fixed documents + random histories of 1-5 documents) and every document d of it, d is re-fed k=4 (thorough: 16) times; the shape must be identical from the first repetition on, and the printed shapes are compared with the base shape by witnesses of the reference semantics in both directions; plus subset/merger/p_keeps on reachable (sample, accumulator, sample) triples. p_reorder (fourth session, the run-time instance of readd_any): for every group p_cycle uses, the sources are followed by themselves reversed, in order, and the first once more; from_sources must succeed and the shape must admit the same witnesses as the base shape in both directions. p_cycle: groups of 2-3 documents (all ordered pairs of 25 fixed documents, at top level, below a member and inside a tuple; random groups) are fed 2, 4, 8 and 16 times in turn, and the printed size of the resulting shape must not keep growing (size(4) < size(8) < size(16) is a failure). Non-trivial = history with a container. Third session: plus n equal sources and one differing (n = 8..33). Also: position histories with every document re-fed (p_c09, p_cycle), long histories with two different records and one background record re-added k times (p_readd). Every run also uses the source dictionary (string and integer literals of the library's non-test source as member names / values / texts / collection names and as sizes n-1, n, n+1) and repeats the whole operation list in reverse order in fresh processes, with env-var-like literals set, reporting answers that differ (hidden state).",
        "assumptions": [],
        "level_text": "converge is a Lean theorem over all histories and all k: re-adding a source keeps the meaning (meaningEq) and the shape is literally stable from the first repetition; readd_any extends the meaning clause to any sequence of already-seen sources in any order and multiplicity (fourth session). It composes samples_accepted (C03) with absorb_stable and absorbed_upper, both proved for all well-formed shapes by induction over merger's arms. Only closes on the code after the D6/D7 repairs. merger, is_subset, from_sources are compared with the real code on the reachable domain each run, and stability/meaning are re-evaluated on the real from_sources.",
        "level_note": "Trusted: Lean kernel; models of merger.rs, subset.rs, shape/mod.rs (differential testing); reference semantics for the meaning comparison (witness search is testing).",
    },
    "C11": {
        "module": "ShapeVerif.Props.C11",
        "theorems": ["ShapeVerif.serde_roundtrip", "ShapeVerif.display_inj", "ShapeVerif.display_deterministic",
                     "ShapeVerif.prefixFree_aux"],
        "statements": {
            "serde_roundtrip": "s.wf → deserialize (serJ s) = some s   (tree level: externally tagged enum, maps as objects, sets as sequences re-inserted on read)",
            "display_inj": "identKeys a → identKeys b → display a = display b → a = b   (character level; Display texts form a prefix code)",
        },
        "rule": "every shape of the small-scope and depth-2 universes + random shapes to depth 4 (+ objects whose keys need JSON escaping): Display text, serde_json::to_string text (compared byte for byte with the model's rendering), round trip through text and through serde_json::Value, determinism (serialised twice, via Value, Display twice); among shapes with identifier-like keys no two print the same text. Non-trivial = container shape. Third session: every shape also sits beside its optional twin inside a OneOf; every cmp carries the oracle 'Equal exactly for equal shapes'. Every run also uses the source dictionary (string and integer literals of the library's non-test source as member names / values / texts / collection names and as sizes n-1, n, n+1) and repeats the whole operation list in reverse order in fresh processes, with env-var-like literals set, reporting answers that differ (hidden state). Also: one object of 300 000 (thorough 600 000) members with pairwise different shapes whose Display must be composed of the members' Display texts (a birthday-sized case for anything keyed by a hash).",
        "assumptions": ["serde_json's text layer (escaping, parsing) and serde's derive representation are trusted; the model's rendering is compared with the real output byte for byte",
                        "Display of non-ASCII member names consults Unicode tables (char::is_alphanumeric): outside the modelled fragment, skipped in the comparison; injectivity is claimed for [A-Za-z0-9_-]+ keys as the property states"],
        "level_text": "serde_roundtrip (for every well-formed shape, reading back the serialised tree yields the shape) and display_inj (for identifier-like member names the Display text determines the shape; proved at character level by showing Display texts form a prefix code) are Lean theorems over all shapes. The model's Display and JSON text are compared with the real output on every run; round trip, determinism and injectivity are re-checked on the real code.",
        "level_note": "Trusted: Lean kernel; model of Display (value.rs) and of the derived Serialize/Deserialize representation; serde/serde_json themselves.",
    },
    "C10": {
        "module": "ShapeVerif.Props.C10",
        "theorems": ["ShapeVerif.subset_refl", "ShapeVerif.subset_as_optional",
                     "ShapeVerif.null_subset_optional", "ShapeVerif.similar_spec"],
        "statements": {
            "subset_refl": "∀ s, s.wf → isSubset s s = true",
            "subset_as_optional": "∀ s, s.wf → isSubset s s.asOptional = true",
            "null_subset_optional": "∀ s, s.isOptional → isSubset null s = true",
            "similar_spec": "similar a b = some c → c≈a ∧ c≈b up to the flag ∧ c.isOptional = (a.isOptional || b.isOptional) ∧ similar b a = some c ∧ a ⊑ c ∧ b ⊑ c",
        },
        "rule": "ops = subset/similar/as_optional/is_optional/keys on every shape of the small-scope universe (scalars, all containers of width<=2 over a 4-shape base, both flags), a depth-2 universe and seeded random shapes up to depth 4; all ordered pairs of the small universe plus random related pairs. Non-trivial = container shape involved or answer true. Third session: plus the depth-2 universe as ordered pairs, wide shapes (5-65 entries) with twins, chains of every container kind to depth 300, and the eight is_* predicates. Every run also uses the source dictionary (string and integer literals of the library's non-test source as member names / values / texts / collection names and as sizes n-1, n, n+1) and repeats the whole operation list in reverse order in fresh processes, with env-var-like literals set, reporting answers that differ (hidden state).",
        "assumptions": ["shapes reaching the library are well-formed (BTreeMap/BTreeSet invariants), which the harness cannot violate"],
        "level_text": "All four clauses are Lean theorems over every shape (structural induction, no bound): subset_refl, subset_as_optional, null_subset_optional, similar_spec. The model's isSubset/similar/as_optional are compared with the real functions on every run (all pairs of a small-scope universe + random deep shapes), and the property is also evaluated directly on the real code for each generated case.",
        "level_note": "Trusted: Lean kernel; the hand-written model of value.rs/subset.rs/subtypes.rs (tied by differential testing only); BTreeMap/BTreeSet as sorted lists. Well-formedness (sorted, duplicate-free maps/sets) is a hypothesis every Rust value satisfies by construction.",
    },
    "C01": {
        "module": "ShapeVerif.Props.C01",
        "extra_modules": ["ShapeVerif.Props.TextLevel"],
        "theorems": ["ShapeVerif.sources_sound", "ShapeVerif.one_more", "ShapeVerif.many_more", "ShapeVerif.many_more_text", "ShapeVerif.merger_never_evicts",
                     "ShapeVerif.infer_sound_C01", "ShapeVerif.d3_counterexample",
                     "ShapeVerif.merger_wf", "ShapeVerif.infer_wf", "ShapeVerif.sources_sound_text", "ShapeVerif.fromSources_reads"],
        "statements": {
            "sources_sound": "h ≠ [] → (∀ d ∈ h, inferDoc d succeeds) → (∀ d ∈ h, conflictFree d) → ∃ s, fromSourcesDoc h = ok s ∧ s.wf ∧ ∀ d ∈ h, admits s d",
            "one_more": "fromSourcesDoc h = ok s → fromSourcesDoc (h ++ [d]) = ok s' → admits s x → admits s' x   (no side condition)",
            "merger_never_evicts": "a.wf → b.wf → admits a x ∨ admits b x → admits (merger a b) x",
            "d3_counterexample": "[{\"a\":1},{\"a\":\"s\"}] is inferred as Array<Object{a: Number}>, which does not admit it (negation of the full statement on the known-finding witness)",
        },
        "partial": ["sources_sound carries the hypothesis conflictFree (the exact complement of known finding D3); the full statement is refuted by d3_counterexample",
                    "text level: sources_sound_text states the same about the strings given to from_sources, through accept_iff (C04): every accepted source text has a reading (a cut into RFC lexemes and the document they derive) that the shape admits"],
        "rule": "histories of 1-5 type-directed random documents (nesting <= 4, empty containers, arrays of objects with missing keys, tuples, repeated/re-rendered/tweaked documents), every prefix of each history, plus merger on all ordered pairs of the small-scope shape universe and single-document inference on random documents. Oracle: admits(from_sources(h), d) for every d in h and witness monotonicity between consecutive prefixes. Non-trivial = container shape involved. Third session: plus the depth-2 shape universe as ordered pairs for merger (half in quick, all in thorough), every array of 1-3 elements over twelve base documents / every object over them / arrays of 2-3 small objects / arrays of two 2-arrays (exhaustive), arrays of objects whose elements disagree about a key (every ordered pair/triple of ten value kinds), elements equal up to one nested flag, WIDTH families (arrays of n equal elements with one differing last/middle element, wide objects, n = 7..300; n equal sources and one differing, n = 8..300) — all fed as sources too. Also: position histories (every ordered pair / triple of twenty small documents in six contexts), long histories with two different records among n equal ones, space twins, one name spelled differently in sibling elements. Every run also uses the source dictionary (string and integer literals of the library's non-test source as member names / values / texts / collection names and as sizes n-1, n, n+1) and repeats the whole operation list in reverse order in fresh processes, with env-var-like literals set, reporting answers that differ (hidden state).",
        "assumptions": ["documents are compared as parsed by the reference RFC 8259 parser (Ref/Rfc8259.lean); member names without escapes"],
        "level_text": "sources_sound (every source is a member of the inferred shape, any order/repetition) and one_more (adding a document never evicts) are Lean theorems over all histories, resting on merger_sound/merger_wf/infer_sound/infer_wf proved by induction over all shapes/documents. sources_sound is stated under conflictFree, the exact complement of recorded known finding D3 (pinned by the repo's own snapshot test); the negation on the D3 witness is proved too. merger, inference and from_sources of the model are compared with the real code on every run, and membership is re-checked on the real code's results with the independent `admits`.",
        "level_note": "Trusted: Lean kernel; hand-written model of shape/mod.rs (parse_rule on document trees), merger.rs, subset.rs tied by differential testing; reference semantics Ref/Sem.lean; the reference JSON parser stands in for the library's lexer/parser at this level (the text layer is C04's subject).",
    },
    "C03": {
        "module": "ShapeVerif.Props.C03",
        "extra_modules": ["ShapeVerif.Props.TextLevel"],
        "theorems": ["ShapeVerif.samples_accepted", "ShapeVerif.superset_of_sample", "ShapeVerif.self_accepted",
                     "ShapeVerif.keeps", "ShapeVerif.newSample", "ShapeVerif.sub_trans_plain",
                     "ShapeVerif.merger_tupleFlat", "ShapeVerif.infer_plain", "ShapeVerif.superset_of_sample_text"],
        "statements": {
            "samples_accepted": "fromSourcesDoc h = ok s → ∀ d ∈ h, ∃ sd, inferDoc d = ok sd ∧ isSubset sd s = true   (all histories, no side condition)",
            "keeps": "s.plain → a.wf → b.wf → a.tupleFlat → b.plain → isSubset s a → isSubset s (merger a b)",
            "newSample": "b.plain → a.wf → b.wf → isSubset b (merger a b)",
            "self_accepted": "s.wf → isSubset s s",
        },
        "partial": ["text level: superset_of_sample_text — for source texts with readings, from_sources(texts) = ok s implies is_superset(s, t) = true and is_superset_checked(s, t) = Ok(true) for every source text t"],
        "rule": "histories of 1-5 type-directed random documents (as C01) through p_c03: from_sources(h), then for every i the three API calls from_str(d_i).is_subset(S), S.is_superset(d_i), S.is_superset_checked(d_i)==Ok(true), and S.is_subset(S); evaluated on the real code and on the model. Non-trivial = history of >= 2 documents with a container. Third session: plus n equal sources and one differing (n = 8..300) and documents as deep as the parser accepts. Also: position histories (pairs and triples), long histories with two different records, widening that feeds the second operand first. Every run also uses the source dictionary (string and integer literals of the library's non-test source as member names / values / texts / collection names and as sizes n-1, n, n+1) and repeats the whole operation list in reverse order in fresh processes, with env-var-like literals set, reporting answers that differ (hidden state).",
        "assumptions": [],
        "level_text": "samples_accepted is a Lean theorem over all histories of document trees: every single-document shape is reported as a subset of the merged shape. It rests on two lemmas proved for all shapes by induction over the 64 arms of merger (keeps, newSample), transitivity of is_subset into OneOf-free shapes, and invariants (wf, tupleFlat, plain) proved preserved. The proof only closes on the code repaired by the D6 fix; the pre-fix witnesses are kept as corpus entries. is_subset, merger and from_sources are compared with the real code on every run and the three API calls are re-evaluated on the real code.",
        "level_note": "Trusted: Lean kernel; models of subset.rs, merger.rs, shape/mod.rs tied by differential testing; text layer via the reference parser until C04.",
    },
    "C04": {
        "module": "ShapeVerif.Props.C04Complete",
        "extra_modules": ["ShapeVerif.Props.C04Sound", "ShapeVerif.Props.C04", "ShapeVerif.Lemmas.RfcSound", "ShapeVerif.Lemmas.RfcComplete"],
        "theorems": PENDING_TEXT["C04"],
        "statements": {
            "parse_sound": "Rfc.parse cs = some d → JsonText cs (specDoc d): the executable recursive-descent reading of RFC 8259 that the run-time oracle uses accepts only texts that are JSON in the sense of the specification accept_iff is stated against, with the same document (payloads erased, member names unescaped)",
            "parse_complete": "JsonText cs d → ∃ d', Rfc.parse cs = some d' ∧ specDoc d' = d: every text that can be cut into RFC lexemes deriving a document in the token grammar is accepted by the executable reference parser with that document; with parse_sound: (∃ d', Rfc.parse cs = some d') ↔ ∃ d, JsonText cs d",
            "accept_iff": "∀ src s, fromStr src = ok s ↔ ∃ toks d, JsonTextVia src toks d ∧ depthOk (toks.map kind) ∧ inferDoc d = ok s — JsonTextVia (Ref/JsonText.lean): toks cut src into lexemes each valid per RFC 8259 (six structural characters, three literal names, number per §6 = Rfc.number, string per §7 = Rfc.stringBody, whitespace runs) whose non-whitespace part derives `value` in the RFC's token grammar (Ref/TokenGrammar.lean); depthOk: no prefix has more than 256 brackets open; inferDoc d fails exactly on a member name repeated with conflicting value shapes",
            "json_is_inferred": "JsonTextVia src toks d → depthOk → fromStr src = inferDoc d (as outcomes): every JSON text within the bound is accepted with inferDoc's shape or rejected with inferDoc's error",
            "sources_iff": "(∃ s, fromSources srcs = ok s) ↔ srcs ≠ [] ∧ every source is accepted by fromStr",
            "checked_iff": "is_superset_checked errs exactly when from_str errs, with the same error",
            "unchecked_false": "is_superset answers false for every text from_str rejects",
            "tvalue_unique": "the token grammar is unambiguous: a token list has at most one document",
        },
        "partial": ["the theorem's specification of JSON is the declarative two-level grammar (JsonTextVia); the executable reference parser used by the run-time oracle (Rfc.parse, recursive descent over characters) is a second, independent rendering of RFC 8259 — the two are proved to accept the same texts with the same documents (parse_sound, parse_complete, parse_iff_jsonText), so the oracle's verdict on a text is the specification's",
                    "logos' matching discipline and the lelwel-generated parser are modelled from their sources/behaviour; the model is compared with the real lexer tokens, CST and results on every text of the run"],
        "rule": "from_str (and is_superset_checked / is_superset / from_sources on a subset) on: every string of length <= 3 (thorough 4) over a 29-character JSON alphabet, every token string of length <= 5 (thorough 6) over 13 lexemes, valid documents in four formattings with every prefix, deletion, substitution and insertion, escapes incl. surrogate pairs, nesting 200..300 around the limit, asymmetric bracket mixes, many-sibling documents (up to 700 arrays/objects). Oracle: accepted iff the independent RFC 8259 parser (Ref/Rfc8259.lean) accepts, depth <= 256 and no conflicting duplicate member names. Non-trivial = text with a container or an error. Also: a member name repeated in one object in nine spelling pairs × seven value pairs × four layouts, twelve characters that are neither JSON whitespace nor part of a lexeme before / after / between the tokens of eleven small documents, twin sources (a valid source directly followed by a near twin: padded with ten non-JSON blanks, other case, cut short, doubled). Every run also uses the source dictionary (string and integer literals of the library's non-test source as member names / values / texts / collection names and as sizes n-1, n, n+1) and repeats the whole operation list in reverse order in fresh processes, with env-var-like literals set, reporting answers that differ (hidden state).",
        "assumptions": ["logos' matching discipline (longest match, keyword priority, one-character error tokens) is modelled from observation"],
        "level_text": "accept_iff is a Lean theorem over all strings: from_str returns a shape exactly for the texts that are JSON per RFC 8259 (valid lexemes per the RFC's number and string rules, token sequence derivable in the RFC's grammar), keep at most 256 brackets open, and whose document has no member name repeated with conflicting value shapes; and the shape is inferDoc of that (unique) document. Both directions are proved about the full model of the text layer — the logos token set with check_string's escape state machine, the lelwel recovering LL(1) parser with error recovery and open/close bookkeeping, parse_cst, reject_diagnostics — through lexer soundness/completeness (maximal munch against the follow sets of the grammar), parser soundness/completeness in states where nothing has been reported, unambiguity of the grammar, and evaluation of parse_cst on the built tree. The model is compared with the real code on ~600k texts per run including tokens, CST and exact error ranges.",
        "level_note": "Trusted: Lean kernel; models of lexer.rs / generated.rs / shape/mod.rs / lib.rs (differential testing, exhaustive at small scope); Ref/JsonText.lean + Ref/TokenGrammar.lean + Rfc.number/Rfc.stringBody are the specification of the JSON language for the theorem, Ref/Rfc8259.lean's parser for the oracle.",
    },
    "C05": {
        "module": "ShapeVerif.Props.C05",
        "theorems": PENDING_TEXT["C05"],
        "statements": {
            "fromStr_total": "∀ t : List Char, fromStr t ≠ panic — every Rust panic site of the text layer (each `&source[a..b]`, the key-span arithmetic, unwraps) is an explicit panic outcome of the model and none is reachable for any string",
            "span_faithful": "fromStr t = err (InvalidJson v a b) → ∃ p s, t = p ++ v ++ s ∧ utf8Len p = a ∧ a + utf8Len v = b (range inside the input, on character boundaries, fragment = input at the range)",
            "entry_points_total": "from_sources, is_superset, is_superset_checked never panic either",
            "tokenize_ok": "every token is a non-empty range between character boundaries, tokens follow each other in order, String tokens span at least two characters, every lexer diagnostic (incl. the three kinds of check_string) is an ordered pair of boundaries",
            "parse_leaves": "the leaves of the recovering parser's tree are exactly the lexer's tokens in order (no recovery path drops, duplicates or reorders a token)",
            "text_layer_terminates": "∀ t, the twins of the lexer loop and of rule_value that FAIL when the model's fuel runs out answer (and answer the model's result) from the fuel the model starts with: |t| for the lexer, 2·|tokens|+4 for the parser — the model's cut-off is never what ends a run, for any string (grammatical or not)",
            "tree_depth_bounded": "∀ t, every prefix of the token list of t has at most 256 brackets open (diagnostics or not) and the tree the recovering parser builds for t has depth ≤ 516 — one stack frame of the generated parser and of parse_cst per level, so recursion depth is bounded for every string, not only for accepted ones",
            "rules_depth": "in every coherent parser state each rule function emits at least as many openers as closers and a forest of depth ≤ 2·H + c, H = the largest excess of openers over closers in any prefix of the remaining tokens (stray closers end the recovery loops, they are never skipped)",
            "parser_steps_linear": "in every coherent parser state 2·|remaining tokens|+1 nested calls / loop iterations suffice for rule_value: every recursive call and every iteration of the two recovery loops is preceded by the consumption of a token",
        },
        "partial": ["'no unbounded loop' is a theorem for the lexer loop and the recovering parser (text_layer_terminates: linear step bounds for every string); the remaining functions of the model are structurally recursive on the tree / document / shape. 'no stack overflow' is a theorem in the form the model can carry: the depth of the parse tree — the number of nested frames of the generated parser and of parse_cst — is at most 516 for every string (tree_depth_bounded); that 516 frames fit the stack is the remaining assumption. Bytes of stack and wall-clock are not expressible in the model: the real code is run on 100000-bracket and multi-hundred-kilobyte inputs and on nesting in every position (16 one-hole contexts x 5 cores, depth 30-120, both paths) under a per-operation time limit in a restartable child process",
                    "work bounds are call counts (work_bounds, shared with C12)"],
        "rule": "as C04's corpus plus hostile sizes: 1000 and 100000 unbalanced/balanced brackets, 100000 nested `{\"a\":`, 300 KB (thorough 4 MB) strings with multi-byte characters, wide arrays, many siblings, unterminated escapes; serde_json values nested to serde_json's limit through the value path. Oracle: no panic, no crash, no timeout; every InvalidJson range lies inside the input on character boundaries and the fragment equals the input at that range (checked byte-wise in Python). Correspondence is one-sided for C05 (code panics/hangs ⇒ model panics): differences in the answer itself are C04's subject. Non-trivial = error answer or container. Also: the special-character and twin-source families of C04. Every run also uses the source dictionary (string and integer literals of the library's non-test source as member names / values / texts / collection names and as sizes n-1, n, n+1) and repeats the whole operation list in reverse order in fresh processes, with env-var-like literals set, reporting answers that differ (hidden state).",
        "assumptions": ["one frame of rule_* / parse_rule per tree level and 516 such frames fit the stack (validated by the runs on 100000-bracket inputs and on depth-256 documents)", "the value path recurses once per level of the serde_json value, whose depth serde_json bounds by 128"],
        "level_text": "fromStr_total and span_faithful are Lean theorems over all strings: the model of the whole text path (logos-style lexer with check_string, lelwel's recovering parser, parse_cst with all its slices of the source as explicit panic outcomes, reject_diagnostics) never reaches a panic outcome, and every InvalidJson carries exactly the input text at a range on character boundaries. Proved through three invariants: tokens tile the text on character boundaries (tokenize_ok), the parse tree's leaves are the tokens in order (parse_leaves), every diagnostic of lexer and parser is an ordered pair of boundaries. The model is compared with the real code on every generated text including panic/crash/timeout outcomes; stack depth and time are observed on adversarial sizes, not proved.",
        "level_note": "Trusted: Lean kernel; text-layer model tied by differential testing (lexer tokens, CST, results incl. error ranges); real stack/time behaviour is observed, not proved.",
    },
    "C07": {
        "module": "ShapeVerif.Props.C07",
        "extra_modules": ["ShapeVerif.Props.TextLevel"],
        "theorems": PENDING_TEXT["C07"],
        "statements": {
            "rerender_same_shape": "Rerender d d' → ∀ s, inferDoc d = ok s ↔ inferDoc d' = ok s, where Rerender is the least equivalence closed under nesting (one array element / one member value at a time) containing: any two numbers, any two strings, any two booleans; any permutation of an object's members; any two numbers n+1, m+1 of copies in an array of copies",
            "infer_member_order": "ms.Perm ms' → inferDoc (obj ms) = ok s → inferDoc (obj ms') = ok s (also with repeated member names of equal value shapes)",
        },
        "partial": ["render_independent / same_document_same_result lift rerender_same_shape to strings through accept_iff (C04): two JSON texts within the depth bound whose documents are equal (they differ in insignificant whitespace, in the lexical form of numbers and strings, in escapes of member names denoting the same name) or Rerender-related (member order, number of copies, payloads) get the same result from from_str"],
        "rule": "for random documents d: three re-renderings r(d) each (other scalars of the same kind, other number/string lexical forms incl. escapes, reversed/swapped members, a same-shaped element appended to homogeneous arrays, four whitespace styles incl. CRLF and lone CR); from_str(d) == from_str(r(d)) on the real code and on the model. Non-trivial = container. Third session: member names are respelled too (each character literal, \\uXXXX in either hex case, surrogate pair, short escape); astral names in the key pool; repetition counts up to 1000. Also: raw DEL / NEL / C1 / NBSP+LS strings in the string pool; a first row and a differently shaped row repeated n times (n from the dictionary, incl. thresholds written as shifts). Every run also uses the source dictionary (string and integer literals of the library's non-test source as member names / values / texts / collection names and as sizes n-1, n, n+1) and repeats the whole operation list in reverse order in fresh processes, with env-var-like literals set, reporting answers that differ (hidden state).",
        "assumptions": [],
        "level_text": "render_independent is a Lean theorem over all pairs of JSON texts (strings) within the depth bound, and rerender_same_shape over all document trees: the inferred shape (and rejection) is invariant under every rewrite the property lists — scalar payloads, member order, number of copies — applied anywhere in the document, in any combination; the text layer is modelled and compared with the code, and the metamorphic equalities are evaluated on the real from_str.",
        "level_note": "Trusted: Lean kernel; models (differential testing).",
    },
    "C06": {
        "module": "ShapeVerif.Props.C06",
        "theorems": ["ShapeVerif.paths_agree", "ShapeVerif.visitor_spec", "ShapeVerif.classify_agree", "ShapeVerif.paths_agree_text"],
        "extra_modules": ["ShapeVerif.Props.TextLevel"],
        "statements": {
            "paths_agree_text": "Reads t d → d.noDupKeys → fromStr t = ok s → inferSVal d.toSVal = s (the statement for the string given to from_str; d.toSVal is the model of the serde_json value of the text)",
            "paths_agree": "∀ d, d.noDupKeys → inferDoc d = ok s → inferSVal d.toSVal = s",
            "classify_agree": "on inferred element shapes the two array classifications (branches tested in different orders) coincide",
        },
        "rule": "type-directed random documents (nesting <= 4; arrays of objects where later elements lack early/middle/late keys; empty arrays/objects) in up to four formattings; each text goes through from_str and through serde_json::from_str + JsonShape::from (+ JsonVisitor, owned From). Oracle: the two results are equal. Non-trivial = container involved. Third session: plus exhaustive small-scope documents, disagreeing / near-equal element families and the WIDTH families (n = 7..300), member names respelled with every kind of escape. Also: one name spelled differently in sibling elements; a text the value path accepts and the text path refuses is a failure unless the model refuses it too. Every run also uses the source dictionary (string and integer literals of the library's non-test source as member names / values / texts / collection names and as sizes n-1, n, n+1) and repeats the whole operation list in reverse order in fresh processes, with env-var-like literals set, reporting answers that differ (hidden state).",
        "assumptions": ["serde_json parses an accepted text to the value Doc.toSVal describes (members sorted by key); exercised on every case, not proved",
                        "member names without escape sequences (escaped names: see DESIGN D11)"],
        "level_text": "paths_agree is a Lean theorem over all document trees without repeated member names: the model of parse_rule and the model of From<&serde_json::Value> return the same shape; it rests on the exact characterisation of both array classifications (classify_agree) and map extensionality. Both models are compared with the real functions on every run and the equality is re-checked on the real code's outputs.",
        "level_note": "Trusted: Lean kernel; hand-written models of shape/mod.rs and serde.rs (differential testing); serde_json's text->Value step is assumed to be Doc.toSVal. JsonVisitor is modelled by its two stored fields.",
    },
    "C08": {
        "module": "ShapeVerif.Props.C08",
        "theorems": ["ShapeVerif.merger_idem", "ShapeVerif.merge_null_right", "ShapeVerif.merge_null_left",
                     "ShapeVerif.merger_comm_sem", "ShapeVerif.object_struct", "ShapeVerif.array_struct",
                     "ShapeVerif.scalar_struct", "ShapeVerif.sources_idem", "ShapeVerif.sources_idem_k", "ShapeVerif.sources_null",
                     "ShapeVerif.sources_comm", "ShapeVerif.sources_idem_text", "ShapeVerif.sources_idem_k_text", "ShapeVerif.sources_null_text",
                     "ShapeVerif.sources_comm_text"],
        "extra_modules": ["ShapeVerif.Props.TextLevel"],
        "statements": {
            "merger_idem": "s.wf → merger s s = s",
            "merger_comm_sem": "a.wf → b.wf → ∀ d, admits (merger a b) d = admits (merger b a) d",
            "object_struct": "merger (Object c o) (Object c' p) = Object M (o||p) with M[k] = merger c[k] c'[k] | asOptional c[k] | asOptional c'[k]",
            "sources_idem": "inferDoc d = ok s → fromSourcesDoc [d,d] = ok s",
            "sources_null": "fromSourcesDoc [d,null] = fromSourcesDoc [null,d] = ok (asOptional s)",
        },
        "rule": "merger on all ordered pairs of the small-scope shape universe + related random pairs; p_c08 on all ordered pairs of 11 fixed documents (scalars, [], {}, [[],1], [1,2], [1,\"a\"], [null,1], {a:1}) and random document pairs: idempotence, null absorption, object/array structure checked on the real code, both merge orders compared by witnesses of the reference semantics. Non-trivial = container involved. Third session: plus the depth-2 universe as ordered pairs for merger. Also: both merge orders for every ordered pair of twenty small documents in six contexts; space twins in both orders. Every run also uses the source dictionary (string and integer literals of the library's non-test source as member names / values / texts / collection names and as sizes n-1, n, n+1) and repeats the whole operation list in reverse order in fresh processes, with env-var-like literals set, reporting answers that differ (hidden state).",
        "assumptions": [],
        "level_text": "All algebraic laws are Lean theorems over every well-formed shape: idempotence, both null laws, order-insensitivity as equality of meanings (∀ documents), and the object/array/scalar structure equations, with corollaries at the level of sources. merger is compared with the real function on every run; the laws are re-evaluated on the real from_sources for generated document pairs.",
        "level_note": "Trusted: Lean kernel; hand-written model of merger.rs (differential testing, exhaustive over constructor pairs and flags at small scope); reference semantics for the meaning comparison.",
    },
    "C12": {
        "module": "ShapeVerif.Props.C12",
        "theorems": ["ShapeVerif.inferSVal_cost", "ShapeVerif.inferSVal_level_additive", "ShapeVerif.inferDoc_cost",
                     "ShapeVerif.merger_cost", "ShapeVerif.merger_cost_right", "ShapeVerif.merge_cost",
                     "ShapeVerif.subset_cost", "ShapeVerif.subsetT_is_isSubset", "ShapeVerif.text_front_end_linear",
                     "ShapeVerif.parse_work_linear", "ShapeVerif.parser_work", "ShapeVerif.tokens_le_chars"],
        "extra_modules": ["ShapeVerif.Props.C12Text"],
        "statements": {
            "text_front_end_linear": "∀ text: the lexer emits at most one token per character and the recovering parser makes at most 4·|text| + 2 rule entries and recovery-loop iterations (every string, grammatical or not) — with inferDoc_cost the whole text path is polynomial",
            "parser_work": "potential argument: ticks + 4·(tokens left) ≤ 4·(tokens before) + c for each of the six parser functions in every coherent state",
            "inferSVal_cost": "calls of From<&Value> on v = nodes v (each node once)",
            "inferSVal_level_additive": "one more array level adds exactly one call",
            "inferDoc_cost": "calls of parse_rule on d ≤ nodes d",
            "merger_cost": "calls of merger in merger(a,b) ≤ size a (and ≤ size b)",
            "merge_cost": "merger calls of merging a list of shapes into an accumulator ≤ total size of the merged-in shapes",
            "subset_cost": "calls of is_subset in a.is_subset(b) ≤ size a * size b",
        },
        "partial": ["the work measure proved is the number of calls of the four recursive functions (tied exactly to the code by hook counters); that heap allocations / time follow the call counts polynomially is measured on growth families (log-log slope <= 2.3), not proved",
                    "the tick twin of is_subset mirrors the evaluation order of the code; subsetT_is_isSubset proves its Boolean is isSubset's, and both its Boolean and its count are compared with the real code on every case"],
        "rule": "ticks_subset / ticks_merger on all ordered pairs of the small-scope universe, related random pairs and reachable (sample, accumulator) pairs; ticks_infer / ticks_inferv on random documents and on the D10 family [[..[1,1]..,1],1] to depth 24; allocation counts of from_str, From<&Value>, from_sources, is_subset on depth 1..20, object-nesting 1..10, width 10..1000 (thorough 10^4), 10..1000 sources with a log-log slope test. Non-trivial = container involved. Third session: plus mixed chains (every kind against every kind, either side wrapped in a OneOf per level, fitting / non-fitting leaves, depth 4-20), the depth-2 universe as ordered pairs, and allocation families per arm and width (two wide objects with disjoint / equal / half-shared names, n one-member sources, a OneOf of n variants, wide tuples; n = 10..640). Also: nested repeated member names (accepted and rejected variants, depth 1-16) in the conversion counts; chain words as ordered pairs in the call counts. Every run also uses the source dictionary (string and integer literals of the library's non-test source as member names / values / texts / collection names and as sizes n-1, n, n+1) and repeats the whole operation list in reverse order in fresh processes, with env-var-like literals set, reporting answers that differ (hidden state).",
        "assumptions": ["allocations and wall time are bounded by a polynomial of the call counts (validated by the measured families)"],
        "level_text": "For the deterministic call-count measure the bounds are Lean theorems over all inputs: the value path converts each node exactly once (so a nesting level adds work proportional to that level — the exponential D10 behaviour is gone), the text path enters parse_rule at most once per node, merging k sources costs at most the total size of the sources in merger calls, and a subset query makes at most size(a)*size(b) calls. The model's counts are compared with hook counters in the real code for every generated case; allocation counts on the property's growth families are measured on the real code and must fit a low-degree polynomial.",
        "level_note": "Trusted: Lean kernel; tick twins written by hand and tied to the hooks by exact comparison; the link from call counts to allocations/time is empirical.",
    },
    "C17": {
        "module": "ShapeVerif.Props.C17",
        "extra_modules": ["ShapeVerif.Props.TextLevel"],
        "theorems": ["ShapeVerif.infer_null", "ShapeVerif.infer_bool", "ShapeVerif.infer_number",
                     "ShapeVerif.infer_string", "ShapeVerif.infer_array", "ShapeVerif.infer_array_elements",
                     "ShapeVerif.infer_object", "ShapeVerif.mapGet_mergeObjectElements", "ShapeVerif.fromStr_of_reads"],
        "statements": {
            "infer_array": "with es the element shapes: [] ↦ Option<Array<Null>>; all equal ↦ Array<es.head>; differently shaped non-objects ↦ Tuple es; differently shaped objects ↦ Array<Object M> with M[k] = specLookup k es (shape if in every element, optional form if in some)",
            "infer_object": "inferDoc (obj ms) = ok s → s = Object c false with keys exactly the member names, c[k] = inferDoc of the member's value",
        },
        "rule": "random documents and each of their sub-documents through from_str and the serde_json path; p_c17 recomputes every node's shape from the shapes the implementation gives to its children by an independent Rust reading of the statement (keys with two value shapes are left unspecified, as in the statement). Non-trivial = container involved. Third session: plus exhaustive small-scope documents, disagreeing / near-equal element families and the WIDTH families (n = 7..300). Also: one name spelled differently in sibling elements (with the independent recomputation p_c17). Every run also uses the source dictionary (string and integer literals of the library's non-test source as member names / values / texts / collection names and as sizes n-1, n, n+1) and repeats the whole operation list in reverse order in fresh processes, with env-var-like literals set, reporting answers that differ (hidden state).",
        "assumptions": ["value-path statements follow from C06 (paths_agree) composed with these theorems"],
        "level_text": "Every clause is a Lean theorem about the model of parse_rule over all document trees: scalars, objects (exact key set and value shapes), arrays (all four branches, with the array-of-objects content characterised key by key by specLookup). The model is compared with the real from_str and From<&Value> on each document and sub-document, and the clauses are recomputed on the real code independently.",
        "level_note": "Trusted: Lean kernel; hand-written model of shape/mod.rs and serde.rs (differential testing); the document tree is obtained by the reference parser (the lexer/parser layer is C04's subject).",
    },
    "C02": {
        "module": "ShapeVerif.Props.C02",
        "extra_modules": ["ShapeVerif.Props.TextLevel", "ShapeVerif.Props.Subtypes"],
        "theorems": ["ShapeVerif.subset_sound", "ShapeVerif.superset_sound_text", "ShapeVerif.hasKind_sound",
                     "ShapeVerif.isArrayOf_sound", "ShapeVerif.isObjectOf_sound", "ShapeVerif.isOneOfT_null",
                     "ShapeVerif.isOneOfT_bool", "ShapeVerif.isOneOfT_number", "ShapeVerif.isOneOfT_string",
                     "ShapeVerif.isOneOfT_optBool", "ShapeVerif.isOneOfT_optNumber", "ShapeVerif.isOneOfT_optString"],
        "statements": {
            "subset_sound": "∀ a b, b.wf → isSubset a b = true → ∀ d, admits a d → admits b d",
            "hasKind_sound": "a shape with the constructor and flag a typed query names admits only documents of that JSON kind, and null only when the query names an optional type (or Null)",
            "isArrayOf_sound": "is_array_of::<T>() = true → every element of every admitted array is of kind T (or null when T is Optional<·>); isObjectOf_sound: the same for the member a key names",
            "isOneOfT_*": "the generic model of IsOneOf<T> (all 15 type arguments) is, instance by instance, the helper that is_subset calls and subset_sound reasons about",
        },
        "partial": ["text level: superset_sound_text — is_superset(s, t) = true or is_superset_checked(s, t) = Ok(true) implies t is a JSON text within the depth bound whose document s admits (for conflict-free documents; D3 is the complement)"],
        "rule": "subset on all ordered pairs of the small-scope universe + random related pairs (widenings, merges, mutations); for every pair the code answers true, witness documents drawn from meaning(a) are checked against admits(b); (shape,text) pairs from inferred histories for is_superset / is_superset_checked, each true answer checked with admits; the 58 typed queries of value/subtypes.rs (IsArrayOf / IsOneOf / IsObjectOf / IsTupleOf for every type argument that has an impl, reached through a feature-guarded hook because the module is private) and the public is_tuple_of(&[..]) on every shape of the small-scope universe, present and absent keys, inside and outside positions: compared with the model exactly. Non-trivial = answer true with a container on either side. Third session: plus the depth-2 universe as ordered pairs, every kind of shape against one to three OneOf layers × layer flag × Null beside it, wide objects/tuples/OneOfs (5-65 entries) against a twin differing in the last entry, and every small hand-built shape (incl. tuples of 1-4 equal slots, nested and in unions) × 24 short texts through is_superset and is_superset_checked. Also: chain words (2 457 three-level chains of one-slot containers of every kind and flag, as ordered pairs: 1 in 32 quick, 1 in 4 thorough), a member name repeated in one object (alike or respelled) through both text queries. Every run also uses the source dictionary (string and integer literals of the library's non-test source as member names / values / texts / collection names and as sizes n-1, n, n+1) and repeats the whole operation list in reverse order in fresh processes, with env-var-like literals set, reporting answers that differ (hidden state).",
        "assumptions": [],
        "level_text": "subset_sound is a Lean theorem for every pair of shapes (any constructor, both flags, any nesting): isSubset a b = true implies every document admitted by a is admitted by b, with `admits` an independent reference semantics. The consequence for is_superset on texts is checked by an oracle on the real code (admits on every true answer) and has one recorded known finding (D3 class).",
        "level_note": "Trusted: Lean kernel; model of subset.rs/subtypes.rs tied by differential testing; reference semantics Ref/Sem.lean. Text-level clause (is_superset) is not yet a theorem: it depends on the parser model and on inference soundness, which fails on the D3 class (known finding).",
    },
}


def skip_compare(op, impl, model):
    """Lines outside the modelled fragment are counted, not compared."""
    if impl == "unparsable":          # serde_json rejected the text: outside C06's quantifier
        return True
    if model in ("unmodelled", "n/a"):
        return True
    if op.split("\t", 1)[0] == "macro":   # answered by cargo + rustc (external oracle), nothing to compare
        return True
    return False


def benign(pid, op, impl, model):
    """Disagreements that cannot invalidate the transfer of the property's theorems to the code.
    C02 (soundness of is_subset): the theorem is `model answers true ⇒ inclusion holds`; it transfers to the
    code whenever `code answers true ⇒ model answers true`, so a code that is merely more conservative than
    the model (false where the model says true) is not a broken correspondence for C02."""
    if pid in ("C13", "C14", "C15", "C16"):
        f = op.split("\t")
        if f[0] in ("compile", "p_c16"):
            # which shape inference gives to the sources (and whether it accepts them) is the subject of
            # C01/C04/C17; the generator's text for the shape the *code* inferred is compared separately
            # (operation `gen <that shape>`, see external_ops)
            return not (impl.startswith("violated") or impl in ("panic", "timeout", "crash"))
        if f[0] in ("gen", "genx"):
            try:
                ti, tm = bytes.fromhex(impl).decode(), bytes.fromhex(model).decode()
            except ValueError:
                return False
            pi, pm = gen_projection(pid, f[1], ti), gen_projection(pid, f[1], tm)
            if pi is None or pm is None:
                return False
            if pid == "C15" and pi == ("does-not-compile",):
                return True                     # C15 quantifies over modules that compile (C13 decides that)
            if pid == "C16":
                # names agree wherever both texts name the same sub-shape
                di, dm = dict(pi[1]), dict(pm[1])
                return all(di[k] == dm[k] for k in di if k in dm) and bool(set(di) & set(dm) or not di or not dm)
            return pi == pm
    if pid == "C05":
        # C05's theorems say the model never panics and its work is bounded; they transfer to the code when
        # `code panics/hangs ⇒ model panics`. A difference in *which* answer is returned (accept/reject, shape,
        # error kind) is C04's and C17's subject; range faithfulness is checked on the code's own answers.
        f = op.split("\t", 1)[0]
        if f in ("inferdoc", "inferv", "lex", "cst", "sourcesdoc", "supersetchk", "superset") \
                and impl not in ("panic", "timeout", "crash") and model != "panic":
            return True
    if pid == "C12":
        # C12's theorems are upper bounds on the model's call counts; they transfer to the code whenever the
        # code makes at most as many calls as the model (and, for is_subset, gives the same answer). A
        # refactoring that saves calls is not a broken obligation; one that adds calls is.
        f = op.split("\t", 1)[0]
        if f in ("ticks_subset", "ticks_merger", "ticks_infer", "ticks_inferv"):
            ai, am = impl.split(" "), model.split(" ")
            if len(ai) == len(am) and ai[:-1] == am[:-1] and ai[-1].isdigit() and am[-1].isdigit():
                return int(ai[-1]) <= int(am[-1])
    if pid == "C02":
        f = op.split("\t", 1)[0]
        if f in ("subset", "superset") and impl == "false" and model == "true":
            return True
        if f == "supersetchk" and impl == "ok false" and model == "ok true":
            return True
    return False


def nontrivial(pid, op, res):
    f = op.split("\t")
    if any("(" in x for x in f[1:]):
        return True
    return res in ("true",) or res.startswith("some")


def sample_indices(n):
    if n == 0:
        return []
    return sorted({0, n // 7, n // 3, n // 2, (2 * n) // 3, n - 1})


KNOWN_VALID_SOURCES = {t.encode().hex() for t in ["[1]", "[7]", "{}", "[2]", '{"id": 2}', "1", '"s"', "true", "[1,2]", '{"a":1}', "null", "[]", '{"k":[1,"x"]}']}


def oracle(pid, ops, impl, tier):
    """Returns [(driver_op, wanted_result_prefix, why, source_op)] evaluated with reference definitions."""
    out = []
    if pid in ("C01",):
        prev = None
        for o, r in zip(ops, impl):
            f = o.split("\t")
            if f[0] != "sourcesdoc":
                prev = None
                continue
            if r.startswith("ok "):
                shape = r[3:]
                for t in f[1:]:
                    out.append((f"admits\t{shape}\t{t}", "true", "every source must be a member of the shape inferred from the sources", o))
                # history monotonicity: this history extends the previous one by one document
                if prev is not None and f[1:-1] == prev[0]:
                    out.append((f"witness\t{prev[1]}\t{shape}", "ok", "feeding one more document must not remove an admitted document (witnesses of the previous shape)", o))
                prev = (f[1:], shape)
            else:
                prev = None
    if pid == "C04":
        for o, r in zip(ops, impl):
            f = o.split("\t")
            if f[0] == "inferdoc":
                out.append((f"rfc\t{f[1]}", "@C04:" + r, "accepts exactly RFC 8259 texts of depth <= 256 without conflicting duplicate names", o))
            elif f[0] == "supersetchk":
                out.append((f"rfc\t{f[2]}", "@C04:" + ("ok" if r.startswith("ok ") else r), "is_superset_checked errs exactly on non-JSON", o))
            elif f[0] == "superset":
                out.append((f"rfc\t{f[2]}", "@C04sup:" + r, "is_superset answers false for every text that is not JSON", o))
            elif f[0] == "sourcesdoc":
                # decided by the LAST source when the others are valid documents of the fixed list (a faulty source in
                # another position is compared with the model, and C05 checks that the error describes it)
                if all(h in KNOWN_VALID_SOURCES for h in f[1:-1]):
                    out.append((f"rfc\t{f[-1]}", "@C04:" + r, "from_sources accepts exactly when every source is JSON", o))
    if pid in ("C06", "C17"):
        # the text path refuses a text that serde_json (and the value path) accept: legitimate only for a repeated
        # member name or nesting beyond the bound, which is what the model's own verdict on the text says
        for j in range(len(ops) - 1):
            a, b = ops[j].split("\t"), ops[j + 1].split("\t")
            if a[0] == "inferdoc" and b[0] == "inferv" and a[1:] == b[1:] and impl[j].startswith("err ") and impl[j + 1].startswith("ok "):
                out.append((ops[j], "err", "the text path rejects a duplicate-free text within the depth bound that the value path accepts", ops[j]))
    if pid == "C09":
        for o, r in zip(ops, impl):
            f = o.split("\t")
            if f[0] in ("p_c09", "p_readd", "p_reorder") and r.startswith("ok "):
                shapes = [x.replace("_", " ") for x in r[3:].split(" ")]
                base = shapes[0]
                for sh in shapes[1:]:
                    if sh != base:
                        out.append((f"witness\t{sh}\t{base}", "ok", "re-adding a source must not change which documents are admitted (repeated shape admits more)", o))
                        out.append((f"witness\t{base}\t{sh}", "ok", "re-adding a source must not change which documents are admitted (repeated shape admits less)", o))
    if pid == "C08":
        for o, r in zip(ops, impl):
            f = o.split("\t")
            if f[0] == "p_c08" and r.startswith("ok "):
                # r = "ok <s1> <s2>" with s-expressions; split at the top-level boundary
                s1, s2 = split_two_sexp(r[3:])
                out.append((f"witness\t{s1}\t{s2}", "ok", "both merge orders must admit the same documents (d,e order admits more)", o))
                out.append((f"witness\t{s2}\t{s1}", "ok", "both merge orders must admit the same documents (e,d order admits more)", o))
    if pid == "C02":
        for o, r in zip(ops, impl):
            f = o.split("\t")
            if f[0] == "subset" and r == "true":
                out.append((f"witness\t{f[1]}\t{f[2]}", "ok", "subset answered true: every witness of a must be admitted by b", o))
            elif f[0] == "superset" and r == "true":
                out.append((f"admits\t{f[1]}\t{f[2]}", "true", "is_superset answered true: the text must be admitted", o))
            elif f[0] == "supersetchk" and r == "ok true":
                out.append((f"admits\t{f[1]}\t{f[2]}", "true", "is_superset_checked answered Ok(true): the text must be admitted", o))
    return out


def split_two_sexp(t):
    depth = 0
    for i, ch in enumerate(t):
        if ch == "(":
            depth += 1
        elif ch == ")":
            depth -= 1
        elif ch == " " and depth == 0:
            return t[:i], t[i + 1:]
    return t, ""


def expect_ok(got, want):
    """`want` ending in * is a prefix pattern. `skip` = the case lies outside the operation's domain (e.g. serde_json
    itself refuses the text, so there is no value path to speak about): no expectation applies."""
    if got == "skip":
        return True
    if want.endswith("*"):
        return got.startswith(want[:-1])
    return got == want


def ident_keys(sx):
    """all member names (hex after `(k`) are in [A-Za-z0-9_-]+"""
    import re
    for h in re.findall(r"\(k([0-9a-f]*) ", sx):
        try:
            k = bytes.fromhex(h).decode()
        except Exception:
            return False
        if not re.fullmatch(r"[A-Za-z0-9_-]+", k):
            return False
    return True


def direct_oracle(pid, ops, impl):
    """Property checks decided on the implementation's answers alone (no reference evaluation)."""
    fails = []
    if pid in ("C13", "C14", "C16"):
        fails.extend(gen_oracle(pid, ops, impl))
    if pid in ("C05", "C04"):
        # a parse error that carries a range: inside the input, on character boundaries, fragment = text[range]
        for o, r in zip(ops, impl):
            f = o.split("\t")
            if f[0] in ("inferdoc", "supersetchk", "sourcesdoc") and r.startswith("err InvalidJson "):
                try:
                    _, _, st, en, val = r.split(" ")
                except ValueError:
                    _, _, st, en = r.split(" ")[:4]
                    val = ""
                st, en = int(st), int(en)
                # the range and the fragment must describe ONE of the texts handed in (for several sources: the one
                # that is at fault), on character boundaries
                cands = [bytes.fromhex(h) for h in (f[1:] if f[0] == "sourcesdoc" else [f[-1]]) if all(c in "0123456789abcdef" for c in h)]
                okb = False
                for text in cands:
                    frag = text[st:en] if st <= en <= len(text) else None
                    if frag is None or frag.hex() != val:
                        continue
                    try:
                        frag.decode()
                        text[:st].decode()
                        okb = True
                        break
                    except UnicodeDecodeError:
                        pass
                if not okb:
                    fails.append({"op": o, "impl": r, "expected": "range inside the input on character boundaries and fragment == input[range]",
                                  "why": "parse error range/fragment not faithful"})
    if pid == "C09":
        for o, r in zip(ops, impl):
            f = o.split("\t")
            if f[0] == "p_cycle" and r.startswith("ok "):
                n2, n4, n8, n16 = [int(x) for x in r.split(" ")[1:5]]
                if n4 < n8 < n16:
                    fails.append({"op": o, "impl": r, "expected": "printed size of the shape not growing with the number of times the same group of documents is fed (2, 4, 8, 16 rounds)",
                                  "why": "the shape keeps growing with repetitions of the same documents: its size is not bounded by the variety of the sources"})
    if pid == "C12":
        import math
        import json as _json

        def nodes(v):
            if isinstance(v, list):
                return 1 + sum(nodes(x) for x in v)
            if isinstance(v, dict):
                return 1 + sum(nodes(x) for x in v.values())
            return 1
        for o, r in zip(ops, impl):
            f = o.split("\t")
            if f[0] in ("ticks_infer", "ticks_inferv") and r.isdigit():
                try:
                    n = nodes(_json.loads(bytes.fromhex(f[1]).decode()))
                except Exception:
                    continue
                if int(r) > 8 * n * n + 8:
                    fails.append({"op": o, "impl": r, "expected": f"at most 8*{n}^2+8 conversions for a document of {n} nodes",
                                  "why": "the number of recursive conversions is not bounded by a low-degree polynomial of the input size (proved bound for the model: one per node)"})
        for o, r in zip(ops, impl):
            f = o.split("\t")
            if f[0] in ("ticks_subset", "ticks_merger") and len(f) == 3:
                cnt = r.split(" ")[-1]
                if cnt.isdigit():
                    na, nb = len(f[1].split()), len(f[2].split())
                    if int(cnt) > 8 * (na + nb) * (na + nb) + 8:
                        fails.append({"op": o, "impl": r, "expected": f"at most 8*({na}+{nb})^2+8 recursive calls for shapes of {na} and {nb} nodes",
                                      "why": "the number of recursive calls is not bounded by a low-degree polynomial of the sizes of the two shapes (proved bound for the model: size a * size b)"})
        fam = {}
        for o, r in zip(ops, impl):
            f = o.split("\t")
            if f[0] == "allocs":
                try:
                    c, sz = r.split(" ")
                    fam.setdefault(f[1], []).append((int(sz), int(c), o))
                except ValueError:
                    fails.append({"op": o, "impl": r, "expected": "<count> <size>", "why": "allocation measurement failed"})
        for name, pts in fam.items():
            pts.sort()
            for (s1, c1, _), (s2, c2, o2) in zip(pts, pts[1:]):
                if c1 > 8 and s2 >= 1.3 * s1:
                    slope = math.log(c2 / c1) / math.log(s2 / s1)
                    if slope > 2.3:
                        fails.append({"op": o2, "impl": f"{c2} allocations at size {s2} after {c1} at size {s1} (log-log slope {slope:.2f})",
                                      "expected": "slope <= 2.3", "why": "heap allocations must grow polynomially (low degree) with input size in family " + name})
    if pid == "C11":
        # Ord agrees with Eq: two shapes compare equal exactly when they are the same shape
        for o, r in zip(ops, impl):
            f = o.split("\t")
            if f[0] == "cmp" and r in ("lt", "eq", "gt") and (r == "eq") != (f[1] == f[2]):
                fails.append({"op": o, "impl": r, "expected": "eq exactly for equal shapes",
                              "why": "the order on shapes disagrees with equality (OneOf variants are kept in an ordered set)"})
        # Display injectivity on the implementation: among shapes with identifier-like keys no two
        # different shapes print the same text
        seen = {}
        import re
        for o, r in zip(ops, impl):
            f = o.split("\t")
            if f[0] == "display" and ident_keys(f[1]):
                if r in seen and seen[r] != f[1]:
                    fails.append({"op": o, "impl": r, "expected": "a text different from that of " + seen[r],
                                  "why": "two different shapes with identifier-like keys print the same Display text"})
                seen.setdefault(r, f[1])
    if pid in ("C06", "C17"):
        # consecutive (inferdoc t, inferv t) pairs on the same text must agree
        for j in range(len(ops) - 1):
            a, b = ops[j].split("\t"), ops[j + 1].split("\t")
            if a[0] == "inferdoc" and b[0] == "inferv" and a[1:] == b[1:] or \
               (a[0] == "inferdoc" and b[0] == "inferv" and pid == "C17"):
                if impl[j + 1] in ("unparsable",):
                    continue
                if a[1:] != b[1:]:
                    # C17 pairs render the same document in two styles; shapes must still agree
                    pass
                if impl[j].startswith("ok ") and impl[j] != impl[j + 1]:
                    fails.append({"op": ops[j], "impl": impl[j], "expected": impl[j + 1],
                                  "why": "text path and value path must infer the same shape (second: " + ops[j + 1][:200] + ")"})
    return fails



# ---------------------------------------------------------------- generator properties (C13-C16)

KFNEED_C13 = {"parse": ["d17s"], "illegal-name": ["d17s"], "duplicate-field": ["d17s"], "duplicate-variant": ["d16"],
              "tuple-arity": ["d19t"], "rustc": ["d19t"], "duplicate-definition": [], "undefined-type": []}
KFNEED = {"C14": ["d16", "d17s", "d22"], "C15": ["d16", "d17", "d18", "d19e", "d22", "d23"], "C16": ["d16"]}


def gen_cases(ops, impl):
    """(index, op, shape s-expression, generated text, sources or None) for every generated module
    inside the properties' domain (shapes inferred from sources)"""
    out = []
    for j, (o, r) in enumerate(zip(ops, impl)):
        f = o.split("\t")
        try:
            if f[0] == "gen" and not r.startswith("violated") and r not in ("panic", "timeout", "crash"):
                out.append((j, o, f[1], bytes.fromhex(r).decode(), None))
            elif f[0] in ("compile", "p_c16") and r.startswith("ok "):
                _, hx, sx = r.split(" ", 2)
                if sx != "?":
                    out.append((j, o, sx, bytes.fromhex(hx).decode(), [bytes.fromhex(h).decode() for h in f[2:]]))
        except ValueError:
            pass
    return out


def keys_of(sx):
    import re
    out = []
    for h in re.findall(r"\(k([0-9a-f]*) ", sx):
        try:
            out.append(bytes.fromhex(h).decode())
        except Exception:
            out.append(None)
    return out


def c13_problems(text):
    """[(class, message)] from the independent item parser and the name-resolution check"""
    import rustitems as R
    try:
        items = R.parse_items(text)
    except R.ParseError as e:
        return None, [("parse", str(e)[:200])]
    return items, R.resolve_problems(items)


def name_pairs(sx, items):
    """(sub-shape s-expression, type name) for every Object/OneOf sub-shape, walking the shape and the
    parsed items in parallel from the root; stops silently where they do not line up (C14's subject)"""
    import rustitems as R
    defs = {}
    for it in items:
        defs.setdefault(it[1], it)
    toks = sx.replace("(", " ( ").replace(")", " ) ").split()

    def rd(pos):
        t = toks[pos]
        if t != "(":
            return (t,), pos + 1
        hd = toks[pos + 1]
        pos += 2
        parts = []
        while toks[pos] != ")":
            if hd[0] == "O":
                k = toks[pos + 1]
                v, pos = rd(pos + 2)
                pos += 1
                parts.append((k, v))
            else:
                v, pos = rd(pos)
                parts.append(v)
        return (hd, parts), pos + 1

    def show(t):
        if len(t) == 1:
            return t[0]
        hd, parts = t
        if hd[0] == "O":
            return "(" + hd + "".join(f" ({k} {show(v)})" for k, v in parts) + ")"
        return "(" + hd + "".join(" " + show(v) for v in parts) + ")"

    tree, _ = rd(0)
    pairs = []

    def walk_ty(t, ty, depth=0):
        if depth > 100:
            return
        optional = (len(t) == 1 and t[0][1:] == "1") or (len(t) == 2 and t[0][1] == "1")
        if optional and ty[0] == "option":
            ty = ty[1]
        if len(t) == 1:
            return
        hd, parts = t
        if hd[0] == "A" and ty[0] == "vec":
            walk_ty(parts[0], ty[1], depth + 1)
        elif hd[0] == "T" and ty[0] == "tuple" and len(ty[1]) == len(parts):
            for a, b in zip(parts, ty[1]):
                walk_ty(a, b, depth + 1)
        elif hd[0] in "OV" and ty[0] == "named":
            walk_item(t, ty[1], depth + 1)

    def walk_item(t, name, depth=0):
        hd, parts = t
        pairs.append((show(t), name))
        it = defs.get(name)
        if it is None or depth > 100:
            return
        if hd[0] == "O" and it[0] == "struct" and len(it[2]) == len(parts):
            for (k, v), (f, ty) in zip(parts, it[2]):
                walk_ty(v, ty, depth + 1)
        elif hd[0] == "V" and it[0] == "enum" and len(it[2]) == len(parts):
            for v, (f, ty) in zip(parts, it[2]):
                walk_ty(v, ty, depth + 1)

    if items:
        root = items[0]
        if len(tree) == 2 and tree[0][0] in "OV":
            walk_item(tree, root[1])
        elif root[0] == "alias":
            # root alias: the flag of the root is part of the alias' type
            walk_ty(tree, root[2])
    return pairs


def gen_projection(pid, sx, text):
    """What the theorems of `pid` say about a generated text; two texts with the same projection are
    interchangeable for that property. None = no projection (compare the texts themselves)."""
    import rustitems as R
    items, probs = c13_problems(text)
    if items is None:
        return None
    if pid == "C13":
        # defined_once speaks about the defined names; the rest of C13 is decided on the code's own text
        return None if probs else ("names", tuple(it[1] for it in items))
    if pid in ("C14", "C15"):
        if probs:
            return ("does-not-compile",) if pid == "C15" else None
        back = R.decode(items)
        return None if back is None else ("reads-back", R.canon(back, True), items[0][0] == "alias")
    if pid == "C16":
        return ("names", tuple(sorted(set(name_pairs(sx, items)))))
    return None


def gen_oracle(pid, ops, impl):
    import re
    import rustitems as R
    fails = []
    cases = gen_cases(ops, impl)
    if pid == "C13":
        for j, o, sx, text, srcs in cases:
            items, probs = c13_problems(text)
            for cls, msg in probs[:3]:
                fails.append({"op": o, "impl": impl[j][:400], "expected": "a module that parses and resolves", "shape": sx,
                              "kfneed": KFNEED_C13.get(cls, []),
                              "why": f"generated module fails the {cls} check: {msg}"})
        for o, r in zip(ops, impl):
            if o.startswith(("compile\t", "p_c16\t")) and r.startswith("violated: the file written"):
                fails.append({"op": o, "impl": r[:300], "expected": "a file that can be included inside a module: the returned items behind a header without inner attributes or inner doc comments",
                              "kfneed": [], "why": "the generated file is not a well-formed module body: " + r[:200]})
    if pid == "C14":
        for j, o, sx, text, srcs in cases:
            keys = keys_of(sx)
            if any(k is None or not re.fullmatch(r"[A-Za-z_][A-Za-z0-9_]*", k) for k in keys):
                continue                        # outside C14's quantifier (identifier-like member names)
            items, probs = c13_problems(text)
            if items is None:
                fails.append({"op": o, "impl": impl[j][:400], "expected": "definitions that read back as " + sx, "shape": sx,
                              "kfneed": ["d17s"], "why": "generated module does not parse: " + probs[0][1]})
                continue
            back = R.decode(items)
            # names already in snake_case (convert_case also splits at digits: `x1` becomes `x_1`)
            by_name = all(re.fullmatch(r"[a-z]+(_[a-z]+)*", k) and k not in R.KEYWORDS for k in keys)
            want = R.canon(sx, by_name)
            got = None if back is None else R.canon(back, by_name)
            if got != want:
                fails.append({"op": o, "impl": str(back)[:400], "expected": sx, "shape": sx, "kfneed": KFNEED["C14"],
                              "why": "the generated definitions do not read back as the inferred shape"})
    if pid == "C16":
        name_of, shape_of = {}, {}
        for j, o, sx, text, srcs in cases:
            items, probs = c13_problems(text)
            if items is None:
                continue
            for sub, name in name_pairs(sx, items):
                if sub in name_of and name_of[sub][0] != name:
                    fails.append({"op": o, "impl": name, "expected": name_of[sub][0], "shape": sx, "kfneed": [],
                                  "why": "equal sub-shapes receive different type names: " + sub[:200]})
                name_of.setdefault(sub, (name, o))
                if name in shape_of and shape_of[name][0] != sub:
                    fails.append({"op": o, "impl": name, "expected": "a name different from that of " + shape_of[name][0][:200],
                                  "pair": (sub, shape_of[name][0]), "kfneed": ["d16"],
                                  "why": "different sub-shapes receive the same type name: " + sub[:200]})
                shape_of.setdefault(name, (sub, o))
        for o, r in zip(ops, impl):
            if o.startswith("p_c16\t") and r.startswith("violated"):
                fails.append({"op": o, "impl": r[:300], "expected": "ok* / err", "kfneed": [],
                              "why": "compile_json is not consistent with its contract: " + r[:200]})
    return fails


def external_ops(pid, ops, impl, tier):
    """Operations answered by an external oracle (rustc + the real serde over batches of generated
    modules): (ops, implementation results, expectations, failures)."""
    if pid not in ("C13", "C14", "C15", "C16"):
        return [], [], [], []
    g_ops, g_impl = [], []
    seen = set()
    for j, o, sx, text, srcs in gen_cases(ops, impl):
        if srcs is not None and sx not in seen:
            seen.add(sx)
            g_ops.append("genx\t" + sx)            # the generator's text for the shape the code inferred
            g_impl.append(text.encode().hex())
    if pid == "C16":
        # the include macro and compile_json, end to end: a crate whose build script compiles five collections
        # (names with dots and dashes) and whose modules include them through the macro
        import subprocess as _sp
        mc = os.path.join(os.path.dirname(os.path.dirname(os.path.abspath(__file__))), "macrocheck")
        try:
            pr = _sp.run(["cargo", "run", "--offline", "-q"], cwd=mc, stdout=_sp.PIPE, stderr=_sp.STDOUT,
                         env=dict(os.environ, CARGO_NET_OFFLINE="true"), timeout=900)
            out = pr.stdout.decode(errors="replace")
            okm = pr.returncode == 0 and out.strip().splitlines()[-1:] == ["ok 2 1 1 1 1"]
        except Exception as e:          # noqa: BLE001
            out, okm = str(e), False
        mfail = []
        if not okm:
            mfail.append({"op": "macro\tcollection,a.b,my-shapes,v1.2.3,x", "impl": out[-700:], "expected": "ok 2 1 1 1 1",
                          "why": "include_json_shape!(name) in a crate must read exactly the file that compile_json(name, ..) wrote in its build script"})
        return g_ops + ["macro"], g_impl + ["ok" if okm else "failed"], [None] * (len(g_ops) + 1), mfail
    if pid not in ("C13", "C15"):
        return g_ops, g_impl, [None] * len(g_ops), []
    import rustbatch
    import rustitems as R
    limit = 800 if tier == "thorough" else 200
    cases, meta = [], []
    for j, o, sx, text, srcs in gen_cases(ops, impl):
        if srcs is None or len(cases) >= limit:
            continue
        items, probs = c13_problems(text)
        if items is None or probs or not items:
            continue
        cases.append((text, items[0][1], srcs))
        meta.append((o, sx))
    x_ops, x_impl, x_exp, fails = [], [], [], []
    for k in range(0, len(cases), 100):
        res = rustbatch.run(cases[k:k + 100])
        for (text, root, srcs), (o, sx), r in zip(cases[k:k + 100], meta[k:k + 100], res):
            if pid == "C13":
                x_ops.append("rustc\t" + text.encode().hex())
                x_impl.append("compiles" if r["compiles"] else "rejected")
                x_exp.append(None)
                if not r["compiles"]:
                    fails.append({"op": o, "impl": "; ".join(r["diagnostics"])[:600], "expected": "compiles", "shape": sx,
                                  "kfneed": KFNEED_C13["rustc"], "why": "rustc rejects a generated module that parses and resolves"})
            elif r["compiles"]:
                for src, verdict in zip(srcs, r["sources"]):
                    h = src.encode().hex()
                    x_ops.append(f"derive_accepts\t{sx}\t{h}")
                    x_impl.append("false" if verdict.startswith("de-fail") else "true")
                    x_exp.append("true")
                    if not verdict.startswith("de-fail"):
                        x_ops.append(f"derive_rt\t{sx}\t{h}")
                        x_impl.append("true" if verdict == "ok" else "false")
                        x_exp.append("true")
    return g_ops + x_ops, g_impl + x_impl, [None] * len(g_ops) + x_exp, fails


def oracle_ok(got, want):
    if want.startswith("@C04"):
        tag, implres = want.split(":", 1)
        if got == "unmodelled":
            return True
        is_json = got.startswith("accept")
        ok_expected = False
        if is_json:
            depth = int(got.split("depth=")[1].split(" ")[0])
            ok_expected = depth <= 256 and got.endswith("dup=ok")
        if tag == "@C04sup":
            # unchecked query: must be false on non-JSON (on JSON either answer is possible)
            return is_json and depth <= 256 and got.endswith("dup=ok") or implres == "false"
        accepted = implres.startswith("ok")
        return accepted == ok_expected
    return got == want or got.startswith(want + " ")


def widen(pid, ops):
    """Extra cases around disagreeing operations (sub-terms and rebuilt contexts)."""
    extra = []
    for o in ops:
        f = o.split("\t")
        if f[0] in ("subset",) and len(f) == 3:
            extra.append(o)
            extra.append(f"subset\t{f[1]}\t{f[1]}\t!true")
            extra.append(f"subset\t{f[2]}\t{f[2]}\t!true")
            extra.append(f"subset\t(A0 {f[1]})\t(A0 {f[2]})")
            extra.append(f"subset\t(T0 {f[1]})\t(T0 {f[2]})")
            extra.append(f"subset\t(V0 {f[1]})\t(V0 {f[2]})")
        elif f[0] in ("similar", "p_similar") and len(f) == 3:
            extra.append(f"p_similar\t{f[1]}\t{f[2]}\t!ok")
            extra.append(f"p_similar\t{f[2]}\t{f[1]}\t!ok")
        elif f[0] == "merger" and len(f) == 3:
            extra.append(o)
    return extra


TEXT_FIELDS = {"derive_accepts": [2], "derive_rt": [2], "superset": [2], "supersetchk": [2], "inferdoc": [1], "inferv": [1], "admits": [2]}


def texts_of(op):
    f = op.split("\t")
    if f[0] in ("sourcesdoc", "sources", "p_sources"):
        return f[1:]
    return [f[i] for i in TEXT_FIELDS.get(f[0], []) if i < len(f)]


def match_known_batch(pid, failures, known, run_model):
    """For each failure the known-finding entry that covers it, or None.
    Class `d3`: some text of the failing operation contains an array of objects whose elements give
    one key two different value shapes (decided by the Lean reference function `conflictFree`)."""
    res = [None] * len(failures)
    if not known or not failures:
        return res
    by_class = {}
    for k in known:
        m = k.get("match", {})
        if "class" in m:
            by_class.setdefault(m["class"], k)
    for i, f in enumerate(failures):
        for k in known:
            m = k.get("match", {})
            if "op_equals" in m and f.get("op") == m["op_equals"]:
                res[i] = k
    gen_classes = {c: k for c, k in by_class.items() if c != "d3"}
    if "d16" in gen_classes:
        # a pair of sub-shapes with one name: the recorded class is "they differ in member names only"
        idx = [i for i, f in enumerate(failures) if res[i] is None and "pair" in f]
        if idx:
            _, out = run_model(["kfclass\tkeysonly\t" + failures[i]["pair"][0] + "\t" + failures[i]["pair"][1] for i in idx])
            for i, r in zip(idx, out):
                if r == "true":
                    res[i] = gen_classes["d16"]
    if gen_classes:
        def shape_of(f):
            if "shape" in f:
                return f["shape"]
            ff = f.get("op", "").split("\t")
            return ff[1] if ff[0] in ("derive_accepts", "derive_rt", "gen") and len(ff) > 1 else None
        idx = [i for i, f in enumerate(failures) if res[i] is None and shape_of(f)]
        if idx:
            _, out = run_model(["kfclass\tgen\t" + shape_of(failures[i]) for i in idx])
            for i, r in zip(idx, out):
                if not r.startswith("classes"):
                    continue
                need = failures[i].get("kfneed", KFNEED.get(pid, []))
                for c in r.split(" ")[1:]:
                    if c in need and c in gen_classes:
                        res[i] = gen_classes[c]
                        break
    if "d3" in by_class:
        def texts(f):
            # a failed membership check is classified by the failing document alone
            oo = f.get("oracle_op", "")
            if oo.startswith("admits\t"):
                return texts_of(oo)
            return texts_of(f.get("op", ""))
        idx = [i for i, f in enumerate(failures) if res[i] is None and texts(f)]
        if idx:
            ops = ["kfclass\td3\t" + "\t".join(texts(failures[i])) for i in idx]
            _, out = run_model(ops)
            for i, r in zip(idx, out):
                if r == "true":
                    res[i] = by_class["d3"]
    return res
