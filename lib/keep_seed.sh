#!/bin/bash
# usage: keep_seed.sh <worktree> <seed-id> : confirm the agent's change (suite passes with it, demo fails with it,
# demo passes without it) and store patch/demo/agent_meta under /verif/seeded/<seed-id>/
set -u
W=$1; ID=$2
D=/verif/seeded/$ID; mkdir -p $D
cd "$W" || exit 2
git diff -- json_shape/src json_shape_build/src > $D/patch.diff
[ -s $D/patch.diff ] || { echo "no source change"; exit 2; }
for f in json_shape/tests/seed_demo.rs json_shape_build/tests/seed_demo.rs; do [ -f $f ] && cp $f $D/seed_demo.rs; done
cp agent_meta.json $D/agent_meta.json 2>/dev/null
bash /verif/lib/confirm_seed.sh "$W" 2>&1 | tee $D/confirm.log
