"""Parser for the rigid item syntax `codegen` emits, a name-resolution check (C13) and the
read-back of the items into a shape s-expression (C14). Independent of the Lean model."""
import re

KEYWORDS = set("as break const continue crate else enum extern false fn for if impl in let loop match mod move mut pub ref return self Self static struct super trait true type unsafe use where while async await dyn abstract become box do final macro override priv typeof unsized virtual yield try".split())
STD = {"Option", "Vec", "String", "bool", "f64"}
# primitive and prelude types a generated item may name without defining them
PRIMS = set("u8 u16 u32 u64 u128 usize i8 i16 i32 i64 i128 isize f32 f64 bool char str String".split())
IDENT = re.compile(r"^[A-Za-z_][A-Za-z0-9_]*$")


class ParseError(Exception):
    pass


def parse_type(t):
    """type text -> AST: ('unit',) ('bool',) ('f64',) ('string',) ('option',T) ('vec',T) ('tuple',[T]) ('named',n)"""
    t = t.strip()
    pos = [0]

    def ty():
        s = t[pos[0]:]
        if s.startswith("()"):
            pos[0] += 2
            return ("unit",)
        if s.startswith("("):
            pos[0] += 1
            items = []
            while True:
                items.append(ty())
                if t[pos[0]:].startswith(", "):
                    pos[0] += 2
                    continue
                if t[pos[0]:].startswith(")"):
                    pos[0] += 1
                    break
                raise ParseError("tuple syntax: " + t)
            return ("tuple", items)
        m = re.match(r"[A-Za-z_][A-Za-z0-9_]*", s)
        if not m:
            raise ParseError("type syntax: " + t)
        name = m.group(0)
        pos[0] += len(name)
        if t[pos[0]:].startswith("<"):
            pos[0] += 1
            inner = ty()
            if not t[pos[0]:].startswith(">"):
                raise ParseError("generic syntax: " + t)
            pos[0] += 1
            if name == "Option":
                return ("option", inner)
            if name == "Vec":
                return ("vec", inner)
            raise ParseError("unknown generic type " + name)
        return {"bool": ("bool",), "f64": ("f64",), "String": ("string",)}.get(name, ("named", name))

    r = ty()
    if pos[0] != len(t):
        raise ParseError("trailing type text: " + t)
    return r


DERIVE = "#[derive(Debug, Clone, serde::Serialize, serde::Deserialize)]"


def parse_items(text):
    """-> list of ('alias', name, ty) | ('struct', name, [(field, ty)]) | ('enum', name, [(variant, ty)])"""
    items = []
    if text == "":
        return items
    for block in text.split("\n\n"):
        lines = block.split("\n")
        if lines[0] == DERIVE:
            lines = lines[1:]
            head = lines[0]
            m = re.match(r"^pub struct ([^ ;{]*);$", head)
            if m:
                items.append(("struct", m.group(1), []))
                continue
            m = re.match(r"^pub (struct|enum) ([^ ;{]*) \{$", head)
            if not m or lines[-1] != "}":
                raise ParseError("item syntax: " + block)
            kind, name = m.group(1), m.group(2)
            body = []
            for l in lines[1:-1]:
                if kind == "struct":
                    mm = re.match(r"^    pub (.*?): (.*),$", l)
                    if not mm:
                        raise ParseError("field syntax: " + l)
                    body.append((mm.group(1), parse_type(mm.group(2))))
                else:
                    mm = re.match(r"^    ([^(]*)\((.*)\),$", l)
                    if not mm:
                        raise ParseError("variant syntax: " + l)
                    body.append((mm.group(1), parse_type(mm.group(2))))
            items.append((kind, name, body))
        else:
            m = re.match(r"^pub type ([^ ]*) = (.*);$", block)
            if not m:
                raise ParseError("item syntax: " + block)
            items.append(("alias", m.group(1), parse_type(m.group(2))))
    return items


def type_refs(ty, out):
    if ty[0] == "named":
        out.append(ty[1])
    elif ty[0] in ("option", "vec"):
        type_refs(ty[1], out)
    elif ty[0] == "tuple":
        for x in ty[1]:
            type_refs(x, out)


def legal_ident(n):
    return bool(IDENT.match(n)) and n not in KEYWORDS and n != "_"


def resolve_problems(items):
    """C13's name-resolution check: list of (class, message); class in
    duplicate-definition, undefined-type, illegal-name, duplicate-field, tuple-arity"""
    probs = []
    names = [i[1] for i in items]
    for n in set(names):
        if names.count(n) > 1:
            probs.append(("duplicate-definition", n))
        if not legal_ident(n):
            probs.append(("illegal-name", n))
    defined = set(names)
    for it in items:
        refs = []
        if it[0] == "alias":
            type_refs(it[2], refs)
        else:
            seen = set()
            for f, ty in it[2]:
                type_refs(ty, refs)
                if not legal_ident(f):
                    probs.append(("illegal-name", f"{it[1]}.{f!r}"))
                if f in seen:
                    probs.append(("duplicate-field" if it[0] == "struct" else "duplicate-variant", f"{it[1]}.{f}"))
                seen.add(f)
        for r in refs:
            if r not in defined and r not in PRIMS:
                probs.append(("undefined-type", r))

        def arity(ty):
            if ty[0] == "tuple" and len(ty[1]) > 12:
                probs.append(("tuple-arity", str(len(ty[1]))))
            if ty[0] in ("option", "vec"):
                arity(ty[1])
            if ty[0] == "tuple":
                for x in ty[1]:
                    arity(x)
        if it[0] == "alias":
            arity(it[2])
        else:
            for _, ty in it[2]:
                arity(ty)
    return probs


def hexs(s):
    return s.encode().hex()


def decode(items, root=None):
    """read the definitions back into a shape s-expression (wire format), following references;
    None if a reference cannot be resolved uniquely"""
    defs = {}
    for it in items:
        if it[1] in defs:
            return None
        defs[it[1]] = it
    if not items:
        return None

    def opt(s):
        if s == "N":
            return "N"
        if s[0] == "(":
            return s[:2] + "1" + s[3:]
        return s[0] + "1"

    def of_ty(ty, depth=0):
        if depth > 200:
            return None
        k = ty[0]
        if k == "unit":
            return "N"
        if k == "bool":
            return "B0"
        if k == "f64":
            return "U0"
        if k == "string":
            return "S0"
        if k == "option":
            inner = of_ty(ty[1], depth + 1)
            return None if inner is None else opt(inner)
        if k == "vec":
            inner = of_ty(ty[1], depth + 1)
            return None if inner is None else f"(A0 {inner})"
        if k == "tuple" and len(ty[1]) == 1:
            return of_ty(ty[1][0], depth + 1)       # `(T)` is a parenthesised type, not a tuple
        if k == "tuple":
            parts = [of_ty(x, depth + 1) for x in ty[1]]
            if any(p is None for p in parts):
                return None
            return "(T0" + "".join(" " + p for p in parts) + ")"
        return of_item(ty[1], depth + 1)

    def of_item(name, depth=0):
        it = defs.get(name)
        if it is None or depth > 200:
            return None
        if it[0] == "alias":
            return of_ty(it[2], depth + 1)
        if it[0] == "struct":
            parts = []
            for f, ty in it[2]:
                v = of_ty(ty, depth + 1)
                if v is None:
                    return None
                parts.append(f" (k{hexs(f)} {v})")
            return "(O0" + "".join(parts) + ")"
        parts = []
        for _, ty in it[2]:
            v = of_ty(ty, depth + 1)
            if v is None:
                return None
            parts.append(" " + v)
        return "(V0" + "".join(parts) + ")"

    return of_item(items[0][1] if root is None else root)


def canon(sx, names=True):
    """canonical form of a shape s-expression: variants sorted by their canonical text; with
    names=False members are compared by position (field names are the snake form of member names)"""
    toks = sx.replace("(", " ( ").replace(")", " ) ").split()
    pos = [0]

    def rd():
        t = toks[pos[0]]
        pos[0] += 1
        if t != "(":
            return t
        hd = toks[pos[0]]
        pos[0] += 1
        parts = []
        while toks[pos[0]] != ")":
            if hd[0] == "O":
                pos[0] += 1                      # (
                k = toks[pos[0]]
                pos[0] += 1
                v = rd()
                pos[0] += 1                      # )
                parts.append((k, v))
            else:
                parts.append(rd())
        pos[0] += 1
        if hd[0] == "O":
            if names:
                return "(" + hd + "".join(f" ({k} {v})" for k, v in sorted(parts)) + ")"
            return "(" + hd + "".join(f" (_ {v})" for k, v in parts) + ")"
        if hd[0] == "V":
            parts = sorted(parts)
        return "(" + hd + "".join(" " + x for x in parts) + ")"
    return rd()
