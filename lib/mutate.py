#!/usr/bin/env python3
"""Systematic mutation run: how many small changes to the library do the checks notice?

usage: mutate.py <repo-copy> <verif-dir> [--limit N] [--files a.rs,b.rs] [--start K]

Enumerates line-level mutants of the library sources in <repo-copy> (a scratch copy of the
repository, never /repo itself), one at a time: applies the mutant, rebuilds the harness of
<verif-dir> (whose Cargo.toml must point at <repo-copy>), runs the quick checks of the properties
anchored in the mutated file until one reports a VIOLATION, restores the file. A mutant no check
notices is then run through the library's own test suite: surviving both is a candidate gap (or an
equivalent mutant) and is listed for triage. Nothing here is evidence for a property; it measures
the generators, the way the seeded changes do, but without a human choosing the change.
"""
import os, re, subprocess, sys, time, json

FILES = {
    "json_shape/src/shape/merger.rs": ["C08", "C01", "C03", "C09"],
    "json_shape/src/value/subset.rs": ["C10", "C02", "C03"],
    "json_shape/src/shape/mod.rs": ["C17", "C04", "C07", "C05"],
    "json_shape/src/serde.rs": ["C06", "C17", "C12"],
    "json_shape/src/lexer.rs": ["C04", "C05", "C07"],
    "json_shape/src/lib.rs": ["C04", "C03", "C02"],
    "json_shape/src/value.rs": ["C10", "C11", "C08", "C17"],
    "json_shape_build/src/lib.rs": ["C13", "C14", "C16", "C15"],
}

OPS = [
    (r"&&", "||"), (r"\|\|", "&&"), (r"==", "!="), (r"!=", "=="),
    (r"optional: true", "optional: false"), (r"optional: false", "optional: true"),
    (r"\.is_optional\(\)", ".is_null()"), (r"\.as_optional\(\)", ".clone()"),
    (r"\btrue\b", "false"), (r"\bfalse\b", "true"),
    (r">=", ">"), (r"<=", "<"), (r"(?<![=<>!-])>(?![=>])", ">="), (r"(?<![=<>!])<(?![=<])", "<="),
    (r"\+ 1\b", "+ 0"), (r"- 1\b", "- 0"), (r"\b256\b", "255"), (r"\.any\(", ".all("), (r"\.all\(", ".any("),
    (r"!(?=[a-zA-Z_(])", ""), (r"\.insert\(", ".contains(&"), (r"\.skip\(1\)", ".skip(0)"),
]

# second operator set (--ops2): literals, ranges, positions, early exits
OPS2 = [
    (r"\b([0-9])\b(?!\.\.)", lambda m: str(int(m.group(1)) + 1)), (r"\b([1-9])\b(?!\.\.)", lambda m: str(int(m.group(1)) - 1)),
    (r"\.\.=", ".."), (r"(?<!\.)\.\.(?![.=])", "..="), (r"\.start\b", ".end"), (r"\.end\b", ".start"),
    (r"\.first\(\)", ".last()"), (r"\.len_utf8\(\)", ".len_utf16()"), (r"\.iter\(\)", ".iter().rev()"),
    (r"\bbreak\b", "continue"), (r"\.is_empty\(\)", ".is_empty() == false"), (r"\.as_non_optional\(\)", ".clone()"),
    (r"\.is_null\(\)", ".is_optional()"), (r"\.contains\(", ".insert("), (r"\.extend\(", ".contains(&"),
    (r"'\\u\{0020\}'", "'\\u{0021}'"), (r"'\\\\'", "'/'"), (r"\bu\b'", "x'"), (r"Some\(", "Option::Some("),
    (r"\.windows\(2\)", ".windows(1)"), (r"\.zip\(", ".chain("), (r"&&\s*!", "&& "), (r"\.keys\(\)", ".keys().rev()"),
    (r"\.to_optional_mut\(\);", ";"), (r"\.clone\(\)\.as_optional\(\)", ".clone()"),
]


# third operator set (--ops3): statement deletion, conditions forced to true / false, match guards removed
def ops3_line(l):
    code = l.split("//")[0]
    s = code.strip()
    out = []
    if s.endswith(";") and not s.startswith(("let ", "return", "use ", "pub ", "}", "type ", "const ", "static ", "break", "continue")) \
            and s.count("(") == s.count(")") and s.count("{") == s.count("}"):
        out.append((code[: len(code) - len(code.lstrip())] + ";", "delete statement"))
    m = re.search(r"\bif (?!let\b)(.+) \{\s*$", code)
    if m and "else if" not in code[: m.start()] + "x":
        out.append((code[: m.start()] + "if true {", "condition -> true"))
        out.append((code[: m.start()] + "if false {", "condition -> false"))
    m = re.search(r"\belse if (?!let\b)(.+) \{\s*$", code)
    if m:
        out.append((code[: m.start()] + "else if true {", "else-if condition -> true"))
        out.append((code[: m.start()] + "else if false {", "else-if condition -> false"))
    m = re.search(r"\) if (.+?) =>", code)
    if m:
        out.append((code[: m.start()] + ") =>" + code[m.end():], "match guard removed"))
    m = re.search(r"\.filter\(([^()]|\([^()]*\))*\)", code)
    if m:
        out.append((code[: m.start()] + code[m.end():], "filter removed"))
    return [(new, what) for new, what in out if new != code]


def mutants(path):
    src = open(path).read().split("\n")
    end = len(src)
    for i, l in enumerate(src):
        if l.strip().startswith("#[cfg(test)]") and not (i + 1 < len(src) and src[i + 1].strip().endswith(";")):
            end = i
            break
    out = []
    for i in range(end):
        l = src[i]
        s = l.strip()
        if not s or s.startswith("//") or s.startswith("#[") or s.startswith("use ") or "cfg(feature" in l or "verif" in l:
            continue
        code = l.split("//")[0]
        if "--ops3" in sys.argv:
            for new, what in ops3_line(l):
                out.append((i, l, new + l[len(code):], what))
            continue
        for pat, rep in (OPS2 if "--ops2" in sys.argv else OPS):
            for m in re.finditer(pat, code):
                new = code[: m.start()] + (rep(m) if callable(rep) else rep) + code[m.end():]
                if new != code:
                    out.append((i, l, new + l[len(code):], f"{pat} -> {rep if not callable(rep) else 'fn'}"))
    return src, out


def sh(cmd, cwd, timeout=900):
    try:
        p = subprocess.run(cmd, cwd=cwd, stdout=subprocess.PIPE, stderr=subprocess.STDOUT, timeout=timeout, shell=isinstance(cmd, str))
        return p.returncode, p.stdout.decode(errors="replace")
    except subprocess.TimeoutExpired:
        return 124, "timeout"


def main():
    repo, verif = sys.argv[1], sys.argv[2]
    limit = int(sys.argv[sys.argv.index("--limit") + 1]) if "--limit" in sys.argv else 10 ** 9
    start = int(sys.argv[sys.argv.index("--start") + 1]) if "--start" in sys.argv else 0
    stride = int(sys.argv[sys.argv.index("--stride") + 1]) if "--stride" in sys.argv else 1
    files = sys.argv[sys.argv.index("--files") + 1].split(",") if "--files" in sys.argv else list(FILES)
    env = dict(os.environ, VERIF_OP_TIMEOUT="5", VERIF_EVIDENCE_DIR=os.path.join(verif, "out", "evidence-scratch"))
    total = caught = nobuild = survived = 0
    n = 0
    for f in files:
        path = os.path.join(repo, f)
        src, ms = mutants(path)
        for (i, old, new, what) in ms:
            n += 1
            if n % stride != start % stride:
                continue
            if total >= limit:
                break
            mutated = list(src)
            mutated[i] = new
            open(path, "w").write("\n".join(mutated))
            rc, out = sh(["cargo", "build", "--release", "--offline"], os.path.join(verif, "harness"))
            if rc != 0:
                nobuild += 1
                open(path, "w").write("\n".join(src))
                continue
            total += 1
            verdict = None
            for p in FILES[f]:
                pr = subprocess.run([os.path.join(verif, "check"), p], cwd=verif, stdout=subprocess.PIPE, stderr=subprocess.STDOUT, env=env)
                o = pr.stdout.decode(errors="replace")
                if "VIOLATION" in o:
                    verdict = p + (" nfif" if "no-failing-input-found" in o else " input")
                    break
            if verdict:
                caught += 1
                print(f"CAUGHT {f}:{i+1} [{what}] by {verdict}", flush=True)
            else:
                rc, out = sh("cargo test --workspace --no-fail-fast --offline 2>&1 | grep -E '^test result|panicked|FAILED' | head -30", repo, timeout=600)
                suite_ok = "FAILED" not in out and "failed; " in out and not re.search(r"[1-9]\d* failed", out)
                survived += 1
                print(f"MISSED {f}:{i+1} [{what}] suite={'passes' if suite_ok else 'fails'} :: {old.strip()[:110]}  ==>  {new.strip()[:110]}", flush=True)
            open(path, "w").write("\n".join(src))
    print(json.dumps({"mutants_built": total, "caught": caught, "missed": survived, "did_not_build": nobuild}), flush=True)


if __name__ == "__main__":
    main()
