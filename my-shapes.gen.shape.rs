// Generated `JsonShape` file.
use serde;

#[derive(Debug, Clone, serde::Serialize, serde::Deserialize)]
pub struct Struct2CrcC29E77D8 {
    pub age: Option<f64>,
    pub name: Option<String>,
}