// Generated `JsonShape` file.
use serde;

pub type Tuple2Crc7CDFA3A4 = (f64, String);