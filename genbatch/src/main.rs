fn main() {}
