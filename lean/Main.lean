/-
Line-protocol driver: one operation per input line (tab separated), one result line per operation.
Evaluates the executable model and the reference definitions; the Rust harness prints the same
lines for the real code and the two streams are diffed.
-/
import ShapeVerif.Model.Shape
import ShapeVerif.Model.Subset
import ShapeVerif.Model.Merge
import ShapeVerif.Model.Json
import ShapeVerif.Model.Infer
import ShapeVerif.Model.Display
import ShapeVerif.Model.Serde
import ShapeVerif.Model.Cost
import ShapeVerif.Model.Lexer
import ShapeVerif.Model.Parser
import ShapeVerif.Model.ParseCst
import ShapeVerif.Model.Gen
import ShapeVerif.Model.Derive
import ShapeVerif.Model.Build
import ShapeVerif.Model.Subtypes
import ShapeVerif.Ref.Sem
import ShapeVerif.Ref.Rfc8259
import ShapeVerif.Ref.Witness
open ShapeVerif

def showBool (b : Bool) : String := if b then "true" else "false"

def showInferErr : InferErr → String
  | .invalidObjectValueType v e => "err InvalidObjectValueType " ++ sexp v ++ " " ++ sexp e
  | .unknown => "err Unknown"

def textOfHex (h : String) : Option String := stringOfHex h

mutual
/-- member names as the (repaired) text path reads them: escapes decoded, raw text as fallback -/
def normalizeKeys : Doc → Doc
  | .arr xs => .arr (normalizeKeysList xs)
  | .obj ms => .obj (normalizeKeysMembers ms)
  | d => d
def normalizeKeysList : List Doc → List Doc
  | [] => []
  | x :: xs => normalizeKeys x :: normalizeKeysList xs
def normalizeKeysMembers : List (String × Doc) → List (String × Doc)
  | [] => []
  | (k, v) :: ms => (memberName (['"'] ++ k.toList ++ ['"']), normalizeKeys v) :: normalizeKeysMembers ms
end

def docOfHex (h : String) : Option Doc :=
  match textOfHex h with
  | some t => (Rfc.parseString t).map normalizeKeys
  | none => none

def docsOfHex : List String → Option (List Doc)
  | [] => some []
  | h :: hs => match docOfHex h, docsOfHex hs with
    | some d, some ds => some (d :: ds)
    | _, _ => none

def withShape (s : String) (k : Shape → String) : String :=
  match shapeOfSexp s with
  | some sh => k sh
  | none => "bad-shape"

def shapeEq (a b : Shape) : Bool := Shape.cmp a b == .eq

def srcs (ds : List Doc) : Option Shape :=
  match fromSourcesDoc ds with
  | .ok s => some s
  | .error _ => none

/-- C08 evaluated on the model, mirroring the harness' `p_c08` -/
def pC08 (d e : Doc) : String :=
  match inferDoc d, inferDoc e with
  | .ok sd, .ok _ =>
    if (srcs [d, d]).map (shapeEq sd) != some true then "violated: from_sources([d,d]) != from_str(d)"
    else if (srcs [d, d, d]).map (shapeEq sd) != some true || (srcs (List.replicate 5 d)).map (shapeEq sd) != some true then
      "violated: from_sources of 3 or 5 copies of d != from_str(d)"
    else if (srcs [d, .null]).map (shapeEq sd.asOptional) != some true
        || (srcs [.null, d]).map (shapeEq sd.asOptional) != some true then "violated: null absorption"
    else match srcs [d, e], srcs [e, d] with
      | some s1, some s2 =>
        let objOk := match srcs [.obj [("k", d), ("x", .num "1")], .obj [("k", e), ("y", .str "s")]] with
          | some (.object c false) =>
            (mapGet "k" c).map (shapeEq s1) == some true
              && (mapGet "x" c).map (shapeEq (.number true)) == some true
              && (mapGet "y" c).map (shapeEq (.string true)) == some true && c.length == 3
          | _ => false
        if !objOk then "violated: object structure"
        else if (srcs [.arr [d, d], .arr [e]]).map (shapeEq (.array s1 false)) != some true then
          "violated: array structure"
        else "ok " ++ sexp s1 ++ " " ++ sexp s2
      | _, _ => "violated: from_sources([d,e]) failed"
  | _, _ => "skip"

/-- C03 evaluated on the model, mirroring the harness' `p_c03` -/
def pC03 (ds : List Doc) : String :=
  match fromSourcesDoc ds with
  | .error _ => "skip"
  | .ok s =>
    let rec go : Nat → List Doc → String
      | _, [] => if isSubset s s then "ok" else "violated: merged shape not a subset of itself"
      | i, d :: rest =>
        match inferDoc d with
        | .error _ => "skip"
        | .ok sd =>
          if !isSubset sd s then
            "violated: i=" ++ toString i ++ " from_str(d_i).is_subset(from_sources(d)) is false; "
              ++ sexp sd ++ " vs " ++ sexp s
          else go (i + 1) rest
    go 0 ds

/-- C09 evaluated on the model, mirroring the harness' `p_c09` -/
def pC09 (k : Nat) (ds : List Doc) : String :=
  match fromSourcesDoc ds with
  | .error _ => "skip"
  | .ok base =>
    let under (s : String) : String := String.ofList (s.toList.map fun c => if c == ' ' then '_' else c)
    let rec reps (hh : List Doc) (d : Doc) (prev : Option Shape) : Nat → Nat → Except String Shape
      | 0, _ => match prev with | some p => .ok p | none => .error "no repetition"
      | n + 1, rep =>
        let hh' := hh ++ [d]
        match fromSourcesDoc hh' with
        | .error _ => .error "violated: from_sources failed on a repetition"
        | .ok s =>
          match prev with
          | some p =>
            if Shape.cmp p s != .eq then
              .error ("violated: shape still changing at repetition " ++ toString (rep + 1) ++ ": "
                ++ sexp p ++ " -> " ++ sexp s)
            else reps hh' d (some s) n (rep + 1)
          | none => reps hh' d (some s) n (rep + 1)
    let rec go : List Doc → String → String
      | [], acc => acc
      | d :: rest, acc =>
        match reps ds d none k 0 with
        | .error e => e
        | .ok s => go rest (acc ++ " " ++ under (sexp s))
    go ds ("ok " ++ under (sexp base))

/-- mirror of the harness' `p_readd`: the document at `idx` re-fed `k` times -/
def pReadd (k idx : Nat) (ds : List Doc) : String :=
  match fromSourcesDoc ds, ds[idx]? with
  | .error _, _ => "skip"
  | _, none => "skip"
  | .ok base, some d =>
    let under (s : String) : String := String.ofList (s.toList.map fun c => if c == ' ' then '_' else c)
    let rec reps (hh : List Doc) (prev : Option Shape) : Nat → Nat → Except String Shape
      | 0, _ => match prev with | some p => .ok p | none => .error "no repetition"
      | n + 1, rep =>
        let hh' := hh ++ [d]
        match fromSourcesDoc hh' with
        | .error _ => .error "violated: from_sources failed on a repetition"
        | .ok s =>
          match prev with
          | some p =>
            if Shape.cmp p s != .eq then
              .error ("violated: shape still changing at repetition " ++ toString (rep + 1) ++ ": "
                ++ sexp p ++ " -> " ++ sexp s)
            else reps hh' (some s) n (rep + 1)
          | none => reps hh' (some s) n (rep + 1)
    match reps ds none k 0 with
    | .error e => e
    | .ok s => "ok " ++ under (sexp base) ++ " " ++ under (sexp s)

/-- mirror of the harness' `p_reorder` (the runtime instance of `readd_any`) -/
def pReorder (ds : List Doc) : String :=
  match fromSourcesDoc ds with
  | .error _ => "skip"
  | .ok base =>
    let under (s : String) : String := String.ofList (s.toList.map fun c => if c == ' ' then '_' else c)
    match fromSourcesDoc (ds ++ ds.reverse ++ ds ++ ds.take 1) with
    | .error _ => "violated: from_sources failed on re-fed sources"
    | .ok s => "ok " ++ under (sexp base) ++ " " ++ under (sexp s)

/-- mirror of the harness' `p_cycle`: printed size of the shape of the group fed 2, 4, 8, 16 times -/
def pCycle (ds : List Doc) : String :=
  let rep (m : Nat) : List Doc := (List.replicate m ds).flatten
  let rec go : List Nat → String → String
    | [], acc => acc
    | m :: ms, acc =>
      match fromSourcesDoc (rep m) with
      | .error _ => "skip"
      | .ok s => go ms (acc ++ " " ++ toString (sexp s).utf8ByteSize)
  go [2, 4, 8, 16] "ok"

def tokName : Tok → String
  | .eof => "EOF" | .ws => "Whitespace" | .nl => "Newline" | .true_ => "True" | .false_ => "False"
  | .null_ => "Null" | .lbrace => "LBrace" | .rbrace => "RBrace" | .lbrak => "LBrak" | .rbrak => "RBrak"
  | .comma => "Comma" | .colon => "Colon" | .string => "String" | .number => "Number" | .error => "Error"

def diagName : DiagKind → String
  | .invalidToken => "invalid-token" | .unterminated => "unterminated" | .badUnicode => "bad-unicode-escape"
  | .badEscape => "bad-escape" | .badChar => "bad-char" | .tooDeep => "too-deep" | .syntax => "syntax"

def showDiags (ds : List Diag) : String :=
  ds.foldl (fun acc d => acc ++ " " ++ diagName d.kind ++ "@" ++ toString d.start ++ ".." ++ toString d.stop) ""

def showPErr : PErr → String
  | .invalidJson v s e => "err InvalidJson " ++ toString s ++ " " ++ toString e ++ " " ++ hexOfString v
  | .tooManyRootNodes n => "err TooManyRootNodes " ++ toString n
  | .invalidType t => "err InvalidType " ++ hexOfString t
  | .invalidObjectKey => "err InvalidObjectKey"
  | .invalidObjectValue => "err InvalidObjectValue"
  | .invalidObjectValueType v e => "err InvalidObjectValueType " ++ sexp v ++ " " ++ sexp e
  | .unknown => "err Unknown"
  | .emptyFile => "err EmptyFile"

def showOutcomeShape : Outcome Shape → String
  | .ok s => "ok " ++ sexp s
  | .err e => showPErr e
  | .panic => "panic"

def textsOfHex : List String → Option (List (List Char))
  | [] => some []
  | h :: hs => match textOfHex h, textsOfHex hs with
    | some t, some ts => some (t.toList :: ts)
    | _, _ => none

/-- model of `compile_json` up to the file system: texts → `from_sources` → generated text -/
def compileModel (hs : List String) : String :=
  match textsOfHex hs with
  | none => "bad-text"
  | some ts =>
    match fromSources ts with
    | .ok s => if asciiKeys s then "ok " ++ hexOfString (generate s) ++ " " ++ sexp s else "unmodelled"
    | .err _ => "err"
    | .panic => "panic"

/-- one step `namehex:src,src,..` of a build history; a source `!` is a path that does not exist.
Returns the request, the files to create for it, and whether every key of every text is ASCII. -/
def parseBuildStep (i : Nat) (st : String) : Option (BuildOp × List (String × String)) :=
  match st.splitOn ":" with
  | [n, srcs] =>
    match textOfHex n with
    | none => none
    | some name =>
      let toks := if srcs.isEmpty then [] else srcs.splitOn ","
      let rec go (j : Nat) : List String → Option (List String × List (String × String))
        | [] => some ([], [])
        | "!" :: rest =>
          match go (j + 1) rest with
          | some (ps, fs) => some (("/src/missing_" ++ toString i ++ "_" ++ toString j) :: ps, fs)
          | none => none
        | h :: rest =>
          match textOfHex h, go (j + 1) rest with
          | some t, some (ps, fs) =>
            let p := "/src/s" ++ toString i ++ "_" ++ toString j ++ ".json"
            some (p :: ps, (p, t) :: fs)
          | _, _ => none
      match go 0 toks with
      | some (ps, files) => some (⟨name, ps⟩, files)
      | none => none
  | _ => none

def showBuildOut : BuildOut → String
  | .ok _ => "ok" | .err => "err" | .panic => "panic"

/-- model of a history of `compile_json` requests into one directory (Model/Build.lean) -/
def buildHistoryModel (steps : List String) : String :=
  let rec parseAll (i : Nat) : List String → Option (List (BuildOp × List (String × String)))
    | [] => some []
    | st :: rest =>
      match parseBuildStep i st, parseAll (i + 1) rest with
      | some a, some r => some (a :: r)
      | _, _ => none
  match parseAll 0 steps with
  | none => "bad-op"
  | some ps =>
    let env : BuildEnv := ⟨some "/out", "/cwd"⟩
    let fs0 : FS := ps.foldl (fun acc p => p.2 ++ acc) []
    let ops := ps.map (·.1)
    let r := runBuild env fs0 ops
    -- only ASCII member names are inside the generator model
    let modelled := ps.all fun p => p.2.all fun f =>
      match fromStr f.2.toList with
      | .ok s => asciiKeys s
      | _ => true
    if !modelled then "unmodelled" else
    let names := (ops.map (·.name)).eraseDups
    let files := names.filterMap fun n =>
      match r.1.read (targetPath env n) with
      | some c => some (targetFile n, c)
      | none => none
    let sorted := files.toArray.qsort (fun a b => a.1 < b.1) |>.toList
    "steps" ++ r.2.foldl (fun acc o => acc ++ " " ++ showBuildOut o) "" ++ " |" ++
      sorted.foldl (fun acc f => acc ++ " " ++ hexOfString f.1 ++ "=" ++ hexOfString f.2) ""

/-- type argument of a typed query: `Number`, `ONumber` (= `Optional<Number>`), ... -/
def tyArgOfString (t : String) : Option (Kind × Bool) :=
  let base (b : String) : Option Kind :=
    match b with
    | "Null" => some .null | "Number" => some .number | "String" => some .string | "Boolean" => some .boolean
    | "Array" => some .array | "Tuple" => some .tuple | "Object" => some .object | "OneOf" => some .oneOf
    | _ => none
  match base t with
  | some k => some (k, false)
  | none => if t.startsWith "O" then (base (t.drop 1).toString).map (fun k => (k, true)) else none

def subQuery (q t : String) (a : Shape) (key : String) (i : Nat) : String :=
  match tyArgOfString t with
  | none => "n/a"
  | some (k, o) =>
    -- the impls that exist: no Optional<Null>; IsArrayOf/IsOneOf/IsObjectOf for every other argument;
    -- IsTupleOf has no Tuple / Optional<Tuple>
    if k == .null && o then "n/a" else
    match q with
    | "arr" => showBool (isArrayOf k o a)
    | "one" => showBool (isOneOfT k o a)
    | "obj" => showBool (isObjectOf k o key a)
    | "tup" => if k == .tuple then "n/a" else showBool (isTupleOfAt k o i a)
    | _ => "bad-op"

/-- operations answered through the model of the text layer (lexer + recovering parser over lists): texts beyond
20 000 bytes are left to the implementation-side oracles -/
def textModelOps : List String := ["p_c07", "lex", "cst", "superset", "supersetchk", "inferdoc"]

def step (line : String) : String :=
  if (textModelOps.contains ((line.splitOn "\t").headD "")) && (line.splitOn "\t").any (fun f => f.length > 40000) then
    "unmodelled"
  else
  match line.splitOn "\t" with
  | ["sub", q, t, a, key, i] => withShape a fun a =>
      match textOfHex key, i.toNat? with
      | some key, some i => subQuery q t a key i
      | _, _ => "bad-op"
  | "tupof" :: a :: types => withShape a fun a =>
      let rec go : List String → Option (List Shape)
        | [] => some []
        | t :: ts => match shapeOfSexp t, go ts with
          | some s, some l => some (s :: l)
          | _, _ => none
      match go types with
      | some l => showBool (isTupleOfTypes l a)
      | none => "bad-shape"
  | "p_c16h" :: _ :: steps => buildHistoryModel steps
  | ["subset", a, b] => withShape a fun a => withShape b fun b => showBool (isSubset a b)
  | ["similar", a, b] => withShape a fun a => withShape b fun b =>
      match Shape.similar a b with
      | some c => "some " ++ sexp c
      | none => "none"
  | ["merger", a, b] => withShape a fun a => withShape b fun b => "ok " ++ sexp (merger a b)
  | ["asopt", a] => withShape a fun a => sexp a.asOptional
  | ["asnonopt", a] => withShape a fun a => sexp a.asNonOptional
  | ["isopt", a] => withShape a fun a => showBool a.isOptional
  | ["kinds", a] => withShape a fun a =>
      String.ofList ([Kind.null, .boolean, .number, .string, .array, .tuple, .object, .oneOf].map
        fun k => if kindOf a == k then '1' else '0')
  | ["keys", a] => withShape a fun a =>
      match a.keys with
      | some ks => "some" ++ ks.foldl (fun acc k => acc ++ " " ++ hexOfString k) ""
      | none => "none"
  | ["cmp", a, b] => withShape a fun a => withShape b fun b =>
      match Shape.cmp a b with | .lt => "lt" | .eq => "eq" | .gt => "gt"
  | ["p_similar", a, b] => withShape a fun a => withShape b fun b =>
      match Shape.similar a b with
      | none => "ok"
      | some r =>
        if Shape.cmp r.asNonOptional a.asNonOptional != .eq || Shape.cmp r.asNonOptional b.asNonOptional != .eq then
          "violated: differs beyond the optional flag"
        else if r.isOptional != (a.isOptional || b.isOptional) then "violated: optional flag"
        else if ((match Shape.similar b a with | some r' => Shape.cmp r' r != .eq | none => true) : Bool) then
          "violated: not symmetric"
        else if !isSubset a r || !isSubset b r then "violated: input not subset of result"
        else "ok"
  | ["display", a] => withShape a fun a =>
      if asciiKeys a then hexOfString (display a) else "unmodelled"
  | ["echo", a] => withShape a fun a => sexp a
  | ["genx", a] => withShape a fun a =>
      if asciiKeys a then hexOfString (generate a) else "unmodelled"
  | ["gen", a] => withShape a fun a =>
      if asciiKeys a then hexOfString (generate a) else "unmodelled"
  | ["cst", h] =>
      match textOfHex h with
      | none => "bad-text"
      | some t =>
        let r := parse t.toList
        (dumpNode 0 r.root).1 ++ " |" ++ showDiags r.diags
  | ["lex", h] =>
      match textOfHex h with
      | none => "bad-text"
      | some t =>
        let r := tokenize t.toList
        r.tokens.foldl (fun acc tk => acc ++ tokName tk.kind ++ "@" ++ toString tk.start ++ ".." ++ toString tk.stop ++ " ") ""
          ++ "|" ++ showDiags r.diags
  | ["ticks_subset", a, b] => withShape a fun a => withShape b fun b =>
      let r := subsetT a b
      showBool r.1 ++ " " ++ toString r.2
  | ["ticks_merger", a, b] => withShape a fun a => withShape b fun b => toString (mergerT a b)
  | ["ticks_infer", h] =>
      match docOfHex h with
      | none => "not-json"
      | some d => toString (ticksInferDoc d)
  | ["ticks_inferv", h] =>
      match docOfHex h with
      | none => "not-json"
      | some d => toString (ticksSVal d.toSVal)
  | ["serde", a] => withShape a fun a => hexOfString (renderJson (serJ a))
  | ["serdert", a] => withShape a fun a =>
      match deserialize (serJ a) with
      | some b => "ok " ++ sexp b
      | none => "err"
  | ["p_c11", a] => withShape a fun a =>
      match deserialize (serJ a) with
      | some b => if Shape.cmp a b == .eq then "ok" else "violated: serde round trip"
      | none => "violated: serde round trip"
  | ["inferdoc", h] =>
      if h.length > 40000 then "unmodelled" else
      match textOfHex h with
      | none => "bad-text"
      | some t => showOutcomeShape (fromStr t.toList)
  | ["p_c07", h1, h2] =>
      match textOfHex h1, textOfHex h2 with
      | some a, some b =>
        (match fromStr a.toList, fromStr b.toList with
         | .ok x, .ok y => if Shape.cmp x y == .eq then "ok" else "violated: " ++ sexp x ++ " vs " ++ sexp y
         | x, y => "violated: " ++ showOutcomeShape x ++ " vs " ++ showOutcomeShape y)
      | _, _ => "bad-text"
  | ["inferv", h] =>
      match docOfHex h with
      | none => "not-json"
      | some d => "ok " ++ sexp (inferSVal d.toSVal)
  | "sourcesdoc" :: hs =>
      match textsOfHex hs with
      | none => "bad-text"
      | some ts => showOutcomeShape (fromSources ts)
  | ["admits", a, h] => withShape a fun a =>
      match docOfHex h with
      | none => "not-json"
      | some d => showBool (admits a d)
  | ["witness", a, b] => withShape a fun a => withShape b fun b =>
      match findWitness a b with
      | (some d, _) => "counterexample " ++ hexOfString (renderDoc d)
      | (none, n) => "ok " ++ toString n
  | ["wf", a] => withShape a fun a => showBool a.wf
  | ["superset", a, h] => withShape a fun a =>
      match textOfHex h with
      | none => "bad-text"
      | some t => match isSuperset a t.toList with
        | .ok b => showBool b
        | .err e => showPErr e
        | .panic => "panic"
  | ["supersetchk", a, h] => withShape a fun a =>
      match textOfHex h with
      | none => "bad-text"
      | some t => match isSupersetChecked a t.toList with
        | .ok b => "ok " ++ showBool b
        | .err e => showPErr e
        | .panic => "panic"
  | ["kfclass", "keysonly", a, b] => withShape a fun a => withShape b fun b => showBool (keysOnly a b)
  | ["kfclass", "gen", a] => withShape a fun a =>
      "classes " ++ genClasses a ++ (if noNullMembers a then "" else "d23 ")
  | ["derive_accepts", a, h] => withShape a fun a =>
      -- the derive model reads member names as field names: only for shapes whose names are legal fields
      -- and type references as the definition of the referenced sub-shape: only without name clashes
      if badFields a || nameClash a then "unmodelled" else
      match docOfHex h with
      | none => "not-json"
      | some d => if docNoDup d then toString (rootAccepts a d) else "unmodelled"
  | ["derive_rt", a, h] => withShape a fun a =>
      -- what comes back when the value that was read is serialised again, compared with the source up to
      -- number formatting and explicit nulls for absent optional members
      if badFields a || nameClash a then "unmodelled" else
      match docOfHex h with
      | none => "not-json"
      | some d =>
        if !docNoDup d then "unmodelled" else
        match serdeBack (if rootOptionalNamed a then a.asNonOptional else a) d with
        | some d' => toString (backEq d d')
        | none => "rejected"
  | "kfclass" :: "d3" :: hs =>
      match docsOfHex hs with
      | none => "not-json"
      | some ds => showBool (ds.any fun d => !conflictFree d)
  | ["p_c08", hd, he] =>
      match docOfHex hd, docOfHex he with
      | some d, some e => pC08 d e
      | _, _ => "not-json"
  | ["p_c17", _] => "n/a"
  | "compile" :: _ :: hs => compileModel hs
  | "p_c16" :: _ :: hs => compileModel hs
  | "rustc" :: _ => "n/a"
  | ["allocs", _, _] => "n/a"
  | "p_c09" :: k :: hs =>
      match docsOfHex hs, k.toNat? with
      | some ds, some k => pC09 k ds
      | _, _ => "not-json"
  | ["p_display_wide", _] => "n/a"
  | ["p_wide_algebra", _] => "n/a"
  | "p_readd" :: k :: idx :: hs =>
      match docsOfHex hs, k.toNat?, idx.toNat? with
      | some ds, some k, some i => pReadd k i ds
      | _, _, _ => "not-json"
  | "p_cycle" :: hs =>
      match docsOfHex hs with
      | some ds => pCycle ds
      | none => "not-json"
  | "p_reorder" :: hs =>
      match docsOfHex hs with
      | some ds => pReorder ds
      | none => "not-json"
  | ["p_keeps", s0, a, c] => withShape s0 fun s0 => withShape a fun a => withShape c fun c =>
      let m := merger a c
      if !isSubset c m then "violated new: " ++ sexp c ++ " not in " ++ sexp m
      else if isSubset s0 a && !isSubset s0 m then
        "violated keeps: " ++ sexp s0 ++ " in " ++ sexp a ++ " but not in " ++ sexp m
      else "ok"
  | "p_c03" :: hs =>
      match docsOfHex hs with
      | none => "not-json"
      | some ds => pC03 ds
  | ["rfc", h] =>
      if h.length > 40000 then "unmodelled" else
      match docOfHex h with
      | none => "reject"
      | some d =>
        "accept depth=" ++ toString d.depth ++ " dup=" ++
          (match inferDoc d with | .ok _ => "ok" | .error _ => "conflict")
  | _ => "bad-op"

partial def loop (h : IO.FS.Stream) (out : IO.FS.Stream) : IO Unit := do
  let line ← h.getLine
  if line.isEmpty then return ()
  let l := if line.back == '\n' then (line.dropEnd 1).toString else line
  out.putStrLn (step l)
  loop h out

def main : IO Unit := do
  let out ← IO.getStdout
  loop (← IO.getStdin) out
