/-
RFC 8259 as a two-level specification, the way the RFC itself is written:
  §2  "A JSON text is a sequence of tokens. The set of tokens includes six structural characters,
       strings, numbers, and three literal names. [...] Insignificant whitespace is allowed before or
       after any of the six structural characters."
  §6  number = [ minus ] int [ frac ] [ exp ]           (`Rfc.number`, Ref/Rfc8259.lean)
  §7  string = quotation-mark *char quotation-mark      (`Rfc.stringBody`)
A text is JSON when it can be cut into lexemes (tokens and whitespace runs) whose non-whitespace part
derives `value` in the token grammar (Ref/TokenGrammar.lean). The two exceptions the library
documents are separate predicates: the bracket-depth bound (`depthOk`) and conflicting duplicate
member names (`inferDoc` failing on the document).
-/
import ShapeVerif.Ref.TokenGrammar
import ShapeVerif.Ref.Rfc8259
import ShapeVerif.Model.ParseCst
namespace ShapeVerif

/-- the text of a lexeme of the given class is what RFC 8259 allows for that class -/
def lexemeOk (k : Tok) (txt : List Char) : Bool :=
  match k with
  | .ws | .nl => !txt.isEmpty && txt.all Rfc.isWs
  | .lbrace => txt == ['{']
  | .rbrace => txt == ['}']
  | .lbrak => txt == ['[']
  | .rbrak => txt == [']']
  | .comma => txt == [',']
  | .colon => txt == [':']
  | .true_ => txt == ['t', 'r', 'u', 'e']
  | .false_ => txt == ['f', 'a', 'l', 's', 'e']
  | .null_ => txt == ['n', 'u', 'l', 'l']
  | .number => Rfc.number txt == some (txt, [])
  | .string =>
    match txt with
    | '"' :: r => (match Rfc.stringBody r with | some (_, []) => true | _ => false)
    | _ => false
  | .eof | .error => false

/-- `toks` cuts `cs` (which starts at byte offset `pos`) into valid lexemes -/
def TilesFrom : Nat → List Token → List Char → Prop
  | _, [], cs => cs = []
  | pos, t :: ts, cs =>
    ∃ txt rest, cs = txt ++ rest ∧ t.start = pos ∧ t.stop = pos + utf8Len txt ∧ lexemeOk t.kind txt = true ∧
      TilesFrom t.stop ts rest

/-- no prefix of the lexeme sequence has more than 256 brackets open -/
def depthFrom : Int → List Tok → Bool
  | _, [] => true
  | n, k :: ks =>
    let n' := if k == .lbrace || k == .lbrak then n + 1 else if k == .rbrace || k == .rbrak then n - 1 else n
    decide (n' ≤ 256) && depthFrom n' ks

def depthOk (ks : List Tok) : Bool := depthFrom 0 ks

/-- the member name a `String` lexeme carries: the text between its quotes, unescaped -/
def keyOf (src : List Char) (t : Token) : String :=
  match sliceBytes src t.start t.stop with
  | some txt => memberName txt
  | none => ""

/-- `src` is a JSON text whose document (scalar payloads erased) is `d`, cut into the lexemes `toks` -/
def JsonTextVia (src : List Char) (toks : List Token) (d : Doc) : Prop :=
  TilesFrom 0 toks src ∧ TValue (keyOf src) (toks.filter (fun t => !isSkipTok t.kind)) d

def JsonText (src : List Char) (d : Doc) : Prop := ∃ toks, JsonTextVia src toks d

end ShapeVerif
