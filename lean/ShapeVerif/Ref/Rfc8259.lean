/-
RFC 8259 recogniser/parser, written from the RFC's grammar, sharing no code with the model of the
library's lexer and parser. `Rfc.parse : List Char → Option Doc`.
-/
import ShapeVerif.Model.Json
namespace ShapeVerif
namespace Rfc

/-- ws = *( %x20 / %x09 / %x0A / %x0D ) -/
def isWs (c : Char) : Bool := c == ' ' || c == '\t' || c == '\n' || c == '\r'

def skipWs : List Char → List Char
  | c :: cs => if isWs c then skipWs cs else c :: cs
  | [] => []

def isDigit (c : Char) : Bool := '0' ≤ c && c ≤ '9'
def isDigit19 (c : Char) : Bool := '1' ≤ c && c ≤ '9'
def isHex (c : Char) : Bool :=
  isDigit c || ('a' ≤ c && c ≤ 'f') || ('A' ≤ c && c ≤ 'F')

/-- the longest run of digits -/
def digits : List Char → List Char × List Char
  | c :: cs => if isDigit c then let r := digits cs; (c :: r.1, r.2) else ([], c :: cs)
  | [] => ([], [])

/-- int = zero / ( digit1-9 *DIGIT ) -/
def intPart : List Char → Option (List Char × List Char)
  | '0' :: cs => some (['0'], cs)
  | c :: cs => if isDigit19 c then let r := digits cs; some (c :: r.1, r.2) else none
  | [] => none

/-- frac = decimal-point 1*DIGIT (optional) -/
def fracPart : List Char → Option (List Char × List Char)
  | '.' :: cs =>
    match digits cs with
    | ([], _) => none
    | (ds, rest) => some ('.' :: ds, rest)
  | cs => some ([], cs)

/-- [ minus / plus ] -/
def sign : List Char → List Char × List Char
  | '+' :: r => (['+'], r)
  | '-' :: r => (['-'], r)
  | r => ([], r)

/-- exp = e [ minus / plus ] 1*DIGIT (optional) -/
def expPart : List Char → Option (List Char × List Char)
  | e :: cs =>
    if e == 'e' || e == 'E' then
      match digits (sign cs).2 with
      | ([], _) => none
      | (ds, rest) => some (e :: (sign cs).1 ++ ds, rest)
    else some ([], e :: cs)
  | [] => some ([], [])

/-- [ minus ] -/
def minus : List Char → List Char × List Char
  | '-' :: r => (['-'], r)
  | r => ([], r)

/-- number = [ minus ] int [ frac ] [ exp ] -/
def number (cs : List Char) : Option (List Char × List Char) :=
  match intPart (minus cs).2 with
  | none => none
  | some (i, cs2) =>
    match fracPart cs2 with
    | none => none
    | some (f, cs3) =>
      match expPart cs3 with
      | none => none
      | some (e, cs4) => some ((minus cs).1 ++ i ++ f ++ e, cs4)

def isSimpleEscape (e : Char) : Bool :=
  e == '"' || e == '\\' || e == '/' || e == 'b' || e == 'f' || e == 'n' || e == 'r' || e == 't'

/-- the characters after the opening quote up to the closing quote:
unescaped = %x20-21 / %x23-5B / %x5D-10FFFF; escape = `\` ( `"` `\` `/` b f n r t / uXXXX ) -/
def stringBody : List Char → Option (List Char × List Char)
  | [] => none
  | c :: cs =>
    if c == '"' then some ([], cs)
    else if c == '\\' then
      match cs with
      | [] => none
      | e :: cs1 =>
        if e == 'u' then
          match cs1 with
          | a :: b :: c2 :: d :: cs2 =>
            if isHex a && isHex b && isHex c2 && isHex d then
              match stringBody cs2 with
              | some (s, r) => some ('\\' :: 'u' :: a :: b :: c2 :: d :: s, r)
              | none => none
            else none
          | _ => none
        else if isSimpleEscape e then
          match stringBody cs1 with
          | some (s, r) => some ('\\' :: e :: s, r)
          | none => none
        else none
    else if c.toNat < 0x20 then none
    else
      match stringBody cs with
      | some (s, r) => some (c :: s, r)
      | none => none

mutual
/-- value = false / null / true / object / array / number / string, at the head of the input -/
def value : Nat → List Char → Option (Doc × List Char)
  | 0, _ => none
  | fuel + 1, cs =>
    match cs with
    | 't' :: 'r' :: 'u' :: 'e' :: r => some (.bool true, r)
    | 'f' :: 'a' :: 'l' :: 's' :: 'e' :: r => some (.bool false, r)
    | 'n' :: 'u' :: 'l' :: 'l' :: r => some (.null, r)
    | '"' :: r =>
      match stringBody r with
      | some (s, r') => some (.str (String.ofList s), r')
      | none => none
    | '[' :: r =>
      match skipWs r with
      | ']' :: r' => some (.arr [], r')
      | r' =>
        match elements fuel r' with
        | some (xs, r'') => some (.arr xs, r'')
        | none => none
    | '{' :: r =>
      match skipWs r with
      | '}' :: r' => some (.obj [], r')
      | r' =>
        match members fuel r' with
        | some (ms, r'') => some (.obj ms, r'')
        | none => none
    | cs =>
      match number cs with
      | some (n, r) => some (.num (String.ofList n), r)
      | none => none
/-- `value *( ws , ws value ) ws ]` — input starts at the first value (leading ws already skipped) -/
def elements : Nat → List Char → Option (List Doc × List Char)
  | 0, _ => none
  | fuel + 1, cs =>
    match value fuel cs with
    | none => none
    | some (x, r) =>
      match skipWs r with
      | ']' :: r' => some ([x], r')
      | ',' :: r' =>
        match elements fuel (skipWs r') with
        | some (xs, r'') => some (x :: xs, r'')
        | none => none
      | _ => none
/-- `member *( ws , ws member ) ws }` with member = string ws : ws value -/
def members : Nat → List Char → Option (List (String × Doc) × List Char)
  | 0, _ => none
  | fuel + 1, cs =>
    match cs with
    | '"' :: r =>
      match stringBody r with
      | none => none
      | some (k, r1) =>
        match skipWs r1 with
        | ':' :: r2 =>
          match value fuel (skipWs r2) with
          | none => none
          | some (v, r3) =>
            match skipWs r3 with
            | '}' :: r4 => some ([(String.ofList k, v)], r4)
            | ',' :: r4 =>
              match members fuel (skipWs r4) with
              | some (ms, r5) => some ((String.ofList k, v) :: ms, r5)
              | none => none
            | _ => none
        | _ => none
    | _ => none
end

/-- JSON-text = ws value ws -/
def parse (cs : List Char) : Option Doc :=
  match value (cs.length + 1) (skipWs cs) with
  | some (d, r) => if (skipWs r).isEmpty then some d else none
  | none => none

def parseString (s : String) : Option Doc := parse s.toList

end Rfc
end ShapeVerif
