/-
Reference semantics, independent of the implementation: which JSON documents a shape admits
(DESIGN §3.1). An absent member is allowed exactly where `null` is allowed.
-/
import ShapeVerif.Model.Shape
import ShapeVerif.Model.Json
namespace ShapeVerif

def Doc.isNull : Doc → Bool | .null => true | _ => false

def hasMember (k : String) (ms : List (String × Doc)) : Bool := ms.any (fun kv => kv.1 == k)

mutual
/-- `admits s d`: document `d` is a member of shape `s` -/
def admits : Shape → Doc → Bool
  | .null, d => d.isNull
  | .bool o, d => match d with | .bool _ => true | .null => o | _ => false
  | .number o, d => match d with | .num _ => true | .null => o | _ => false
  | .string o, d => match d with | .str _ => true | .null => o | _ => false
  | .array t o, d =>
    match d with
    | .arr xs => xs.all (fun x => admits t x)
    | .null => o
    | _ => false
  | .tuple es o, d =>
    match d with
    | .arr xs => admitsZip es xs
    | .null => o
    | _ => false
  | .object c o, d =>
    match d with
    | .obj ms => ms.all (fun kv => admitsKey kv.1 kv.2 c) && absentOk c ms
    | .null => o
    | _ => false
  | .oneOf vs o, d => admitsAny vs d || (o && d.isNull)
termination_by structural s => s
/-- positional, same length -/
def admitsZip : List Shape → List Doc → Bool
  | [], [] => true
  | e :: es, x :: xs => admits e x && admitsZip es xs
  | _, _ => false
termination_by structural es => es
/-- member `k: v` of a document is allowed by the content map: `k` is listed and its shape admits `v` -/
def admitsKey (k : String) (v : Doc) : Members → Bool
  | [] => false
  | (k', s) :: c => if k == k' then admits s v else admitsKey k v c
termination_by structural c => c
/-- every listed key that the document lacks has a shape admitting `null` -/
def absentOk : Members → List (String × Doc) → Bool
  | [], _ => true
  | (k, s) :: c, ms => (hasMember k ms || admits s .null) && absentOk c ms
termination_by structural c => c
def admitsAny : List Shape → Doc → Bool
  | [], _ => false
  | v :: vs, d => admits v d || admitsAny vs d
termination_by structural vs => vs
end

/-- "Option admits null" -/
def nullable (s : Shape) : Bool := admits s .null

/-- two shapes admit the same documents -/
def meaningEq (a b : Shape) : Prop := ∀ d, admits a d = admits b d

end ShapeVerif
