/-
Witness documents drawn from the meaning of a shape (used only by the *search for failing inputs*
in the checks — testing, never a proof), and a JSON renderer for documents.
-/
import ShapeVerif.Ref.Sem
namespace ShapeVerif

def optNull (o : Bool) : List Doc := if o then [.null] else []

mutual
/-- a bounded family of documents, each admitted by the shape (filtered by `admits` at the use site) -/
def docsOf : Shape → List Doc
  | .null => [.null]
  | .bool o => [.bool true] ++ optNull o
  | .number o => [.num "1"] ++ optNull o
  | .string o => [.str "s"] ++ optNull o
  | .array t o =>
    let ds := (docsOf t).take 4
    [.arr []] ++ ds.map (fun x => .arr [x]) ++
      (match ds with | x :: y :: _ => [.arr [x, y], .arr [y, x, y]] | _ => []) ++ optNull o
  | .tuple es o => (tupleDocs es).map .arr ++ optNull o
  | .object c o => (objectDocs c).map .obj ++ optNull o
  | .oneOf vs o => docsOfAny vs ++ optNull o
def tupleDocs : List Shape → List (List Doc)
  | [] => [[]]
  | e :: es =>
    let ds := (docsOf e).take 3
    let rest := (tupleDocs es).take 4
    ds.flatMap fun d => rest.map (d :: ·)
def objectDocs : Members → List (List (String × Doc))
  | [] => [[]]
  | (k, s) :: c =>
    let ds := (docsOf s).take 3
    let rest := (objectDocs c).take 4
    (ds.flatMap fun d => rest.map ((k, d) :: ·)) ++ (if admits s .null then rest else [])
def docsOfAny : List Shape → List Doc
  | [] => []
  | v :: vs => (docsOf v).take 6 ++ docsOfAny vs
end

mutual
def renderDoc : Doc → String
  | .null => "null"
  | .bool b => if b then "true" else "false"
  | .num n => n
  | .str s => "\"" ++ s ++ "\""
  | .arr xs => "[" ++ renderList xs ++ "]"
  | .obj ms => "{" ++ renderMembers ms ++ "}"
def renderList : List Doc → String
  | [] => ""
  | [x] => renderDoc x
  | x :: xs => renderDoc x ++ "," ++ renderList xs
def renderMembers : List (String × Doc) → String
  | [] => ""
  | [(k, v)] => "\"" ++ k ++ "\":" ++ renderDoc v
  | (k, v) :: ms => "\"" ++ k ++ "\":" ++ renderDoc v ++ "," ++ renderMembers ms
end

/-- first witness admitted by `a` but not by `b`, and the number of witnesses tried -/
def findWitness (a b : Shape) : Option Doc × Nat :=
  let ds := (docsOf a).filter (admits a)
  (ds.find? (fun d => !admits b d), ds.length)

end ShapeVerif
