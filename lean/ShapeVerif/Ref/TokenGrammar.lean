/-
RFC 8259, section 2 ("JSON Grammar"), at the level of tokens: "A JSON text is a sequence of tokens.
The set of tokens includes six structural characters, strings, numbers, and three literal names."
  value = false / null / true / object / array / number / string
  object = begin-object [ member *( value-separator member ) ] end-object,  member = string name-separator value
  array = begin-array [ value *( value-separator value ) ] end-array
Insignificant whitespace is handled one level below (it is allowed around the six structural
characters, i.e. between any two tokens): this relation speaks about the non-whitespace tokens.
The document carries no scalar payloads (they play no role in shape inference); a member name is
what `key` reads from its `String` token.
-/
import ShapeVerif.Model.Lexer
import ShapeVerif.Model.Json
namespace ShapeVerif

variable (key : Token → String)

mutual
inductive TValue : List Token → Doc → Prop
  | null {t : Token} : t.kind = .null_ → TValue [t] .null
  | tru {t : Token} : t.kind = .true_ → TValue [t] (.bool false)
  | fls {t : Token} : t.kind = .false_ → TValue [t] (.bool false)
  | num {t : Token} : t.kind = .number → TValue [t] (.num "")
  | str {t : Token} : t.kind = .string → TValue [t] (.str "")
  | arrE {l r : Token} : l.kind = .lbrak → r.kind = .rbrak → TValue [l, r] (.arr [])
  | arr {l r : Token} {ts : List Token} {xs : List Doc} : l.kind = .lbrak → r.kind = .rbrak →
      TElems ts xs → TValue (l :: ts ++ [r]) (.arr xs)
  | objE {l r : Token} : l.kind = .lbrace → r.kind = .rbrace → TValue [l, r] (.obj [])
  | obj {l r : Token} {ts : List Token} {ms : List (String × Doc)} : l.kind = .lbrace → r.kind = .rbrace →
      TMembers ts ms → TValue (l :: ts ++ [r]) (.obj ms)
inductive TElems : List Token → List Doc → Prop
  | one {ts : List Token} {x : Doc} : TValue ts x → TElems ts [x]
  | cons {c : Token} {ts rest : List Token} {x : Doc} {xs : List Doc} : c.kind = .comma →
      TValue ts x → TElems rest xs → TElems (ts ++ c :: rest) (x :: xs)
inductive TMembers : List Token → List (String × Doc) → Prop
  | one {k c : Token} {ts : List Token} {v : Doc} : k.kind = .string → c.kind = .colon →
      TValue ts v → TMembers (k :: c :: ts) [(key k, v)]
  | cons {k c m : Token} {ts rest : List Token} {v : Doc} {ms : List (String × Doc)} :
      k.kind = .string → c.kind = .colon → m.kind = .comma →
      TValue ts v → TMembers rest ms → TMembers (k :: c :: ts ++ m :: rest) ((key k, v) :: ms)
end

end ShapeVerif
