/-
Model of `json_shape_build`: `shape_name` (with CRC-32 and the ASCII fragment of `convert_case`),
`shape_representation`, `first_pass`/`create_subtype` producing structured items, and the text that
`codegen::Scope::to_string` renders for them. `codegen`, `convert_case` and `checksum::crc32` are
modelled from their sources and compared with the real output byte for byte.
-/
import ShapeVerif.Model.Shape
namespace ShapeVerif
open Shape

/-! ### convert_case (ASCII) -/

def isUp (c : Char) : Bool := 'A' ≤ c && c ≤ 'Z'
def isLow (c : Char) : Bool := 'a' ≤ c && c ≤ 'z'
def isDig (c : Char) : Bool := '0' ≤ c && c ≤ '9'

/-- which default boundary (if any) matches at the head: `some true` = a one-character delimiter
(removed), `some false` = a zero-width boundary after the first character -/
def boundaryAt : List Char → Option Bool
  | [] => none
  | a :: rest =>
    if a == '_' || a == '-' || a == ' ' then some true
    else match rest with
      | [] => none
      | b :: rest2 =>
        if isLow a && isUp b then some false          -- LowerUpper
        else if isLow a && isDig b then some false     -- LowerDigit
        else if isUp a && isDig b then some false      -- UpperDigit
        else if isDig a && isLow b then some false     -- DigitLower
        else if isDig a && isUp b then some false      -- DigitUpper
        else match rest2 with
          | c :: _ => if isUp a && isUp b && isLow c then some false else none   -- Acronym
          | [] => none

/-- `boundary::split` with the default boundaries; `cur` is the current word reversed -/
def splitWords : List Char → List Char → List (List Char)
  | [], cur => [cur.reverse]
  | a :: rest, cur =>
    match boundaryAt (a :: rest) with
    | some true => cur.reverse :: splitWords rest []
    | some false => (a :: cur).reverse :: splitWords rest []
    | none => splitWords rest (a :: cur)

def caseWords (s : List Char) : List (List Char) := if s.isEmpty then [] else splitWords s []

def toLowerC (c : Char) : Char := if isUp c then Char.ofNat (c.toNat + 32) else c
def toUpperC (c : Char) : Char := if isLow c then Char.ofNat (c.toNat - 32) else c

def capitalWord : List Char → List Char
  | [] => []
  | c :: rest => toUpperC c :: rest.map toLowerC

/-- `to_case(Case::Pascal)` -/
def toPascal (s : List Char) : List Char := (caseWords s).flatMap capitalWord

def joinUnderscore : List (List Char) → List Char
  | [] => []
  | [w] => w
  | w :: ws => w ++ ['_'] ++ joinUnderscore ws

/-- `to_case(Case::Snake)` -/
def toSnake (s : List Char) : List Char := joinUnderscore ((caseWords s).map (·.map toLowerC))

/-! ### CRC-32 (`checksum::crc32`, reflected polynomial 0xEDB88320) -/

def crcTableEntry (i : UInt32) : UInt32 :=
  let step (v : UInt32) : UInt32 := if v &&& 1 != 0 then (0xEDB88320 : UInt32) ^^^ (v >>> 1) else v >>> 1
  step (step (step (step (step (step (step (step i)))))))

def crc32 (bytes : List UInt8) : UInt32 :=
  (bytes.foldl (fun (v : UInt32) (b : UInt8) => crcTableEntry ((v ^^^ b.toUInt32) &&& 0xff) ^^^ (v >>> 8)) (0xffffffff : UInt32)) ^^^ (0xffffffff : UInt32)

def hexUpper (n : Nat) : List Char :=
  let d (k : Nat) : Char := if k < 10 then Char.ofNat (48 + k) else Char.ofNat (55 + k)
  let rec go : Nat → Nat → List Char → List Char
    | 0, _, acc => acc
    | fuel + 1, m, acc => if m < 16 then d m :: acc else go fuel (m / 16) (d (m % 16) :: acc)
  go 9 n []

def crcName (s : List Char) : List Char :=
  hexUpper (crc32 (String.ofList (toPascal s)).toUTF8.toList).toNat

/-! ### types and items -/

inductive Ty where
  | unit | bool | f64 | string
  | option (t : Ty)
  | vec (t : Ty)
  | tuple (ts : List Ty)
  | named (n : String)
deriving Repr, Inhabited

inductive GItem where
  | alias (name : String) (ty : Ty)
  | struct_ (name : String) (fields : List (String × Ty))
  | enum_ (name : String) (variants : List (String × Ty))
deriving Repr, Inhabited

mutual
def renderTy : Ty → List Char
  | .unit => "()".toList
  | .bool => "bool".toList
  | .f64 => "f64".toList
  | .string => "String".toList
  | .option t => "Option<".toList ++ renderTy t ++ ['>']
  | .vec t => "Vec<".toList ++ renderTy t ++ ['>']
  | .tuple ts => ['('] ++ renderTys ts ++ [')']
  | .named n => n.toList
def renderTys : List Ty → List Char
  | [] => []
  | [t] => renderTy t
  | t :: u :: l => renderTy t ++ [',', ' '] ++ renderTys (u :: l)
end

def natChars (n : Nat) : List Char := (toString n).toList

mutual
/-- `shape_name` -/
def shapeName : Shape → List Char
  | .null => "Null".toList
  | .bool o => if o then "OptionalBool".toList else "Bool".toList
  | .number o => if o then "OptionalNumber".toList else "Number".toList
  | .string o => if o then "OptionalStr".toList else "Str".toList
  | .array t o => (if o then "OptionalArrayOf".toList else "ArrayOf".toList) ++ shapeName t
  | .object c o =>
    (if o then "OptionalStruct".toList else "Struct".toList) ++ natChars c.length ++ "Crc".toList
      ++ crcName (namesOfMembers c)
  | .oneOf vs o =>
    (if o then "OptionalEnum".toList else "Enum".toList) ++ natChars vs.length ++ "Crc".toList
      ++ crcName (namesOfList vs)
  | .tuple es o =>
    (if o then "OptionalTuple".toList else "Tuple".toList) ++ natChars es.length ++ "Crc".toList
      ++ crcName (reprTextList es)
def namesOfList : List Shape → List Char
  | [] => []
  | s :: l => shapeName s ++ namesOfList l
def namesOfMembers : Members → List Char
  | [] => []
  | (_, s) :: l => shapeName s ++ namesOfMembers l
/-- `shape_representation` as text (needed inside tuple names) -/
def reprText : Shape → List Char
  | .null => "()".toList
  | .bool o => if o then "Option<bool>".toList else "bool".toList
  | .number o => if o then "Option<f64>".toList else "f64".toList
  | .string o => if o then "Option<String>".toList else "String".toList
  | .array t o =>
    if o then "Option<Vec<".toList ++ reprText t ++ ">>".toList else "Vec<".toList ++ reprText t ++ ['>']
  | .object c o =>
    if o then "Option<".toList ++ shapeName (.object c o) ++ ['>'] else shapeName (.object c o)
  | .oneOf vs o =>
    if o then "Option<".toList ++ shapeName (.oneOf vs o) ++ ['>'] else shapeName (.oneOf vs o)
  | .tuple es o =>
    if o then "Option<(".toList ++ reprTextJoin es ++ ")>".toList else ['('] ++ reprTextJoin es ++ [')']
/-- concatenation without separator (the input of a tuple's CRC) -/
def reprTextList : List Shape → List Char
  | [] => []
  | s :: l => reprText s ++ reprTextList l
/-- `.join(", ")` -/
def reprTextJoin : List Shape → List Char
  | [] => []
  | [s] => reprText s
  | s :: t :: l => reprText s ++ [',', ' '] ++ reprTextJoin (t :: l)
end

mutual
/-- `shape_representation` as a type -/
def shapeRepr : Shape → Ty
  | .null => .unit
  | .bool o => if o then .option .bool else .bool
  | .number o => if o then .option .f64 else .f64
  | .string o => if o then .option .string else .string
  | .array t o => if o then .option (.vec (shapeRepr t)) else .vec (shapeRepr t)
  | .object c o =>
    if o then .option (.named (String.ofList (shapeName (.object c o))))
    else .named (String.ofList (shapeName (.object c o)))
  | .oneOf vs o =>
    if o then .option (.named (String.ofList (shapeName (.oneOf vs o))))
    else .named (String.ofList (shapeName (.oneOf vs o)))
  | .tuple es o => if o then .option (.tuple (shapeReprList es)) else .tuple (shapeReprList es)
def shapeReprList : List Shape → List Ty
  | [] => []
  | s :: l => shapeRepr s :: shapeReprList l
end

def structOf (name : String) (c : Members) : GItem :=
  .struct_ name (c.map fun kv => (String.ofList (toSnake kv.1.toList), shapeRepr kv.2))

def enumOf (name : String) (vs : List Shape) : GItem :=
  .enum_ name (vs.map fun v => (String.ofList (shapeName v), shapeRepr v))

mutual
/-- `create_subtype` (after the D15 repair): items emitted, threading the names already defined -/
def createSubtype : Shape → List String → List GItem × List String
  | .array t _, defined => createSubtype t defined
  | .object c o, defined =>
    let name := String.ofList (shapeName (.object c o))
    if defined.contains name then ([], defined)
    else
      let r := createSubtypeMembers c (name :: defined)
      (structOf name c :: r.1, r.2)
  | .oneOf vs o, defined =>
    let name := String.ofList (shapeName (.oneOf vs o))
    if defined.contains name then ([], defined)
    else
      let r := createSubtypeList vs (name :: defined)
      (enumOf name vs :: r.1, r.2)
  | .tuple es _, defined => createSubtypeList es defined
  | _, defined => ([], defined)
def createSubtypeList : List Shape → List String → List GItem × List String
  | [], defined => ([], defined)
  | s :: l, defined =>
    let r := createSubtype s defined
    let r' := createSubtypeList l r.2
    (r.1 ++ r'.1, r'.2)
def createSubtypeMembers : Members → List String → List GItem × List String
  | [], defined => ([], defined)
  | (_, s) :: l, defined =>
    let r := createSubtype s defined
    let r' := createSubtypeMembers l r.2
    (r.1 ++ r'.1, r'.2)
end

/-- `first_pass` -/
def firstPass (s : Shape) : List GItem :=
  match s with
  | .null => [.alias "Void" .unit]
  | .bool o => if o then [.alias "NullableBool" (.option .bool)] else [.alias "Bool" .bool]
  | .number o => if o then [.alias "NullableNumber" (.option .f64)] else [.alias "Number" .f64]
  | .string o => if o then [.alias "NullableStr" (.option .string)] else [.alias "Str" .string]
  | .array t o =>
    .alias (String.ofList (shapeName s)) (if o then .option (.vec (shapeRepr t)) else .vec (shapeRepr t))
      :: (createSubtype t []).1
  | .object _ _ => (createSubtype s []).1
  | .oneOf _ _ => (createSubtype s []).1
  | .tuple es o =>
    .alias (String.ofList (shapeName s))
        (if o then .option (.tuple (shapeReprList es)) else .tuple (shapeReprList es))
      :: (createSubtypeList es []).1

/-! ### rendering (`codegen::Scope::to_string`) -/

def deriveLine : List Char :=
  "#[derive(Debug, Clone, serde::Serialize, serde::Deserialize)]\n".toList

def renderItem : GItem → List Char
  | .alias n t => "pub type ".toList ++ n.toList ++ " = ".toList ++ renderTy t ++ [';']
  | .struct_ n [] => deriveLine ++ "pub struct ".toList ++ n.toList ++ [';']
  | .struct_ n fs =>
    deriveLine ++ "pub struct ".toList ++ n.toList ++ " {\n".toList ++
      fs.flatMap (fun f => "    pub ".toList ++ f.1.toList ++ ": ".toList ++ renderTy f.2 ++ ",\n".toList) ++ ['}']
  | .enum_ n vs =>
    deriveLine ++ "pub enum ".toList ++ n.toList ++ " {\n".toList ++
      vs.flatMap (fun v => "    ".toList ++ v.1.toList ++ ['('] ++ renderTy v.2 ++ "),\n".toList) ++ ['}']

def renderItems : List GItem → List Char
  | [] => []
  | [i] => renderItem i
  | i :: j :: l => renderItem i ++ ['\n', '\n'] ++ renderItems (j :: l)

/-- the text `compile_json` returns for a shape -/
def generate (s : Shape) : String := String.ofList (renderItems (firstPass s))

def genHeader : String := "// Generated `JsonShape` file.\nuse serde;\n\n"

end ShapeVerif

namespace ShapeVerif
open Shape

/-! ### classes of the recorded generator findings (used to recognise known findings, and as the
side conditions of the `_partial` theorems) -/

mutual
/-- all `Object`/`OneOf` sub-shapes with their generated names, in traversal order -/
def namedSubshapes : Shape → List (String × Shape)
  | .array t _ => namedSubshapes t
  | .object c o => (String.ofList (shapeName (.object c o)), .object c o) :: namedSubshapesMembers c
  | .oneOf vs o => (String.ofList (shapeName (.oneOf vs o)), .oneOf vs o) :: namedSubshapesList vs
  | .tuple es _ => namedSubshapesList es
  | _ => []
def namedSubshapesList : List Shape → List (String × Shape)
  | [] => []
  | s :: l => namedSubshapes s ++ namedSubshapesList l
def namedSubshapesMembers : Members → List (String × Shape)
  | [] => []
  | (_, s) :: l => namedSubshapes s ++ namedSubshapesMembers l
end

mutual
/-- the shape with every member name replaced by a fixed one (members keep their order) -/
def eraseKeys : Shape → Shape
  | .array t o => .array (eraseKeys t) o
  | .object c o => .object (eraseKeysMembers c) o
  | .oneOf vs o => .oneOf (eraseKeysList vs) o
  | .tuple es o => .tuple (eraseKeysList es) o
  | s => s
def eraseKeysList : List Shape → List Shape
  | [] => []
  | s :: l => eraseKeys s :: eraseKeysList l
def eraseKeysMembers : Members → Members
  | [] => []
  | (_, s) :: l => ("", eraseKeys s) :: eraseKeysMembers l
end

/-- the recorded defect class D16 for a pair: different shapes that differ in member names only -/
def keysOnly (a b : Shape) : Bool :=
  cmp a b != .eq && cmp (eraseKeys a) (eraseKeys b) == .eq

/-- D16: two sub-shapes that differ only in member names receive the same type name (the name
hashes the value types only). -/
def nameClash (s : Shape) : Bool :=
  let l := namedSubshapes s
  l.any fun a => l.any fun b => a.1 == b.1 && keysOnly a.2 b.2

def rustKeywords : List String :=
  ["as", "break", "const", "continue", "crate", "else", "enum", "extern", "false", "fn", "for", "if", "impl",
   "in", "let", "loop", "match", "mod", "move", "mut", "pub", "ref", "return", "self", "Self", "static",
   "struct", "super", "trait", "true", "type", "unsafe", "use", "where", "while", "async", "await", "dyn",
   "abstract", "become", "box", "do", "final", "macro", "override", "priv", "typeof", "unsized", "virtual",
   "yield", "try"]

def legalIdent (k : String) : Bool :=
  match k.toList with
  | [] => false
  | c :: rest =>
    (isUp c || isLow c || c == '_') && rest.all (fun d => isUp d || isLow d || isDig d || d == '_')
      && !rustKeywords.contains k && k != "_"

/-- member names that are legal field names as they stand (snake-casing leaves them unchanged) -/
def fieldOk (k : String) : Bool := legalIdent k && String.ofList (toSnake k.toList) == k

def distinctStrings : List String → Bool
  | [] => true
  | k :: l => !l.contains k && distinctStrings l

mutual
/-- D17: some object has a member name that is not usable as a field name unchanged, or two member
names with the same snake form -/
def badFields : Shape → Bool
  | .array t _ => badFields t
  | .object c _ =>
    !(c.all fun kv => fieldOk kv.1) || !distinctStrings (c.map fun kv => String.ofList (toSnake kv.1.toList))
      || badFieldsMembers c
  | .oneOf vs _ => badFieldsList vs
  | .tuple es _ => badFieldsList es
  | _ => false
def badFieldsList : List Shape → Bool
  | [] => false
  | s :: l => badFields s || badFieldsList l
def badFieldsMembers : Members → Bool
  | [] => false
  | (_, s) :: l => badFields s || badFieldsMembers l
end

mutual
def hasOneOf : Shape → Bool
  | .array t _ => hasOneOf t
  | .object c _ => hasOneOfMembers c
  | .oneOf _ _ => true
  | .tuple es _ => hasOneOfList es
  | _ => false
def hasOneOfList : List Shape → Bool
  | [] => false
  | s :: l => hasOneOf s || hasOneOfList l
def hasOneOfMembers : Members → Bool
  | [] => false
  | (_, s) :: l => hasOneOf s || hasOneOfMembers l
end

mutual
/-- D19: an empty object (rendered as a unit struct) or a tuple of more than 12 / fewer than 2 elements -/
def hasDegenerate : Shape → Bool
  | .array t _ => hasDegenerate t
  | .object c _ => c.isEmpty || hasDegenerateMembers c
  | .oneOf vs _ => hasDegenerateList vs
  | .tuple es _ => es.length > 12 || es.length < 2 || hasDegenerateList es
  | _ => false
def hasDegenerateList : List Shape → Bool
  | [] => false
  | s :: l => hasDegenerate s || hasDegenerateList l
def hasDegenerateMembers : Members → Bool
  | [] => false
  | (_, s) :: l => hasDegenerate s || hasDegenerateMembers l
end

/-- D22: the root is an optional object or union (the root item cannot carry the flag) -/
def rootOptionalNamed : Shape → Bool
  | .object _ o => o
  | .oneOf _ o => o
  | _ => false

mutual
/-- D17 (compile-time part): the snake form of some member name is not a legal identifier, or two
members of one object share a snake form -/
def badSnake : Shape → Bool
  | .array t _ => badSnake t
  | .object c _ =>
    !(c.all fun kv => legalIdent (String.ofList (toSnake kv.1.toList)))
      || !distinctStrings (c.map fun kv => String.ofList (toSnake kv.1.toList))
      || badSnakeMembers c
  | .oneOf vs _ => badSnakeList vs
  | .tuple es _ => badSnakeList es
  | _ => false
def badSnakeList : List Shape → Bool
  | [] => false
  | s :: l => badSnake s || badSnakeList l
def badSnakeMembers : Members → Bool
  | [] => false
  | (_, s) :: l => badSnake s || badSnakeMembers l
end

mutual
/-- D19 (compile-time part): a tuple of more than 12 elements (`Debug` is not implemented) -/
def hasWideTuple : Shape → Bool
  | .array t _ => hasWideTuple t
  | .object c _ => hasWideTupleMembers c
  | .oneOf vs _ => hasWideTupleList vs
  | .tuple es _ => es.length > 12 || hasWideTupleList es
  | _ => false
def hasWideTupleList : List Shape → Bool
  | [] => false
  | s :: l => hasWideTuple s || hasWideTupleList l
def hasWideTupleMembers : Members → Bool
  | [] => false
  | (_, s) :: l => hasWideTuple s || hasWideTupleMembers l
end

mutual
/-- D19 (run-time part): an empty object (a unit struct, which does not read `{}`) -/
def hasEmptyObject : Shape → Bool
  | .array t _ => hasEmptyObject t
  | .object c _ => c.isEmpty || hasEmptyObjectMembers c
  | .oneOf vs _ => hasEmptyObjectList vs
  | .tuple es _ => hasEmptyObjectList es
  | _ => false
def hasEmptyObjectList : List Shape → Bool
  | [] => false
  | s :: l => hasEmptyObject s || hasEmptyObjectList l
def hasEmptyObjectMembers : Members → Bool
  | [] => false
  | (_, s) :: l => hasEmptyObject s || hasEmptyObjectMembers l
end

def genClasses (s : Shape) : String :=
  (if nameClash s then "d16 " else "") ++ (if badFields s then "d17 " else "") ++
  (if badSnake s then "d17s " else "") ++
  (if hasOneOf s then "d18 " else "") ++ (if hasDegenerate s then "d19 " else "") ++
  (if hasWideTuple s then "d19t " else "") ++ (if hasEmptyObject s then "d19e " else "") ++
  (if rootOptionalNamed s then "d22 " else "")

end ShapeVerif
