/-
Model of `value/subset.rs` (`IsSubset for Value`) and the `IsOneOf<T>` helpers of `value/subtypes.rs`
that it calls. Transcribed arm by arm; recursion is structural on the *second* argument.
-/
import ShapeVerif.Model.Shape
namespace ShapeVerif
open Shape

/-! `IsOneOf<T>::is_one_of(other)` helpers used by `is_subset` -/

/-- `IsOneOf::<Boolean>` -/
def isOneOfBool : Shape → Bool
  | .oneOf vs _ => vs.any (fun v => match v with | .bool false => true | _ => false)
  | _ => false
/-- `IsOneOf::<Number>` -/
def isOneOfNumber : Shape → Bool
  | .oneOf vs _ => vs.any (fun v => match v with | .number false => true | _ => false)
  | _ => false
/-- `IsOneOf::<String>` -/
def isOneOfString : Shape → Bool
  | .oneOf vs _ => vs.any (fun v => match v with | .string false => true | _ => false)
  | _ => false
/-- `IsOneOf::<Optional<Boolean>>`: some `Bool` variant and `Null` is a variant -/
def isOneOfOptBool : Shape → Bool
  | .oneOf vs _ => vs.any (fun v => v.isBoolean) && setContains .null vs
  | _ => false
/-- `IsOneOf::<Optional<Number>>` -/
def isOneOfOptNumber : Shape → Bool
  | .oneOf vs _ => vs.any (fun v => v.isNumber) && setContains .null vs
  | _ => false
/-- `IsOneOf::<Optional<String>>` -/
def isOneOfOptString : Shape → Bool
  | .oneOf vs _ => vs.any (fun v => v.isString) && setContains .null vs
  | _ => false

/-- `IsOneOf::<Null>`: `Null` is a variant -/
def isOneOfNull : Shape → Bool
  | .oneOf vs _ => setContains .null vs
  | _ => false

mutual
/-- `self.is_subset(other)` -/
def isSubset : Shape → Shape → Bool
  -- Self::Null => other.is_optional() || other.is_null()
  | .null, other => other.isOptional || other.isNull || isOneOfNull other
  -- Optionals
  | .bool true, other => (other.isBoolean && other.isOptional) || isOneOfOptBool other
  | .number true, other => (other.isNumber && other.isOptional) || isOneOfOptNumber other
  | .string true, other => (other.isString && other.isOptional) || isOneOfOptString other
  | .array t true, .array ty true => isSubset t ty
  | .array t true, .oneOf vs o => anyNullOkSuperset (.array t false) (o || setContains .null vs) vs
  | .array _ true, _ => false
  | .tuple es true, .tuple os true => zipAllSubset es os && es.length == os.length
  | .tuple es true, .oneOf vs o => anyNullOkSuperset (.tuple es false) (o || setContains .null vs) vs
  | .tuple es true, .array ty true => es.all (fun e => isSubset e ty)
  | .tuple _ true, _ => false
  | .object c true, .object oc true =>
      oc.all (fun kv => mapContainsKey kv.1 c || kv.2.isOptional || isOneOfNull kv.2)
        && c.all (fun kv => lookupSubset kv.1 kv.2 oc)
  | .object c true, .oneOf vs o => anyNullOkSuperset (.object c false) (o || setContains .null vs) vs
  | .object _ true, _ => false
  | .oneOf vs true, .oneOf ws true =>
      setIsSubset vs ws || vs.all (fun v => anySuperset v ws)
  | .oneOf _ true, _ => false
  -- Non-optionals
  | .bool false, other => other.isBoolean || isOneOfBool other || isOneOfOptBool other
  | .number false, other => other.isNumber || isOneOfNumber other || isOneOfOptNumber other
  | .string false, other => other.isString || isOneOfString other || isOneOfOptString other
  | .array t false, .array ty _ => isSubset t ty
  | .array t false, .oneOf vs _ => anySuperset (.array t false) vs
  | .array _ false, _ => false
  | .tuple es false, .tuple os _ => zipAllSubset es os && es.length == os.length
  | .tuple es false, .oneOf vs _ => anySuperset (.tuple es false) vs
  | .tuple es false, .array ty _ => es.all (fun e => isSubset e ty)
  | .tuple _ false, _ => false
  | .object c false, .object oc _ =>
      oc.all (fun kv => mapContainsKey kv.1 c || kv.2.isOptional || isOneOfNull kv.2)
        && c.all (fun kv => lookupSubset kv.1 kv.2 oc)
  | .object c false, .oneOf vs _ => anyObjectSuperset (.object c false) vs
  | .object _ false, _ => false
  | .oneOf vs false, .oneOf ws _ =>
      setIsSubset vs ws || vs.all (fun v => anySuperset v ws)
  | .oneOf _ false, _ => false
termination_by structural _ b => b
/-- `elements.iter().zip(other).all(|(a, b)| a.is_subset(b))` (zip stops at the shorter list) -/
def zipAllSubset : List Shape → List Shape → Bool
  | a :: as, b :: bs => isSubset a b && zipAllSubset as bs
  | _, _ => true
termination_by structural _ b => b
/-- `other.get(key).is_some_and(|other_val| value.is_subset(other_val))` -/
def lookupSubset (k : String) (v : Shape) : Members → Bool
  | [] => false
  | (k', ov) :: l => if k == k' then isSubset v ov else lookupSubset k v l
termination_by structural m => m
/-- `variants.iter().filter(|var| matches!(var, Object{..})).any(|var| self.is_subset(var))` -/
def anyObjectSuperset (s : Shape) : List Shape → Bool
  | [] => false
  | v :: l => (v.isObject && isSubset s v) || anyObjectSuperset s l
termination_by structural l => l
/-- `variants.iter().any(|var| (null_ok || var.is_optional()) && non_optional.is_subset(var))` -/
def anyNullOkSuperset (s : Shape) (nullOk : Bool) : List Shape → Bool
  | [] => false
  | v :: l => ((nullOk || v.isOptional) && isSubset s v) || anyNullOkSuperset s nullOk l
termination_by structural l => l
/-- `var.iter().any(|v| variant.is_subset(v))` -/
def anySuperset (s : Shape) : List Shape → Bool
  | [] => false
  | v :: l => isSubset s v || anySuperset s l
termination_by structural l => l
end

end ShapeVerif
