/-
Model of what serde's derive accepts for the generated types (C15), and shape classes used by it.
-/
import ShapeVerif.Ref.Sem
import ShapeVerif.Model.Gen
namespace ShapeVerif
open Shape

def getDocMember (k : String) : List (String × Doc) → Option Doc
  | [] => none
  | (k', v) :: l => if k' == k then some v else getDocMember k l

mutual
/-- serde's verdict for the generated type of `s` on document `d` (member names are assumed to be
field names unchanged: `fieldOk`, the complement of known finding D17) -/
def serdeAccepts : Shape → Doc → Bool
  | .null, d => d.isNull
  | .bool o, d => match d with | .bool _ => true | .null => o | _ => false
  | .number o, d => match d with | .num _ => true | .null => o | _ => false
  | .string o, d => match d with | .str _ => true | .null => o | _ => false
  | .array t o, d =>
    match d with
    | .arr xs => xs.all (fun x => serdeAccepts t x)
    | .null => o
    | _ => false
  | .tuple es o, d =>
    match d with
    | .arr xs => serdeZip es xs
    | .null => o
    | _ => false
  | .object c o, d =>
    match d with
    | .obj ms => !c.isEmpty && serdeFields c ms     -- no member: a unit struct, which reads null only
    | .null => o || c.isEmpty
    | _ => false
  | .oneOf _ o, d => o && d.isNull          -- externally tagged: no bare value is accepted
termination_by structural s => s
def serdeZip : List Shape → List Doc → Bool
  | [], [] => true
  | e :: es, x :: xs => serdeAccepts e x && serdeZip es xs
  | _, _ => false
termination_by structural es => es
/-- every field is present with an acceptable value, or absent and of an `Option` type -/
def serdeFields : Members → List (String × Doc) → Bool
  | [], _ => true
  | (k, s) :: c, ms =>
    (match getDocMember k ms with
     | some v => serdeAccepts s v
     | none => s.isOptional && !s.isNull) && serdeFields c ms
termination_by structural c => c
end

/-- the root item is the bare struct/enum even when the root shape is optional (known finding D22) -/
def rootAccepts (s : Shape) (d : Doc) : Bool :=
  if rootOptionalNamed s then serdeAccepts s.asNonOptional d else serdeAccepts s d

mutual
/-- no member of any object has shape `Null` (type `()`) -/
def noNullMembers : Shape → Bool
  | .array t _ => noNullMembers t
  | .object c _ => noNullMembersM c
  | .oneOf vs _ => noNullMembersL vs
  | .tuple es _ => noNullMembersL es
  | _ => true
def noNullMembersL : List Shape → Bool
  | [] => true
  | s :: l => noNullMembers s && noNullMembersL l
def noNullMembersM : Members → Bool
  | [] => true
  | (_, s) :: l => !s.isNull && noNullMembers s && noNullMembersM l
end

def docKeysDistinct : List (String × Doc) → Bool
  | [] => true
  | (k, _) :: l => !(l.any fun kv => kv.1 == k) && docKeysDistinct l

mutual
/-- no object of the document repeats a member name (serde rejects duplicate fields) -/
def docNoDup : Doc → Bool
  | .arr xs => docNoDupL xs
  | .obj ms => docKeysDistinct ms && docNoDupM ms
  | _ => true
def docNoDupL : List Doc → Bool
  | [] => true
  | x :: xs => docNoDup x && docNoDupL xs
def docNoDupM : List (String × Doc) → Bool
  | [] => true
  | (_, v) :: ms => docNoDup v && docNoDupM ms
end

/-! ### serialising back (`serde_json::to_value(&from_str::<T>(d)?)`)

What the derived `Serialize` writes for the value the derived `Deserialize` read: a struct writes
every field in declaration order (an `Option` field that was absent is written as `null`; members the
struct does not know are gone), sequences element by element, scalars as they were read (numbers as
`f64`: the lexical form may change, which `backEq` ignores). -/

def optMapDocs (f : Doc → Option Doc) : List Doc → Option (List Doc)
  | [] => some []
  | x :: xs =>
    match f x, optMapDocs f xs with
    | some y, some ys => some (y :: ys)
    | _, _ => none

mutual
def serdeBack : Shape → Doc → Option Doc
  | .null, d => if d.isNull then some .null else none
  | .bool o, d => match d with | .bool b => some (.bool b) | .null => if o then some .null else none | _ => none
  | .number o, d => match d with | .num x => some (.num x) | .null => if o then some .null else none | _ => none
  | .string o, d => match d with | .str x => some (.str x) | .null => if o then some .null else none | _ => none
  | .array t o, d =>
    match d with
    | .arr xs => (optMapDocs (fun x => serdeBack t x) xs).map Doc.arr
    | .null => if o then some .null else none
    | _ => none
  | .tuple es o, d =>
    match d with
    | .arr xs => (serdeBackZip es xs).map Doc.arr
    | .null => if o then some .null else none
    | _ => none
  | .object c o, d =>
    match d with
    | .obj ms => if c.isEmpty then none else (serdeBackFields c ms).map Doc.obj
    | .null => if o || c.isEmpty then some .null else none
    | _ => none
  | .oneOf _ o, d => if o && d.isNull then some .null else none
termination_by structural s => s
def serdeBackZip : List Shape → List Doc → Option (List Doc)
  | [], [] => some []
  | e :: es, x :: xs =>
    match serdeBack e x, serdeBackZip es xs with
    | some y, some ys => some (y :: ys)
    | _, _ => none
  | _, _ => none
termination_by structural es => es
def serdeBackFields : Members → List (String × Doc) → Option (List (String × Doc))
  | [], _ => some []
  | (k, s) :: c, ms =>
    match (match getDocMember k ms with
           | some v => serdeBack s v
           | none => if s.isOptional && !s.isNull then some .null else none),
          serdeBackFields c ms with
    | some w, some rest => some ((k, w) :: rest)
    | _, _ => none
termination_by structural c => c
end

def hasDocMember (k : String) (ms : List (String × Doc)) : Bool := ms.any fun kv => kv.1 == k

mutual
/-- `back` equals `src` up to number formatting, member order and explicit nulls for members that are
absent from `src` -/
def backEq : Doc → Doc → Bool
  | .null, b => b.isNull
  | .bool x, b => match b with | .bool y => x == y | _ => false
  | .num _, b => match b with | .num _ => true | _ => false
  | .str x, b => match b with | .str y => x == y | _ => false
  | .arr xs, b => match b with | .arr ys => backEqL xs ys | _ => false
  | .obj ms, b =>
    match b with
    | .obj bs => backEqM ms bs && bs.all (fun kw => hasDocMember kw.1 ms || kw.2.isNull)
    | _ => false
def backEqL : List Doc → List Doc → Bool
  | [], ys => ys.isEmpty
  | x :: xs, ys => match ys with | y :: ys' => backEq x y && backEqL xs ys' | [] => false
/-- every member of the source is in `bs` with an equal value -/
def backEqM : List (String × Doc) → List (String × Doc) → Bool
  | [], _ => true
  | (k, v) :: ms, bs =>
    (match getDocMember k bs with | some w => backEq v w | none => false) && backEqM ms bs
end

end ShapeVerif
