/-
Model of what serde's derive accepts for the generated types (C15), and shape classes used by it.
-/
import ShapeVerif.Ref.Sem
import ShapeVerif.Model.Gen
namespace ShapeVerif
open Shape

def getDocMember (k : String) : List (String × Doc) → Option Doc
  | [] => none
  | (k', v) :: l => if k' == k then some v else getDocMember k l

mutual
/-- serde's verdict for the generated type of `s` on document `d` (member names are assumed to be
field names unchanged: `fieldOk`, the complement of known finding D17) -/
def serdeAccepts : Shape → Doc → Bool
  | .null, d => d.isNull
  | .bool o, d => match d with | .bool _ => true | .null => o | _ => false
  | .number o, d => match d with | .num _ => true | .null => o | _ => false
  | .string o, d => match d with | .str _ => true | .null => o | _ => false
  | .array t o, d =>
    match d with
    | .arr xs => xs.all (fun x => serdeAccepts t x)
    | .null => o
    | _ => false
  | .tuple es o, d =>
    match d with
    | .arr xs => serdeZip es xs
    | .null => o
    | _ => false
  | .object c o, d =>
    match d with
    | .obj ms => !c.isEmpty && serdeFields c ms     -- no member: a unit struct, which reads null only
    | .null => o || c.isEmpty
    | _ => false
  | .oneOf _ o, d => o && d.isNull          -- externally tagged: no bare value is accepted
termination_by structural s => s
def serdeZip : List Shape → List Doc → Bool
  | [], [] => true
  | e :: es, x :: xs => serdeAccepts e x && serdeZip es xs
  | _, _ => false
termination_by structural es => es
/-- every field is present with an acceptable value, or absent and of an `Option` type -/
def serdeFields : Members → List (String × Doc) → Bool
  | [], _ => true
  | (k, s) :: c, ms =>
    (match getDocMember k ms with
     | some v => serdeAccepts s v
     | none => s.isOptional && !s.isNull) && serdeFields c ms
termination_by structural c => c
end

/-- the root item is the bare struct/enum even when the root shape is optional (known finding D22) -/
def rootAccepts (s : Shape) (d : Doc) : Bool :=
  if rootOptionalNamed s then serdeAccepts s.asNonOptional d else serdeAccepts s d

mutual
/-- no member of any object has shape `Null` (type `()`) -/
def noNullMembers : Shape → Bool
  | .array t _ => noNullMembers t
  | .object c _ => noNullMembersM c
  | .oneOf vs _ => noNullMembersL vs
  | .tuple es _ => noNullMembersL es
  | _ => true
def noNullMembersL : List Shape → Bool
  | [] => true
  | s :: l => noNullMembers s && noNullMembersL l
def noNullMembersM : Members → Bool
  | [] => true
  | (_, s) :: l => !s.isNull && noNullMembers s && noNullMembersM l
end

def docKeysDistinct : List (String × Doc) → Bool
  | [] => true
  | (k, _) :: l => !(l.any fun kv => kv.1 == k) && docKeysDistinct l

mutual
/-- no object of the document repeats a member name (serde rejects duplicate fields) -/
def docNoDup : Doc → Bool
  | .arr xs => docNoDupL xs
  | .obj ms => docKeysDistinct ms && docNoDupM ms
  | _ => true
def docNoDupL : List Doc → Bool
  | [] => true
  | x :: xs => docNoDup x && docNoDupL xs
def docNoDupM : List (String × Doc) → Bool
  | [] => true
  | (_, v) :: ms => docNoDup v && docNoDupM ms
end

end ShapeVerif
