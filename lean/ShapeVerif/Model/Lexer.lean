/-
Model of `lexer.rs`: the logos token set (longest match, one-character error tokens), the string
scanner `parse_string`, `check_string` and the bracket-nesting counter of `tokenize`.
Offsets are UTF-8 byte offsets, as in the Rust code. The behaviour of `logos` itself (longest match,
priority of keywords over the identifier-like error class, one-character error spans) is modelled from
observation and is part of the trusted base; it is exercised by the `lex` correspondence operation.
-/
namespace ShapeVerif

inductive Tok where
  | eof | ws | nl | true_ | false_ | null_ | lbrace | rbrace | lbrak | rbrak | comma | colon
  | string | number | error
deriving Repr, DecidableEq, Inhabited

inductive DiagKind where
  | invalidToken | unterminated | badUnicode | badEscape | badChar | tooDeep | syntax
deriving Repr, DecidableEq, Inhabited

structure Token where
  kind : Tok
  start : Nat
  stop : Nat
deriving Repr, Inhabited

structure Diag where
  kind : DiagKind
  start : Nat
  stop : Nat
deriving Repr, Inhabited

def utf8Len (cs : List Char) : Nat := cs.foldl (fun n c => n + c.utf8Size) 0

def isWsChar (c : Char) : Bool := c == ' ' || c == '\t'
def isDigitC (c : Char) : Bool := '0' ≤ c && c ≤ '9'
def isDigit19C (c : Char) : Bool := '1' ≤ c && c ≤ '9'
def isAlphaC (c : Char) : Bool := ('a' ≤ c && c ≤ 'z') || ('A' ≤ c && c ≤ 'Z')
def isAlnumC (c : Char) : Bool := isAlphaC c || isDigitC c
def isHexC (c : Char) : Bool := isDigitC c || ('a' ≤ c && c ≤ 'f') || ('A' ≤ c && c ≤ 'F')

/-- longest prefix satisfying `p` -/
def takeWhileC (p : Char → Bool) : List Char → List Char × List Char
  | c :: cs => if p c then let r := takeWhileC p cs; (c :: r.1, r.2) else ([], c :: cs)
  | [] => ([], [])

/-- `parse_string`: the characters after the opening quote that belong to the token, and whether a
closing quote was found -/
def scanString : List Char → List Char × List Char × Bool
  | '"' :: cs => (['"'], cs, true)
  | '\\' :: c :: cs => let r := scanString cs; ('\\' :: c :: r.1, r.2.1, r.2.2)
  | ['\\'] => (['\\'], [], false)
  | c :: cs => let r := scanString cs; (c :: r.1, r.2.1, r.2.2)
  | [] => ([], [], false)

/-- optional minus sign -/
def numSign : List Char → List Char × List Char
  | '-' :: r => (['-'], r)
  | r => ([], r)

/-- `0|[1-9][0-9]*` -/
def numInt : List Char → Option (List Char × List Char)
  | '0' :: r => some (['0'], r)
  | c :: r => if isDigit19C c then let d := takeWhileC isDigitC r; some (c :: d.1, d.2) else none
  | [] => none

/-- `(\.[0-9]+)?`: taken only when at least one digit follows the point -/
def numFrac : List Char → List Char × List Char
  | '.' :: r =>
    let d := takeWhileC isDigitC r
    if d.1.isEmpty then ([], '.' :: r) else ('.' :: d.1, d.2)
  | cs => ([], cs)

/-- optional sign of the exponent -/
def expSign : List Char → List Char × List Char
  | '+' :: r => (['+'], r)
  | '-' :: r => (['-'], r)
  | r => ([], r)

/-- `([eE][+-]?[0-9]+)?`: taken only when at least one digit follows -/
def numExp : List Char → List Char × List Char
  | e :: r =>
    if e == 'e' || e == 'E' then
      let sg := expSign r
      let d := takeWhileC isDigitC sg.2
      if d.1.isEmpty then ([], e :: r) else (e :: sg.1 ++ d.1, d.2)
    else ([], e :: r)
  | [] => ([], [])

/-- longest match of `-?(0|[1-9][0-9]*)(\.[0-9]+)?([eE][+-]?[0-9]+)?`; `none` if no prefix matches -/
def scanNumber (cs : List Char) : Option (List Char × List Char) :=
  let s := numSign cs
  match numInt s.2 with
  | none => none
  | some i =>
    let f := numFrac i.2
    let e := numExp f.2
    some (s.1 ++ i.1 ++ f.1 ++ e.1, e.2)

/-- one lexer step at a non-empty input: the token kind (`Tok.error` with the diagnostic kind for a
lexing error), the characters consumed and the rest -/
def lexOne : List Char → Tok × Option DiagKind × List Char × List Char
  | [] => (.eof, none, [], [])
  | c :: cs =>
    if isWsChar c then let r := takeWhileC isWsChar cs; (.ws, none, c :: r.1, r.2)
    else if c == '\n' then (.nl, none, [c], cs)
    else if c == '\r' then
      match cs with
      | '\n' :: r => (.nl, none, ['\r', '\n'], r)
      | _ => (.nl, none, ['\r'], cs)
    else if c == '{' then (.lbrace, none, [c], cs)
    else if c == '}' then (.rbrace, none, [c], cs)
    else if c == '[' then (.lbrak, none, [c], cs)
    else if c == ']' then (.rbrak, none, [c], cs)
    else if c == ',' then (.comma, none, [c], cs)
    else if c == ':' then (.colon, none, [c], cs)
    else if c == '"' then
      let r := scanString cs
      if r.2.2 then (.string, none, c :: r.1, r.2.1) else (.error, some .unterminated, c :: r.1, r.2.1)
    else if isAlphaC c then
      let r := takeWhileC isAlnumC cs
      let word := c :: r.1
      if word == ['t', 'r', 'u', 'e'] then (.true_, none, word, r.2)
      else if word == ['f', 'a', 'l', 's', 'e'] then (.false_, none, word, r.2)
      else if word == ['n', 'u', 'l', 'l'] then (.null_, none, word, r.2)
      else (.error, some .invalidToken, word, r.2)
    else
      match scanNumber (c :: cs) with
      | some (n, rest) => (.number, none, n, rest)
      | none => (.error, some .invalidToken, [c], cs)

/-- scanner state of `check_string` -/
inductive CsState where
  | normal
  /-- just after a backslash -/
  | esc
  /-- inside `\uXXXX`: byte index of the `u`, hex digits read so far -/
  | hex (iu : Nat) (done : Nat)
deriving Repr

/-- `check_string` on the token text (quotes included), one character at a time; `pos` is the byte
offset of the next character relative to the token start `start` -/
def checkStringGo (start : Nat) : CsState → Nat → List Char → List Diag
  | .normal, _, [] => []
  | .esc, _, [] => []                 -- `unreachable!()` in the Rust code
  | .hex iu done, _, [] => [⟨.badUnicode, start + iu - 1, start + iu + done + 1⟩]
  | .normal, pos, c :: rest =>
    if c == '\\' then checkStringGo start .esc (pos + 1) rest
    else if c.toNat < 0x20 then
      ⟨.badChar, start + pos, start + pos + 1⟩ :: checkStringGo start .normal (pos + c.utf8Size) rest
    else checkStringGo start .normal (pos + c.utf8Size) rest
  | .esc, pos, e :: rest =>
    if e == '"' || e == '\\' || e == '/' || e == 'b' || e == 'f' || e == 'n' || e == 'r' || e == 't' then
      checkStringGo start .normal (pos + e.utf8Size) rest
    else if e == 'u' then checkStringGo start (.hex pos 0) (pos + 1) rest
    else
      ⟨.badEscape, start + pos - 1, start + pos + e.utf8Size⟩ ::
        checkStringGo start .normal (pos + e.utf8Size) rest
  | .hex iu done, pos, h :: rest =>
    if isHexC h then
      (if done + 1 == 4 then checkStringGo start .normal (pos + h.utf8Size) rest
       else checkStringGo start (.hex iu (done + 1)) (pos + h.utf8Size) rest)
    else
      -- the failing `it.next()` has consumed `h`
      ⟨.badUnicode, start + iu - 1, start + iu + done + 1⟩ ::
        checkStringGo start .normal (pos + h.utf8Size) rest

def checkString (start : Nat) (text : List Char) : List Diag := checkStringGo start .normal 0 text

structure LexResult where
  tokens : List Token
  diags : List Diag
deriving Repr, Inhabited

/-- `tokenize`: fuel = number of characters (every step consumes at least one) -/
def lexLoop : Nat → List Char → Nat → Int → Int → List Token → List Diag → LexResult
  | 0, _, _, _, _, toks, diags => ⟨toks.reverse, diags.reverse⟩
  | fuel + 1, cs, pos, nBrace, nBrak, toks, diags =>
    match cs with
    | [] => ⟨toks.reverse, diags.reverse⟩
    | _ =>
      let r := lexOne cs
      let kind := r.1
      let text := r.2.2.1
      let rest := r.2.2.2
      let stop := pos + utf8Len text
      match r.2.1 with
      | some dk =>
        -- lexing error: an `Error` token and a diagnostic, no nesting check
        lexLoop fuel rest stop nBrace nBrak (⟨.error, pos, stop⟩ :: toks) (⟨dk, pos, stop⟩ :: diags)
      | none =>
        let diags1 := if kind == .string then (checkString pos text).reverse ++ diags else diags
        let nBrace' := if kind == .lbrace then nBrace + 1 else if kind == .rbrace then nBrace - 1 else nBrace
        let nBrak' := if kind == .lbrak then nBrak + 1 else if kind == .rbrak then nBrak - 1 else nBrak
        if nBrace' + nBrak' > 256 then
          -- the diagnostic is pushed and tokenizing stops; the token itself is dropped
          ⟨toks.reverse, (⟨.tooDeep, pos, stop⟩ :: diags1).reverse⟩
        else lexLoop fuel rest stop nBrace' nBrak' (⟨kind, pos, stop⟩ :: toks) diags1

def tokenize (cs : List Char) : LexResult := lexLoop cs.length cs 0 0 0 [] []

end ShapeVerif
