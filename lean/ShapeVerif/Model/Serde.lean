/-
Model of the derived `Serialize`/`Deserialize` for `Value` at the level of JSON trees
(serde's externally tagged enum representation; `BTreeMap` as a JSON object, `BTreeSet`/`Vec` as
sequences; on reading, sets and maps are rebuilt by insertion), and serde_json's compact rendering.
`serde_json`'s text layer and serde's derive macro are trusted; the correspondence check compares the
real `serde_json::to_string` output with `renderJson (serJ s)` byte for byte.
-/
import ShapeVerif.Model.Shape
import ShapeVerif.Model.Json
namespace ShapeVerif
open Shape

def structVariant (name : String) (fields : List (String × Doc)) : Doc := .obj [(name, .obj fields)]

mutual
/-- `serde_json::to_value(shape)`, fields in declaration order -/
def serJ : Shape → Doc
  | .null => .str "Null"
  | .bool o => structVariant "Bool" [("optional", .bool o)]
  | .number o => structVariant "Number" [("optional", .bool o)]
  | .string o => structVariant "String" [("optional", .bool o)]
  | .array t o => structVariant "Array" [("type", serJ t), ("optional", .bool o)]
  | .object c o => structVariant "Object" [("content", .obj (serJMembers c)), ("optional", .bool o)]
  | .oneOf vs o => structVariant "OneOf" [("variants", .arr (serJList vs)), ("optional", .bool o)]
  | .tuple es o => structVariant "Tuple" [("elements", .arr (serJList es)), ("optional", .bool o)]
def serJList : List Shape → List Doc
  | [] => []
  | s :: l => serJ s :: serJList l
def serJMembers : Members → List (String × Doc)
  | [] => []
  | (k, v) :: l => (k, serJ v) :: serJMembers l
end

mutual
/-- reading the tree back (canonical field order; fuel = size of the tree) -/
def deJ : Nat → Doc → Option Shape
  | 0, _ => none
  | fuel + 1, d =>
    match d with
    | .str "Null" => some .null
    | .obj [("Bool", .obj [("optional", .bool o)])] => some (.bool o)
    | .obj [("Number", .obj [("optional", .bool o)])] => some (.number o)
    | .obj [("String", .obj [("optional", .bool o)])] => some (.string o)
    | .obj [("Array", .obj [("type", t), ("optional", .bool o)])] =>
      match deJ fuel t with
      | some t' => some (.array t' o)
      | none => none
    | .obj [("Object", .obj [("content", .obj ms), ("optional", .bool o)])] =>
      match deJMembers fuel ms with
      | some c => some (.object (mapOfList c) o)
      | none => none
    | .obj [("OneOf", .obj [("variants", .arr xs), ("optional", .bool o)])] =>
      match deJList fuel xs with
      | some vs => some (.oneOf (setOfList vs) o)
      | none => none
    | .obj [("Tuple", .obj [("elements", .arr xs), ("optional", .bool o)])] =>
      match deJList fuel xs with
      | some es => some (.tuple es o)
      | none => none
    | _ => none
def deJList : Nat → List Doc → Option (List Shape)
  | 0, _ => none
  | _ + 1, [] => some []
  | fuel + 1, x :: xs =>
    match deJ fuel x, deJList fuel xs with
    | some s, some l => some (s :: l)
    | _, _ => none
def deJMembers : Nat → List (String × Doc) → Option Members
  | 0, _ => none
  | _ + 1, [] => some []
  | fuel + 1, (k, x) :: ms =>
    match deJ fuel x, deJMembers fuel ms with
    | some s, some l => some ((k, s) :: l)
    | _, _ => none
end

/-! ### serde_json's compact text -/

def hex4 (n : Nat) : List Char :=
  let d (k : Nat) : Char := if k < 10 then Char.ofNat (48 + k) else Char.ofNat (87 + k)
  [d (n / 4096 % 16), d (n / 256 % 16), d (n / 16 % 16), d (n % 16)]

/-- serde_json's string escaping -/
def escapeChar (c : Char) : List Char :=
  if c == '"' then ['\\', '"']
  else if c == '\\' then ['\\', '\\']
  else if c == '\n' then ['\\', 'n']
  else if c == '\r' then ['\\', 'r']
  else if c == '\t' then ['\\', 't']
  else if c.toNat == 8 then ['\\', 'b']
  else if c.toNat == 12 then ['\\', 'f']
  else if c.toNat < 32 then ['\\', 'u'] ++ hex4 c.toNat
  else [c]

def quoteJson (s : String) : List Char := ['"'] ++ s.toList.flatMap escapeChar ++ ['"']

mutual
def renderJsonC : Doc → List Char
  | .null => "null".toList
  | .bool b => if b then "true".toList else "false".toList
  | .num n => n.toList
  | .str s => quoteJson s
  | .arr xs => ['['] ++ renderJsonList xs ++ [']']
  | .obj ms => ['{'] ++ renderJsonMembers ms ++ ['}']
def renderJsonList : List Doc → List Char
  | [] => []
  | [x] => renderJsonC x
  | x :: y :: l => renderJsonC x ++ [','] ++ renderJsonList (y :: l)
def renderJsonMembers : List (String × Doc) → List Char
  | [] => []
  | [(k, v)] => quoteJson k ++ [':'] ++ renderJsonC v
  | (k, v) :: kv :: l => quoteJson k ++ [':'] ++ renderJsonC v ++ [','] ++ renderJsonMembers (kv :: l)
end

def renderJson (d : Doc) : String := String.ofList (renderJsonC d)

mutual
def docSize : Doc → Nat
  | .arr xs => docSizeList xs + 1
  | .obj ms => docSizeMembers ms + 1
  | _ => 1
def docSizeList : List Doc → Nat
  | [] => 0
  | x :: xs => docSize x + docSizeList xs + 1
def docSizeMembers : List (String × Doc) → Nat
  | [] => 0
  | (_, v) :: ms => docSize v + docSizeMembers ms + 1
end

/-- `serde_json::from_value` with enough fuel -/
def deserialize (d : Doc) : Option Shape := deJ (docSize d + 1) d

end ShapeVerif
