/-
Model of `json_shape_build::compile_json` as a step of a state machine over an abstract file system.

  state  : FS          (path ↦ content; most recent binding first)
  step   : compileJson fs env name paths = (fs', out)

The Rust function reads every source path (`read_to_string`, first failure aborts with `?`), infers
one shape from all texts (`from_sources`, an error aborts), computes the target
`$OUT_DIR/<name>.gen.shape.rs` (`current_dir()` when `OUT_DIR` is unset), writes header + text
*unconditionally* and returns the text. The model reproduces exactly that order, so "an error leaves
the file system untouched" and "after a success the file the macro reads is header + returned text,
whatever the directory held before" are theorems about every prior state (Props/C16.lean).

Modelled, not verified: paths are strings (a path that is not UTF-8 is silently skipped by the real
function; the harness does not generate such paths), `PathBuf::join` of a directory that does not end
in `/` with a single-component file name is `dir ++ "/" ++ file`, `std::fs::write` replaces the whole
content, reading a path that is not bound fails.
-/
import ShapeVerif.Model.Gen
import ShapeVerif.Model.ParseCst
namespace ShapeVerif

abbrev FS := List (String × String)

def FS.read (fs : FS) (p : String) : Option String :=
  match fs with
  | [] => none
  | (q, c) :: rest => if q = p then some c else FS.read rest p

def FS.write (fs : FS) (p c : String) : FS := (p, c) :: fs

structure BuildEnv where
  outDir : Option String
  cwd : String

inductive BuildOut where
  | ok (text : String)
  | err
  | panic
deriving DecidableEq, Repr

def targetFile (name : String) : String := name ++ ".gen.shape.rs"

/-- `OUT_DIR` (or the current directory) joined with `<name>.gen.shape.rs` -/
def targetPath (env : BuildEnv) (name : String) : String :=
  (env.outDir.getD env.cwd) ++ "/" ++ targetFile name

/-- `jsons.iter().map(read_to_string).collect::<Result<Vec<_>, _>>()?` -/
def readSources (fs : FS) : List String → Option (List String)
  | [] => some []
  | p :: ps =>
    match fs.read p, readSources fs ps with
    | some t, some ts => some (t :: ts)
    | _, _ => none

def compileJson (fs : FS) (env : BuildEnv) (name : String) (paths : List String) : FS × BuildOut :=
  match readSources fs paths with
  | none => (fs, .err)
  | some texts =>
    match fromSources (texts.map String.toList) with
    | .ok s =>
      let t := generate s
      (fs.write (targetPath env name) (genHeader ++ t), .ok t)
    | .err _ => (fs, .err)
    | .panic => (fs, .panic)

/-- one request of a build script: compile `paths` under `name` -/
structure BuildOp where
  name : String
  paths : List String

/-- a build script's history: the file system after the requests, and their results in order -/
def runBuild (env : BuildEnv) : FS → List BuildOp → FS × List BuildOut
  | fs, [] => (fs, [])
  | fs, op :: ops =>
    let r := compileJson fs env op.name op.paths
    let rest := runBuild env r.1 ops
    (rest.1, r.2 :: rest.2)

end ShapeVerif
