/-
Model of the public typed-query traits of `value/subtypes.rs`:
  `IsArrayOf<T>::is_array_of()`, `IsObjectOf<T>::is_object_of(key)`, `IsTupleOf<T>::is_tuple_of(i)`,
  `IsOneOf<T>::is_one_of()` and the inherent `is_tuple_of(&[JsonShape])`,
for `T` one of `Null, Number, String, Boolean, Array, Tuple, Object, OneOf` or `Optional<·>` of these.
The 58 impls of the file follow three patterns, which is how they are modelled:
  * array / object / tuple queries: the element (member, position) has the constructor named by `T`
    with exactly the flag `T` names (`Null` has no flag);
  * `IsOneOf<T>`, `T` not optional: some variant has the constructor with the flag off;
    `IsOneOf<Null>`: `Null` is a variant;
  * `IsOneOf<Optional<T>>`: for the scalars, `Array` and `Object` — some variant of that constructor
    (either flag) *and* `Null` is a variant; for `Tuple` — some tuple variant with the flag on; for
    `OneOf` — some nested `OneOf` with the flag on, or the flag of the union itself.
-/
import ShapeVerif.Model.Subset
namespace ShapeVerif
open Shape

inductive Kind where
  | null | number | string | boolean | array | tuple | object | oneOf
deriving DecidableEq, Repr

/-- the constructor of a shape -/
def kindOf : Shape → Kind
  | .null => .null | .bool _ => .boolean | .number _ => .number | .string _ => .string
  | .array _ _ => .array | .object _ _ => .object | .oneOf _ _ => .oneOf | .tuple _ _ => .tuple

/-- the optional flag as stored (`Null` has none) -/
def optFlagOf : Shape → Bool
  | .null => false | .bool o => o | .number o => o | .string o => o
  | .array _ o => o | .object _ o => o | .oneOf _ o => o | .tuple _ o => o

/-- `matches!(v, Self::K { optional: o, .. })`, resp. `v == Self::Null` -/
def hasKind (k : Kind) (o : Bool) (v : Shape) : Bool :=
  kindOf v == k && (k == .null || optFlagOf v == o)

def isArrayOf (k : Kind) (o : Bool) : Shape → Bool
  | .array t _ => hasKind k o t
  | _ => false

def isObjectOf (k : Kind) (o : Bool) (key : String) : Shape → Bool
  | .object c _ => c.any (fun kv => kv.1 == key && hasKind k o kv.2)
  | _ => false

def isTupleOfAt (k : Kind) (o : Bool) (i : Nat) : Shape → Bool
  | .tuple es _ => match es[i]? with | some v => hasKind k o v | none => false
  | _ => false

/-- the inherent `is_tuple_of(&[JsonShape])` -/
def isTupleOfTypes (types : List Shape) : Shape → Bool
  | .tuple es _ => es.length == types.length && (es.zip types).all (fun p => Shape.cmp p.1 p.2 == .eq)
  | _ => false

def isOneOfT (k : Kind) (o : Bool) : Shape → Bool
  | .oneOf vs uo =>
    if k == .null then setContains .null vs
    else if !o then vs.any (fun v => hasKind k false v)
    else if k == .tuple then vs.any (fun v => hasKind .tuple true v)
    else if k == .oneOf then vs.any (fun v => hasKind .oneOf true v) || uo
    else vs.any (fun v => kindOf v == k) && setContains .null vs
  | _ => false

end ShapeVerif
