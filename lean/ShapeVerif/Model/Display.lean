/-
Model of `impl Display for Value` (`value.rs`) and the s-expression wire format used by the
correspondence check (not part of the library).
-/
import ShapeVerif.Model.Shape
namespace ShapeVerif
open Shape

/-- `char.is_alphanumeric() || char == '_' || char == '-'`, exact on ASCII.
Non-ASCII characters are outside the modelled fragment (Rust consults Unicode tables). -/
def identChar (c : Char) : Bool := c.isAlphanum || c == '_' || c == '-'

def keyIsPlain (k : String) : Bool := k.toList.all identChar

def kwNull : List Char := ['N', 'u', 'l', 'l']
def kwBoolean : List Char := ['B', 'o', 'o', 'l', 'e', 'a', 'n']
def kwNumber : List Char := ['N', 'u', 'm', 'b', 'e', 'r']
def kwString : List Char := ['S', 't', 'r', 'i', 'n', 'g']
def kwOption : List Char := ['O', 'p', 't', 'i', 'o', 'n', '<']
def kwArray : List Char := ['A', 'r', 'r', 'a', 'y', '<']
def kwObject : List Char := ['O', 'b', 'j', 'e', 'c', 't', '{']
def kwOneOf : List Char := ['O', 'n', 'e', 'O', 'f', '[']
def kwTuple : List Char := ['T', 'u', 'p', 'l', 'e', '(']
def sepComma : List Char := [',', ' ']
def sepBar : List Char := [' ', '|', ' ']
def sepColon : List Char := [':', ' ']

/-- `Option<…>` around the non-optional rendering -/
def wrapOptC (o : Bool) (cs : List Char) : List Char := if o then kwOption ++ cs ++ ['>'] else cs

/-- a member name as `display_object_content` prints it -/
def keyChars (k : String) : List Char :=
  if keyIsPlain k then k.toList else ['"'] ++ k.toList ++ ['"']

mutual
/-- `Display::fmt`, as the list of characters written -/
def displayChars : Shape → List Char
  | .null => kwNull
  | .bool o => wrapOptC o kwBoolean
  | .number o => wrapOptC o kwNumber
  | .string o => wrapOptC o kwString
  | .array t o => wrapOptC o (kwArray ++ displayChars t ++ ['>'])
  | .object c o => wrapOptC o (kwObject ++ membersChars c ++ ['}'])
  | .oneOf vs o => wrapOptC o (kwOneOf ++ listChars sepBar vs ++ [']'])
  | .tuple es o => wrapOptC o (kwTuple ++ listChars sepComma es ++ [')'])
/-- `.map(to_string).collect::<Vec<_>>().join(sep)` -/
def listChars (sep : List Char) : List Shape → List Char
  | [] => []
  | [s] => displayChars s
  | s :: t :: l => displayChars s ++ sep ++ listChars sep (t :: l)
/-- `display_object_content` -/
def membersChars : Members → List Char
  | [] => []
  | [(k, v)] => keyChars k ++ sepColon ++ displayChars v
  | (k, v) :: kv :: l => keyChars k ++ sepColon ++ displayChars v ++ sepComma ++ membersChars (kv :: l)
end

/-- `to_string()` -/
def display (s : Shape) : String := String.ofList (displayChars s)

/-! ### wire format -/

def hexDigit (n : Nat) : Char := if n < 10 then Char.ofNat (48 + n) else Char.ofNat (87 + n)

def hexOfBytes (bs : List UInt8) : String :=
  String.ofList (bs.foldr (fun b acc => hexDigit (b.toNat / 16) :: hexDigit (b.toNat % 16) :: acc) [])

def hexOfString (s : String) : String := hexOfBytes s.toUTF8.toList

def hexVal (c : Char) : Option Nat :=
  if '0' ≤ c && c ≤ '9' then some (c.toNat - 48)
  else if 'a' ≤ c && c ≤ 'f' then some (c.toNat - 87)
  else none

def bytesOfHex : List Char → Option (List UInt8)
  | [] => some []
  | a :: b :: r =>
    match hexVal a, hexVal b, bytesOfHex r with
    | some x, some y, some bs => some (UInt8.ofNat (x * 16 + y) :: bs)
    | _, _, _ => none
  | _ => none

def stringOfHex (h : String) : Option String :=
  match bytesOfHex h.toList with
  | some bs =>
    let ba := ByteArray.mk bs.toArray
    if h : ba.IsValidUTF8 then some (String.ofByteArray ba h) else none
  | none => none

def flag (o : Bool) : String := if o then "1" else "0"

mutual
def sexp : Shape → String
  | .null => "N"
  | .bool o => "B" ++ flag o
  | .number o => "U" ++ flag o
  | .string o => "S" ++ flag o
  | .array t o => "(A" ++ flag o ++ " " ++ sexp t ++ ")"
  | .object c o => "(O" ++ flag o ++ sexpMembers c ++ ")"
  | .oneOf vs o => "(V" ++ flag o ++ sexpList vs ++ ")"
  | .tuple es o => "(T" ++ flag o ++ sexpList es ++ ")"
def sexpList : List Shape → String
  | [] => ""
  | s :: l => " " ++ sexp s ++ sexpList l
def sexpMembers : Members → String
  | [] => ""
  | (k, v) :: l => " (k" ++ hexOfString k ++ " " ++ sexp v ++ ")" ++ sexpMembers l
end

/-- tokens of the wire format: `(`, `)`, atoms -/
def sexpTokens (cs : List Char) : List String :=
  let rec go : List Char → List Char → List String → List String
    | [], cur, acc => (if cur.isEmpty then acc else String.ofList cur.reverse :: acc).reverse
    | c :: cs, cur, acc =>
      let flush := if cur.isEmpty then acc else String.ofList cur.reverse :: acc
      if c == '(' then go cs [] ("(" :: flush)
      else if c == ')' then go cs [] (")" :: flush)
      else if c == ' ' then go cs [] flush
      else go cs (c :: cur) acc
  go cs [] []

def flagOf (s : String) : Option Bool :=
  match s.toList with
  | [_, '0'] => some false
  | [_, '1'] => some true
  | _ => none

mutual
/-- parser of the wire format (fuel = number of tokens) -/
def readShape : Nat → List String → Option (Shape × List String)
  | 0, _ => none
  | fuel + 1, toks =>
    match toks with
    | "N" :: r => some (.null, r)
    | "B0" :: r => some (.bool false, r) | "B1" :: r => some (.bool true, r)
    | "U0" :: r => some (.number false, r) | "U1" :: r => some (.number true, r)
    | "S0" :: r => some (.string false, r) | "S1" :: r => some (.string true, r)
    | "(" :: hd :: r =>
      match hd.toList.head?, flagOf hd with
      | some 'A', some o =>
        match readShape fuel r with
        | some (t, ")" :: r') => some (.array t o, r')
        | _ => none
      | some 'O', some o =>
        match readMembers fuel r with
        | some (c, r') => some (.object c o, r')
        | none => none
      | some 'V', some o =>
        match readList fuel r with
        | some (vs, r') => some (.oneOf vs o, r')
        | none => none
      | some 'T', some o =>
        match readList fuel r with
        | some (es, r') => some (.tuple es o, r')
        | none => none
      | _, _ => none
    | _ => none
def readList : Nat → List String → Option (List Shape × List String)
  | 0, _ => none
  | fuel + 1, toks =>
    match toks with
    | ")" :: r => some ([], r)
    | toks =>
      match readShape fuel toks with
      | some (s, r) =>
        match readList fuel r with
        | some (l, r') => some (s :: l, r')
        | none => none
      | none => none
def readMembers : Nat → List String → Option (Members × List String)
  | 0, _ => none
  | fuel + 1, toks =>
    match toks with
    | ")" :: r => some ([], r)
    | "(" :: k :: r =>
      match stringOfHex (k.drop 1).toString, readShape fuel r with
      | some key, some (v, ")" :: r') =>
        match readMembers fuel r' with
        | some (l, r'') => some ((key, v) :: l, r'')
        | none => none
      | _, _ => none
    | _ => none
end

def shapeOfSexp (s : String) : Option Shape :=
  let toks := sexpTokens s.toList
  match readShape (toks.length + 1) toks with
  | some (sh, []) => some sh
  | _ => none

end ShapeVerif

namespace ShapeVerif
mutual
/-- all member names are ASCII: the fragment on which `display` models `char::is_alphanumeric` exactly -/
def asciiKeys : Shape → Bool
  | .array t _ => asciiKeys t
  | .object c _ => asciiKeysMembers c
  | .oneOf vs _ => asciiKeysList vs
  | .tuple es _ => asciiKeysList es
  | _ => true
def asciiKeysList : List Shape → Bool
  | [] => true
  | s :: l => asciiKeys s && asciiKeysList l
def asciiKeysMembers : Members → Bool
  | [] => true
  | (k, v) :: l => k.toList.all (fun c => c.toNat < 128) && asciiKeys v && asciiKeysMembers l
end
end ShapeVerif
