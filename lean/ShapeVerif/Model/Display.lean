/-
Model of `impl Display for Value` (`value.rs`) and the s-expression wire format used by the
correspondence check (not part of the library).
-/
import ShapeVerif.Model.Shape
namespace ShapeVerif
open Shape

/-- `char.is_alphanumeric() || char == '_' || char == '-'`, exact on ASCII.
Non-ASCII characters are outside the modelled fragment (Rust consults Unicode tables). -/
def identChar (c : Char) : Bool := c.isAlphanum || c == '_' || c == '-'

def keyIsPlain (k : String) : Bool := k.toList.all identChar

def joinWith (sep : String) : List String → String
  | [] => ""
  | [x] => x
  | x :: xs => x ++ sep ++ joinWith sep xs

def wrapOpt (o : Bool) (s : String) : String := if o then "Option<" ++ s ++ ">" else s

mutual
/-- `Display::fmt` -/
def display : Shape → String
  | .null => "Null"
  | .bool o => wrapOpt o "Boolean"
  | .number o => wrapOpt o "Number"
  | .string o => wrapOpt o "String"
  | .array t o => wrapOpt o ("Array<" ++ display t ++ ">")
  | .object c o => wrapOpt o ("Object{" ++ joinWith ", " (displayMembers c) ++ "}")
  | .oneOf vs o => wrapOpt o ("OneOf[" ++ joinWith " | " (displayList vs) ++ "]")
  | .tuple es o => wrapOpt o ("Tuple(" ++ joinWith ", " (displayList es) ++ ")")
def displayList : List Shape → List String
  | [] => []
  | s :: l => display s :: displayList l
/-- `display_object_content` items -/
def displayMembers : Members → List String
  | [] => []
  | (k, v) :: l =>
    (if keyIsPlain k then k ++ ": " ++ display v else "\"" ++ k ++ "\": " ++ display v) :: displayMembers l
end

/-! ### wire format -/

def hexDigit (n : Nat) : Char := if n < 10 then Char.ofNat (48 + n) else Char.ofNat (87 + n)

def hexOfBytes (bs : List UInt8) : String :=
  String.ofList (bs.foldr (fun b acc => hexDigit (b.toNat / 16) :: hexDigit (b.toNat % 16) :: acc) [])

def hexOfString (s : String) : String := hexOfBytes s.toUTF8.toList

def hexVal (c : Char) : Option Nat :=
  if '0' ≤ c && c ≤ '9' then some (c.toNat - 48)
  else if 'a' ≤ c && c ≤ 'f' then some (c.toNat - 87)
  else none

def bytesOfHex : List Char → Option (List UInt8)
  | [] => some []
  | a :: b :: r =>
    match hexVal a, hexVal b, bytesOfHex r with
    | some x, some y, some bs => some (UInt8.ofNat (x * 16 + y) :: bs)
    | _, _, _ => none
  | _ => none

def stringOfHex (h : String) : Option String :=
  match bytesOfHex h.toList with
  | some bs =>
    let ba := ByteArray.mk bs.toArray
    if h : ba.IsValidUTF8 then some (String.ofByteArray ba h) else none
  | none => none

def flag (o : Bool) : String := if o then "1" else "0"

mutual
def sexp : Shape → String
  | .null => "N"
  | .bool o => "B" ++ flag o
  | .number o => "U" ++ flag o
  | .string o => "S" ++ flag o
  | .array t o => "(A" ++ flag o ++ " " ++ sexp t ++ ")"
  | .object c o => "(O" ++ flag o ++ sexpMembers c ++ ")"
  | .oneOf vs o => "(V" ++ flag o ++ sexpList vs ++ ")"
  | .tuple es o => "(T" ++ flag o ++ sexpList es ++ ")"
def sexpList : List Shape → String
  | [] => ""
  | s :: l => " " ++ sexp s ++ sexpList l
def sexpMembers : Members → String
  | [] => ""
  | (k, v) :: l => " (k" ++ hexOfString k ++ " " ++ sexp v ++ ")" ++ sexpMembers l
end

/-- tokens of the wire format: `(`, `)`, atoms -/
def sexpTokens (cs : List Char) : List String :=
  let rec go : List Char → List Char → List String → List String
    | [], cur, acc => (if cur.isEmpty then acc else String.ofList cur.reverse :: acc).reverse
    | c :: cs, cur, acc =>
      let flush := if cur.isEmpty then acc else String.ofList cur.reverse :: acc
      if c == '(' then go cs [] ("(" :: flush)
      else if c == ')' then go cs [] (")" :: flush)
      else if c == ' ' then go cs [] flush
      else go cs (c :: cur) acc
  go cs [] []

def flagOf (s : String) : Option Bool :=
  match s.toList with
  | [_, '0'] => some false
  | [_, '1'] => some true
  | _ => none

mutual
/-- parser of the wire format (fuel = number of tokens) -/
def readShape : Nat → List String → Option (Shape × List String)
  | 0, _ => none
  | fuel + 1, toks =>
    match toks with
    | "N" :: r => some (.null, r)
    | "B0" :: r => some (.bool false, r) | "B1" :: r => some (.bool true, r)
    | "U0" :: r => some (.number false, r) | "U1" :: r => some (.number true, r)
    | "S0" :: r => some (.string false, r) | "S1" :: r => some (.string true, r)
    | "(" :: hd :: r =>
      match hd.toList.head?, flagOf hd with
      | some 'A', some o =>
        match readShape fuel r with
        | some (t, ")" :: r') => some (.array t o, r')
        | _ => none
      | some 'O', some o =>
        match readMembers fuel r with
        | some (c, r') => some (.object c o, r')
        | none => none
      | some 'V', some o =>
        match readList fuel r with
        | some (vs, r') => some (.oneOf vs o, r')
        | none => none
      | some 'T', some o =>
        match readList fuel r with
        | some (es, r') => some (.tuple es o, r')
        | none => none
      | _, _ => none
    | _ => none
def readList : Nat → List String → Option (List Shape × List String)
  | 0, _ => none
  | fuel + 1, toks =>
    match toks with
    | ")" :: r => some ([], r)
    | toks =>
      match readShape fuel toks with
      | some (s, r) =>
        match readList fuel r with
        | some (l, r') => some (s :: l, r')
        | none => none
      | none => none
def readMembers : Nat → List String → Option (Members × List String)
  | 0, _ => none
  | fuel + 1, toks =>
    match toks with
    | ")" :: r => some ([], r)
    | "(" :: k :: r =>
      match stringOfHex (k.drop 1).toString, readShape fuel r with
      | some key, some (v, ")" :: r') =>
        match readMembers fuel r' with
        | some (l, r'') => some ((key, v) :: l, r'')
        | none => none
      | _, _ => none
    | _ => none
end

def shapeOfSexp (s : String) : Option Shape :=
  let toks := sexpTokens s.toList
  match readShape (toks.length + 1) toks with
  | some (sh, []) => some sh
  | _ => none

end ShapeVerif

namespace ShapeVerif
mutual
/-- all member names are ASCII: the fragment on which `display` models `char::is_alphanumeric` exactly -/
def asciiKeys : Shape → Bool
  | .array t _ => asciiKeys t
  | .object c _ => asciiKeysMembers c
  | .oneOf vs _ => asciiKeysList vs
  | .tuple es _ => asciiKeysList es
  | _ => true
def asciiKeysList : List Shape → Bool
  | [] => true
  | s :: l => asciiKeys s && asciiKeysList l
def asciiKeysMembers : Members → Bool
  | [] => true
  | (k, v) :: l => k.toList.all (fun c => c.toNat < 128) && asciiKeys v && asciiKeysMembers l
end
end ShapeVerif
