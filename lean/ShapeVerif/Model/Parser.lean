/-
Model of the lelwel-generated recovering LL(1) parser (`generated.rs`, included by `parser.rs`).
The flat node vector of the Rust CST is modelled as a tree; the `open`/`close` bookkeeping
(`non_skip_len`: a rule ends at its last non-skipped item, trailing skipped tokens belong to the
parent) is reproduced by splitting the emitted items when a rule is closed. The correspondence
check compares the real CST (children, spans) with this tree for every generated text.
-/
import ShapeVerif.Model.Lexer
namespace ShapeVerif

inductive Rule where
  | array | boolean | error | file | literal | member | object | value
deriving Repr, DecidableEq, Inhabited

inductive Node where
  | tok (kind : Tok) (start stop : Nat)
  | rule (r : Rule) (children : List Node)
deriving Repr, Inhabited

/-- an item emitted into the currently open rule, with its "skipped" flag -/
structure Item where
  node : Node
  skip : Bool
deriving Inhabited

def isSkipTok (k : Tok) : Bool := k == .error || k == .ws || k == .nl

structure PState where
  /-- remaining tokens, `current` first when it is not EOF -/
  toks : List Token
  /-- `self.pos` (index into the token vector) -/
  pos : Nat
  /-- `self.current` (EOF when no non-skipped token is left) -/
  current : Tok
  lastErrorSpan : Nat × Nat
  cooldown : Bool
  diags : List Diag          -- reversed
  maxOffset : Nat
deriving Inhabited

/-- `self.span()`: the span of the token at `pos`, or the end of the input -/
def PState.span (s : PState) : Nat × Nat :=
  match s.toks with
  | t :: _ => (t.start, t.stop)
  | [] => (s.maxOffset, s.maxOffset)

/-- `self.error(diags, diag)` -/
def PState.error (s : PState) : PState :=
  if s.cooldown || s.lastErrorSpan == s.span then s
  else { s with lastErrorSpan := s.span, diags := ⟨.syntax, s.span.1, s.span.2⟩ :: s.diags }

/-- the skipped tokens at the head of the token list -/
def takeSkips : List Token → List Item × List Token × Nat
  | t :: ts =>
    if isSkipTok t.kind then
      let r := takeSkips ts
      (⟨.tok t.kind t.start t.stop, true⟩ :: r.1, r.2.1, r.2.2 + 1)
    else ([], t :: ts, 0)
  | [] => ([], [], 0)

def headKind : List Token → Tok
  | t :: _ => t.kind
  | [] => .eof

/-- `self.advance(error)`: emit the current token (never flagged skipped), then the skipped tokens
that follow; returns the emitted items -/
def PState.advance (s : PState) (error : Bool) : PState × List Item :=
  match s.toks with
  | [] => (s, [])          -- not reached: `advance` is only called on a non-EOF current token
  | t :: ts =>
    let r := takeSkips ts
    ({ s with toks := r.2.1, pos := s.pos + 1 + r.2.2, current := headKind r.2.1,
              cooldown := if error then s.cooldown else false },
     ⟨.tok t.kind t.start t.stop, false⟩ :: r.1)

/-- `Cst::close`: children = items up to the last non-skipped one; the rest floats to the parent -/
def closeRule (r : Rule) (items : List Item) : List Item :=
  let rev := items.reverse
  let trailing := rev.takeWhile (·.skip)
  let inside := (rev.dropWhile (·.skip)).reverse
  ⟨.rule r (inside.map (·.node)), false⟩ :: trailing.reverse

/-- `expect!(Token, ..)` -/
def PState.expect (s : PState) (k : Tok) : PState × List Item :=
  if s.current == k then s.advance false else (s.error, [])

/-- `advance_with_error` -/
def PState.advanceWithError (s : PState) : PState × List Item :=
  let s1 := s.error
  let s2 := { s1 with cooldown := true }
  let r := s2.advance true
  (r.1, closeRule .error r.2)

def isLiteralStart (k : Tok) : Bool :=
  k == .false_ || k == .null_ || k == .number || k == .string || k == .true_

def isValueStart (k : Tok) : Bool := k == .lbrace || k == .lbrak || isLiteralStart k

/-- `rule_boolean` -/
def ruleBoolean (s : PState) : PState × List Item :=
  let r := if s.current == .false_ then s.expect .false_
    else if s.current == .true_ then s.expect .true_
    else (s.error, [])
  (r.1, closeRule .boolean r.2)

/-- `rule_literal` -/
def ruleLiteral (s : PState) : PState × List Item :=
  let r :=
    if s.current == .string then s.expect .string
    else if s.current == .number then s.expect .number
    else if s.current == .false_ || s.current == .true_ then ruleBoolean s
    else if s.current == .null_ then s.expect .null_
    else (s.error, [])
  (r.1, closeRule .literal r.2)

mutual
/-- `rule_value` (fuel bounds the recursion by the number of remaining tokens) -/
def ruleValue : Nat → PState → PState × List Item
  | 0, s => (s, [])
  | fuel + 1, s =>
    if s.current == .lbrace then ruleObject fuel s
    else if s.current == .lbrak then ruleArray fuel s
    else if isLiteralStart s.current then ruleLiteral s
    else (s.error, [])
/-- `rule_member` -/
def ruleMember : Nat → PState → PState × List Item
  | 0, s => (s, [])
  | fuel + 1, s =>
    let r1 := s.expect .string
    let r2 := r1.1.expect .colon
    let r3 := ruleValue fuel r2.1
    (r3.1, closeRule .member (r1.2 ++ r2.2 ++ r3.2))
/-- the `loop` of `rule_object` after the first member -/
def objectLoop : Nat → PState → PState × List Item
  | 0, s => (s, [])
  | fuel + 1, s =>
    if s.current == .comma then
      let r1 := s.expect .comma
      let r2 := ruleMember fuel r1.1
      let r3 := objectLoop fuel r2.1
      (r3.1, r1.2 ++ r2.2 ++ r3.2)
    else if s.current == .rbrace || s.current == .eof || s.current == .rbrak then (s, [])
    else
      let r1 := s.advanceWithError
      let r2 := objectLoop fuel r1.1
      (r2.1, r1.2 ++ r2.2)
/-- `rule_object` -/
def ruleObject : Nat → PState → PState × List Item
  | 0, s => (s, [])
  | fuel + 1, s =>
    let r1 := s.expect .lbrace
    let r2 :=
      if r1.1.current == .string then
        let m := ruleMember fuel r1.1
        let l := objectLoop fuel m.1
        (l.1, m.2 ++ l.2)
      else if r1.1.current == .rbrace then (r1.1, [])
      else (r1.1.error, [])
    let r3 := r2.1.expect .rbrace
    (r3.1, closeRule .object (r1.2 ++ r2.2 ++ r3.2))
/-- the `loop` of `rule_array` after the first value -/
def arrayLoop : Nat → PState → PState × List Item
  | 0, s => (s, [])
  | fuel + 1, s =>
    if s.current == .comma then
      let r1 := s.expect .comma
      let r2 := ruleValue fuel r1.1
      let r3 := arrayLoop fuel r2.1
      (r3.1, r1.2 ++ r2.2 ++ r3.2)
    else if s.current == .rbrak || s.current == .eof || s.current == .rbrace then (s, [])
    else
      let r1 := s.advanceWithError
      let r2 := arrayLoop fuel r1.1
      (r2.1, r1.2 ++ r2.2)
/-- `rule_array` -/
def ruleArray : Nat → PState → PState × List Item
  | 0, s => (s, [])
  | fuel + 1, s =>
    let r1 := s.expect .lbrak
    let r2 :=
      if isValueStart r1.1.current then
        let v := ruleValue fuel r1.1
        let l := arrayLoop fuel v.1
        (l.1, v.2 ++ l.2)
      else if r1.1.current == .rbrak then (r1.1, [])
      else (r1.1.error, [])
    let r3 := r2.1.expect .rbrak
    (r3.1, closeRule .array (r1.2 ++ r2.2 ++ r3.2))
end

structure ParseResult where
  root : Node
  diags : List Diag
deriving Inhabited

/-- parser state after `init_skip` -/
def initState (lx : LexResult) (maxOffset : Nat) : PState :=
  let skips := takeSkips lx.tokens
  { toks := skips.2.1, pos := skips.2.2, current := headKind skips.2.1,
    lastErrorSpan := (0, 0), cooldown := false, diags := lx.diags.reverse, maxOffset := maxOffset }

/-- the trailing error tree: everything left after the value, if anything is left -/
def parseTail (s1 : PState) : PState × List Item :=
  if s1.current != .eof then
    let s' := s1.error
    let rest : List Item := s'.toks.map fun t => ⟨.tok t.kind t.start t.stop, isSkipTok t.kind⟩
    (s', closeRule .error rest)
  else (s1, [])

/-- `Parser::parse`: tokens, `init_skip`, `rule_value`, the trailing error tree, `close_root` -/
def parse (cs : List Char) : ParseResult :=
  let lx := tokenize cs
  let skips := takeSkips lx.tokens
  let rv := ruleValue (2 * lx.tokens.length + 4) (initState lx (utf8Len cs))
  let tl := parseTail rv.1
  ⟨.rule .file ((skips.1 ++ rv.2 ++ tl.2).map (·.node)), tl.1.diags.reverse⟩

end ShapeVerif

namespace ShapeVerif

mutual
/-- start of the first token inside a node -/
def firstTokStart : Node → Option Nat
  | .tok _ s _ => some s
  | .rule _ cs => firstTokStartList cs
def firstTokStartList : List Node → Option Nat
  | [] => none
  | n :: ns => match firstTokStart n with
    | some s => some s
    | none => firstTokStartList ns
end

mutual
/-- end of the last token inside a node -/
def lastTokStop : Node → Option Nat
  | .tok _ _ e => some e
  | .rule _ cs => lastTokStopList cs
def lastTokStopList : List Node → Option Nat
  | [] => none
  | n :: ns => match lastTokStopList ns with
    | some e => some e
    | none => lastTokStop n
end

/-- `Cst::span`: for a rule, first token start .. last token end; without tokens, the empty range at
the end of the last token before the node (`prevEnd`) -/
def nodeSpan (prevEnd : Nat) (n : Node) : Nat × Nat :=
  match n with
  | .tok _ s e => (s, e)
  | .rule _ _ =>
    match firstTokStart n, lastTokStop n with
    | some s, some e => (s, e)
    | _, _ => (prevEnd, prevEnd)

def ruleName : Rule → String
  | .array => "array" | .boolean => "boolean" | .error => "error" | .file => "file"
  | .literal => "literal" | .member => "member" | .object => "object" | .value => "value"

def tokDebugName : Tok → String
  | .eof => "EOF" | .ws => "Whitespace" | .nl => "Newline" | .true_ => "True" | .false_ => "False"
  | .null_ => "Null" | .lbrace => "LBrace" | .rbrace => "RBrace" | .lbrak => "LBrak" | .rbrak => "RBrak"
  | .comma => "Comma" | .colon => "Colon" | .string => "String" | .number => "Number" | .error => "Error"

mutual
/-- the s-expression the `verif::cst` hook prints, threading the end of the last token seen -/
def dumpNode (prevEnd : Nat) : Node → String × Nat
  | .tok k s e => (tokDebugName k ++ "@" ++ toString s ++ ".." ++ toString e, e)
  | .rule r cs =>
    let sp := nodeSpan prevEnd (.rule r cs)
    let d := dumpList prevEnd cs
    ("(" ++ ruleName r ++ "@" ++ toString sp.1 ++ ".." ++ toString sp.2 ++ d.1 ++ ")", d.2)
def dumpList (prevEnd : Nat) : List Node → String × Nat
  | [] => ("", prevEnd)
  | n :: ns =>
    let a := dumpNode prevEnd n
    let b := dumpList a.2 ns
    (" " ++ a.1 ++ b.1, b.2)
end

end ShapeVerif
