/-
Tick-counting twins: the number of calls the real code makes to `From<&serde_json::Value>`,
`parse_rule`, `merger` and `is_subset` (counted by the `verif` hooks at the entry of each function;
compared exactly by the correspondence check).
-/
import ShapeVerif.Model.Infer
namespace ShapeVerif
open Shape

mutual
/-- number of nodes of a shape -/
def Shape.size : Shape → Nat
  | .array t _ => Shape.size t + 1
  | .object c _ => sizeMembers c + 1
  | .oneOf vs _ => sizeList vs + 1
  | .tuple es _ => sizeList es + 1
  | _ => 1
def sizeList : List Shape → Nat
  | [] => 0
  | s :: l => Shape.size s + sizeList l
def sizeMembers : Members → Nat
  | [] => 0
  | (_, s) :: l => Shape.size s + sizeMembers l
end

/-- calls of `From<&serde_json::Value>` for one value (after the D10 fix: each node once) -/
def ticksSVal (v : Doc) : Nat := v.nodes

mutual
/-- calls of `parse_rule` by the text path on a document tree (stops at the first error) -/
def ticksInferDoc : Doc → Nat
  | .arr xs => 1 + ticksInferList xs
  | .obj ms => 1 + ticksInferMembers ms []
  | _ => 1
def ticksInferList : List Doc → Nat
  | [] => 0
  | x :: xs =>
    match inferDoc x with
    | .error _ => ticksInferDoc x
    | .ok _ => ticksInferDoc x + ticksInferList xs
def ticksInferMembers : List (String × Doc) → Members → Nat
  | [], _ => 0
  | (k, v) :: ms, content =>
    match inferDoc v with
    | .error _ => ticksInferDoc v
    | .ok value => match addMember content k value with
      | .error _ => ticksInferDoc v
      | .ok content' => ticksInferDoc v + ticksInferMembers ms content'
end

mutual
/-- calls of `merger` made by `merger(a, b)` (itself included) -/
def mergerT : Shape → Shape → Nat
  | .array t _, .array t' _ => 1 + mergerT t t'
  | .object c _, .object oc _ => 1 + mergeMembersT c oc
  | _, _ => 1
termination_by structural a => a
def mergeMembersT : Members → Members → Nat
  | [], _ => 0
  | (k, v) :: c, other =>
    match mapGet k other with
    | some ov => mergerT v ov + mergeMembersT c (mapRemove k other)
    | none => mergeMembersT c other
termination_by structural c => c
end

/-- `all` with short-circuit, accumulating ticks -/
def allT {α : Type} (f : α → Bool × Nat) : List α → Bool × Nat
  | [] => (true, 0)
  | x :: l =>
    let r := f x
    if r.1 then let r' := allT f l; (r'.1, r.2 + r'.2) else (false, r.2)

/-- `any` with short-circuit, accumulating ticks -/
def anyT {α : Type} (f : α → Bool × Nat) : List α → Bool × Nat
  | [] => (false, 0)
  | x :: l =>
    let r := f x
    if r.1 then (true, r.2) else let r' := anyT f l; (r'.1, r.2 + r'.2)

mutual
/-- `is_subset` with the number of `is_subset` calls made (itself included), following the evaluation
order and short-circuits of the Rust code -/
def subsetT : Shape → Shape → Bool × Nat
  | .null, other => (other.isOptional || other.isNull || isOneOfNull other, 1)
  | .bool true, other => ((other.isBoolean && other.isOptional) || isOneOfOptBool other, 1)
  | .number true, other => ((other.isNumber && other.isOptional) || isOneOfOptNumber other, 1)
  | .string true, other => ((other.isString && other.isOptional) || isOneOfOptString other, 1)
  | .bool false, other => (other.isBoolean || isOneOfBool other || isOneOfOptBool other, 1)
  | .number false, other => (other.isNumber || isOneOfNumber other || isOneOfOptNumber other, 1)
  | .string false, other => (other.isString || isOneOfString other || isOneOfOptString other, 1)
  | .array t true, .array ty true => let r := subsetT t ty; (r.1, r.2 + 1)
  | .array t true, .oneOf vs o =>
      let r := anyNullOkT (.array t false) (o || setContains .null vs) vs; (r.1, r.2 + 1)
  | .array _ true, _ => (false, 1)
  | .array t false, .array ty _ => let r := subsetT t ty; (r.1, r.2 + 1)
  | .array t false, .oneOf vs _ => let r := anySupT (.array t false) vs; (r.1, r.2 + 1)
  | .array _ false, _ => (false, 1)
  | .tuple es true, .tuple os true =>
      let r := zipAllT es os; (r.1 && es.length == os.length, r.2 + 1)
  | .tuple es true, .oneOf vs o =>
      let r := anyNullOkT (.tuple es false) (o || setContains .null vs) vs; (r.1, r.2 + 1)
  | .tuple es true, .array ty true => let r := allT (fun e => subsetT e ty) es; (r.1, r.2 + 1)
  | .tuple _ true, _ => (false, 1)
  | .tuple es false, .tuple os _ =>
      let r := zipAllT es os; (r.1 && es.length == os.length, r.2 + 1)
  | .tuple es false, .oneOf vs _ => let r := anySupT (.tuple es false) vs; (r.1, r.2 + 1)
  | .tuple es false, .array ty _ => let r := allT (fun e => subsetT e ty) es; (r.1, r.2 + 1)
  | .tuple _ false, _ => (false, 1)
  | .object c true, .object oc true =>
      if oc.all (fun kv => mapContainsKey kv.1 c || kv.2.isOptional || isOneOfNull kv.2) then
        let r := allT (fun kv => lookupT kv.1 kv.2 oc) c; (r.1, r.2 + 1)
      else (false, 1)
  | .object c true, .oneOf vs o =>
      let r := anyNullOkT (.object c false) (o || setContains .null vs) vs; (r.1, r.2 + 1)
  | .object _ true, _ => (false, 1)
  | .object c false, .object oc _ =>
      if oc.all (fun kv => mapContainsKey kv.1 c || kv.2.isOptional || isOneOfNull kv.2) then
        let r := allT (fun kv => lookupT kv.1 kv.2 oc) c; (r.1, r.2 + 1)
      else (false, 1)
  | .object c false, .oneOf vs _ => let r := anyObjT (.object c false) vs; (r.1, r.2 + 1)
  | .object _ false, _ => (false, 1)
  | .oneOf vs true, .oneOf ws true =>
      if setIsSubset vs ws then (true, 1)
      else let r := allT (fun v => anySupT v ws) vs; (r.1, r.2 + 1)
  | .oneOf _ true, _ => (false, 1)
  | .oneOf vs false, .oneOf ws _ =>
      if setIsSubset vs ws then (true, 1)
      else let r := allT (fun v => anySupT v ws) vs; (r.1, r.2 + 1)
  | .oneOf _ false, _ => (false, 1)
termination_by structural _ b => b
def zipAllT : List Shape → List Shape → Bool × Nat
  | a :: as, b :: bs =>
    let r := subsetT a b
    if r.1 then let r' := zipAllT as bs; (r'.1, r.2 + r'.2) else (false, r.2)
  | _, _ => (true, 0)
termination_by structural _ b => b
def lookupT (k : String) (v : Shape) : Members → Bool × Nat
  | [] => (false, 0)
  | (k', ov) :: l => if k == k' then subsetT v ov else lookupT k v l
termination_by structural m => m
def anyObjT (s : Shape) : List Shape → Bool × Nat
  | [] => (false, 0)
  | v :: l =>
    if v.isObject then
      let r := subsetT s v
      if r.1 then (true, r.2) else let r' := anyObjT s l; (r'.1, r.2 + r'.2)
    else anyObjT s l
termination_by structural l => l
def anyNullOkT (s : Shape) (nullOk : Bool) : List Shape → Bool × Nat
  | [] => (false, 0)
  | v :: l =>
    if nullOk || v.isOptional then
      let r := subsetT s v
      if r.1 then (true, r.2) else let r' := anyNullOkT s nullOk l; (r'.1, r.2 + r'.2)
    else anyNullOkT s nullOk l
termination_by structural l => l
def anySupT (s : Shape) : List Shape → Bool × Nat
  | [] => (false, 0)
  | v :: l =>
    let r := subsetT s v
    if r.1 then (true, r.2) else let r' := anySupT s l; (r'.1, r.2 + r'.2)
termination_by structural l => l
end

end ShapeVerif
