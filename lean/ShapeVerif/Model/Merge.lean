/-
Model of `shape/merger.rs`: `merger(rhs, lhs)` and `merge(values)`.
The 64 arms of the Rust `match` are transcribed through four helpers
(`mixed`, `addToOneOf`, `arrayElemVariants`, `pickTuple`); every (constructor, constructor, flag, flag)
combination is compared with the real function by the correspondence check.
`merger` never returns `Err` in the Rust code (every arm is `Ok`, `?` only forwards recursive calls),
so the model returns the shape directly.
-/
import ShapeVerif.Model.Subset
namespace ShapeVerif
open Shape

/-- `T + U = OneOf[T | U]` (`+ Null` when either side is optional): the arms for two different
kinds where neither side is `Null` or `OneOf` and the pair is not array/tuple with array/tuple. -/
def mixed (a b : Shape) : Shape :=
  .oneOf (setOfList ([a.asNonOptional, b.asNonOptional] ++
      (if a.isOptional || b.isOptional then [.null] else []))) false

/-- the `(X, OneOf)` and `(OneOf, X)` arms: add `Null` if `X` is optional and absent, add `X` non-optional -/
def addToOneOf (x : Shape) (vs : List Shape) : List Shape :=
  let vs1 := if x.isOptional && !setContains .null vs then setInsert .null vs else vs
  setInsert x.asNonOptional vs1

/-- how the element type of an array enters the variant set in the array/tuple arms:
an existing `OneOf` is flattened (keeping `Null` if it was optional), anything else is inserted. -/
def arrayElemVariants (t : Shape) (init : List Shape) : List Shape :=
  match t with
  | .oneOf inner io => setExtend (if io then setInsert .null init else init) inner
  | other => setInsert other init

/-- one position of the `(Tuple, Tuple)` zip -/
def pickTuple (a b : Shape) : Option Shape :=
  if isSubset a b then some b
  else if isSubset b a then some a
  else if b.isNull then some a.asOptional
  else if a.isNull then some b.asOptional
  else none

/-- `zip(..).map(pick).try_fold(..)` -/
def pickAll : List Shape → List Shape → Option (List Shape)
  | a :: as, b :: bs =>
    match pickTuple a b with
    | none => none
    | some x => match pickAll as bs with
      | none => none
      | some xs => some (x :: xs)
  | _, _ => some []

mutual
def merger : Shape → Shape → Shape
  -- Null + T
  | .null, b => b.asOptional
  -- Bool
  | .bool _, .null => .bool true
  | .bool o, .bool p => .bool (o || p)
  | .bool o, .oneOf vs p => .oneOf (addToOneOf (.bool o) vs) p
  | .bool o, b => mixed (.bool o) b
  -- Number
  | .number _, .null => .number true
  | .number o, .number p => .number (o || p)
  | .number o, .oneOf vs p => .oneOf (addToOneOf (.number o) vs) p
  | .number o, b => mixed (.number o) b
  -- String
  | .string _, .null => .string true
  | .string o, .string p => .string (o || p)
  | .string o, .oneOf vs p => .oneOf (addToOneOf (.string o) vs) p
  | .string o, b => mixed (.string o) b
  -- Array
  | .array t _, .null => .array t true
  | .array t o, .array t' p => .array (merger t t') (o || p)
  | .array t opt, .tuple es optional =>
      let v0 := if es.any isOptional || t.isOptional then setInsert .null [] else []
      .array (.oneOf (setExtend (arrayElemVariants t v0) (es.map asNonOptional)) false) (opt || optional)
  | .array t o, .oneOf vs p => .oneOf (addToOneOf (.array t o) vs) p
  | .array t o, b => mixed (.array t o) b
  -- Object
  | .object c _, .null => .object c true
  | .object c o, .object oc p =>
      let r := mergeMembers c oc
      .object (mapOfList (r.1 ++ r.2.map (fun kv => (kv.1, kv.2.asOptional)))) (o || p)
  | .object c o, .oneOf vs p => .oneOf (addToOneOf (.object c o) vs) p
  | .object c o, b => mixed (.object c o) b
  -- OneOf
  | .oneOf vs _, .null => .oneOf vs true
  | .oneOf vs o, .oneOf ws p => .oneOf (setExtend vs ws) (o || p)
  | .oneOf vs o, b => .oneOf (addToOneOf b vs) o
  -- Tuple
  | .tuple es _, .null => .tuple es true
  | .tuple es optional, .array t opt =>
      let v0 := if es.any isOptional || t.isOptional then setInsert .null [] else []
      .array (.oneOf (setExtend (arrayElemVariants t v0) (es.map asNonOptional)) false) (opt || optional)
  | .tuple es o, .tuple os p =>
      match es.length == os.length, pickAll es os with
      | true, some folded => .tuple folded (o || p)
      | _, _ =>
        let v0 := if es.any isOptional || os.any isOptional then setInsert .null [] else []
        .array (.oneOf (setExtend (setExtend v0 (es.map asNonOptional)) (os.map asNonOptional)) false) (o || p)
  | .tuple es o, .oneOf vs p => .oneOf (addToOneOf (.tuple es o) vs) p
  | .tuple es o, b => mixed (.tuple es o) b
termination_by structural a => a
/-- first loop of the `(Object, Object)` arm: for each key of the left map in order, the merged or
optional value, together with what is left of the right map -/
def mergeMembers : Members → Members → Members × Members
  | [], other => ([], other)
  | (k, v) :: c, other =>
    match mapGet k other with
    | some ov =>
      let r := mergeMembers c (mapRemove k other)
      ((k, merger v ov) :: r.1, r.2)
    | none =>
      let r := mergeMembers c other
      ((k, v.asOptional) :: r.1, r.2)
termination_by structural c => c
end

inductive MergeErr where | emptyFile
deriving Repr, DecidableEq

/-- `merge(values)` -/
def merge : List Shape → Except MergeErr Shape
  | [] => .error .emptyFile
  | first :: rest => .ok (rest.foldl merger first)

end ShapeVerif
