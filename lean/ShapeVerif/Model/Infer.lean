/-
Model of single-document inference.
* `inferDoc`  : `shape/mod.rs` `parse_rule`/`parse_member`/`parse_token` on the tree of a grammatical text
                (members in source order, duplicate member names checked as the code does).
* `inferSVal` : `serde.rs` `From<&serde_json::Value>`.
Both share the array classification helpers, which the two Rust files spell out separately; the
correspondence check compares each with its own Rust function.
-/
import ShapeVerif.Model.Merge
import ShapeVerif.Model.Json
namespace ShapeVerif
open Shape

inductive InferErr where
  /-- `Error::InvalidObjectValueType(value, existing)` -/
  | invalidObjectValueType (v existing : Shape)
  /-- `Error::Unknown` (unreachable branch of the array-of-objects code) -/
  | unknown
deriving Repr, Inhabited

/-- `elements.windows(2).all(|w| w[0] == w[1])` -/
def allEqual : List Shape → Bool
  | a :: b :: l => cmp a b == .eq && allEqual (b :: l)
  | _ => true

/-- fold 1 of the array-of-objects branch: a key of the first object that is missing from a later
object becomes optional (after the D2 fix each key is searched in a fresh iterator). -/
def markMissing (acc : Members) (keys : List String) : Members :=
  acc.map (fun kv => if keys.any (fun k => k == kv.1) then kv else (kv.1, kv.2.toOptionalMut))

/-- fold 2, one later object: `entry(key).or_insert_with(|| value.as_optional())`, and if the value
now stored is a `OneOf`, the new value joins its variants. An existing non-`OneOf` value is kept as is. -/
def absorbMember (acc : Members) (k : String) (v : Shape) : Members :=
  let cur := match mapGet k acc with
    | some old => old
    | none => v.asOptional
  let cur' := match cur with
    | .oneOf vs o => .oneOf (setInsert v vs) o
    | other => other
  mapInsert k cur' acc

def absorbObject (acc : Members) (content : Members) : Members :=
  content.foldl (fun a kv => absorbMember a kv.1 kv.2) acc

/-- fold 1, one later element -/
def fold1Step (acc : Members) (s : Shape) : Members :=
  match s.keys with
  | some ks => markMissing acc ks
  | none => acc

/-- fold 2, one later element -/
def fold2Step (acc : Members) (s : Shape) : Members :=
  match s with
  | .object c _ => absorbObject acc c
  | _ => acc

/-- the `else if elements.len() > 1 && all objects` branch, given the first object's content and the later shapes -/
def mergeObjectElements (first : Members) (rest : List Shape) : Members :=
  rest.foldl fold2Step (rest.foldl fold1Step first)

/-- the array classification of `parse_rule` (text path), on the element shapes -/
def classifyArray (elements : List Shape) : Except InferErr Shape :=
  if !elements.isEmpty && allEqual elements then
    match elements with
    | first :: _ => .ok (.array first false)
    | [] => .ok (.array .null true)     -- unreachable
  else if elements.length > 1 && elements.all isObject then
    match elements with
    | .object content _ :: rest => .ok (.array (.object (mergeObjectElements content rest) false) false)
    | _ => .error .unknown
  else if elements.length > 1 then
    .ok (.tuple elements false)
  else
    .ok (.array .null true)

/-- `parse_member`'s bookkeeping once the member's value shape is known -/
def addMember (content : Members) (k : String) (value : Shape) : Except InferErr Members :=
  match mapGet k content with
  | some (.oneOf vs _) =>
    if !setContains value vs then .error (.invalidObjectValueType value (.oneOf vs false))
    else .ok content
  | some other =>
    if cmp value other != .eq then .error (.invalidObjectValueType value other)
    else .ok content
  | none => .ok (mapInsert k value content)

mutual
/-- text path: `parse_rule` on the tree of a grammatical document -/
def inferDoc : Doc → Except InferErr Shape
  | .null => .ok .null
  | .bool _ => .ok (.bool false)
  | .num _ => .ok (.number false)
  | .str _ => .ok (.string false)
  | .arr xs =>
    match inferDocList xs with
    | .error e => .error e
    | .ok elements => classifyArray elements
  | .obj ms =>
    match inferDocMembers ms [] with
    | .error e => .error e
    | .ok content => .ok (.object content false)
def inferDocList : List Doc → Except InferErr (List Shape)
  | [] => .ok []
  | x :: xs =>
    match inferDoc x with
    | .error e => .error e
    | .ok s => match inferDocList xs with
      | .error e => .error e
      | .ok ss => .ok (s :: ss)
def inferDocMembers : List (String × Doc) → Members → Except InferErr Members
  | [], content => .ok content
  | (k, v) :: ms, content =>
    match inferDoc v with
    | .error e => .error e
    | .ok value => match addMember content k value with
      | .error e => .error e
      | .ok content' => inferDocMembers ms content'
end

/-- the array classification of `From<&serde_json::Value>` (value path): same branches, objects first -/
def classifyArrayV (elements : List Shape) : Shape :=
  if elements.length > 1 && elements.all isObject then
    match elements with
    | .object content _ :: rest => .array (.object (mergeObjectElements content rest) false) false
    | _ => .array .null true            -- `unreachable!`
  else if !elements.isEmpty && allEqual elements then
    match elements with
    | first :: _ => .array first false
    | [] => .array .null true
  else if elements.length > 1 then
    .tuple elements false
  else
    .array .null true

mutual
/-- value path: `JsonShape::from(&serde_json::Value)`; the argument is a `Doc.toSVal` image -/
def inferSVal : Doc → Shape
  | .null => .null
  | .bool _ => .bool false
  | .num _ => .number false
  | .str _ => .string false
  | .arr xs => classifyArrayV (inferSValList xs)
  | .obj ms => .object (inferSValMembers ms) false
def inferSValList : List Doc → List Shape
  | [] => []
  | x :: xs => inferSVal x :: inferSValList xs
/-- `map.into_iter().map(|(k, v)| (k.clone(), Self::from(v))).collect()` -/
def inferSValMembers : List (String × Doc) → Members
  | [] => []
  | (k, v) :: ms => mapInsert k (inferSVal v) (inferSValMembers ms)
end

inductive SourcesErr where
  | infer (e : InferErr)
  | emptyFile
deriving Repr, Inhabited

/-- `from_sources` at the level of document trees: infer each source in order (first failure wins),
then fold `merger` from the left -/
def fromSourcesDoc (h : List Doc) : Except SourcesErr Shape :=
  match inferDocList h with
  | .error e => .error (.infer e)
  | .ok ss => match merge ss with
    | .error _ => .error .emptyFile
    | .ok s => .ok s

end ShapeVerif

namespace ShapeVerif
open Shape

/-! ### The D3 class (known finding): arrays of objects whose elements disagree on a key's shape

`parse_rule`/`From<&Value>` keep the *first* value shape seen for a key of an array of objects
(`entry(key).or_insert_with(..)`); a later element carrying a different shape under the same key is
therefore not a member of the inferred shape. The repository's own snapshot test pins this
behaviour (`tests/fixture/test.json`), so it is recorded, not repaired. `keysAgree` is the exact
side condition under which the array-of-objects branch is faithful. -/

/-- every key carried by two of the element objects has the same value shape in both -/
def keysAgree (elements : List Shape) : Bool :=
  elements.all fun a => elements.all fun b =>
    match a, b with
    | .object ca _, .object cb _ =>
      ca.all fun kv => match mapGet kv.1 cb with
        | some v' => cmp kv.2 v' == .eq
        | none => true
    | _, _ => true

def shapesOf (rs : List (Except InferErr Shape)) : List Shape :=
  rs.filterMap fun r => match r with | .ok s => some s | .error _ => none

mutual
/-- no array of objects inside the document falls into the D3 class -/
def conflictFree : Doc → Bool
  | .arr xs => conflictFreeList xs && keysAgree (shapesOf (inferEach xs))
  | .obj ms => conflictFreeMembers ms
  | _ => true
def conflictFreeList : List Doc → Bool
  | [] => true
  | x :: xs => conflictFree x && conflictFreeList xs
def conflictFreeMembers : List (String × Doc) → Bool
  | [] => true
  | (_, v) :: ms => conflictFree v && conflictFreeMembers ms
def inferEach : List Doc → List (Except InferErr Shape)
  | [] => []
  | x :: xs => inferDoc x :: inferEach xs
end

end ShapeVerif
