/-
Model of `json_shape::value::Value` (= `JsonShape`): the datatype, the derived `Ord`,
`BTreeSet`/`BTreeMap` as sorted association lists, and the small helpers of `value.rs`.
No Mathlib imports: this file is linked into the driver executable.
-/
namespace ShapeVerif

/-- `json_shape::value::Value`. Constructor order = declaration order in Rust (drives `Ord`). -/
inductive Shape where
  | null
  | bool (o : Bool)
  | number (o : Bool)
  | string (o : Bool)
  | array (t : Shape) (o : Bool)
  | object (c : List (String × Shape)) (o : Bool)
  | oneOf (vs : List Shape) (o : Bool)
  | tuple (es : List Shape) (o : Bool)
deriving Repr, Inhabited

namespace Shape

/-- discriminant index, as `#[derive(PartialOrd, Ord)]` compares it first -/
def tag : Shape → Nat
  | null => 0 | bool _ => 1 | number _ => 2 | string _ => 3
  | array .. => 4 | object .. => 5 | oneOf .. => 6 | tuple .. => 7

mutual
/-- The derived `Ord` on `Value`: discriminant, then fields in declaration order;
`BTreeMap`, `BTreeSet`, `Vec` compare lexicographically over their iteration order. -/
def cmp : Shape → Shape → Ordering
  | null, null => .eq
  | bool a, bool b => compare a b
  | number a, number b => compare a b
  | string a, string b => compare a b
  | array t o, array t' o' => (cmp t t').then (compare o o')
  | object c o, object c' o' => (cmpMembers c c').then (compare o o')
  | oneOf v o, oneOf v' o' => (cmpList v v').then (compare o o')
  | tuple e o, tuple e' o' => (cmpList e e').then (compare o o')
  | a, b => compare a.tag b.tag
def cmpList : List Shape → List Shape → Ordering
  | [], [] => .eq
  | [], _ :: _ => .lt
  | _ :: _, [] => .gt
  | a :: as, b :: bs => (cmp a b).then (cmpList as bs)
def cmpMembers : List (String × Shape) → List (String × Shape) → Ordering
  | [], [] => .eq
  | [], _ :: _ => .lt
  | _ :: _, [] => .gt
  | (k, a) :: as, (k', b) :: bs => ((compare k k').then (cmp a b)).then (cmpMembers as bs)
end

/-- structural equality as Rust's derived `PartialEq` decides it -/
def beq (a b : Shape) : Bool := cmp a b == .eq

instance : BEq Shape := ⟨beq⟩

def isOptional : Shape → Bool
  | null => true
  | bool o | number o | string o => o
  | array _ o | object _ o | oneOf _ o | tuple _ o => o

def isNull : Shape → Bool | null => true | _ => false
def isBoolean : Shape → Bool | bool _ => true | _ => false
def isNumber : Shape → Bool | number _ => true | _ => false
def isString : Shape → Bool | string _ => true | _ => false
def isArray : Shape → Bool | array .. => true | _ => false
def isObject : Shape → Bool | object .. => true | _ => false
def isOneOf : Shape → Bool | oneOf .. => true | _ => false
def isTuple : Shape → Bool | tuple .. => true | _ => false

def withOptional (b : Bool) : Shape → Shape
  | null => null
  | bool _ => bool b
  | number _ => number b
  | string _ => string b
  | array t _ => array t b
  | object c _ => object c b
  | oneOf v _ => oneOf v b
  | tuple e _ => tuple e b

/-- `Value::as_optional` -/
def asOptional (s : Shape) : Shape := withOptional true s
/-- `Value::as_non_optional` -/
def asNonOptional (s : Shape) : Shape := withOptional false s
/-- `Value::to_optional_mut`, as a function -/
def toOptionalMut (s : Shape) : Shape := withOptional true s

end Shape

open Shape

/-! ### `BTreeSet<Value>` as a strictly increasing list -/

/-- `BTreeSet::insert`: keeps the element already present. -/
def setInsert (a : Shape) : List Shape → List Shape
  | [] => [a]
  | b :: l =>
    match cmp a b with
    | .lt => a :: b :: l
    | .eq => b :: l
    | .gt => b :: setInsert a l

/-- `BTreeSet::contains`: some element compares equal. -/
def setContains (a : Shape) (l : List Shape) : Bool := l.any (fun b => cmp a b == .eq)

/-- `BTreeSet::extend` / `FromIterator`. -/
def setExtend (s : List Shape) (add : List Shape) : List Shape :=
  add.foldl (fun acc x => setInsert x acc) s

def setOfList (l : List Shape) : List Shape := setExtend [] l

/-- `BTreeSet::is_subset` -/
def setIsSubset (a b : List Shape) : Bool := a.all (fun x => setContains x b)

/-! ### `BTreeMap<String, Value>` as a list with strictly increasing keys -/

abbrev Members := List (String × Shape)

/-- `BTreeMap::insert`: replaces the value of an existing key. -/
def mapInsert (k : String) (v : Shape) : Members → Members
  | [] => [(k, v)]
  | (k', v') :: l =>
    match compare k k' with
    | .lt => (k, v) :: (k', v') :: l
    | .eq => (k', v) :: l
    | .gt => (k', v') :: mapInsert k v l

def mapGet (k : String) : Members → Option Shape
  | [] => none
  | (k', v) :: l => if k == k' then some v else mapGet k l

def mapContainsKey (k : String) (m : Members) : Bool := m.any (fun kv => k == kv.1)

def mapRemove (k : String) : Members → Members
  | [] => []
  | (k', v) :: l => if k == k' then l else (k', v) :: mapRemove k l

def mapKeys (m : Members) : List String := m.map (·.1)

def mapOfList (l : Members) : Members := l.foldl (fun acc kv => mapInsert kv.1 kv.2 acc) []

/-- `Value::keys` -/
def Shape.keys : Shape → Option (List String)
  | .object c _ => some (mapKeys c)
  | _ => none

/-- `Similar::similar` -/
def Shape.similar : Shape → Shape → Option Shape
  | .null, .null => some .null
  | .bool o, .bool p => some (.bool (o || p))
  | .number o, .number p => some (.number (o || p))
  | .string o, .string p => some (.string (o || p))
  | .array t o, .array t' p => if cmp t' t == .eq then some (.array t' (o || p)) else none
  | .object c o, .object c' p =>
      if cmpMembers c' c == .eq then some (.object c (o || p)) else none
  | .oneOf v o, .oneOf v' p => if cmpList v' v == .eq then some (.oneOf v (o || p)) else none
  | .tuple e o, .tuple e' p => if cmpList e' e == .eq then some (.tuple e' (o || p)) else none
  | _, _ => none

end ShapeVerif

namespace ShapeVerif
open Shape

/-! ### Well-formedness: what `BTreeMap`/`BTreeSet` guarantee by construction -/

/-- keys strictly increasing -/
def sortedKeys : Members → Bool
  | (k, _) :: (k', v') :: l => compare k k' == .lt && sortedKeys ((k', v') :: l)
  | _ => true

/-- elements strictly increasing under the derived `Ord` -/
def sortedSet : List Shape → Bool
  | a :: b :: l => cmp a b == .lt && sortedSet (b :: l)
  | _ => true

mutual
/-- every map and set inside the shape is strictly sorted -/
def Shape.wf : Shape → Bool
  | .array t _ => Shape.wf t
  | .object c _ => sortedKeys c && wfMembers c
  | .oneOf vs _ => sortedSet vs && wfList vs
  | .tuple es _ => wfList es
  | _ => true
def wfList : List Shape → Bool
  | [] => true
  | s :: l => Shape.wf s && wfList l
def wfMembers : Members → Bool
  | [] => true
  | (_, s) :: l => Shape.wf s && wfMembers l
end

end ShapeVerif

namespace ShapeVerif
open Shape

mutual
/-- no `OneOf` anywhere inside (true of every shape inferred from a single document) -/
def Shape.plain : Shape → Bool
  | .array t _ => Shape.plain t
  | .object c _ => plainMembers c
  | .oneOf _ _ => false
  | .tuple es _ => plainList es
  | _ => true
def plainList : List Shape → Bool
  | [] => true
  | s :: l => Shape.plain s && plainList l
def plainMembers : Members → Bool
  | [] => true
  | (_, s) :: l => Shape.plain s && plainMembers l
end

mutual
/-- no `OneOf` directly inside a `Tuple`, at any depth (invariant of accumulated shapes) -/
def Shape.tupleFlat : Shape → Bool
  | .array t _ => Shape.tupleFlat t
  | .object c _ => tupleFlatMembers c
  | .oneOf vs _ => tupleFlatList vs
  | .tuple es _ => es.all (fun e => !e.isOneOf) && tupleFlatList es
  | _ => true
def tupleFlatList : List Shape → Bool
  | [] => true
  | s :: l => Shape.tupleFlat s && tupleFlatList l
def tupleFlatMembers : Members → Bool
  | [] => true
  | (_, s) :: l => Shape.tupleFlat s && tupleFlatMembers l
end

end ShapeVerif
