/-
Abstract JSON documents. One type serves both as the parse tree of a text (members in source order,
duplicates kept, strings and numbers kept as raw lexemes) and as `serde_json::Value`
(`Doc.toSVal`: members sorted by key, the last duplicate wins — serde_json's default `BTreeMap`).
-/
namespace ShapeVerif

inductive Doc where
  | null
  | bool (b : Bool)
  | num (lexeme : String)
  | str (raw : String)          -- the text between the quotes, escapes not interpreted
  | arr (xs : List Doc)
  | obj (ms : List (String × Doc))   -- member names: text between the quotes
deriving Repr, Inhabited

namespace Doc

/-- `BTreeMap::insert` on members (replace on equal key) -/
def insertMember (k : String) (v : Doc) : List (String × Doc) → List (String × Doc)
  | [] => [(k, v)]
  | (k', v') :: l =>
    match compare k k' with
    | .lt => (k, v) :: (k', v') :: l
    | .eq => (k', v) :: l
    | .gt => (k', v') :: insertMember k v l

mutual
/-- the `serde_json::Value` of a document: object members sorted, last duplicate wins -/
def toSVal : Doc → Doc
  | arr xs => arr (toSValList xs)
  | obj ms => obj (toSValMembers ms [])
  | d => d
def toSValList : List Doc → List Doc
  | [] => []
  | x :: xs => toSVal x :: toSValList xs
def toSValMembers : List (String × Doc) → List (String × Doc) → List (String × Doc)
  | [], acc => acc
  | (k, v) :: ms, acc => toSValMembers ms (insertMember k (toSVal v) acc)
end

mutual
def depth : Doc → Nat
  | arr xs => depthList xs + 1
  | obj ms => depthMembers ms + 1
  | _ => 0
def depthList : List Doc → Nat
  | [] => 0
  | x :: xs => max (depth x) (depthList xs)
def depthMembers : List (String × Doc) → Nat
  | [] => 0
  | (_, v) :: ms => max (depth v) (depthMembers ms)
end

mutual
def nodes : Doc → Nat
  | arr xs => nodesList xs + 1
  | obj ms => nodesMembers ms + 1
  | _ => 1
def nodesList : List Doc → Nat
  | [] => 0
  | x :: xs => nodes x + nodesList xs
def nodesMembers : List (String × Doc) → Nat
  | [] => 0
  | (_, v) :: ms => nodes v + nodesMembers ms
end

end Doc
end ShapeVerif

namespace ShapeVerif
namespace Doc

/-- lookup of a member (first match) -/
def getMember (k : String) : List (String × Doc) → Option Doc
  | [] => none
  | (k', v) :: l => if k == k' then some v else getMember k l

def keysDistinct : List (String × Doc) → Bool
  | [] => true
  | (k, _) :: l => !(l.any (fun kv => kv.1 == k)) && keysDistinct l

mutual
/-- no object anywhere in the document repeats a member name -/
def noDupKeys : Doc → Bool
  | arr xs => noDupKeysList xs
  | obj ms => keysDistinct ms && noDupKeysMembers ms
  | _ => true
def noDupKeysList : List Doc → Bool
  | [] => true
  | x :: xs => noDupKeys x && noDupKeysList xs
def noDupKeysMembers : List (String × Doc) → Bool
  | [] => true
  | (_, v) :: ms => noDupKeys v && noDupKeysMembers ms
end

end Doc
end ShapeVerif
