/-
Model of `shape/mod.rs` on the CST (`parse_cst`, `has_errors`, `parse_rule`, `parse_token`,
`parse_member`) and of the public entry points of `lib.rs` (`from_str`, `from_sources`,
`is_superset`, `is_superset_checked`), with every Rust panic site as an explicit `panic` outcome.
-/
import ShapeVerif.Model.Parser
import ShapeVerif.Model.Infer
namespace ShapeVerif
open Shape

inductive PErr where
  | invalidJson (value : String) (start stop : Nat)
  | tooManyRootNodes (n : Nat)
  | invalidType (s : String)
  | invalidObjectKey
  | invalidObjectValue
  | invalidObjectValueType (v existing : Shape)
  | unknown
  | emptyFile
deriving Repr, Inhabited

inductive Outcome (α : Type) where
  | ok (a : α)
  | err (e : PErr)
  | panic
deriving Repr, Inhabited

/-- `&source[start..stop]`: `none` when the range is not inside the text on character boundaries
(the Rust expression panics there) -/
def sliceBytes (cs : List Char) (start stop : Nat) : Option (List Char) :=
  let rec go : List Char → Nat → List Char → Option (List Char)
    | cs, pos, acc =>
      if pos == stop then (if start ≤ stop then some acc.reverse else none)
      else match cs with
        | [] => none
        | c :: rest =>
          if pos < start then
            (if pos + c.utf8Size > start then none else go rest (pos + c.utf8Size) acc)
          else if pos + c.utf8Size > stop then none
          else go rest (pos + c.utf8Size) (c :: acc)
  if start > stop then none else go cs 0 []

def isErrorNode : Node → Bool
  | .tok .error _ _ => true
  | .rule .error _ => true
  | _ => false

def isWsNode : Node → Bool
  | .tok .ws _ _ => true
  | .tok .nl _ _ => true
  | _ => false

/-- end of the last token of a node, or `prevEnd` if it has none -/
def nodeEnd (prevEnd : Nat) (n : Node) : Nat :=
  match lastTokStop n with
  | some e => e
  | none => prevEnd

/-- span of the first child satisfying `p`, scanning the children in order -/
def findSpan (p : Node → Bool) : Nat → List Node → Option (Nat × Nat)
  | _, [] => none
  | prevEnd, n :: ns => if p n then some (nodeSpan prevEnd n) else findSpan p (nodeEnd prevEnd n) ns

/-- `has_errors(cst, source, node)`: an `InvalidJson` for the first error child -/
def hasErrors (src : List Char) (prevEnd : Nat) (children : List Node) : Outcome Unit :=
  match findSpan isErrorNode prevEnd children with
  | none => .ok ()
  | some (s, e) =>
    match sliceBytes src s e with
    | some v => .err (.invalidJson (String.ofList v) s e)
    | none => .panic

def invalidJsonAt (src : List Char) (sp : Nat × Nat) : Outcome Shape :=
  match sliceBytes src sp.1 sp.2 with
  | some v => .err (.invalidJson (String.ofList v) sp.1 sp.2)
  | none => .panic

/-- `Token`'s `Display` -/
def tokDisplay : Tok → String
  | .eof => "SYSNULL" | .ws => "" | .nl => "" | .true_ => "Boolean" | .false_ => "Boolean"
  | .null_ => "Null" | .lbrace => "{" | .rbrace => "}" | .lbrak => "[" | .rbrak => "]"
  | .comma => "," | .colon => ":" | .string => "String" | .number => "Number" | .error => "Unknown Error"

/-- `parse_token` -/
def parseToken : Node → Outcome Shape
  | .rule .boolean _ => .ok (.bool false)
  | .tok .false_ _ _ => .ok (.bool false)
  | .tok .true_ _ _ => .ok (.bool false)
  | .rule _ _ => .err .unknown
  | .tok .null_ _ _ => .ok .null
  | .tok .string _ _ => .ok (.string false)
  | .tok .number _ _ => .ok (.number false)
  | .tok k _ _ => .err (.invalidType (tokDisplay k))

/-! ### member names: `serde_json::from_str::<String>` on the token text, raw text as fallback -/

def hexDigitVal (c : Char) : Option Nat :=
  if '0' ≤ c && c ≤ '9' then some (c.toNat - 48)
  else if 'a' ≤ c && c ≤ 'f' then some (c.toNat - 87)
  else if 'A' ≤ c && c ≤ 'F' then some (c.toNat - 55)
  else none

def hex4Val : List Char → Option (Nat × List Char)
  | a :: b :: c :: d :: rest =>
    match hexDigitVal a, hexDigitVal b, hexDigitVal c, hexDigitVal d with
    | some w, some x, some y, some z => some (w * 4096 + x * 256 + y * 16 + z, rest)
    | _, _, _, _ => none
  | _ => none

/-- the string denoted by the characters between the quotes, as serde_json decodes it; `none` where
serde_json reports an error (bad escape, raw control character, lone surrogate) -/
def unescapeBody : Nat → List Char → Option (List Char)
  | 0, _ => none
  | _ + 1, [] => some []
  | fuel + 1, '\\' :: e :: rest =>
    let simple (c : Char) := (unescapeBody fuel rest).map (c :: ·)
    if e == '"' then simple '"' else if e == '\\' then simple '\\' else if e == '/' then simple '/'
    else if e == 'b' then simple (Char.ofNat 8) else if e == 'f' then simple (Char.ofNat 12)
    else if e == 'n' then simple '\n' else if e == 'r' then simple '\r' else if e == 't' then simple '\t'
    else if e == 'u' then
      match hex4Val rest with
      | none => none
      | some (n, rest1) =>
        if 0xD800 ≤ n && n ≤ 0xDBFF then
          match rest1 with
          | '\\' :: 'u' :: rest2 =>
            match hex4Val rest2 with
            | some (m, rest3) =>
              if 0xDC00 ≤ m && m ≤ 0xDFFF then
                (unescapeBody fuel rest3).map (Char.ofNat (0x10000 + (n - 0xD800) * 1024 + (m - 0xDC00)) :: ·)
              else none
            | none => none
          | _ => none
        else if 0xDC00 ≤ n && n ≤ 0xDFFF then none
        else (unescapeBody fuel rest1).map (Char.ofNat n :: ·)
    else none
  | _ + 1, ['\\'] => none
  | fuel + 1, c :: rest =>
    if c.toNat < 0x20 then none else (unescapeBody fuel rest).map (c :: ·)

/-- the member name for a `String` token whose text (quotes included) is `text` -/
def memberName (text : List Char) : String :=
  let body := (text.drop 1).dropLast
  match unescapeBody (body.length + 1) body with
  | some cs => String.ofList cs
  | none => String.ofList body

def isValueRule : Node → Bool
  | .rule .array _ => true
  | .rule .boolean _ => true
  | .rule .literal _ => true
  | .rule .object _ => true
  | _ => false

def isStringTok : Node → Bool
  | .tok .string _ _ => true
  | _ => false

def isMemberRule : Node → Bool
  | .rule .member _ => true
  | _ => false

def isArrayPunct : Node → Bool
  | .tok .ws _ _ => true
  | .tok .nl _ _ => true
  | .tok .comma _ _ => true
  | .tok .lbrak _ _ => true
  | .tok .rbrak _ _ => true
  | _ => false

/-- first child satisfying `p` together with the end of the last token before it -/
def findNode (p : Node → Bool) : Nat → List Node → Option (Node × Nat)
  | _, [] => none
  | prevEnd, n :: ns => if p n then some (n, prevEnd) else findNode p (nodeEnd prevEnd n) ns

def inferErrToPErr : InferErr → PErr
  | .invalidObjectValueType v e => .invalidObjectValueType v e
  | .unknown => .unknown

mutual
/-- `parse_rule(cst, node_ref, source)`; `prevEnd` = end of the last token before the node -/
def parseRule (src : List Char) : Nat → Node → Outcome Shape
  | prevEnd, .rule .literal cs =>
    match hasErrors src prevEnd cs with
    | .err e => .err e
    | .panic => .panic
    | .ok () =>
      match cs with
      | first :: _ => parseToken first
      | [] => .err (.invalidType "Empty")
  | _, .rule .boolean _ => .ok (.bool false)
  | prevEnd, .rule .array cs =>
    match hasErrors src prevEnd cs with
    | .err e => .err e
    | .panic => .panic
    | .ok () =>
      match parseElements src prevEnd cs with
      | .err e => .err e
      | .panic => .panic
      | .ok elements =>
        match classifyArray elements with
        | .ok s => .ok s
        | .error e => .err (inferErrToPErr e)
  | prevEnd, .rule .object cs =>
    match hasErrors src prevEnd cs with
    | .err e => .err e
    | .panic => .panic
    | .ok () =>
      match parseMembers src prevEnd cs [] with
      | .err e => .err e
      | .panic => .panic
      | .ok content => .ok (.object content false)
  | prevEnd, n => invalidJsonAt src (nodeSpan prevEnd n)
/-- the element loop of the `Array` arm -/
def parseElements (src : List Char) : Nat → List Node → Outcome (List Shape)
  | _, [] => .ok []
  | prevEnd, n :: ns =>
    if isArrayPunct n then parseElements src (nodeEnd prevEnd n) ns
    else
      match parseRule src prevEnd n with
      | .err e => .err e
      | .panic => .panic
      | .ok s =>
        match parseElements src (nodeEnd prevEnd n) ns with
        | .err e => .err e
        | .panic => .panic
        | .ok ss => .ok (s :: ss)
/-- the member loop of the `Object` arm -/
def parseMembers (src : List Char) : Nat → List Node → Members → Outcome Members
  | _, [], content => .ok content
  | prevEnd, n :: ns, content =>
    match n with
    | .rule .member cs =>
      match parseMember src prevEnd cs content with
      | .err e => .err e
      | .panic => .panic
      | .ok content' => parseMembers src (nodeEnd prevEnd n) ns content'
    | _ => parseMembers src (nodeEnd prevEnd n) ns content
/-- `parse_member` on the children of a `member` rule -/
def parseMember (src : List Char) : Nat → List Node → Members → Outcome Members
  | prevEnd, cs, content =>
    match findNode isStringTok prevEnd cs with
    | none => .err .invalidObjectKey
    | some (keyNode, kPrev) =>
      let ksp := nodeSpan kPrev keyNode
      match sliceBytes src ksp.1 ksp.2 with
      | none => .panic
      | some keyText =>
        if keyText.length < 2 then .panic      -- `key_span.start + 1..key_span.end - 1`
        else
          let key := memberName keyText
          match hasErrors src prevEnd cs with
          | .err e => .err e
          | .panic => .panic
          | .ok () =>
            match findMemberValue src prevEnd cs with
            | none => .err .invalidObjectValue
            | some r =>
              match r with
              | .err e => .err e
              | .panic => .panic
              | .ok value =>
                match addMember content key value with
                | .ok content' => .ok content'
                | .error e => .err (inferErrToPErr e)
/-- the first child that is an `array | boolean | literal | object` rule, parsed -/
def findMemberValue (src : List Char) : Nat → List Node → Option (Outcome Shape)
  | _, [] => none
  | prevEnd, n :: ns =>
    if isValueRule n then some (parseRule src prevEnd n)
    else findMemberValue src (nodeEnd prevEnd n) ns
end

/-- `parse_cst` -/
def parseCst (src : List Char) (root : Node) : Outcome Shape :=
  match root with
  | .rule .file cs =>
    match hasErrors src 0 cs with
    | .err e => .err e
    | .panic => .panic
    | .ok () =>
      let nonWs := cs.filter (fun n => !isWsNode n)
      if nonWs.length > 1 then
        -- the first child whose own children hold an error, else TooManyRootNodes
        let rec firstBad : Nat → List Node → Option (Outcome Shape)
          | _, [] => none
          | prevEnd, n :: ns =>
            let bad := match n with
              | .rule _ sub => (match hasErrors src prevEnd sub with | .ok () => false | _ => true)
              | _ => false
            if bad then some (invalidJsonAt src (nodeSpan prevEnd n))
            else firstBad (nodeEnd prevEnd n) ns
        match firstBad 0 cs with
        | some r => r
        | none => .err (.tooManyRootNodes cs.length)
      else
        match findNode (fun n => !isWsNode n) 0 cs with
        | some (n, prevEnd) => parseRule src prevEnd n
        | none => invalidJsonAt src (nodeSpan 0 root)
  | n => invalidJsonAt src (nodeSpan 0 n)

/-- `reject_diagnostics` (the D8 repair): the first diagnostic becomes an `InvalidJson`;
`source.get(span).unwrap_or_default()` never panics -/
def rejectDiagnostics (src : List Char) (diags : List Diag) : Outcome Unit :=
  match diags with
  | [] => .ok ()
  | d :: _ =>
    let v := match sliceBytes src d.start d.stop with
      | some v => String.ofList v
      | none => ""
    .err (.invalidJson v d.start d.stop)

/-- `JsonShape::from_str` -/
def fromStr (src : List Char) : Outcome Shape :=
  let p := parse src
  match parseCst src p.root with
  | .err e => .err e
  | .panic => .panic
  | .ok s =>
    match rejectDiagnostics src p.diags with
    | .err e => .err e
    | .panic => .panic
    | .ok () => .ok s

/-- `JsonShape::from_sources` -/
def fromSources (srcs : List (List Char)) : Outcome Shape :=
  let rec go : List (List Char) → List Shape → Outcome (List Shape)
    | [], acc => .ok acc.reverse
    | s :: rest, acc =>
      match fromStr s with
      | .ok v => go rest (v :: acc)
      | .err e => .err e
      | .panic => .panic
  match go srcs [] with
  | .err e => .err e
  | .panic => .panic
  | .ok vs =>
    match merge vs with
    | .ok s => .ok s
    | .error _ => .err .emptyFile

/-- `is_superset` -/
def isSuperset (s : Shape) (src : List Char) : Outcome Bool :=
  match fromStr src with
  | .ok v => .ok (isSubset v s)
  | .err _ => .ok false
  | .panic => .panic

/-- `is_superset_checked` -/
def isSupersetChecked (s : Shape) (src : List Char) : Outcome Bool :=
  match fromStr src with
  | .ok v => .ok (isSubset v s)
  | .err e => .err e
  | .panic => .panic

end ShapeVerif
