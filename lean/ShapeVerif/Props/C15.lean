/-
C15 — Generated types deserialize the documents they were generated from (model of serde's derive).
`serdeAccepts s d`: would `serde_json::from_str::<T>` succeed on document `d`, `T` being the type
generated for shape `s`? (struct = map, unknown fields ignored, a missing field is accepted only for
`Option`, `Option` reads null, `()` reads null, `Vec` = sequence, tuple = fixed-length sequence,
enum = externally tagged: a bare value is rejected.) The behaviour of serde's derive is trusted and
validated by compiling generated modules and deserialising the sources with the real serde.

`admits_deserializes`: every document admitted by `s` is accepted, for shapes without `OneOf`
(known finding D18) and without `Null`-typed members (known finding D23: a missing `()` field is an
error for serde). Composed with C01 this is the deserialisation clause of C15 in the model.
-/
import ShapeVerif.Lemmas.Admits
import ShapeVerif.Lemmas.Sorted
import ShapeVerif.Model.Derive
import ShapeVerif.Props.C01
namespace ShapeVerif
open Shape

theorem getDocMember_mem {k : String} {v : Doc} : ∀ {ms : List (String × Doc)}, getDocMember k ms = some v →
    (k, v) ∈ ms
  | [], h => by simp [getDocMember] at h
  | (k', v') :: l, h => by
    simp only [getDocMember] at h
    split at h
    · rename_i hk; cases h; simp at hk; subst hk; simp
    · exact List.mem_cons_of_mem _ (getDocMember_mem h)

theorem getDocMember_none {k : String} : ∀ {ms : List (String × Doc)}, getDocMember k ms = none →
    hasMember k ms = false
  | [], _ => rfl
  | (k', v') :: l, h => by
    simp only [getDocMember] at h
    split at h
    · cases h
    · rename_i hk
      simp only [hasMember, List.any_cons, hk, Bool.false_or]
      exact getDocMember_none h

theorem docNoDupL_mem : ∀ {xs : List Doc}, docNoDupL xs = true → ∀ x ∈ xs, docNoDup x = true
  | [], _, _, hx => by cases hx
  | y :: ys, h, x, hx => by
    simp [docNoDupL] at h
    rcases List.mem_cons.1 hx with rfl | hx
    · exact h.1
    · exact docNoDupL_mem h.2 x hx

theorem docNoDupM_mem : ∀ {ms : List (String × Doc)}, docNoDupM ms = true → ∀ kv ∈ ms, docNoDup kv.2 = true
  | [], _, _, hx => by cases hx
  | (k, v) :: ys, h, x, hx => by
    simp [docNoDupM] at h
    rcases List.mem_cons.1 hx with rfl | hx
    · exact h.1
    · exact docNoDupM_mem h.2 x hx

theorem admits_deserializes_aux (n : Nat) : ∀ s : Shape, sizeOf s ≤ n → s.wf = true → hasOneOf s = false →
    hasEmptyObject s = false →
    noNullMembers s = true → ∀ d, docNoDup d = true → admits s d = true → serdeAccepts s d = true := by
  induction n with
  | zero => intro s h; cases s <;> simp at h
  | succ n ih =>
    intro s hn hw hno hne hnn d hdd h
    cases s with
    | null => simpa [serdeAccepts, admits] using h
    | bool o => cases d <;> simp_all [serdeAccepts, admits]
    | number o => cases d <;> simp_all [serdeAccepts, admits]
    | string o => cases d <;> simp_all [serdeAccepts, admits]
    | oneOf vs o => simp [hasOneOf] at hno
    | array t o =>
      simp only [Shape.wf] at hw
      simp only [hasOneOf] at hno
      simp only [noNullMembers] at hnn
      simp only [hasEmptyObject] at hne
      rcases admits_array_cases h with ⟨rfl, ho⟩ | ⟨xs, rfl, hxs⟩
      · simp [serdeAccepts, ho]
      · simp only [serdeAccepts]
        rw [List.all_eq_true] at hxs ⊢
        simp only [docNoDup] at hdd
        intro x hx
        exact ih t (by simp at hn; omega) hw hno hne hnn x (docNoDupL_mem hdd x hx) (hxs x hx)
    | tuple es o =>
      simp only [Shape.wf] at hw
      simp only [hasOneOf] at hno
      simp only [noNullMembers] at hnn
      simp only [hasEmptyObject] at hne
      rcases admits_tuple_cases h with ⟨rfl, ho⟩ | ⟨xs, rfl, hxs⟩
      · simp [serdeAccepts, ho]
      · simp only [serdeAccepts]
        simp only [docNoDup] at hdd
        have : ∀ (es : List Shape) (xs : List Doc), (∀ e ∈ es, sizeOf e ≤ n) → wfList es = true →
            hasOneOfList es = false → hasEmptyObjectList es = false → noNullMembersL es = true →
            docNoDupL xs = true →
            admitsZip es xs = true → serdeZip es xs = true := by
          intro es
          induction es with
          | nil => intro xs _ _ _ _ _ _ hz; cases xs <;> simp_all [admitsZip, serdeZip]
          | cons e es ihl =>
            intro xs hs hw' ho' he' hn' hd' hz
            cases xs with
            | nil => simp [admitsZip] at hz
            | cons x xs =>
              simp [wfList] at hw'
              simp [hasOneOfList] at ho'
              simp [hasEmptyObjectList] at he'
              simp [noNullMembersL] at hn'
              simp [docNoDupL] at hd'
              simp [admitsZip] at hz
              simp only [serdeZip, Bool.and_eq_true]
              exact ⟨ih e (hs e (by simp)) hw'.1 ho'.1 he'.1 hn'.1 x hd'.1 hz.1,
                ihl xs (fun e' hm => hs e' (by simp [hm])) hw'.2 ho'.2 he'.2 hn'.2 hd'.2 hz.2⟩
        exact this es xs (fun e he => by have := List.sizeOf_lt_of_mem he; simp at hn; omega) hw hno hne hnn hdd hxs
    | object c o =>
      simp only [Shape.wf, Bool.and_eq_true] at hw
      simp only [hasOneOf] at hno
      simp only [noNullMembers] at hnn
      simp only [hasEmptyObject, Bool.or_eq_false_iff] at hne
      rcases admits_object_cases h with ⟨rfl, ho⟩ | ⟨ms, rfl, hms, habs⟩
      · simp [serdeAccepts, ho]
      · simp only [serdeAccepts, hne.1, Bool.not_false, Bool.true_and]
        simp only [docNoDup, Bool.and_eq_true] at hdd
        rw [List.all_eq_true] at hms
        rw [absentOk_iff] at habs
        -- every field of the struct, one by one (suffixes of c, looked up in the whole of c)
        have : ∀ (c' : Members), (∀ kv ∈ c', kv ∈ c) → hasOneOfMembers c' = false →
            hasEmptyObjectMembers c' = false → noNullMembersM c' = true → serdeFields c' ms = true := by
          intro c'
          induction c' with
          | nil => intro _ _ _ _; rfl
          | cons kv c' ihc =>
            obtain ⟨k, s⟩ := kv
            intro hsub ho' he' hn'
            simp [hasOneOfMembers] at ho'
            simp [hasEmptyObjectMembers] at he'
            simp [noNullMembersM] at hn'
            have hks : (k, s) ∈ c := hsub (k, s) (by simp)
            simp only [serdeFields, Bool.and_eq_true]
            refine ⟨?_, ihc (fun kv hkv => hsub kv (by simp [hkv])) ho'.2 he'.2 hn'.2⟩
            cases hg : getDocMember k ms with
            | some v =>
              simp only
              have hkv := getDocMember_mem hg
              have hadm := hms (k, v) hkv
              simp only at hadm
              rw [admitsKey_of_mem hw.1 hks] at hadm
              have hsz : sizeOf s ≤ n := by
                have := sizeOf_lt_of_mem_members hks; simp at hn this; omega
              exact ih s hsz (wfMembers_mem hw.2 _ hks) ho'.1 he'.1 hn'.1.2 v (docNoDupM_mem hdd.2 (k, v) hkv) hadm
            | none =>
              simp only [Bool.and_eq_true, Bool.not_eq_true']
              have hnm := getDocMember_none hg
              rcases habs (k, s) hks with h' | h'
              · simp only at h'; rw [hnm] at h'; cases h'
              · refine ⟨?_, hn'.1.1⟩
                -- s admits null, is not Null and contains no OneOf: it carries the optional flag
                cases s <;> simp_all [admits, isOptional, isNull, hasOneOf]
        exact this c (fun kv h => h) hno hne.2 hnn

/-- **C15, deserialisation clause in the model**: every admitted document without repeated member
names is accepted by serde for the generated type, for OneOf-free shapes without Null-typed members -/
theorem admits_deserializes (s : Shape) (d : Doc) (hw : s.wf = true) (hno : hasOneOf s = false)
    (hne : hasEmptyObject s = false) (hnn : noNullMembers s = true) (hdd : docNoDup d = true)
    (h : admits s d = true) : serdeAccepts s d = true :=
  admits_deserializes_aux (sizeOf s) s (Nat.le_refl _) hw hno hne hnn d hdd h

/-- the same for the root item, which is the bare struct/enum: roots that are not an optional Object
(known finding D22) -/
theorem admits_deserializes_root (s : Shape) (d : Doc) (hw : s.wf = true) (hno : hasOneOf s = false)
    (hne : hasEmptyObject s = false) (hnn : noNullMembers s = true) (hr : rootOptionalNamed s = false)
    (hdd : docNoDup d = true) (h : admits s d = true) : rootAccepts s d = true := by
  simp only [rootAccepts, hr, Bool.false_eq_true, if_false]
  exact admits_deserializes s d hw hno hne hnn hdd h

/-- known finding D19: an empty object is a unit struct, which does not read `{}` -/
theorem empty_object_rejects :
    admits (.object [] false) (.obj []) = true ∧ serdeAccepts (.object [] false) (.obj []) = false := by decide

/-- known finding D22: the root item of an optional object does not read `null` -/
theorem root_optional_rejects_null :
    admits (.object [("a", .number false)] true) .null = true ∧
    rootAccepts (.object [("a", .number false)] true) .null = false := by decide

/-- **C15 composed with C01**: for every non-empty history of documents (conflict-free: D3), the shape
inferred from them exists and, when it lies in the fragment, every source deserialises into the root
type generated for it. -/
theorem sources_deserialize (h : List Doc) (hne : h ≠ [])
    (hok : ∀ d ∈ h, ∃ s, inferDoc d = .ok s) (hcf : ∀ d ∈ h, conflictFree d = true)
    (hdd : ∀ d ∈ h, docNoDup d = true) :
    ∃ s, fromSourcesDoc h = .ok s ∧
      (hasOneOf s = false → hasEmptyObject s = false → noNullMembers s = true →
        rootOptionalNamed s = false → ∀ d ∈ h, rootAccepts s d = true) := by
  obtain ⟨s, hs, hw, hadm⟩ := sources_sound h hne hok hcf
  exact ⟨s, hs, fun h1 h2 h3 h4 d hd => admits_deserializes_root s d hw h1 h2 h3 h4 (hdd d hd) (hadm d hd)⟩

/-- known finding D18: no bare document deserialises into the enum generated for a `OneOf` -/
theorem oneOf_rejects_sources (vs : List Shape) (d : Doc) (_hd : d.isNull = false) :
    serdeAccepts (.oneOf vs false) d = false := by simp [serdeAccepts]

/-- known finding D23: a member of shape `Null` that is absent from a source is a missing `()` field -/
theorem null_member_missing :
    admits (.object [("a", .null)] false) (.obj []) = true ∧
    serdeAccepts (.object [("a", .null)] false) (.obj []) = false := by decide

end ShapeVerif
