/-
C11 — External representations of a shape are faithful.
* `serde_roundtrip`: deserialising the serialised tree of any well-formed shape yields the shape.
* `display_inj`: for shapes whose member names are identifier-like (`[A-Za-z0-9_-]+`), the Display
  text determines the shape (proved at the level of the characters written).
Determinism of both is immediate in the model (they are functions) and is checked on the code.
-/
import ShapeVerif.Lemmas.Absorb
import ShapeVerif.Model.Serde
import ShapeVerif.Model.Display
namespace ShapeVerif
open Shape Std

/-! ### serde round trip -/

theorem setOfList_sorted {vs : List Shape} (h : sortedSet vs = true) : setOfList vs = vs :=
  sortedSet_ext (sortedSet_setOfList vs) h (fun _ => mem_setOfList)

theorem mapOfList_sorted {c : Members} (h : sortedKeys c = true) : mapOfList c = c := by
  apply members_ext (sortedKeys_mapOfList c) h
  intro k
  rw [mapGet_mapOfList, lastGet_eq_mapGet h]

theorem serde_roundtrip_aux (n : Nat) :
    (∀ s : Shape, sizeOf s ≤ n → s.wf = true → ∀ fuel, docSize (serJ s) < fuel → deJ fuel (serJ s) = some s) := by
  induction n with
  | zero => intro s h; cases s <;> simp at h
  | succ n ih =>
    have ihL : ∀ l : List Shape, (∀ s ∈ l, sizeOf s ≤ n) → wfList l = true → ∀ fuel,
        docSizeList (serJList l) < fuel → deJList fuel (serJList l) = some l := by
      intro l
      induction l with
      | nil => intro _ _ fuel hf; cases fuel <;> simp [serJList, deJList] at hf ⊢
      | cons a l ihl =>
        intro hs hw fuel hf
        simp [wfList] at hw
        cases fuel with
        | zero => simp at hf
        | succ fuel =>
          simp only [serJList, docSizeList] at hf
          simp only [serJList, deJList]
          rw [ih a (hs a (by simp)) hw.1 fuel (by omega),
            ihl (fun s hs' => hs s (by simp [hs'])) hw.2 fuel (by omega)]
    have ihM : ∀ c : Members, (∀ kv ∈ c, sizeOf kv.2 ≤ n) → wfMembers c = true → ∀ fuel,
        docSizeMembers (serJMembers c) < fuel → deJMembers fuel (serJMembers c) = some c := by
      intro c
      induction c with
      | nil => intro _ _ fuel hf; cases fuel <;> simp [serJMembers, deJMembers] at hf ⊢
      | cons a c ihc =>
        obtain ⟨k, v⟩ := a
        intro hs hw fuel hf
        simp [wfMembers] at hw
        cases fuel with
        | zero => simp at hf
        | succ fuel =>
          simp only [serJMembers, docSizeMembers] at hf
          simp only [serJMembers, deJMembers]
          rw [ih v (hs (k, v) (by simp)) hw.1 fuel (by omega),
            ihc (fun kv hkv => hs kv (by simp [hkv])) hw.2 fuel (by omega)]
    intro s hn hw fuel hf
    cases fuel with
    | zero => simp at hf
    | succ fuel =>
      cases s with
      | null => simp [serJ, deJ]
      | bool o => simp [serJ, deJ, structVariant]
      | number o => simp [serJ, deJ, structVariant]
      | string o => simp [serJ, deJ, structVariant]
      | array t o =>
        simp only [Shape.wf] at hw
        simp only [serJ, structVariant, docSize, docSizeMembers] at hf
        simp only [serJ, structVariant, deJ]
        rw [ih t (by simp at hn; omega) hw fuel (by omega)]
      | object c o =>
        simp only [Shape.wf, Bool.and_eq_true] at hw
        simp only [serJ, structVariant, docSize, docSizeMembers] at hf
        simp only [serJ, structVariant, deJ]
        have hsz : ∀ kv ∈ c, sizeOf kv.2 ≤ n := by
          intro kv hkv
          have := sizeOf_lt_of_mem_members hkv
          simp at hn this; omega
        rw [ihM c hsz hw.2 fuel (by omega)]
        simp only [mapOfList_sorted hw.1]
      | oneOf vs o =>
        rw [wf_oneOf_iff] at hw
        simp only [serJ, structVariant, docSize, docSizeMembers] at hf
        simp only [serJ, structVariant, deJ]
        have hsz : ∀ v ∈ vs, sizeOf v ≤ n := by
          intro v hv
          have := List.sizeOf_lt_of_mem hv
          simp at hn; omega
        rw [ihL vs hsz hw.2 fuel (by omega)]
        simp only [setOfList_sorted hw.1]
      | tuple es o =>
        simp only [Shape.wf] at hw
        simp only [serJ, structVariant, docSize, docSizeMembers] at hf
        simp only [serJ, structVariant, deJ]
        have hsz : ∀ v ∈ es, sizeOf v ≤ n := by
          intro v hv
          have := List.sizeOf_lt_of_mem hv
          simp at hn; omega
        rw [ihL es hsz hw fuel (by omega)]

/-- **serde round trip**: serialising any (well-formed) shape and deserialising the result yields an
equal shape -/
theorem serde_roundtrip (s : Shape) (hw : s.wf = true) : deserialize (serJ s) = some s :=
  serde_roundtrip_aux (sizeOf s) s (Nat.le_refl _) hw _ (Nat.lt_succ_self _)

example : deserialize (serJ (.object [("a", .oneOf [.null, .tuple [.number true] false] true)] false))
    = some (.object [("a", .oneOf [.null, .tuple [.number true] false] true)] false) := by decide

end ShapeVerif

namespace ShapeVerif
open Shape Std

/-! ### Display determines the shape (identifier-like member names) -/

/-- member name in `[A-Za-z0-9_-]+` -/
def identKey (k : String) : Bool := !k.toList.isEmpty && k.toList.all identChar

mutual
/-- every member name, at any depth, is identifier-like -/
def identKeys : Shape → Bool
  | .array t _ => identKeys t
  | .object c _ => identKeysMembers c
  | .oneOf vs _ => identKeysList vs
  | .tuple es _ => identKeysList es
  | _ => true
def identKeysList : List Shape → Bool
  | [] => true
  | s :: l => identKeys s && identKeysList l
def identKeysMembers : Members → Bool
  | [] => true
  | (k, v) :: l => identKey k && identKeys v && identKeysMembers l
end

/-- splitting at the first occurrence of a delimiter that neither prefix contains -/
theorem split_at_delim (c : Char) : ∀ (a b x y : List Char), c ∉ a → c ∉ b →
    a ++ c :: x = b ++ c :: y → a = b ∧ x = y
  | [], [], x, y, _, _, h => by simpa using h
  | [], b0 :: b, x, y, _, hb, h => by
    simp at h; simp at hb; exact absurd h.1 hb.1
  | a0 :: a, [], x, y, ha, _, h => by
    simp at h; simp at ha; exact absurd h.1.symm ha.1
  | a0 :: a, b0 :: b, x, y, ha, hb, h => by
    simp at h ha hb
    obtain ⟨i1, i2⟩ := split_at_delim c a b x y ha.2 hb.2 h.2
    exact ⟨by rw [h.1, i1], i2⟩

theorem identChar_ne {c d : Char} (hc : identChar c = true) (hd : identChar d = false) : c ≠ d := by
  intro e; subst e; rw [hc] at hd; cases hd

theorem colon_not_in_key {k : String} (h : identKey k = true) : ':' ∉ k.toList := by
  intro hm
  simp only [identKey, Bool.and_eq_true, List.all_eq_true] at h
  have := h.2 ':' hm
  revert this; decide

theorem keyChars_ident {k : String} (h : identKey k = true) : keyChars k = k.toList := by
  simp only [identKey, Bool.and_eq_true] at h
  simp [keyChars, keyIsPlain, h.2]

/-- the first character written for a shape is one of `N B S O A T` -/
def startChar (c : Char) : Bool := c == 'N' || c == 'B' || c == 'S' || c == 'O' || c == 'A' || c == 'T'

theorem displayChars_head (s : Shape) : ∃ c rest, displayChars s = c :: rest ∧ startChar c = true := by
  cases s with
  | null => exact ⟨'N', _, rfl, rfl⟩
  | bool o => cases o <;> exact ⟨_, _, rfl, rfl⟩
  | number o => cases o <;> exact ⟨_, _, rfl, rfl⟩
  | string o => cases o <;> exact ⟨_, _, rfl, rfl⟩
  | array t o => cases o <;> exact ⟨_, _, rfl, rfl⟩
  | object c o => cases o <;> exact ⟨_, _, rfl, rfl⟩
  | oneOf c o => cases o <;> exact ⟨_, _, rfl, rfl⟩
  | tuple c o => cases o <;> exact ⟨_, _, rfl, rfl⟩

theorem key_head {k : String} (h : identKey k = true) : ∃ c rest, k.toList = c :: rest ∧ identChar c = true := by
  simp only [identKey, Bool.and_eq_true, List.all_eq_true] at h
  cases hk : k.toList with
  | nil => simp [hk] at h
  | cons c rest => exact ⟨c, rest, rfl, h.2 c (by simp [hk])⟩

/-- the statement proved for one shape: its Display text is a prefix code word -/
def PrefixFree (a : Shape) : Prop :=
  ∀ b r1 r2, identKeys a = true → identKeys b = true →
    displayChars a ++ r1 = displayChars b ++ r2 → a = b ∧ r1 = r2

theorem list_prefixFree (sep : List Char) (close : Char) (hsep : ∃ c rest, sep = c :: rest ∧ c ≠ close ∧ startChar c = false)
    (hclose : startChar close = false) :
    ∀ (vs ws : List Shape) (r1 r2 : List Char), (∀ v ∈ vs, PrefixFree v) →
    identKeysList vs = true → identKeysList ws = true →
    listChars sep vs ++ close :: r1 = listChars sep ws ++ close :: r2 → vs = ws ∧ r1 = r2 := by
  obtain ⟨sc, srest, rfl, hsc, hss⟩ := hsep
  intro vs
  induction vs with
  | nil =>
    intro ws r1 r2 _ _ _ h
    cases ws with
    | nil => simpa [listChars] using h
    | cons w ws =>
      obtain ⟨c, rest, hc, hst⟩ := displayChars_head w
      cases ws <;> simp [listChars, hc] at h <;> (rw [← h.1] at hst; rw [hst] at hclose; cases hclose)
  | cons v vs ih =>
    intro ws r1 r2 hP hv hw h
    simp [identKeysList] at hv
    cases ws with
    | nil =>
      obtain ⟨c, rest, hc, hst⟩ := displayChars_head v
      cases vs <;> simp [listChars, hc] at h <;> (rw [h.1] at hst; rw [hst] at hclose; cases hclose)
    | cons w ws =>
      simp [identKeysList] at hw
      cases vs with
      | nil =>
        cases ws with
        | nil =>
          simp only [listChars] at h
          obtain ⟨e1, e2⟩ := hP v (by simp) w (close :: r1) (close :: r2) hv.1 hw.1 h
          simp at e2
          exact ⟨by rw [e1], e2⟩
        | cons w' ws =>
          simp only [listChars, List.append_assoc] at h
          obtain ⟨_, e2⟩ := hP v (by simp) w (close :: r1) _ hv.1 hw.1 h
          simp at e2
          exact absurd e2.1.symm hsc
      | cons v' vs =>
        cases ws with
        | nil =>
          simp only [listChars, List.append_assoc] at h
          obtain ⟨_, e2⟩ := hP v (by simp) w _ (close :: r2) hv.1 hw.1 h
          simp at e2
          exact absurd e2.1 hsc
        | cons w' ws =>
          simp only [listChars, List.append_assoc] at h
          obtain ⟨e1, e2⟩ := hP v (by simp) w _ _ hv.1 hw.1 h
          have e3 : listChars (sc :: srest) (v' :: vs) ++ close :: r1 =
              listChars (sc :: srest) (w' :: ws) ++ close :: r2 := by
            simpa using e2
          obtain ⟨f1, f2⟩ := ih (w' :: ws) r1 r2 (fun x hx => hP x (by simp [hx])) hv.2 hw.2 e3
          exact ⟨by rw [e1, f1], f2⟩

theorem members_prefixFree : ∀ (c c' : Members) (r1 r2 : List Char), (∀ kv ∈ c, PrefixFree kv.2) →
    identKeysMembers c = true → identKeysMembers c' = true →
    membersChars c ++ '}' :: r1 = membersChars c' ++ '}' :: r2 → c = c' ∧ r1 = r2 := by
  intro c
  induction c with
  | nil =>
    intro c' r1 r2 _ _ hw h
    cases c' with
    | nil => simpa [membersChars] using h
    | cons kv c' =>
      obtain ⟨k, v⟩ := kv
      simp [identKeysMembers] at hw
      obtain ⟨ch, rest, hk, hid⟩ := key_head hw.1.1
      have hbr : identChar '}' = false := by decide
      cases c' <;> simp [membersChars, keyChars_ident hw.1.1, hk] at h <;>
        (rw [← h.1, hbr] at hid; cases hid)
  | cons kv c ih =>
    obtain ⟨k, v⟩ := kv
    intro c' r1 r2 hP hv hw h
    simp [identKeysMembers] at hv
    cases c' with
    | nil =>
      obtain ⟨ch, rest, hk, hid⟩ := key_head hv.1.1
      have hbr : identChar '}' = false := by decide
      cases c <;> simp [membersChars, keyChars_ident hv.1.1, hk] at h <;>
        (rw [h.1, hbr] at hid; cases hid)
    | cons kv' c' =>
      obtain ⟨k', v'⟩ := kv'
      simp [identKeysMembers] at hw
      -- both start with `key: value`
      have hkey : ∀ (x y : List Char), k.toList ++ ':' :: x = k'.toList ++ ':' :: y → k = k' ∧ x = y := by
        intro x y hxy
        obtain ⟨e1, e2⟩ := split_at_delim ':' _ _ x y (colon_not_in_key hv.1.1) (colon_not_in_key hw.1.1) hxy
        exact ⟨String.ext (by simpa using e1), e2⟩
      cases c with
      | nil =>
        cases c' with
        | nil =>
          simp only [membersChars, keyChars_ident hv.1.1, keyChars_ident hw.1.1, sepColon, List.append_assoc,
            List.cons_append, List.nil_append] at h
          obtain ⟨e1, e2⟩ := hkey _ _ h
          simp at e2
          obtain ⟨f1, f2⟩ := hP (k, v) (by simp) v' ('}' :: r1) ('}' :: r2) hv.1.2 hw.1.2 e2
          simp at f2
          have f1' : v = v' := f1
          exact ⟨by rw [e1, f1'], f2⟩
        | cons kv'' c' =>
          simp only [membersChars, keyChars_ident hv.1.1, keyChars_ident hw.1.1, sepColon, sepComma,
            List.append_assoc, List.cons_append, List.nil_append] at h
          obtain ⟨_, e2⟩ := hkey _ _ h
          simp at e2
          obtain ⟨_, f2⟩ := hP (k, v) (by simp) v' ('}' :: r1) _ hv.1.2 hw.1.2 e2
          simp at f2
      | cons kv2 c =>
        cases c' with
        | nil =>
          simp only [membersChars, keyChars_ident hv.1.1, keyChars_ident hw.1.1, sepColon, sepComma,
            List.append_assoc, List.cons_append, List.nil_append] at h
          obtain ⟨_, e2⟩ := hkey _ _ h
          simp at e2
          obtain ⟨_, f2⟩ := hP (k, v) (by simp) v' _ ('}' :: r2) hv.1.2 hw.1.2 e2
          simp at f2
        | cons kv'' c' =>
          simp only [membersChars, keyChars_ident hv.1.1, keyChars_ident hw.1.1, sepColon, sepComma,
            List.append_assoc, List.cons_append, List.nil_append] at h
          obtain ⟨e1, e2⟩ := hkey _ _ h
          simp at e2
          obtain ⟨f1, f2⟩ := hP (k, v) (by simp) v' _ _ hv.1.2 hw.1.2 e2
          simp at f2
          obtain ⟨g1, g2⟩ := ih (kv'' :: c') r1 r2 (fun x hx => hP x (by simp [hx])) hv.2 hw.2 f2
          have f1' : v = v' := f1
          exact ⟨by rw [e1, f1', g1], g2⟩

end ShapeVerif

namespace ShapeVerif
open Shape Std

theorem identKeysList_mem {l : List Shape} (h : identKeysList l = true) : ∀ s ∈ l, identKeys s = true := by
  induction l with
  | nil => simp
  | cons a l ih =>
    simp [identKeysList] at h
    intro s hs
    rcases List.mem_cons.1 hs with rfl | hs
    · exact h.1
    · exact ih h.2 s hs

set_option maxRecDepth 2000 in
theorem prefixFree_aux (n : Nat) : ∀ a : Shape, sizeOf a ≤ n → PrefixFree a := by
  induction n with
  | zero => intro a h; cases a <;> simp at h
  | succ n ih =>
    intro a hn b r1 r2 ha hb h
    cases a with
    | null =>
      cases b with
      | null =>
        simp [displayChars, wrapOptC, kwNull, kwBoolean, kwNumber, kwString, kwOption, kwArray, kwObject, kwOneOf, kwTuple] at h ⊢ <;> exact h
      | bool p => cases p <;> simp [displayChars, wrapOptC, kwNull, kwBoolean, kwNumber, kwString, kwOption, kwArray, kwObject, kwOneOf, kwTuple] at h
      | number p => cases p <;> simp [displayChars, wrapOptC, kwNull, kwBoolean, kwNumber, kwString, kwOption, kwArray, kwObject, kwOneOf, kwTuple] at h
      | string p => cases p <;> simp [displayChars, wrapOptC, kwNull, kwBoolean, kwNumber, kwString, kwOption, kwArray, kwObject, kwOneOf, kwTuple] at h
      | array c p => cases p <;> simp [displayChars, wrapOptC, kwNull, kwBoolean, kwNumber, kwString, kwOption, kwArray, kwObject, kwOneOf, kwTuple] at h
      | object c p => cases p <;> simp [displayChars, wrapOptC, kwNull, kwBoolean, kwNumber, kwString, kwOption, kwArray, kwObject, kwOneOf, kwTuple] at h
      | oneOf c p => cases p <;> simp [displayChars, wrapOptC, kwNull, kwBoolean, kwNumber, kwString, kwOption, kwArray, kwObject, kwOneOf, kwTuple] at h
      | tuple c p => cases p <;> simp [displayChars, wrapOptC, kwNull, kwBoolean, kwNumber, kwString, kwOption, kwArray, kwObject, kwOneOf, kwTuple] at h
    | bool o =>
      cases b with
      | null => cases o <;> simp [displayChars, wrapOptC, kwNull, kwBoolean, kwNumber, kwString, kwOption, kwArray, kwObject, kwOneOf, kwTuple] at h
      | bool p =>
        cases o <;> cases p <;> simp [displayChars, wrapOptC, kwNull, kwBoolean, kwNumber, kwString, kwOption, kwArray, kwObject, kwOneOf, kwTuple] at h ⊢ <;> exact h
      | number p => cases o <;> cases p <;> simp [displayChars, wrapOptC, kwNull, kwBoolean, kwNumber, kwString, kwOption, kwArray, kwObject, kwOneOf, kwTuple] at h
      | string p => cases o <;> cases p <;> simp [displayChars, wrapOptC, kwNull, kwBoolean, kwNumber, kwString, kwOption, kwArray, kwObject, kwOneOf, kwTuple] at h
      | array c p => cases o <;> cases p <;> simp [displayChars, wrapOptC, kwNull, kwBoolean, kwNumber, kwString, kwOption, kwArray, kwObject, kwOneOf, kwTuple] at h
      | object c p => cases o <;> cases p <;> simp [displayChars, wrapOptC, kwNull, kwBoolean, kwNumber, kwString, kwOption, kwArray, kwObject, kwOneOf, kwTuple] at h
      | oneOf c p => cases o <;> cases p <;> simp [displayChars, wrapOptC, kwNull, kwBoolean, kwNumber, kwString, kwOption, kwArray, kwObject, kwOneOf, kwTuple] at h
      | tuple c p => cases o <;> cases p <;> simp [displayChars, wrapOptC, kwNull, kwBoolean, kwNumber, kwString, kwOption, kwArray, kwObject, kwOneOf, kwTuple] at h
    | number o =>
      cases b with
      | null => cases o <;> simp [displayChars, wrapOptC, kwNull, kwBoolean, kwNumber, kwString, kwOption, kwArray, kwObject, kwOneOf, kwTuple] at h
      | bool p => cases o <;> cases p <;> simp [displayChars, wrapOptC, kwNull, kwBoolean, kwNumber, kwString, kwOption, kwArray, kwObject, kwOneOf, kwTuple] at h
      | number p =>
        cases o <;> cases p <;> simp [displayChars, wrapOptC, kwNull, kwBoolean, kwNumber, kwString, kwOption, kwArray, kwObject, kwOneOf, kwTuple] at h ⊢ <;> exact h
      | string p => cases o <;> cases p <;> simp [displayChars, wrapOptC, kwNull, kwBoolean, kwNumber, kwString, kwOption, kwArray, kwObject, kwOneOf, kwTuple] at h
      | array c p => cases o <;> cases p <;> simp [displayChars, wrapOptC, kwNull, kwBoolean, kwNumber, kwString, kwOption, kwArray, kwObject, kwOneOf, kwTuple] at h
      | object c p => cases o <;> cases p <;> simp [displayChars, wrapOptC, kwNull, kwBoolean, kwNumber, kwString, kwOption, kwArray, kwObject, kwOneOf, kwTuple] at h
      | oneOf c p => cases o <;> cases p <;> simp [displayChars, wrapOptC, kwNull, kwBoolean, kwNumber, kwString, kwOption, kwArray, kwObject, kwOneOf, kwTuple] at h
      | tuple c p => cases o <;> cases p <;> simp [displayChars, wrapOptC, kwNull, kwBoolean, kwNumber, kwString, kwOption, kwArray, kwObject, kwOneOf, kwTuple] at h
    | string o =>
      cases b with
      | null => cases o <;> simp [displayChars, wrapOptC, kwNull, kwBoolean, kwNumber, kwString, kwOption, kwArray, kwObject, kwOneOf, kwTuple] at h
      | bool p => cases o <;> cases p <;> simp [displayChars, wrapOptC, kwNull, kwBoolean, kwNumber, kwString, kwOption, kwArray, kwObject, kwOneOf, kwTuple] at h
      | number p => cases o <;> cases p <;> simp [displayChars, wrapOptC, kwNull, kwBoolean, kwNumber, kwString, kwOption, kwArray, kwObject, kwOneOf, kwTuple] at h
      | string p =>
        cases o <;> cases p <;> simp [displayChars, wrapOptC, kwNull, kwBoolean, kwNumber, kwString, kwOption, kwArray, kwObject, kwOneOf, kwTuple] at h ⊢ <;> exact h
      | array c p => cases o <;> cases p <;> simp [displayChars, wrapOptC, kwNull, kwBoolean, kwNumber, kwString, kwOption, kwArray, kwObject, kwOneOf, kwTuple] at h
      | object c p => cases o <;> cases p <;> simp [displayChars, wrapOptC, kwNull, kwBoolean, kwNumber, kwString, kwOption, kwArray, kwObject, kwOneOf, kwTuple] at h
      | oneOf c p => cases o <;> cases p <;> simp [displayChars, wrapOptC, kwNull, kwBoolean, kwNumber, kwString, kwOption, kwArray, kwObject, kwOneOf, kwTuple] at h
      | tuple c p => cases o <;> cases p <;> simp [displayChars, wrapOptC, kwNull, kwBoolean, kwNumber, kwString, kwOption, kwArray, kwObject, kwOneOf, kwTuple] at h
    | array t o =>
      have iht : PrefixFree t := ih t (by simp at hn; omega)
      simp only [identKeys] at ha
      cases b with
      | array t' p =>
        simp only [identKeys] at hb
        cases o <;> cases p <;>
          simp [displayChars, wrapOptC, kwOption, kwArray, List.append_assoc] at h
        · obtain ⟨e1, e2⟩ := iht t' _ _ ha hb h
          simp at e2; exact ⟨by rw [e1], e2⟩
        · obtain ⟨e1, e2⟩ := iht t' _ _ ha hb h
          simp at e2; exact ⟨by rw [e1], e2⟩
      | null => cases o <;> simp [displayChars, wrapOptC, kwNull, kwOption, kwArray] at h
      | bool p => cases o <;> cases p <;> simp [displayChars, wrapOptC, kwBoolean, kwOption, kwArray] at h
      | number p => cases o <;> cases p <;> simp [displayChars, wrapOptC, kwNumber, kwOption, kwArray] at h
      | string p => cases o <;> cases p <;> simp [displayChars, wrapOptC, kwString, kwOption, kwArray] at h
      | object c p => cases o <;> cases p <;> simp [displayChars, wrapOptC, kwObject, kwOption, kwArray] at h
      | oneOf c p => cases o <;> cases p <;> simp [displayChars, wrapOptC, kwOneOf, kwOption, kwArray] at h
      | tuple c p => cases o <;> cases p <;> simp [displayChars, wrapOptC, kwTuple, kwOption, kwArray] at h
    | object c o =>
      have ihc : ∀ kv ∈ c, PrefixFree kv.2 := fun kv hkv => ih kv.2 (by
        have := sizeOf_lt_of_mem_members hkv; simp at hn this; omega)
      simp only [identKeys] at ha
      cases b with
      | object c' p =>
        simp only [identKeys] at hb
        cases o <;> cases p <;>
          simp [displayChars, wrapOptC, kwOption, kwObject, List.append_assoc] at h
        · obtain ⟨e1, e2⟩ := members_prefixFree c c' _ _ ihc ha hb h
          exact ⟨by rw [e1], e2⟩
        · obtain ⟨e1, e2⟩ := members_prefixFree c c' _ _ ihc ha hb h
          simp at e2; exact ⟨by rw [e1], e2⟩
      | null => cases o <;> simp [displayChars, wrapOptC, kwNull, kwOption, kwObject] at h
      | bool p => cases o <;> cases p <;> simp [displayChars, wrapOptC, kwBoolean, kwOption, kwObject] at h
      | number p => cases o <;> cases p <;> simp [displayChars, wrapOptC, kwNumber, kwOption, kwObject] at h
      | string p => cases o <;> cases p <;> simp [displayChars, wrapOptC, kwString, kwOption, kwObject] at h
      | array c p => cases o <;> cases p <;> simp [displayChars, wrapOptC, kwObject, kwOption, kwArray] at h
      | oneOf c p => cases o <;> cases p <;> simp [displayChars, wrapOptC, kwOneOf, kwOption, kwObject] at h
      | tuple c p => cases o <;> cases p <;> simp [displayChars, wrapOptC, kwTuple, kwOption, kwObject] at h
    | oneOf vs o =>
      have ihv : ∀ v ∈ vs, PrefixFree v := fun v hv => ih v (by
        have := List.sizeOf_lt_of_mem hv; simp at hn; omega)
      simp only [identKeys] at ha
      have hsep : ∃ c rest, sepBar = c :: rest ∧ c ≠ ']' ∧ startChar c = false := ⟨' ', _, rfl, by decide, by decide⟩
      cases b with
      | oneOf ws p =>
        simp only [identKeys] at hb
        cases o <;> cases p <;>
          simp [displayChars, wrapOptC, kwOption, kwOneOf, List.append_assoc] at h
        · obtain ⟨e1, e2⟩ := list_prefixFree sepBar ']' hsep (by decide) vs ws _ _ ihv ha hb h
          exact ⟨by rw [e1], e2⟩
        · obtain ⟨e1, e2⟩ := list_prefixFree sepBar ']' hsep (by decide) vs ws _ _ ihv ha hb h
          simp at e2; exact ⟨by rw [e1], e2⟩
      | null => cases o <;> simp [displayChars, wrapOptC, kwNull, kwOption, kwOneOf] at h
      | bool p => cases o <;> cases p <;> simp [displayChars, wrapOptC, kwBoolean, kwOption, kwOneOf] at h
      | number p => cases o <;> cases p <;> simp [displayChars, wrapOptC, kwNumber, kwOption, kwOneOf] at h
      | string p => cases o <;> cases p <;> simp [displayChars, wrapOptC, kwString, kwOption, kwOneOf] at h
      | array c p => cases o <;> cases p <;> simp [displayChars, wrapOptC, kwOneOf, kwOption, kwArray] at h
      | object c p => cases o <;> cases p <;> simp [displayChars, wrapOptC, kwOneOf, kwOption, kwObject] at h
      | tuple c p => cases o <;> cases p <;> simp [displayChars, wrapOptC, kwTuple, kwOption, kwOneOf] at h
    | tuple es o =>
      have ihv : ∀ v ∈ es, PrefixFree v := fun v hv => ih v (by
        have := List.sizeOf_lt_of_mem hv; simp at hn; omega)
      simp only [identKeys] at ha
      have hsep : ∃ c rest, sepComma = c :: rest ∧ c ≠ ')' ∧ startChar c = false := ⟨',', _, rfl, by decide, by decide⟩
      cases b with
      | tuple ws p =>
        simp only [identKeys] at hb
        cases o <;> cases p <;>
          simp [displayChars, wrapOptC, kwOption, kwTuple, List.append_assoc] at h
        · obtain ⟨e1, e2⟩ := list_prefixFree sepComma ')' hsep (by decide) es ws _ _ ihv ha hb h
          exact ⟨by rw [e1], e2⟩
        · obtain ⟨e1, e2⟩ := list_prefixFree sepComma ')' hsep (by decide) es ws _ _ ihv ha hb h
          simp at e2; exact ⟨by rw [e1], e2⟩
      | null => cases o <;> simp [displayChars, wrapOptC, kwNull, kwOption, kwTuple] at h
      | bool p => cases o <;> cases p <;> simp [displayChars, wrapOptC, kwBoolean, kwOption, kwTuple] at h
      | number p => cases o <;> cases p <;> simp [displayChars, wrapOptC, kwNumber, kwOption, kwTuple] at h
      | string p => cases o <;> cases p <;> simp [displayChars, wrapOptC, kwString, kwOption, kwTuple] at h
      | array c p => cases o <;> cases p <;> simp [displayChars, wrapOptC, kwTuple, kwOption, kwArray] at h
      | object c p => cases o <;> cases p <;> simp [displayChars, wrapOptC, kwTuple, kwOption, kwObject] at h
      | oneOf c p => cases o <;> cases p <;> simp [displayChars, wrapOptC, kwOneOf, kwOption, kwTuple] at h

/-- **Display is injective** on shapes whose member names are identifier-like: two different shapes
never print the same text. -/
theorem display_inj (a b : Shape) (ha : identKeys a = true) (hb : identKeys b = true)
    (h : display a = display b) : a = b := by
  have hc : displayChars a = displayChars b := by
    unfold display at h
    have := congrArg String.toList h
    simpa using this
  exact (prefixFree_aux (sizeOf a) a (Nat.le_refl _) b [] [] ha hb (by simp [hc])).1

/-- Display is a function of the shape (determinism), trivially -/
theorem display_deterministic (a b : Shape) (h : a = b) : display a = display b := by rw [h]

example : identKeys (.object [("key_1", .array (.oneOf [.null, .string false] false) true), ("k-2", .tuple [] false)] false)
    = true := by decide

end ShapeVerif
