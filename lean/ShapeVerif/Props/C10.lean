/-
C10 — Subset is reflexive and respects optional widening; `similar` is what it says.
All statements are for every shape (any constructor, both flags, any nesting). `wf` (strictly
sorted maps/sets — what `BTreeMap`/`BTreeSet` guarantee) is needed only where an object is looked up
by key.
-/
import ShapeVerif.Lemmas.Containers
import ShapeVerif.Model.Subset
namespace ShapeVerif
open Shape

mutual
/-- Every shape is a subset of itself. -/
theorem subset_refl : ∀ (s : Shape), s.wf = true → isSubset s s = true
  | .null, _ => by simp [isSubset, isOptional]
  | .bool o, _ => by cases o <;> simp [isSubset, isBoolean, isOptional]
  | .number o, _ => by cases o <;> simp [isSubset, isNumber, isOptional]
  | .string o, _ => by cases o <;> simp [isSubset, isString, isOptional]
  | .array t o, h => by
    simp [Shape.wf] at h
    cases o <;> simp [isSubset, subset_refl t h]
  | .tuple es o, h => by
    simp [Shape.wf] at h
    cases o <;> simp [isSubset, zipAll_refl es h]
  | .object c o, h => by
    simp [Shape.wf] at h
    have h1 : (c.all fun kv => mapContainsKey kv.1 c || kv.2.isOptional || isOneOfNull kv.2) = true := by
      rw [List.all_eq_true]
      intro kv hkv
      have : mapContainsKey kv.1 c = true := mapContainsKey_iff.2 ⟨kv.2, hkv⟩
      simp [this]
    have h2 : (c.all fun kv => lookupSubset kv.1 kv.2 c) = true := by
      rw [List.all_eq_true]
      exact members_refl c h.1 h.2
    cases o <;> simp [isSubset, h1, h2]
  | .oneOf vs o, _ => by
    have : setIsSubset vs vs = true := by
      unfold setIsSubset
      rw [List.all_eq_true]
      intro x hx
      exact setContains_iff.2 hx
    cases o <;> simp [isSubset, this]
theorem zipAll_refl : ∀ (es : List Shape), wfList es = true → zipAllSubset es es = true
  | [], _ => by simp [zipAllSubset]
  | e :: es, h => by
    simp [wfList] at h
    simp [zipAllSubset, subset_refl e h.1, zipAll_refl es h.2]
theorem members_refl : ∀ (c : Members), sortedKeys c = true → wfMembers c = true →
    ∀ kv ∈ c, lookupSubset kv.1 kv.2 c = true
  | [], _, _ => by simp
  | (k, v) :: l, hs, hw => by
    simp [wfMembers] at hw
    intro kv hkv
    rcases List.mem_cons.1 hkv with rfl | hkv
    · simp [lookupSubset, subset_refl v hw.1]
    · have hne : kv.1 ≠ k := sortedKeys_head_ne hs kv hkv
      have : (kv.1 == k) = false := by simp [hne]
      simp only [lookupSubset, this]
      exact members_refl l (sortedKeys_tail hs) hw.2 kv hkv
end

/-- Widening only the top-level optional flag keeps a shape inside the result. -/
theorem subset_withOptional (s : Shape) (q : Bool) (hw : s.wf = true)
    (hq : s.isOptional = true → q = true) : isSubset s (withOptional q s) = true := by
  have hr := subset_refl s hw
  cases s with
  | null => simpa [withOptional] using hr
  | bool o => cases o <;> cases q <;> simp_all [withOptional, isSubset, isBoolean, isOptional]
  | number o => cases o <;> cases q <;> simp_all [withOptional, isSubset, isNumber, isOptional]
  | string o => cases o <;> cases q <;> simp_all [withOptional, isSubset, isString, isOptional]
  | array t o => cases o <;> cases q <;> simp_all [withOptional, isSubset, isOptional]
  | tuple es o => cases o <;> cases q <;> simp_all [withOptional, isSubset, isOptional]
  | object c o => cases o <;> cases q <;> simp_all [withOptional, isSubset, isOptional]
  | oneOf vs o => cases o <;> cases q <;> simp_all [withOptional, isSubset, isOptional]

/-- Every shape is a subset of its own optional form. -/
theorem subset_as_optional (s : Shape) (hw : s.wf = true) : isSubset s s.asOptional = true :=
  subset_withOptional s true hw (fun _ => rfl)

/-- `null` is a subset of every optional shape. -/
theorem null_subset_optional (s : Shape) (h : s.isOptional = true) : isSubset .null s = true := by
  simp [isSubset, h]

theorem withOptional_isOptional (s : Shape) (q : Bool) :
    (withOptional q s).isOptional = (q || s.isNull) := by
  cases s <;> simp [withOptional, isOptional, isNull]

theorem withOptional_withOptional (s : Shape) (p q : Bool) :
    withOptional p (withOptional q s) = withOptional p s := by
  cases s <;> simp [withOptional]

/-- What `similar` returns: equal to both inputs up to the top-level flag, optional exactly when
either input is, symmetric, and a superset of both inputs. -/
theorem similar_spec (a b c : Shape) (ha : a.wf = true) (hb : b.wf = true)
    (h : Shape.similar a b = some c) :
    c.asNonOptional = a.asNonOptional ∧ c.asNonOptional = b.asNonOptional ∧
    c.isOptional = (a.isOptional || b.isOptional) ∧
    Shape.similar b a = some c ∧ isSubset a c = true ∧ isSubset b c = true := by
  have key : ∃ q, c = withOptional q a ∧ c = withOptional q b ∧ q = (a.isOptional || b.isOptional)
      ∧ Shape.similar b a = some c := by
    cases a <;> cases b <;> simp [Shape.similar] at h
    case null.null => subst h; exact ⟨true, by simp [withOptional, isOptional, Shape.similar]⟩
    case bool.bool o p =>
      subst h; exact ⟨o || p, by simp [withOptional, isOptional, Shape.similar, Bool.or_comm]⟩
    case number.number o p =>
      subst h; exact ⟨o || p, by simp [withOptional, isOptional, Shape.similar, Bool.or_comm]⟩
    case string.string o p =>
      subst h; exact ⟨o || p, by simp [withOptional, isOptional, Shape.similar, Bool.or_comm]⟩
    case array.array t o t' p =>
      obtain ⟨h1, h2⟩ := h
      have := (cmp_eq_iff _ _).1 h1; subst this; subst h2
      exact ⟨o || p, by simp [withOptional, isOptional, Shape.similar, Bool.or_comm, cmp_refl]⟩
    case object.object t o t' p =>
      obtain ⟨h1, h2⟩ := h
      have := (cmpMembers_eq_iff _ _).1 h1; subst this; subst h2
      exact ⟨o || p, by simp [withOptional, isOptional, Shape.similar, Bool.or_comm, cmpMembers_refl]⟩
    case oneOf.oneOf t o t' p =>
      obtain ⟨h1, h2⟩ := h
      have := (cmpList_eq_iff _ _).1 h1; subst this; subst h2
      exact ⟨o || p, by simp [withOptional, isOptional, Shape.similar, Bool.or_comm, cmpList_refl]⟩
    case tuple.tuple t o t' p =>
      obtain ⟨h1, h2⟩ := h
      have := (cmpList_eq_iff _ _).1 h1; subst this; subst h2
      exact ⟨o || p, by simp [withOptional, isOptional, Shape.similar, Bool.or_comm, cmpList_refl]⟩
  obtain ⟨q, hca, hcb, hq, hsym⟩ := key
  refine ⟨?_, ?_, ?_, hsym, ?_, ?_⟩
  · rw [hca]; simp [asNonOptional, withOptional_withOptional]
  · rw [hcb]; simp [asNonOptional, withOptional_withOptional]
  · rw [hca, withOptional_isOptional, hq]
    cases a <;> cases b <;> simp_all [isOptional, isNull, withOptional]
  · rw [hca]; exact subset_withOptional a q ha (by intro h; simp [hq, h])
  · rw [hcb]; exact subset_withOptional b q hb (by intro h; simp [hq, h])

/-- non-vacuity: `similar` does answer `some` on non-trivial, well-formed inputs -/
example : Shape.similar (.array (.oneOf [.number false, .string false] false) false)
      (.array (.oneOf [.number false, .string false] false) true)
    = some (.array (.oneOf [.number false, .string false] false) true) := by decide

example : (Shape.object [("a", .number true), ("b", .oneOf [.null, .string false] false)] true).wf = true := by
  decide

end ShapeVerif
