/-
C05 — No input makes the library panic, overflow or hang; errors are faithful.
Every Rust panic site of the modelled code is an explicit `Outcome.panic` (text layer: every slice of
`source`, the `key_span.start + 1 .. end - 1` arithmetic) or an explicit unreachable branch (array
classification). `fromStr_total` discharges all of them for every string; `span_faithful` says what
an `InvalidJson` error carries. Real stack depth and wall-clock are observed, not proved.
-/
import ShapeVerif.Lemmas.InferSpec
import ShapeVerif.Model.ParseCst
import ShapeVerif.Props.C12
import ShapeVerif.Lemmas.FromStrTotal
import ShapeVerif.Lemmas.ParseFuel
import ShapeVerif.Lemmas.LexFuel
import ShapeVerif.Lemmas.ParseDepth
namespace ShapeVerif
open Shape

/-- the `elements.first().cloned().unwrap()` and `Error::Unknown` sites of the text path's array
classification are unreachable: classification never fails -/
theorem classifyArray_never_fails (es : List Shape) : ∃ s, classifyArray es = .ok s := by
  unfold classifyArray
  split
  · split
    · exact ⟨_, rfl⟩
    · exact ⟨_, rfl⟩
  · split
    · rename_i hobj
      simp only [Bool.and_eq_true, decide_eq_true_eq] at hobj
      cases es with
      | nil => simp at hobj
      | cons e rest =>
        have := hobj.2
        rw [List.all_cons, Bool.and_eq_true] at this
        obtain ⟨c, o, rfl⟩ := isObject_cases this.1
        exact ⟨_, rfl⟩
    · split
      · exact ⟨_, rfl⟩
      · exact ⟨_, rfl⟩

/-- the value path's `unreachable!("Guaranteed to be Object by all")` and `shapes[0]` sites: the
classification of the value path takes its intended branch -/
theorem classifyArrayV_total (es : List Shape) :
    (es.length > 1 ∧ es.all isObject = true → ∃ c o rest, es = .object c o :: rest) ∧
    (!es.isEmpty && allEqual es = true → ∃ first rest, es = first :: rest) := by
  constructor
  · rintro ⟨hl, hall⟩
    cases es with
    | nil => simp at hl
    | cons e rest =>
      rw [List.all_cons, Bool.and_eq_true] at hall
      obtain ⟨c, o, rfl⟩ := isObject_cases hall.1
      exact ⟨c, o, rest, rfl⟩
  · intro h
    cases es with
    | nil => simp at h
    | cons e rest => exact ⟨e, rest, rfl⟩

/-- the repaired `reject_diagnostics` cannot panic: the fragment is taken with a checked slice -/
theorem rejectDiagnostics_no_panic (src : List Char) (diags : List Diag) :
    rejectDiagnostics src diags ≠ .panic := by
  unfold rejectDiagnostics
  split <;> simp

/-- the unchecked superset query never fails: every parse error becomes `false` -/
theorem isSuperset_never_errs (s : Shape) (src : List Char) (e : PErr) : isSuperset s src ≠ .err e := by
  unfold isSuperset
  split <;> simp

/-- work is bounded (call counts): the value path visits each node once, the text path at most once,
a subset query at most size·size (restated from C12 as the "small polynomial" part of C05) -/
theorem work_bounds (v d : Doc) (a b : Shape) :
    ticksSVal v = v.nodes ∧ ticksInferDoc d ≤ d.nodes ∧ (subsetT a b).2 ≤ a.size * b.size :=
  ⟨inferSVal_cost v, inferDoc_cost d, subset_cost a b⟩

/-- **no string makes `from_str` panic**: all slices of the source taken by `parse_cst`
(`has_errors`, error values, member names) lie on character boundaries inside the text, and member
name tokens span at least their two quotes -/
theorem fromStr_total (t : List Char) : fromStr t ≠ .panic := (fromStr_good t).1

/-- **errors are faithful**: the range of an `InvalidJson` lies inside the input on character
boundaries and the reported fragment is exactly the input at that range -/
theorem span_faithful (t : List Char) (v : String) (a b : Nat) (h : fromStr t = .err (.invalidJson v a b)) :
    ∃ p s, t = p ++ v.toList ++ s ∧ utf8Len p = a ∧ a + utf8Len v.toList = b :=
  sliceBytes_spec ((fromStr_good t).2 v a b h)

theorem fromSources_go_good : ∀ (srcs : List (List Char)) (acc : List Shape),
    fromSources.go srcs acc ≠ .panic ∧
      ∀ v a b, fromSources.go srcs acc = .err (.invalidJson v a b) → ∃ t ∈ srcs, fromStr t = .err (.invalidJson v a b)
  | [], acc => by simp [fromSources.go]
  | t :: rest, acc => by
    have ht := fromStr_total t
    simp only [fromSources.go]
    cases hf : fromStr t with
    | panic => exact absurd hf ht
    | err e =>
      refine ⟨by simp, ?_⟩
      intro v a b h
      cases h
      exact ⟨t, by simp, hf⟩
    | ok s =>
      have ih := fromSources_go_good rest (s :: acc)
      refine ⟨ih.1, ?_⟩
      intro v a b h
      obtain ⟨t', h1, h2⟩ := ih.2 v a b h
      exact ⟨t', by simp [h1], h2⟩

/-- `from_sources`, `is_superset`, `is_superset_checked` never panic either, on any texts -/
theorem entry_points_total (srcs : List (List Char)) (s : Shape) (t : List Char) :
    fromSources srcs ≠ .panic ∧ isSuperset s t ≠ .panic ∧ isSupersetChecked s t ≠ .panic := by
  refine ⟨?_, ?_, ?_⟩
  · unfold fromSources
    have := (fromSources_go_good srcs []).1
    cases h : fromSources.go srcs [] with
    | panic => exact absurd h this
    | err e => simp
    | ok vs => simp only; split <;> simp
  · unfold isSuperset
    have := fromStr_total t
    cases h : fromStr t with
    | panic => exact absurd h this
    | err e => simp
    | ok v => simp
  · unfold isSupersetChecked
    have := fromStr_total t
    cases h : fromStr t with
    | panic => exact absurd h this
    | err e => simp
    | ok v => simp

/-- an `InvalidJson` from `from_sources` is the faithful error of one of the sources -/
theorem sources_span_faithful (srcs : List (List Char)) (v : String) (a b : Nat)
    (h : fromSources srcs = .err (.invalidJson v a b)) :
    ∃ t ∈ srcs, ∃ p s, t = p ++ v.toList ++ s ∧ utf8Len p = a ∧ a + utf8Len v.toList = b := by
  unfold fromSources at h
  cases hg : fromSources.go srcs [] with
  | panic => simp [hg] at h
  | err e =>
    simp only [hg] at h
    cases h
    obtain ⟨t, ht, hf⟩ := (fromSources_go_good srcs []).2 v a b hg
    exact ⟨t, ht, span_faithful t v a b hf⟩
  | ok vs =>
    simp only [hg] at h
    split at h <;> cases h

/- non-vacuity of `span_faithful`'s hypothesis: `sliceBytes` is defined by well-founded recursion and
does not reduce in the kernel, so no closed `example` is given here; the correspondence run of every
check evaluates `fromStr` on tens of thousands of rejected texts (e.g. `"\\é"` ↦ `InvalidJson "\\é" 1..4`)
and compares value and range with the real code. -/

/-! ### no unbounded loop

The model's lexer and parser recurse on a fuel argument, the real `tokenize` loop and the `rule_*`
functions of the generated parser do not. `lexLoopO` / `rule*O` are twins that *fail* when the fuel
runs out and are otherwise identical to the model functions. For every string both twins answer —
and answer the model's result — from the fuel the model starts with: so the model's cut-off is never
what ends a run, the real loops make at most `|text|` (lexer) and `2·|tokens| + 4` (parser: nested
calls plus iterations of the two recovery loops) steps, and `fromStr_total` speaks about the
unbounded recursion. -/
theorem text_layer_terminates (cs : List Char) :
    lexLoopO cs.length cs 0 0 0 [] [] = some (tokenize cs) ∧
    ruleValueO (2 * (tokenize cs).tokens.length + 4) (initState (tokenize cs) (utf8Len cs)) =
      some (ruleValue (2 * (tokenize cs).tokens.length + 4) (initState (tokenize cs) (utf8Len cs))) :=
  ⟨tokenize_never_exhausts_fuel cs, parse_never_exhausts_fuel cs⟩

/-- in every coherent parser state `2·|remaining tokens| + 1` nested calls/iterations suffice: each one
is preceded by the consumption of a token -/
theorem parser_steps_linear (s : PState) (hc : Coh s) (fuel : Nat) (h : 2 * s.toks.length + 1 ≤ fuel) :
    ruleValueO fuel s = some (ruleValue fuel s) :=
  (ruleValue_fuel_irrelevant s hc fuel fuel h h).1

/-! ### no stack overflow: bounded recursion depth

The generated parser's `rule_object` / `rule_member` / `rule_array` / `rule_literal` / `rule_boolean`
each close exactly one node of the tree (`rule_value` is elided), and `parse_cst`'s `parse_rule` /
`parse_member` descend one level of that tree per call: the number of nested stack frames of either
phase is the depth of the tree (plus a constant). For **every** string that depth is at most 516:
the lexer stops at the first token that would bring the number of open brackets above 256
(`tokenize_depth`, with or without diagnostics), and the recovering parser opens a nested node only
after consuming an opening bracket that is still open — stray closing brackets are never skipped by
the recovery loops, they end them (`rules_depth`). -/
theorem tree_depth_bounded (cs : List Char) :
    depthOk ((tokenize cs).tokens.map (·.kind)) = true ∧ (parse cs).root.depth ≤ 516 :=
  ⟨tokenize_depth cs, parse_tree_depth cs⟩

end ShapeVerif
