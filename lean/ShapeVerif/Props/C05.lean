/-
C05 — No input makes the library panic, overflow or hang; errors are faithful.
Every Rust panic site of the modelled code is an explicit `Outcome.panic` (text layer) or an
explicit unreachable branch (array classification); the theorems below discharge the ones proved so
far. The remaining sites (slices of `source` at CST spans) are covered by the correspondence check,
which compares `panic` outcomes with the real code, and by the byte-wise range oracle.
-/
import ShapeVerif.Lemmas.InferSpec
import ShapeVerif.Model.ParseCst
import ShapeVerif.Props.C12
namespace ShapeVerif
open Shape

/-- the `elements.first().cloned().unwrap()` and `Error::Unknown` sites of the text path's array
classification are unreachable: classification never fails -/
theorem classifyArray_never_fails (es : List Shape) : ∃ s, classifyArray es = .ok s := by
  unfold classifyArray
  split
  · split
    · exact ⟨_, rfl⟩
    · exact ⟨_, rfl⟩
  · split
    · rename_i hobj
      simp only [Bool.and_eq_true, decide_eq_true_eq] at hobj
      cases es with
      | nil => simp at hobj
      | cons e rest =>
        have := hobj.2
        rw [List.all_cons, Bool.and_eq_true] at this
        obtain ⟨c, o, rfl⟩ := isObject_cases this.1
        exact ⟨_, rfl⟩
    · split
      · exact ⟨_, rfl⟩
      · exact ⟨_, rfl⟩

/-- the value path's `unreachable!("Guaranteed to be Object by all")` and `shapes[0]` sites: the
classification of the value path takes its intended branch -/
theorem classifyArrayV_total (es : List Shape) :
    (es.length > 1 ∧ es.all isObject = true → ∃ c o rest, es = .object c o :: rest) ∧
    (!es.isEmpty && allEqual es = true → ∃ first rest, es = first :: rest) := by
  constructor
  · rintro ⟨hl, hall⟩
    cases es with
    | nil => simp at hl
    | cons e rest =>
      rw [List.all_cons, Bool.and_eq_true] at hall
      obtain ⟨c, o, rfl⟩ := isObject_cases hall.1
      exact ⟨c, o, rest, rfl⟩
  · intro h
    cases es with
    | nil => simp at h
    | cons e rest => exact ⟨e, rest, rfl⟩

/-- the repaired `reject_diagnostics` cannot panic: the fragment is taken with a checked slice -/
theorem rejectDiagnostics_no_panic (src : List Char) (diags : List Diag) :
    rejectDiagnostics src diags ≠ .panic := by
  unfold rejectDiagnostics
  split <;> simp

/-- the unchecked superset query never fails: every parse error becomes `false` -/
theorem isSuperset_never_errs (s : Shape) (src : List Char) (e : PErr) : isSuperset s src ≠ .err e := by
  unfold isSuperset
  split <;> simp

/-- work is bounded (call counts): the value path visits each node once, the text path at most once,
a subset query at most size·size (restated from C12 as the "small polynomial" part of C05) -/
theorem work_bounds (v d : Doc) (a b : Shape) :
    ticksSVal v = v.nodes ∧ ticksInferDoc d ≤ d.nodes ∧ (subsetT a b).2 ≤ a.size * b.size :=
  ⟨inferSVal_cost v, inferDoc_cost d, subset_cost a b⟩

end ShapeVerif
