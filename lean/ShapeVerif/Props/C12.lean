/-
C12 — Cost grows polynomially with input size, not exponentially with nesting.
Work is measured as the number of calls to the four recursive workhorses (`From<&Value>`,
`parse_rule`, `merger`, `is_subset`); the hooks count the same calls in the real code and the
correspondence check compares the counts exactly. Heap allocations are measured by the harness on
growth families and fitted (validation of "calls bound the work", not a proof).
-/
import ShapeVerif.Model.Cost
import ShapeVerif.Lemmas.SubsetTwin
import ShapeVerif.Lemmas.Sorted
namespace ShapeVerif
open Shape

/-- distribute products over sums, then linear arithmetic with the remaining products as atoms -/
macro "nl" : tactic =>
  `(tactic| (simp only [Nat.add_mul, Nat.mul_add, Nat.one_mul, Nat.mul_one, Nat.mul_zero, Nat.zero_mul,
      Nat.add_zero, Nat.zero_add, Shape.size] at *; omega))

theorem size_pos (s : Shape) : 1 ≤ s.size := by cases s <;> simp [Shape.size]

theorem sizeList_mem {l : List Shape} {v : Shape} (h : v ∈ l) : v.size ≤ sizeList l := by
  induction l with
  | nil => cases h
  | cons a l ih =>
    simp only [sizeList]
    rcases List.mem_cons.1 h with rfl | h
    · omega
    · have := ih h; omega

/-! ### value path: each node is converted exactly once -/

theorem inferSVal_cost (v : Doc) : ticksSVal v = v.nodes := rfl

/-- one more level of nesting adds exactly one conversion -/
theorem inferSVal_level_additive (d : Doc) : ticksSVal (.arr [d]) = ticksSVal d + 1 := by
  simp [ticksSVal, Doc.nodes, Doc.nodesList]

/-! ### text path: `parse_rule` is entered at most once per node -/

theorem ticksInferDoc_le_aux (n : Nat) : ∀ d : Doc, sizeOf d ≤ n → ticksInferDoc d ≤ d.nodes := by
  induction n with
  | zero => intro d h; cases d <;> simp at h
  | succ n ih =>
    intro d hn
    cases d with
    | arr xs =>
      simp only [ticksInferDoc, Doc.nodes]
      have : ∀ l : List Doc, (∀ x ∈ l, sizeOf x ≤ n) → ticksInferList l ≤ Doc.nodesList l := by
        intro l
        induction l with
        | nil => intro _; simp [ticksInferList, Doc.nodesList]
        | cons x l ihl =>
          intro hs
          have h1 := ih x (hs x (by simp))
          have h2 := ihl (fun y hy => hs y (by simp [hy]))
          simp only [ticksInferList, Doc.nodesList]
          split <;> omega
      have hs : ∀ x ∈ xs, sizeOf x ≤ n := by
        intro x hx; have := List.sizeOf_lt_of_mem hx; simp at hn; omega
      have := this xs hs; omega
    | obj ms =>
      simp only [ticksInferDoc, Doc.nodes]
      have : ∀ (l : List (String × Doc)) (c : Members), (∀ kv ∈ l, sizeOf kv.2 ≤ n) →
          ticksInferMembers l c ≤ Doc.nodesMembers l := by
        intro l
        induction l with
        | nil => intro _ _; simp [ticksInferMembers, Doc.nodesMembers]
        | cons kv l ihl =>
          obtain ⟨k, v⟩ := kv
          intro c hs
          have h1 := ih v (hs (k, v) (by simp))
          simp only [ticksInferMembers, Doc.nodesMembers]
          split
          · omega
          · split
            · omega
            · rename_i c' _
              have h2 := ihl c' (fun y hy => hs y (by simp [hy]))
              omega
      have hs : ∀ kv ∈ ms, sizeOf kv.2 ≤ n := by
        intro kv hkv
        have := List.sizeOf_lt_of_mem hkv
        obtain ⟨k, v⟩ := kv
        simp at this hn ⊢; omega
      have := this ms [] hs; omega
    | _ => simp [ticksInferDoc, Doc.nodes]

theorem inferDoc_cost (d : Doc) : ticksInferDoc d ≤ d.nodes :=
  ticksInferDoc_le_aux (sizeOf d) d (Nat.le_refl _)

/-! ### merging: linear in the smaller operand -/

theorem mergerT_le_aux (n : Nat) : ∀ a : Shape, sizeOf a ≤ n → ∀ b, mergerT a b ≤ a.size := by
  induction n with
  | zero => intro a h; cases a <;> simp at h
  | succ n ih =>
    intro a hn b
    cases a with
    | array t o =>
      cases b <;> simp only [mergerT, Shape.size] <;> try omega
      rename_i t' p
      have := ih t (by simp at hn; omega) t'; omega
    | object c o =>
      cases b <;> simp only [mergerT, Shape.size] <;> try omega
      rename_i oc p
      have : ∀ (l : Members) (other : Members), (∀ kv ∈ l, sizeOf kv.2 ≤ n) →
          mergeMembersT l other ≤ sizeMembers l := by
        intro l
        induction l with
        | nil => intro _ _; simp [mergeMembersT, sizeMembers]
        | cons kv l ihl =>
          obtain ⟨k, v⟩ := kv
          intro other hs
          simp only [mergeMembersT, sizeMembers]
          split
          · rename_i ov _
            have h1 := ih v (hs (k, v) (by simp)) ov
            have h2 := ihl (mapRemove k other) (fun y hy => hs y (by simp [hy]))
            omega
          · have h2 := ihl other (fun y hy => hs y (by simp [hy]))
            have := size_pos v
            omega
      have hs : ∀ kv ∈ c, sizeOf kv.2 ≤ n := by
        intro kv hkv
        have := sizeOf_lt_of_mem_members hkv
        simp at hn this; omega
      have := this c oc hs; omega
    | null => cases b <;> simp [mergerT, Shape.size]
    | bool o => cases b <;> simp [mergerT, Shape.size]
    | number o => cases b <;> simp [mergerT, Shape.size]
    | string o => cases b <;> simp [mergerT, Shape.size]
    | oneOf vs o => cases b <;> simp [mergerT, Shape.size]
    | tuple vs o => cases b <;> simp [mergerT, Shape.size]

/-- `merger(a, b)` enters `merger` at most once per node of `a` -/
theorem merger_cost (a b : Shape) : mergerT a b ≤ a.size := mergerT_le_aux (sizeOf a) a (Nat.le_refl _) b

/-- total `merger` calls of `merge` over a list of shapes, and its bound: the accumulated result of the
previous merges can be large, but each step costs at most the size of the *incoming* shape plus one…
stated with the symmetric bound below -/
def mergeT : Shape → List Shape → Nat
  | _, [] => 0
  | acc, s :: l => mergerT acc s + mergeT (merger acc s) l

end ShapeVerif

namespace ShapeVerif
open Shape

theorem sizeMembers_mapRemove {k : String} {ov : Shape} : ∀ {other : Members}, mapGet k other = some ov →
    sizeMembers (mapRemove k other) + ov.size = sizeMembers other
  | [], h => by simp [mapGet] at h
  | (k', v) :: l, h => by
    simp only [mapGet] at h
    simp only [mapRemove]
    split at h
    · rename_i hk; cases h; simp [hk, sizeMembers]; omega
    · rename_i hk
      simp only [hk, Bool.false_eq_true, if_false, sizeMembers]
      have := sizeMembers_mapRemove (other := l) h
      omega

theorem mergerT_le_right_aux (n : Nat) : ∀ a : Shape, sizeOf a ≤ n → ∀ b, mergerT a b ≤ b.size := by
  induction n with
  | zero => intro a h; cases a <;> simp at h
  | succ n ih =>
    intro a hn b
    have hb := size_pos b
    cases a with
    | array t o =>
      cases b <;> simp only [mergerT, Shape.size] <;> try omega
      rename_i t' p
      have := ih t (by simp at hn; omega) t'; omega
    | object c o =>
      cases b <;> simp only [mergerT, Shape.size] <;> try omega
      rename_i oc p
      have : ∀ (l : Members) (other : Members), (∀ kv ∈ l, sizeOf kv.2 ≤ n) →
          mergeMembersT l other ≤ sizeMembers other := by
        intro l
        induction l with
        | nil => intro _ _; simp [mergeMembersT]
        | cons kv l ihl =>
          obtain ⟨k, v⟩ := kv
          intro other hs
          simp only [mergeMembersT]
          split
          · rename_i ov hg
            have h1 := ih v (hs (k, v) (by simp)) ov
            have h2 := ihl (mapRemove k other) (fun y hy => hs y (by simp [hy]))
            have h3 := sizeMembers_mapRemove hg
            omega
          · exact ihl other (fun y hy => hs y (by simp [hy]))
      have hs : ∀ kv ∈ c, sizeOf kv.2 ≤ n := by
        intro kv hkv
        have := sizeOf_lt_of_mem_members hkv
        simp at hn this; omega
      have := this c oc hs; omega
    | null => cases b <;> simp [mergerT, Shape.size]
    | bool o => cases b <;> simp [mergerT, Shape.size]
    | number o => cases b <;> simp [mergerT, Shape.size]
    | string o => cases b <;> simp [mergerT, Shape.size]
    | oneOf vs o => cases b <;> simp [mergerT, Shape.size]
    | tuple vs o => cases b <;> simp [mergerT, Shape.size]

theorem merger_cost_right (a b : Shape) : mergerT a b ≤ b.size :=
  mergerT_le_right_aux (sizeOf a) a (Nat.le_refl _) b

/-- merging `k` sources enters `merger` at most (total size of the merged-in shapes) times, whatever the
accumulator has grown to -/
theorem merge_cost : ∀ (acc : Shape) (l : List Shape), mergeT acc l ≤ sizeList l
  | _, [] => by simp [mergeT, sizeList]
  | acc, s :: l => by
    simp only [mergeT, sizeList]
    have h1 := merger_cost_right acc s
    have h2 := merge_cost (merger acc s) l
    omega

/-! ### subset queries: at most `size a * size b` calls -/

theorem anyT_bound {α : Type} (f : α → Bool × Nat) (w : α → Nat) (K : Nat) :
    ∀ (l : List α), (∀ x ∈ l, (f x).2 ≤ K * w x) → (anyT f l).2 ≤ K * (l.map w).sum
  | [], _ => by simp [anyT]
  | x :: l, h => by
    have h1 := h x (by simp)
    have h2 := anyT_bound f w K l (fun y hy => h y (by simp [hy]))
    simp only [anyT, List.map_cons, List.sum_cons]
    split
    · nl
    · simp only; nl

theorem allT_bound {α : Type} (f : α → Bool × Nat) (w : α → Nat) (K : Nat) :
    ∀ (l : List α), (∀ x ∈ l, (f x).2 ≤ w x * K) → (allT f l).2 ≤ (l.map w).sum * K
  | [], _ => by simp [allT]
  | x :: l, h => by
    have h1 := h x (by simp)
    have h2 := allT_bound f w K l (fun y hy => h y (by simp [hy]))
    simp only [allT, List.map_cons, List.sum_cons]
    split
    · simp only; nl
    · nl

theorem sizeList_eq_sum (l : List Shape) : sizeList l = (l.map Shape.size).sum := by
  induction l with
  | nil => rfl
  | cons a l ih => simp [sizeList, ih]

theorem sizeMembers_eq_sum (l : Members) : sizeMembers l = (l.map fun kv => kv.2.size).sum := by
  induction l with
  | nil => rfl
  | cons a l ih => obtain ⟨k, v⟩ := a; simp [sizeMembers, ih]

/-- the statement for one right-hand side -/
def CostFor (b : Shape) : Prop := ∀ a : Shape, (subsetT a b).2 ≤ a.size * b.size

theorem anySupT_bound {s : Shape} : ∀ (l : List Shape), (∀ v ∈ l, CostFor v) →
    (anySupT s l).2 ≤ s.size * sizeList l
  | [], _ => by simp [anySupT]
  | v :: l, h => by
    have h1 := h v (by simp) s
    have h2 := anySupT_bound (s := s) l (fun y hy => h y (by simp [hy]))
    simp only [anySupT, sizeList]
    split
    · nl
    · simp only; nl

theorem anyObjT_bound {s : Shape} : ∀ (l : List Shape), (∀ v ∈ l, CostFor v) →
    (anyObjT s l).2 ≤ s.size * sizeList l
  | [], _ => by simp [anyObjT]
  | v :: l, h => by
    have h1 := h v (by simp) s
    have h2 := anyObjT_bound (s := s) l (fun y hy => h y (by simp [hy]))
    simp only [anyObjT, sizeList]
    split
    · split
      · nl
      · simp only; nl
    · nl

theorem anyNullOkT_bound {s : Shape} {nullOk : Bool} : ∀ (l : List Shape), (∀ v ∈ l, CostFor v) →
    (anyNullOkT s nullOk l).2 ≤ s.size * sizeList l
  | [], _ => by simp [anyNullOkT]
  | v :: l, h => by
    have h1 := h v (by simp) s
    have h2 := anyNullOkT_bound (s := s) (nullOk := nullOk) l (fun y hy => h y (by simp [hy]))
    simp only [anyNullOkT, sizeList]
    split
    · split
      · nl
      · simp only; nl
    · nl

theorem zipAllT_bound : ∀ (es os : List Shape), (∀ o ∈ os, CostFor o) →
    (zipAllT es os).2 ≤ sizeList es * sizeList os
  | [], _, _ => by simp [zipAllT]
  | _ :: _, [], _ => by simp [zipAllT]
  | e :: es, o :: os, h => by
    have h1 := h o (by simp) e
    have h2 := zipAllT_bound es os (fun y hy => h y (by simp [hy]))
    simp only [zipAllT, sizeList]
    split
    · simp only; nl
    · nl

theorem lookupT_bound {k : String} {v : Shape} : ∀ (m : Members), (∀ kv ∈ m, CostFor kv.2) →
    (lookupT k v m).2 ≤ v.size * sizeMembers m
  | [], _ => by simp [lookupT]
  | (k', ov) :: l, h => by
    simp only [lookupT, sizeMembers]
    split
    · have := h (k', ov) (by simp) v; simp only at this; nl
    · have := lookupT_bound (k := k) (v := v) l (fun y hy => h y (by simp [hy])); nl

set_option maxHeartbeats 400000 in
theorem subset_cost_aux (n : Nat) : ∀ b : Shape, sizeOf b ≤ n → CostFor b := by
  induction n with
  | zero => intro b h; cases b <;> simp at h
  | succ n ih =>
    intro b hn a
    have ha := size_pos a
    have hb := size_pos b
    have hab : 1 ≤ a.size * b.size := Nat.mul_pos ha hb
    cases b with
    | null =>
      cases a with
      | null => simp only [subsetT] <;> nl
      | bool o => cases o <;> simp only [subsetT] <;> nl
      | number o => cases o <;> simp only [subsetT] <;> nl
      | string o => cases o <;> simp only [subsetT] <;> nl
      | array t o => cases o <;> simp only [subsetT] <;> nl
      | object c o => cases o <;> simp only [subsetT] <;> nl
      | oneOf c o => cases o <;> simp only [subsetT] <;> nl
      | tuple c o => cases o <;> simp only [subsetT] <;> nl
    | bool p =>
      cases a with
      | null => simp only [subsetT] <;> nl
      | bool o => cases o <;> simp only [subsetT] <;> nl
      | number o => cases o <;> simp only [subsetT] <;> nl
      | string o => cases o <;> simp only [subsetT] <;> nl
      | array t o => cases o <;> simp only [subsetT] <;> nl
      | object c o => cases o <;> simp only [subsetT] <;> nl
      | oneOf c o => cases o <;> simp only [subsetT] <;> nl
      | tuple c o => cases o <;> simp only [subsetT] <;> nl
    | number p =>
      cases a with
      | null => simp only [subsetT] <;> nl
      | bool o => cases o <;> simp only [subsetT] <;> nl
      | number o => cases o <;> simp only [subsetT] <;> nl
      | string o => cases o <;> simp only [subsetT] <;> nl
      | array t o => cases o <;> simp only [subsetT] <;> nl
      | object c o => cases o <;> simp only [subsetT] <;> nl
      | oneOf c o => cases o <;> simp only [subsetT] <;> nl
      | tuple c o => cases o <;> simp only [subsetT] <;> nl
    | string p =>
      cases a with
      | null => simp only [subsetT] <;> nl
      | bool o => cases o <;> simp only [subsetT] <;> nl
      | number o => cases o <;> simp only [subsetT] <;> nl
      | string o => cases o <;> simp only [subsetT] <;> nl
      | array t o => cases o <;> simp only [subsetT] <;> nl
      | object c o => cases o <;> simp only [subsetT] <;> nl
      | oneOf c o => cases o <;> simp only [subsetT] <;> nl
      | tuple c o => cases o <;> simp only [subsetT] <;> nl
    | array ty p =>
      have ihty : CostFor ty := ih ty (by simp at hn; omega)
      cases a with
      | array t o =>
        have := ihty t
        cases o <;> cases p <;> simp only [subsetT, Shape.size] <;> nl
      | tuple es o =>
        have hall := allT_bound (fun e => subsetT e ty) Shape.size ty.size es (fun e _ => ihty e)
        rw [← sizeList_eq_sum] at hall
        cases o <;> cases p <;> simp only [subsetT, Shape.size] <;> nl
      | null => simp only [subsetT]; nl
      | bool o => cases o <;> simp only [subsetT] <;> nl
      | number o => cases o <;> simp only [subsetT] <;> nl
      | string o => cases o <;> simp only [subsetT] <;> nl
      | object c o => cases o <;> cases p <;> simp only [subsetT] <;> nl
      | oneOf c o => cases o <;> cases p <;> simp only [subsetT] <;> nl
    | tuple os p =>
      have ihos : ∀ o ∈ os, CostFor o := fun o ho => ih o (by
        have := List.sizeOf_lt_of_mem ho; simp at hn; omega)
      cases a with
      | tuple es o =>
        have := zipAllT_bound es os ihos
        cases o <;> cases p <;> simp only [subsetT, Shape.size] <;> nl
      | null => simp only [subsetT]; nl
      | bool o => cases o <;> simp only [subsetT] <;> nl
      | number o => cases o <;> simp only [subsetT] <;> nl
      | string o => cases o <;> simp only [subsetT] <;> nl
      | array t o => cases o <;> cases p <;> simp only [subsetT] <;> nl
      | object c o => cases o <;> cases p <;> simp only [subsetT] <;> nl
      | oneOf c o => cases o <;> cases p <;> simp only [subsetT] <;> nl
    | object oc p =>
      have ihoc : ∀ kv ∈ oc, CostFor kv.2 := fun kv hkv => ih kv.2 (by
        have := sizeOf_lt_of_mem_members hkv; simp at hn this; omega)
      cases a with
      | object c o =>
        have hall := allT_bound (fun kv : String × Shape => lookupT kv.1 kv.2 oc) (fun kv => kv.2.size)
          (sizeMembers oc) c (fun kv _ => lookupT_bound oc ihoc)
        rw [← sizeMembers_eq_sum] at hall
        cases o <;> cases p <;> simp only [subsetT, Shape.size] <;> (try split) <;> nl
      | null => simp only [subsetT]; nl
      | bool o => cases o <;> simp only [subsetT] <;> nl
      | number o => cases o <;> simp only [subsetT] <;> nl
      | string o => cases o <;> simp only [subsetT] <;> nl
      | array t o => cases o <;> cases p <;> simp only [subsetT] <;> nl
      | tuple c o => cases o <;> cases p <;> simp only [subsetT] <;> nl
      | oneOf c o => cases o <;> cases p <;> simp only [subsetT] <;> nl
    | oneOf ws p =>
      have ihws : ∀ w ∈ ws, CostFor w := fun w hw => ih w (by
        have := List.sizeOf_lt_of_mem hw; simp at hn; omega)
      cases a with
      | null => simp only [subsetT]; nl
      | bool o => cases o <;> simp only [subsetT] <;> nl
      | number o => cases o <;> simp only [subsetT] <;> nl
      | string o => cases o <;> simp only [subsetT] <;> nl
      | array t o =>
        have h1 := anySupT_bound (s := .array t false) ws ihws
        have h2 := anyNullOkT_bound (s := .array t false) (nullOk := p || setContains .null ws) ws ihws
        cases o <;> simp only [subsetT, Shape.size] at h1 h2 ⊢ <;> nl
      | tuple es o =>
        have h1 := anySupT_bound (s := .tuple es false) ws ihws
        have h2 := anyNullOkT_bound (s := .tuple es false) (nullOk := p || setContains .null ws) ws ihws
        cases o <;> simp only [subsetT, Shape.size] at h1 h2 ⊢ <;> nl
      | object c o =>
        have h1 := anyObjT_bound (s := .object c false) ws ihws
        have h2 := anyNullOkT_bound (s := .object c false) (nullOk := p || setContains .null ws) ws ihws
        cases o <;> simp only [subsetT, Shape.size] at h1 h2 ⊢ <;> nl
      | oneOf vs o =>
        have hall := allT_bound (fun v => anySupT v ws) Shape.size (sizeList ws) vs
          (fun v _ => anySupT_bound ws ihws)
        rw [← sizeList_eq_sum] at hall
        cases o <;> cases p <;> simp only [subsetT, Shape.size] <;> (try split) <;> nl

/-- **subset_cost**: a subset query enters `is_subset` at most `size a * size b` times -/
theorem subset_cost (a b : Shape) : (subsetT a b).2 ≤ a.size * b.size :=
  subset_cost_aux (sizeOf b) b (Nat.le_refl _) a

/-- the counting twin answers exactly what `isSubset` answers: `subset_cost` is a bound on the evaluation
of `isSubset` itself -/
theorem subsetT_is_isSubset (a b : Shape) : (subsetT a b).1 = isSubset a b := subsetT_fst a b

end ShapeVerif
