/-
C06 — Text-based and value-based inference agree.
`paths_agree`: for every document tree without repeated member names, the shape inferred by the text
path (`parse_rule`, model `inferDoc`) equals the shape inferred by the value path
(`From<&serde_json::Value>`, model `inferSVal`) from the serde_json value of the same document
(`Doc.toSVal`: members sorted by key).
-/
import ShapeVerif.Lemmas.InferSpec
import ShapeVerif.Props.C17
namespace ShapeVerif
open Shape Std

/-! ### member lists of documents -/

theorem getMember_insertMember (k k' : String) (v : Doc) (m : List (String × Doc)) :
    Doc.getMember k (Doc.insertMember k' v m) = if k == k' then some v else Doc.getMember k m := by
  induction m with
  | nil => simp [Doc.insertMember, Doc.getMember]
  | cons b m ih =>
    obtain ⟨k0, v0⟩ := b
    unfold Doc.insertMember
    cases hc : compare k' k0 with
    | lt => simp [Doc.getMember]
    | eq =>
      have : k' = k0 := compare_eq_iff_eq.1 hc
      subst this
      by_cases h : k = k' <;> simp [Doc.getMember, h]
    | gt =>
      have hne : k' ≠ k0 := by
        intro e; subst e; simp [ReflCmp.compare_self] at hc
      simp only [Doc.getMember, ih]
      by_cases h0 : k = k0
      · subst h0
        have : (k == k') = false := by simp [Ne.symm hne]
        simp [this]
      · simp [h0]

/-- after `toSValMembers`, a key is bound to the image of its last binding in the source list -/
theorem getMember_toSValMembers (k : String) : ∀ (ms acc : List (String × Doc)),
    Doc.getMember k (Doc.toSValMembers ms acc) =
      match (ms.reverse.find? (fun kv => k == kv.1)) with
      | some kv => some (Doc.toSVal kv.2)
      | none => Doc.getMember k acc
  | [], acc => by simp [Doc.toSValMembers]
  | (k', v) :: ms, acc => by
    simp only [Doc.toSValMembers, getMember_toSValMembers k ms, List.reverse_cons, List.find?_append]
    cases h : ms.reverse.find? (fun kv => k == kv.1) with
    | some kv => simp
    | none =>
      simp only [Option.none_or, getMember_insertMember, List.find?_cons, List.find?_nil]
      by_cases hk : (k == k') = true <;> simp [hk]

theorem find_reverse_of_distinct {k : String} {v : Doc} : ∀ {ms : List (String × Doc)},
    Doc.keysDistinct ms = true → (k, v) ∈ ms → ms.reverse.find? (fun kv => k == kv.1) = some (k, v)
  | [], _, h => by cases h
  | (k', v') :: ms, hd, h => by
    simp only [Doc.keysDistinct, Bool.and_eq_true, Bool.not_eq_true'] at hd
    rw [List.reverse_cons, List.find?_append]
    rcases List.mem_cons.1 h with h | h
    · cases h
      have : ms.reverse.find? (fun kv => k == kv.1) = none := by
        rw [List.find?_eq_none]
        intro kv hkv
        have hkv' : kv ∈ ms := List.mem_reverse.1 hkv
        have := hd.1
        rw [List.any_eq_false] at this
        have := this kv hkv'
        simp only [beq_iff_eq] at this ⊢
        exact fun e => this e.symm
      simp [this]
    · rw [find_reverse_of_distinct hd.2 h]; simp

theorem find_reverse_none {k : String} {ms : List (String × Doc)} (h : hasMember k ms = false) :
    ms.reverse.find? (fun kv => k == kv.1) = none := by
  rw [List.find?_eq_none]
  intro kv hkv
  have hkv' : kv ∈ ms := List.mem_reverse.1 hkv
  unfold hasMember at h
  rw [List.any_eq_false] at h
  have := h kv hkv'
  simp only [beq_iff_eq] at this ⊢
  exact fun e => this e.symm

/-- lookup in the value path's object content -/
theorem mapGet_inferSValMembers (k : String) : ∀ (l : List (String × Doc)),
    mapGet k (inferSValMembers l) = (Doc.getMember k l).map inferSVal
  | [] => rfl
  | (k', v) :: l => by
    simp only [inferSValMembers, mapGet_mapInsert, Doc.getMember, mapGet_inferSValMembers k l]
    by_cases h : (k == k') = true <;> simp [h]

theorem sortedKeys_inferSValMembers : ∀ (l : List (String × Doc)), sortedKeys (inferSValMembers l) = true
  | [] => rfl
  | (k, v) :: l => by
    simp only [inferSValMembers]; exact sortedKeys_mapInsert (sortedKeys_inferSValMembers l)

theorem noDupKeysList_mem : ∀ {xs : List Doc}, Doc.noDupKeysList xs = true → ∀ x ∈ xs, Doc.noDupKeys x = true
  | [], _, _, hx => by cases hx
  | y :: ys, h, x, hx => by
    simp [Doc.noDupKeysList] at h
    rcases List.mem_cons.1 hx with rfl | hx
    · exact h.1
    · exact noDupKeysList_mem h.2 x hx

theorem noDupKeysMembers_mem : ∀ {ms : List (String × Doc)}, Doc.noDupKeysMembers ms = true →
    ∀ kv ∈ ms, Doc.noDupKeys kv.2 = true
  | [], _, _, hx => by cases hx
  | (k, v) :: ys, h, x, hx => by
    simp [Doc.noDupKeysMembers] at h
    rcases List.mem_cons.1 hx with rfl | hx
    · exact h.1
    · exact noDupKeysMembers_mem h.2 x hx

theorem inferSValList_toSValList : ∀ (xs : List Doc) (es : List Shape),
    Pointwise (fun x e => inferSVal x.toSVal = e) xs es → inferSValList (Doc.toSValList xs) = es
  | [], [], _ => rfl
  | [], _ :: _, h => by cases h
  | _ :: _, [], h => by cases h
  | x :: xs, e :: es, h => by
    simp only [Doc.toSValList, inferSValList, h.1, inferSValList_toSValList xs es h.2]

theorem paths_agree_aux (n : Nat) : ∀ (d : Doc) (s : Shape), sizeOf d ≤ n → d.noDupKeys = true →
    inferDoc d = .ok s → inferSVal d.toSVal = s := by
  induction n with
  | zero => intro d s h; cases d <;> simp at h
  | succ n ih =>
    intro d s hn hnd h
    cases d with
    | null => simp [inferDoc] at h; subst h; rfl
    | bool b => simp [inferDoc] at h; subst h; rfl
    | num x => simp [inferDoc] at h; subst h; rfl
    | str x => simp [inferDoc] at h; subst h; rfl
    | arr xs =>
      have h0 := h
      simp only [inferDoc] at h
      split at h
      · cases h
      · rename_i es hes
        simp only [Doc.noDupKeys] at hnd
        have pw := inferDocList_ok xs es hes
        have hsz : ∀ x ∈ xs, sizeOf x ≤ n := by
          intro x hx
          have := List.sizeOf_lt_of_mem hx
          simp at hn; omega
        have pw' : Pointwise (fun x e => inferSVal x.toSVal = e) xs es :=
          pw.imp_mem (fun x hx e hxe => ih x e (hsz x hx) (noDupKeysList_mem hnd x hx) hxe)
        obtain ⟨hwf, hno, hflag⟩ := inferred_list_props hes
        have hag := classify_agree es hwf hno hflag
        rw [hag] at h
        cases h
        simp only [Doc.toSVal, inferSVal, inferSValList_toSValList xs es pw']
    | obj ms =>
      obtain ⟨c, rfl, hcs, hmem, honly⟩ := infer_object ms s h
      simp only [Doc.noDupKeys, Bool.and_eq_true] at hnd
      simp only [Doc.toSVal, inferSVal]
      congr 1
      apply members_ext (sortedKeys_inferSValMembers _) hcs
      intro k
      rw [mapGet_inferSValMembers, getMember_toSValMembers]
      by_cases hk : hasMember k ms = true
      · unfold hasMember at hk
        rw [List.any_eq_true] at hk
        obtain ⟨⟨k', v⟩, hkv, hkk⟩ := hk
        have : k' = k := by simpa using hkk
        subst this
        rw [find_reverse_of_distinct hnd.1 hkv]
        obtain ⟨sv, hsv, hget⟩ := hmem (k', v) hkv
        have hvs : sizeOf v ≤ n := by
          have := List.sizeOf_lt_of_mem hkv
          simp at this hn; omega
        simp only [Option.map_some, hget]
        rw [ih v sv hvs (noDupKeysMembers_mem hnd.2 (k', v) hkv) hsv]
      · have hk' : hasMember k ms = false := by simpa using hk
        rw [find_reverse_none hk']
        simp only [Doc.getMember, Option.map_none]
        cases hg : mapGet k c with
        | none => rfl
        | some sv => exact absurd (honly k sv hg) hk

/-- **C06.** For every document without repeated member names, the text path and the value path
infer the same shape. -/
theorem paths_agree (d : Doc) (s : Shape) (hnd : d.noDupKeys = true) (h : inferDoc d = .ok s) :
    inferSVal d.toSVal = s := paths_agree_aux (sizeOf d) d s (Nat.le_refl _) hnd h

/-- the visitor built from a value reports the value path's shape together with the value itself
(`JsonVisitor::from` stores `JsonShape::from(value)` and the reference it was given) -/
def visitorOf (v : Doc) : Doc × Shape := (v, inferSVal v)
theorem visitor_spec (v : Doc) : (visitorOf v).2 = inferSVal v ∧ (visitorOf v).1 = v := ⟨rfl, rfl⟩

/-- non-vacuity: a document with out-of-order members, an array of objects with a missing middle
key (the D2 witness) and an empty array (the D1 witness) -/
example :
    let d := Doc.obj [("z", .arr []), ("m", .arr [.obj [("a", .num "1"), ("b", .num "2"), ("c", .num "3")],
                                                   .obj [("b", .num "2"), ("c", .num "3")]])]
    d.noDupKeys = true ∧ ∃ s, inferDoc d = .ok s ∧ inferSVal d.toSVal = s := by
  refine ⟨by decide, _, rfl, by rfl⟩

end ShapeVerif
