/-
C12, text path: besides the `parse_rule` call count (`inferDoc_cost`, Props/C12.lean) the two phases
before it are linear for every string — the lexer emits at most one token per character and the
recovering parser makes at most `4·|tokens| + 2` rule entries and loop iterations.
-/
import ShapeVerif.Lemmas.ParseWork
import ShapeVerif.Lemmas.LexFuel
namespace ShapeVerif

theorem lexLoop_tokens_len : ∀ (fuel : Nat) (cs : List Char) (pos : Nat) (nb nk : Int) (toks : List Token) (diags : List Diag),
    (lexLoop fuel cs pos nb nk toks diags).tokens.length ≤ toks.length + cs.length
  | 0, cs, _, _, _, toks, _ => by simp [lexLoop]
  | fuel + 1, [], _, _, _, toks, _ => by simp [lexLoop]
  | fuel + 1, c :: cs, pos, nb, nk, toks, diags => by
    have hl := lexOne_rest_lt c cs
    simp only [lexLoop]
    generalize lexOne (c :: cs) = r at hl ⊢
    obtain ⟨kind, dk, text, rest⟩ := r
    simp only at hl ⊢
    cases dk with
    | some dkind =>
      have := lexLoop_tokens_len fuel rest (pos + utf8Len text) nb nk (⟨.error, pos, pos + utf8Len text⟩ :: toks)
        (⟨dkind, pos, pos + utf8Len text⟩ :: diags)
      simp only [List.length_cons] at this hl ⊢
      omega
    | none =>
      simp only
      generalize (if kind == .string then (checkString pos text).reverse ++ diags else diags) = diags1
      generalize (if kind == Tok.lbrace then nb + 1 else if kind == Tok.rbrace then nb - 1 else nb) = nb'
      generalize (if kind == Tok.lbrak then nk + 1 else if kind == Tok.rbrak then nk - 1 else nk) = nk'
      split
      · simp only [List.length_reverse, List.length_cons]; omega
      · have := lexLoop_tokens_len fuel rest (pos + utf8Len text) nb' nk' (⟨kind, pos, pos + utf8Len text⟩ :: toks) diags1
        simp only [List.length_cons] at this hl ⊢
        omega

/-- at most one token per character -/
theorem tokens_le_chars (cs : List Char) : (tokenize cs).tokens.length ≤ cs.length := by
  have := lexLoop_tokens_len cs.length cs 0 0 0 [] []
  simpa [tokenize] using this

/-- **the text path's front end is linear in the length of the text** -/
theorem text_front_end_linear (cs : List Char) :
    (tokenize cs).tokens.length ≤ cs.length ∧
    ruleValueT (2 * (tokenize cs).tokens.length + 4) (initState (tokenize cs) (utf8Len cs)) ≤ 4 * cs.length + 2 := by
  have h1 := tokens_le_chars cs
  have h2 := parse_work_linear cs
  exact ⟨h1, by omega⟩

end ShapeVerif
