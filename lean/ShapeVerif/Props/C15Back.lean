/-
C15, second clause — serialising the deserialised value back yields the source up to number
formatting and explicit nulls for absent optional members.

`serdeBack s d` (Model/Derive.lean) is what `serde_json::to_value(&from_str::<T>(d)?)` returns for
the type `T` generated for `s`; `backEq d d'` is the equality the property names. `admits_roundtrips`:
in the fragment where deserialisation is proved (`admits_deserializes`: no OneOf — D18, no empty
object — D19, no Null-typed member — D23), every admitted document without repeated member names is
read and written back to a `backEq`-equal document. `serdeBack_accepts` ties the two models of the
derive together: a value comes back exactly when `serdeAccepts` says the document is read.
-/
import ShapeVerif.Props.C15
namespace ShapeVerif
open Shape

theorem getDocMember_of_mem : ∀ {ms : List (String × Doc)} {k : String} {v : Doc},
    docKeysDistinct ms = true → (k, v) ∈ ms → getDocMember k ms = some v
  | [], _, _, _, h => by cases h
  | (k0, v0) :: ms, k, v, hd, h => by
    simp only [docKeysDistinct, Bool.and_eq_true, Bool.not_eq_true'] at hd
    rcases List.mem_cons.1 h with e | h
    · cases e; simp [getDocMember]
    · have hne : (k0 == k) = false := by
        cases hk : (k0 == k) with
        | false => rfl
        | true =>
          have : ms.any (fun kv => kv.1 == k0) = true :=
            List.any_eq_true.mpr ⟨(k, v), h, by
              have e : k0 = k := by simpa using hk
              simp [e]⟩
          rw [this] at hd; cases hd.1
      simp only [getDocMember, hne, Bool.false_eq_true, if_false]
      exact getDocMember_of_mem hd.2 h

theorem hasDocMember_of_get {k : String} {v : Doc} : ∀ {ms : List (String × Doc)},
    getDocMember k ms = some v → hasDocMember k ms = true
  | [], h => by simp [getDocMember] at h
  | (k0, v0) :: ms, h => by
    simp only [getDocMember] at h
    simp only [hasDocMember, List.any_cons, Bool.or_eq_true]
    split at h
    · left; assumption
    · right; exact hasDocMember_of_get h

theorem admitsKey_mem {k : String} {v : Doc} : ∀ {c : Members}, admitsKey k v c = true →
    ∃ s, (k, s) ∈ c ∧ admits s v = true
  | [], h => by simp [admitsKey] at h
  | (k0, s0) :: c, h => by
    simp only [admitsKey] at h
    split at h
    · rename_i hk
      have : k = k0 := by simpa using hk
      subst this
      exact ⟨s0, by simp, h⟩
    · obtain ⟨s, hs, ha⟩ := admitsKey_mem h
      exact ⟨s, by simp [hs], ha⟩

/-- what a field list that was written back looks like, key by key -/
def FieldBack (ms : List (String × Doc)) (k : String) (s : Shape) (w : Doc) : Prop :=
  match getDocMember k ms with
  | some v => serdeBack s v = some w
  | none => w = .null

theorem serdeBackFields_spec : ∀ {c : Members} {ms bs : List (String × Doc)}, sortedKeys c = true →
    serdeBackFields c ms = some bs →
    (∀ k s, (k, s) ∈ c → ∃ w, getDocMember k bs = some w ∧ FieldBack ms k s w) ∧
    (∀ kw ∈ bs, ∃ s, (kw.1, s) ∈ c ∧ FieldBack ms kw.1 s kw.2)
  | [], ms, bs, _, h => by
    simp [serdeBackFields] at h; subst h
    exact ⟨(by intro k s hm; cases hm), (by intro kw hkw; cases hkw)⟩
  | (k0, s0) :: c, ms, bs, hs, h => by
    simp only [serdeBackFields] at h
    split at h
    · rename_i w rest hw hrest
      simp only [Option.some.injEq] at h
      subst h
      have hs' : sortedKeys c = true := sortedKeys_tail hs
      obtain ⟨ih1, ih2⟩ := serdeBackFields_spec hs' hrest
      have hfb : FieldBack ms k0 s0 w := by
        unfold FieldBack
        cases hg : getDocMember k0 ms with
        | some v => simpa [hg] using hw
        | none =>
          simp only [hg] at hw
          split at hw
          · cases hw; rfl
          · cases hw
      constructor
      · intro k s hm
        rcases List.mem_cons.1 hm with e | hm
        · cases e
          exact ⟨w, by simp [getDocMember], hfb⟩
        · have hne : k ≠ k0 := sortedKeys_head_ne hs (k, s) hm
          obtain ⟨w', hw1, hw2⟩ := ih1 k s hm
          refine ⟨w', ?_, hw2⟩
          have : (k0 == k) = false := by
            rw [beq_eq_false_iff_ne]
            exact fun e => hne e.symm
          simpa [getDocMember, this] using hw1
      · intro kw hkw
        rcases List.mem_cons.1 hkw with e | hkw
        · subst e; exact ⟨s0, by simp, hfb⟩
        · obtain ⟨s, hs1, hs2⟩ := ih2 kw hkw
          exact ⟨s, by simp [hs1], hs2⟩
    · cases h

theorem hasOneOf_of_mem : ∀ {c : Members} {k : String} {s : Shape}, hasOneOfMembers c = false → (k, s) ∈ c →
    hasOneOf s = false
  | [], _, _, _, h => by cases h
  | (k0, s0) :: c, k, s, hf, h => by
    simp [hasOneOfMembers] at hf
    rcases List.mem_cons.1 h with e | h
    · cases e; exact hf.1
    · exact hasOneOf_of_mem hf.2 h

theorem hasEmptyObject_of_mem : ∀ {c : Members} {k : String} {s : Shape}, hasEmptyObjectMembers c = false →
    (k, s) ∈ c → hasEmptyObject s = false
  | [], _, _, _, h => by cases h
  | (k0, s0) :: c, k, s, hf, h => by
    simp [hasEmptyObjectMembers] at hf
    rcases List.mem_cons.1 h with e | h
    · cases e; exact hf.1
    · exact hasEmptyObject_of_mem hf.2 h

theorem noNull_of_mem : ∀ {c : Members} {k : String} {s : Shape}, noNullMembersM c = true → (k, s) ∈ c →
    s.isNull = false ∧ noNullMembers s = true
  | [], _, _, _, h => by cases h
  | (k0, s0) :: c, k, s, hf, h => by
    simp [noNullMembersM] at hf
    rcases List.mem_cons.1 h with e | h
    · cases e; exact ⟨hf.1.1, hf.1.2⟩
    · exact noNull_of_mem hf.2 h

theorem admits_roundtrips_aux (n : Nat) : ∀ s : Shape, sizeOf s ≤ n → s.wf = true → hasOneOf s = false →
    hasEmptyObject s = false → noNullMembers s = true → ∀ d, docNoDup d = true → admits s d = true →
    ∃ d', serdeBack s d = some d' ∧ backEq d d' = true := by
  induction n with
  | zero => intro s h; cases s <;> simp at h
  | succ n ih =>
    intro s hn hw hno hne hnn d hdd h
    cases s with
    | null =>
      have : d = .null := by cases d <;> simp_all [admits, Doc.isNull]
      subst this
      exact ⟨.null, by simp [serdeBack, Doc.isNull], by simp [backEq, Doc.isNull]⟩
    | bool o =>
      cases d <;> simp_all [serdeBack, admits, backEq, Doc.isNull]
    | number o =>
      cases d <;> simp_all [serdeBack, admits, backEq, Doc.isNull]
    | string o =>
      cases d <;> simp_all [serdeBack, admits, backEq, Doc.isNull]
    | oneOf vs o => simp [hasOneOf] at hno
    | array t o =>
      simp only [Shape.wf] at hw
      simp only [hasOneOf] at hno
      simp only [noNullMembers] at hnn
      simp only [hasEmptyObject] at hne
      rcases admits_array_cases h with ⟨rfl, ho⟩ | ⟨xs, rfl, hxs⟩
      · exact ⟨.null, by simp [serdeBack, ho], by simp [backEq, Doc.isNull]⟩
      · simp only [docNoDup] at hdd
        rw [List.all_eq_true] at hxs
        have : ∀ (l : List Doc), (∀ x ∈ l, admits t x = true) → docNoDupL l = true →
            ∃ ys, optMapDocs (fun x => serdeBack t x) l = some ys ∧ backEqL l ys = true := by
          intro l
          induction l with
          | nil => intro _ _; exact ⟨[], rfl, rfl⟩
          | cons x l ihl =>
            intro ha hd
            simp only [docNoDupL, Bool.and_eq_true] at hd
            obtain ⟨y, hy1, hy2⟩ := ih t (by simp at hn; omega) hw hno hne hnn x hd.1 (ha x (by simp))
            obtain ⟨ys, hys1, hys2⟩ := ihl (fun x' hx' => ha x' (by simp [hx'])) hd.2
            exact ⟨y :: ys, by simp [optMapDocs, hy1, hys1], by simp [backEqL, hy2, hys2]⟩
        obtain ⟨ys, h1, h2⟩ := this xs hxs hdd
        exact ⟨.arr ys, by simp [serdeBack, h1], by simp [backEq, h2]⟩
    | tuple es o =>
      simp only [Shape.wf] at hw
      simp only [hasOneOf] at hno
      simp only [noNullMembers] at hnn
      simp only [hasEmptyObject] at hne
      rcases admits_tuple_cases h with ⟨rfl, ho⟩ | ⟨xs, rfl, hxs⟩
      · exact ⟨.null, by simp [serdeBack, ho], by simp [backEq, Doc.isNull]⟩
      · simp only [docNoDup] at hdd
        have : ∀ (es : List Shape) (xs : List Doc), (∀ e ∈ es, sizeOf e ≤ n) → wfList es = true →
            hasOneOfList es = false → hasEmptyObjectList es = false → noNullMembersL es = true →
            docNoDupL xs = true → admitsZip es xs = true →
            ∃ ys, serdeBackZip es xs = some ys ∧ backEqL xs ys = true := by
          intro es
          induction es with
          | nil =>
            intro xs _ _ _ _ _ _ hz
            cases xs with
            | nil => exact ⟨[], rfl, rfl⟩
            | cons x xs => simp [admitsZip] at hz
          | cons e es ihl =>
            intro xs hs hw' ho' he' hn' hd' hz
            cases xs with
            | nil => simp [admitsZip] at hz
            | cons x xs =>
              simp [wfList] at hw'
              simp [hasOneOfList] at ho'
              simp [hasEmptyObjectList] at he'
              simp [noNullMembersL] at hn'
              simp [docNoDupL] at hd'
              simp [admitsZip] at hz
              obtain ⟨y, hy1, hy2⟩ := ih e (hs e (by simp)) hw'.1 ho'.1 he'.1 hn'.1 x hd'.1 hz.1
              obtain ⟨ys, hys1, hys2⟩ := ihl xs (fun e' hm => hs e' (by simp [hm])) hw'.2 ho'.2 he'.2 hn'.2 hd'.2 hz.2
              exact ⟨y :: ys, by simp [serdeBackZip, hy1, hys1], by simp [backEqL, hy2, hys2]⟩
        obtain ⟨ys, h1, h2⟩ := this es xs
          (fun e he => by have := List.sizeOf_lt_of_mem he; simp at hn; omega) hw hno hne hnn hdd hxs
        exact ⟨.arr ys, by simp [serdeBack, h1], by simp [backEq, h2]⟩
    | object c o =>
      simp only [Shape.wf, Bool.and_eq_true] at hw
      simp only [hasOneOf] at hno
      simp only [noNullMembers] at hnn
      simp only [hasEmptyObject, Bool.or_eq_false_iff] at hne
      rcases admits_object_cases h with ⟨rfl, ho⟩ | ⟨ms, rfl, hms, habs⟩
      · exact ⟨.null, by simp [serdeBack, ho], by simp [backEq, Doc.isNull]⟩
      · simp only [docNoDup, Bool.and_eq_true] at hdd
        rw [List.all_eq_true] at hms
        rw [absentOk_iff] at habs
        -- the per-field fact the induction hypothesis gives
        have field : ∀ k s v, (k, s) ∈ c → (k, v) ∈ ms → ∃ w, serdeBack s v = some w ∧ backEq v w = true := by
          intro k s v hks hkv
          have hadm := hms (k, v) hkv
          simp only at hadm
          rw [admitsKey_of_mem hw.1 hks] at hadm
          have hsz : sizeOf s ≤ n := by
            have := sizeOf_lt_of_mem_members hks; simp at hn this; omega
          exact ih s hsz (wfMembers_mem hw.2 _ hks) (hasOneOf_of_mem hno hks) (hasEmptyObject_of_mem hne.2 hks)
            (noNull_of_mem hnn hks).2 v (docNoDupM_mem hdd.2 (k, v) hkv) hadm
        -- every field is written
        have ex : ∀ c' : Members, (∀ kv ∈ c', kv ∈ c) → ∃ bs, serdeBackFields c' ms = some bs := by
          intro c'
          induction c' with
          | nil => intro _; exact ⟨[], rfl⟩
          | cons kv c' ihc =>
            obtain ⟨k, s⟩ := kv
            intro hsub
            have hks : (k, s) ∈ c := hsub (k, s) (by simp)
            obtain ⟨rest, hrest⟩ := ihc (fun kv hkv => hsub kv (by simp [hkv]))
            cases hg : getDocMember k ms with
            | some v =>
              obtain ⟨w, hw1, _⟩ := field k s v hks (getDocMember_mem hg)
              exact ⟨(k, w) :: rest, by simp [serdeBackFields, hg, hw1, hrest]⟩
            | none =>
              have hnm := getDocMember_none hg
              have hopt : (s.isOptional && !s.isNull) = true := by
                rcases habs (k, s) hks with h' | h'
                · simp only at h'; rw [hnm] at h'; cases h'
                · have h1 := (noNull_of_mem hnn hks).1
                  have h2 := hasOneOf_of_mem hno hks
                  cases s <;> simp_all [admits, isOptional, isNull, hasOneOf]
              exact ⟨(k, .null) :: rest, by simp [serdeBackFields, hg, hopt, hrest]⟩
        obtain ⟨bs, hbs⟩ := ex c (fun _ h => h)
        obtain ⟨g1, g2⟩ := serdeBackFields_spec hw.1 hbs
        refine ⟨.obj bs, by simp [serdeBack, hne.1, hbs], ?_⟩
        simp only [backEq, Bool.and_eq_true]
        constructor
        · -- every member of the source comes back with an equal value
          have : ∀ l : List (String × Doc), (∀ kv ∈ l, kv ∈ ms) → backEqM l bs = true := by
            intro l
            induction l with
            | nil => intro _; rfl
            | cons kv l ihl =>
              obtain ⟨k, v⟩ := kv
              intro hsub
              have hkv : (k, v) ∈ ms := hsub (k, v) (by simp)
              obtain ⟨s, hks, _⟩ := admitsKey_mem (hms (k, v) hkv)
              obtain ⟨w, hw1, hw2⟩ := g1 k s hks
              have hget := getDocMember_of_mem hdd.1 hkv
              unfold FieldBack at hw2
              rw [hget] at hw2
              obtain ⟨w', hw'1, hw'2⟩ := field k s v hks hkv
              rw [hw2] at hw'1
              cases hw'1
              simp only [backEqM, hw1, hw'2, Bool.true_and]
              exact ihl (fun kv hkv => hsub kv (by simp [hkv]))
          exact this ms (fun _ h => h)
        · -- nothing comes back that was not there, except explicit nulls
          rw [List.all_eq_true]
          intro kw hkw
          obtain ⟨s, _, hfb⟩ := g2 kw hkw
          unfold FieldBack at hfb
          cases hg : getDocMember kw.1 ms with
          | some v => simp [hasDocMember_of_get hg]
          | none => rw [hg] at hfb; simp [hfb, Doc.isNull]

/-- **C15, serialise-back clause in the model**: in the fragment where deserialisation is proved, the
value read from an admitted document is written back as a document equal to the source up to number
formatting, member order and explicit nulls for absent optional members -/
theorem admits_roundtrips (s : Shape) (d : Doc) (hw : s.wf = true) (hno : hasOneOf s = false)
    (hne : hasEmptyObject s = false) (hnn : noNullMembers s = true) (hdd : docNoDup d = true)
    (h : admits s d = true) : ∃ d', serdeBack s d = some d' ∧ backEq d d' = true :=
  admits_roundtrips_aux (sizeOf s) s (Nat.le_refl _) hw hno hne hnn d hdd h

/-- non-vacuity, and an instance with an absent optional member and another number form -/
example :
    (match serdeBack (.object [("id", .number false), ("tag", .string true)] false) (.obj [("id", .num "1e0")]) with
     | some d' => backEq (.obj [("id", .num "1e0")]) d' && backEq d' (.obj [("id", .num "1"), ("tag", .null)])
     | none => false) = true := by decide

/-- the two models of the derive agree: a value is written back exactly when the document is read -/
theorem serdeBack_accepts_aux (n : Nat) : ∀ s : Shape, sizeOf s ≤ n → ∀ d, (serdeBack s d).isSome = serdeAccepts s d := by
  induction n with
  | zero => intro s h; cases s <;> simp at h
  | succ n ih =>
    intro s hn d
    cases s with
    | null => cases d <;> simp [serdeBack, serdeAccepts, Doc.isNull]
    | bool o => cases d <;> cases o <;> simp [serdeBack, serdeAccepts]
    | number o => cases d <;> cases o <;> simp [serdeBack, serdeAccepts]
    | string o => cases d <;> cases o <;> simp [serdeBack, serdeAccepts]
    | oneOf vs o => cases o <;> cases d <;> simp [serdeBack, serdeAccepts, Doc.isNull]
    | array t o =>
      cases d with
      | arr xs =>
        simp only [serdeBack, serdeAccepts, Option.isSome_map]
        have : ∀ l : List Doc, (optMapDocs (fun x => serdeBack t x) l).isSome = l.all (fun x => serdeAccepts t x) := by
          intro l
          induction l with
          | nil => rfl
          | cons x l ihl =>
            have hx := ih t (by simp at hn; omega) x
            simp only [optMapDocs, List.all_cons]
            rw [← hx, ← ihl]
            cases serdeBack t x <;> cases optMapDocs (fun x => serdeBack t x) l <;> rfl
        exact this xs
      | null => cases o <;> simp [serdeBack, serdeAccepts]
      | bool _ => simp [serdeBack, serdeAccepts]
      | num _ => simp [serdeBack, serdeAccepts]
      | str _ => simp [serdeBack, serdeAccepts]
      | obj _ => simp [serdeBack, serdeAccepts]
    | tuple es o =>
      cases d with
      | arr xs =>
        simp only [serdeBack, serdeAccepts, Option.isSome_map]
        have : ∀ (es : List Shape) (xs : List Doc), (∀ e ∈ es, sizeOf e ≤ n) →
            (serdeBackZip es xs).isSome = serdeZip es xs := by
          intro es
          induction es with
          | nil => intro xs _; cases xs <;> rfl
          | cons e es ihl =>
            intro xs hs
            cases xs with
            | nil => rfl
            | cons x xs =>
              have hx := ih e (hs e (by simp)) x
              have hr := ihl xs (fun e' he' => hs e' (by simp [he']))
              simp only [serdeBackZip, serdeZip]
              rw [← hx, ← hr]
              cases serdeBack e x <;> cases serdeBackZip es xs <;> rfl
        exact this es xs (fun e he => by have := List.sizeOf_lt_of_mem he; simp at hn; omega)
      | null => cases o <;> simp [serdeBack, serdeAccepts]
      | bool _ => simp [serdeBack, serdeAccepts]
      | num _ => simp [serdeBack, serdeAccepts]
      | str _ => simp [serdeBack, serdeAccepts]
      | obj _ => simp [serdeBack, serdeAccepts]
    | object c o =>
      cases d with
      | obj ms =>
        simp only [serdeBack, serdeAccepts]
        have : ∀ c' : Members, (∀ kv ∈ c', sizeOf kv.2 ≤ n) → (serdeBackFields c' ms).isSome = serdeFields c' ms := by
          intro c'
          induction c' with
          | nil => intro _; rfl
          | cons kv c' ihc =>
            obtain ⟨k, s⟩ := kv
            intro hs
            have hr := ihc (fun kv hkv => hs kv (by simp [hkv]))
            simp only [serdeBackFields, serdeFields]
            rw [← hr]
            cases hg : getDocMember k ms with
            | some v =>
              have hx := ih s (hs (k, s) (by simp)) v
              simp only []
              rw [← hx]
              cases serdeBack s v <;> cases serdeBackFields c' ms <;> rfl
            | none =>
              simp only []
              cases (s.isOptional && !s.isNull) <;> cases serdeBackFields c' ms <;> rfl
        have hsz : ∀ kv ∈ c, sizeOf kv.2 ≤ n := by
          intro kv hkv
          have := sizeOf_lt_of_mem_members hkv; simp at hn this; omega
        cases hc : c.isEmpty with
        | true => simp
        | false => simp [this c hsz]
      | null => cases o <;> cases c <;> simp [serdeBack, serdeAccepts]
      | bool _ => simp [serdeBack, serdeAccepts]
      | num _ => simp [serdeBack, serdeAccepts]
      | str _ => simp [serdeBack, serdeAccepts]
      | arr _ => simp [serdeBack, serdeAccepts]

theorem serdeBack_accepts (s : Shape) (d : Doc) : (serdeBack s d).isSome = serdeAccepts s d :=
  serdeBack_accepts_aux (sizeOf s) s (Nat.le_refl _) d

end ShapeVerif
