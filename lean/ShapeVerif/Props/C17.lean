/-
C17 — Single-document inference is compositional and exact: the shape of a document is built from
the shapes of its parts exactly as the documentation says.
-/
import ShapeVerif.Lemmas.InferSpec
namespace ShapeVerif
open Shape

/-! scalars -/
theorem infer_null : inferDoc .null = .ok .null := rfl
theorem infer_bool (b : Bool) : inferDoc (.bool b) = .ok (.bool false) := rfl
theorem infer_number (n : String) : inferDoc (.num n) = .ok (.number false) := rfl
theorem infer_string (s : String) : inferDoc (.str s) = .ok (.string false) := rfl

theorem inferDoc_object_flag {x : Doc} {c : Members} {o : Bool} (h : inferDoc x = .ok (.object c o)) :
    o = false := by
  cases x with
  | obj ms =>
    simp only [inferDoc] at h
    split at h
    · cases h
    · cases h; rfl
  | arr xs =>
    simp only [inferDoc] at h
    split at h
    · cases h
    · unfold classifyArray at h
      repeat' split at h
      all_goals cases h
  | _ => simp [inferDoc] at h

/-- facts about a list of element shapes obtained by inference -/
theorem inferred_list_props {xs : List Doc} {es : List Shape} (h : inferDocList xs = .ok es) :
    wfList es = true ∧ noOneOfValues es ∧ ∀ c o, Shape.object c o ∈ es → o = false := by
  have pw := inferDocList_ok xs es h
  refine ⟨?_, ?_, ?_⟩
  · rw [wfList_iff]
    intro e he
    obtain ⟨x, _, hxe⟩ := pw.mem_right e he
    exact infer_wf hxe
  · intro e he c o' heq kv hkv
    subst heq
    obtain ⟨x, _, hxe⟩ := pw.mem_right _ he
    obtain ⟨ms, _, hms⟩ := inferDoc_object_obj hxe
    exact inferDocMembers_notOneOf ms [] c hms (by simp) kv hkv
  · intro c o he
    obtain ⟨x, _, hxe⟩ := pw.mem_right _ he
    exact inferDoc_object_flag hxe

/-- **arrays.** With `es` the shapes of the elements (in order):
* no element: `Option<Array<Null>>` (the documented choice for `[]`);
* all element shapes equal: `Array` of that shape;
* differently shaped, not all objects: `Tuple` of the element shapes in order;
* differently shaped objects: `Array` of one `Object` whose lookup is `specLookup` — a key present
  in every element carries its shape, a key present in only some carries the optional form. -/
theorem infer_array (xs : List Doc) (es : List Shape) (h : inferDocList xs = .ok es) :
    (es = [] → inferDoc (.arr xs) = .ok (.array .null true)) ∧
    (∀ first rest, es = first :: rest → allEqual es = true →
      inferDoc (.arr xs) = .ok (.array first false)) ∧
    (es ≠ [] → allEqual es = false → es.all isObject = false →
      inferDoc (.arr xs) = .ok (.tuple es false)) ∧
    (es ≠ [] → allEqual es = false → es.all isObject = true →
      ∃ M, inferDoc (.arr xs) = .ok (.array (.object M false) false) ∧ sortedKeys M = true ∧
        ∀ k, mapGet k M = specLookup k es) := by
  obtain ⟨hwf, hno, _⟩ := inferred_list_props h
  have : inferDoc (.arr xs) = classifyArray es := by simp [inferDoc, h]
  rw [this]
  exact classifyArray_spec es hwf hno

/-- the element shapes are the shapes of the elements, position by position -/
theorem infer_array_elements (xs : List Doc) (es : List Shape) (h : inferDocList xs = .ok es) :
    Pointwise (fun x e => inferDoc x = .ok e) xs es := inferDocList_ok xs es h

/-- exact bookkeeping of `inferDocMembers` -/
theorem inferDocMembers_exact : ∀ (ms : List (String × Doc)) (acc content : Members),
    inferDocMembers ms acc = .ok content → (∀ kv ∈ acc, kv.2.isOneOf = false) →
    (∀ k s, mapGet k acc = some s → mapGet k content = some s) ∧
    (∀ kv ∈ ms, ∃ sv, inferDoc kv.2 = .ok sv ∧ mapGet kv.1 content = some sv) ∧
    (∀ k s, mapGet k content = some s → mapGet k acc = some s ∨ hasMember k ms = true) := by
  intro ms
  induction ms with
  | nil =>
    intro acc content h _
    simp [inferDocMembers] at h; subst h
    exact ⟨fun _ _ h => h, by simp, fun _ _ h => Or.inl h⟩
  | cons m ms ih =>
    obtain ⟨k, v⟩ := m
    intro acc content h hacc
    simp only [inferDocMembers] at h
    split at h
    · cases h
    · rename_i value hv
      split at h
      · cases h
      · rename_i content' hadd
        have hstep : (∀ k' s, mapGet k' acc = some s → mapGet k' content' = some s) ∧
            mapGet k content' = some value ∧
            (∀ k' s, mapGet k' content' = some s → mapGet k' acc = some s ∨ k' = k) ∧
            (∀ kv ∈ content', kv.2.isOneOf = false) := by
          unfold addMember at hadd
          split at hadd
          · rename_i vs o hg
            have := hacc (k, .oneOf vs o) (mem_of_mapGet hg)
            simp [Shape.isOneOf] at this
          · rename_i other _ hg
            split at hadd
            · cases hadd
            · rename_i hc
              cases hadd
              have : value = other := by
                have : cmp value other = .eq := by simpa using hc
                exact (cmp_eq_iff _ _).1 this
              subst this
              exact ⟨fun _ _ h => h, hg, fun _ _ h => Or.inl h, hacc⟩
          · rename_i hg
            cases hadd
            refine ⟨?_, ?_, ?_, ?_⟩
            · intro k' s hs
              rw [mapGet_mapInsert]
              by_cases hk : k' = k
              · subst hk; rw [hg] at hs; cases hs
              · simp [hk, hs]
            · rw [mapGet_mapInsert]; simp
            · intro k' s hs
              rw [mapGet_mapInsert] at hs
              by_cases hk : k' = k
              · exact Or.inr hk
              · simp [hk] at hs; exact Or.inl hs
            · intro kv hkv
              rcases mem_mapInsert hkv with rfl | hkv
              · exact inferDoc_not_oneOf hv
              · exact hacc kv hkv
        obtain ⟨s1, s2, s3, s4⟩ := hstep
        obtain ⟨i1, i2, i3⟩ := ih content' content h s4
        refine ⟨fun k' s hs => i1 k' s (s1 k' s hs), ?_, ?_⟩
        · intro kv hkv
          rcases List.mem_cons.1 hkv with rfl | hkv
          · exact ⟨value, hv, i1 k value s2⟩
          · exact i2 kv hkv
        · intro k' s hs
          rcases i3 k' s hs with h' | h'
          · rcases s3 k' s h' with h'' | h''
            · exact Or.inl h''
            · subst h''; right; simp [hasMember]
          · right; simp only [hasMember, List.any_cons] at h' ⊢; simp [h']

/-- **objects.** The inferred shape of an object is a non-optional `Object` whose keys are exactly
the document's member names, each carrying the shape of its value. -/
theorem infer_object (ms : List (String × Doc)) (s : Shape) (h : inferDoc (.obj ms) = .ok s) :
    ∃ c, s = .object c false ∧ sortedKeys c = true ∧
      (∀ kv ∈ ms, ∃ sv, inferDoc kv.2 = .ok sv ∧ mapGet kv.1 c = some sv) ∧
      (∀ k sv, mapGet k c = some sv → hasMember k ms = true) := by
  have hwf := infer_wf h
  simp only [inferDoc] at h
  split at h
  · cases h
  · rename_i content hc
    cases h
    simp only [Shape.wf, Bool.and_eq_true] at hwf
    obtain ⟨_, e2, e3⟩ := inferDocMembers_exact ms [] content hc (by simp)
    refine ⟨content, rfl, hwf.1, e2, ?_⟩
    intro k sv hk
    rcases e3 k sv hk with h' | h'
    · simp [mapGet] at h'
    · exact h'

/-- non-vacuity / worked example from the README: an array of two objects with different keys -/
example :
    inferDoc (.arr [.obj [("a", .str "b"), ("c", .num "123")], .obj [("a", .str "b"), ("b", .bool true)]])
      = .ok (.array (.object [("a", .string false), ("b", .bool true), ("c", .number true)] false) false) := by
  rfl

end ShapeVerif
