/-
C08 — Merging follows the documented algebra: idempotent, null-absorbing, order-insensitive (both
orders admit the same documents), and structure-preserving for objects, arrays and scalars.
-/
import ShapeVerif.Lemmas.Meaning
import ShapeVerif.Lemmas.InferSpec
import ShapeVerif.Props.C10
import ShapeVerif.Props.C01
namespace ShapeVerif
open Shape Std

/-! ### null absorption -/

/-- `T + Null = Option<T>` -/
theorem merge_null_right (s : Shape) : merger s .null = s.asOptional := by
  cases s <;> simp [merger, asOptional, withOptional]

/-- `Null + T = Option<T>` -/
theorem merge_null_left (s : Shape) : merger .null s = s.asOptional := by simp [merger]

/-! ### structure -/

/-- `Array<T> + Array<U> = Array<T + U>` -/
theorem array_struct (t u : Shape) (o p : Bool) :
    merger (.array t o) (.array u p) = .array (merger t u) (o || p) := by simp [merger]

/-- objects: common keys carry the merge of the two values, one-sided keys the optional form -/
theorem object_struct {c oc : Members} (o p : Bool) (hc : sortedKeys c = true) (ho : sortedKeys oc = true) :
    ∃ M, merger (.object c o) (.object oc p) = .object M (o || p) ∧ sortedKeys M = true ∧
      ∀ k, mapGet k M =
        match mapGet k c, mapGet k oc with
        | some v, some ov => some (merger v ov)
        | some v, none => some v.asOptional
        | none, some ov => some ov.asOptional
        | none, none => none :=
  ⟨mergedContent c oc, merger_object_object c oc o p, sortedKeys_mergedContent c oc,
    mapGet_mergedContent hc ho⟩

/-- two different non-optional scalar kinds give exactly the `OneOf` of the two -/
theorem scalar_struct :
    merger (.bool false) (.number false) = .oneOf [.bool false, .number false] false ∧
    merger (.number false) (.bool false) = .oneOf [.bool false, .number false] false ∧
    merger (.bool false) (.string false) = .oneOf [.bool false, .string false] false ∧
    merger (.string false) (.bool false) = .oneOf [.bool false, .string false] false ∧
    merger (.number false) (.string false) = .oneOf [.number false, .string false] false ∧
    merger (.string false) (.number false) = .oneOf [.number false, .string false] false := by
  refine ⟨?_, ?_, ?_, ?_, ?_, ?_⟩ <;> decide

/-! ### idempotence -/

theorem pickAll_self : ∀ (es : List Shape), wfList es = true → pickAll es es = some es
  | [], _ => rfl
  | e :: es, h => by
    simp [wfList] at h
    simp [pickAll, pickTuple, subset_refl e h.1, pickAll_self es h.2]

theorem merger_idem_aux (n : Nat) : ∀ s : Shape, sizeOf s ≤ n → s.wf = true → merger s s = s := by
  induction n with
  | zero => intro s h; cases s <;> simp at h
  | succ n ih =>
    intro s hn hw
    cases s with
    | null => rfl
    | bool o => simp [merger]
    | number o => simp [merger]
    | string o => simp [merger]
    | array t o =>
      simp only [Shape.wf] at hw
      simp [merger, ih t (by simp at hn; omega) hw]
    | object c o =>
      simp only [Shape.wf, Bool.and_eq_true] at hw
      rw [merger_object_object]
      simp only [Bool.or_self]
      congr 1
      apply members_ext (sortedKeys_mergedContent c c) hw.1
      intro k
      rw [mapGet_mergedContent hw.1 hw.1]
      cases hg : mapGet k c with
      | none => rfl
      | some v =>
        have : sizeOf v ≤ n := by
          have := sizeOf_lt_of_mapGet hg; simp at hn; omega
        simp [ih v this (wf_of_mapGet hw.2 hg)]
    | oneOf vs o =>
      rw [wf_oneOf_iff] at hw
      simp [merger, setExtend_of_subset hw.1 (fun x hx => hx)]
    | tuple es o =>
      simp only [Shape.wf] at hw
      simp [merger, pickAll_self es hw]

/-- merging a shape with itself gives the shape back -/
theorem merger_idem (s : Shape) (hw : s.wf = true) : merger s s = s :=
  merger_idem_aux (sizeOf s) s (Nat.le_refl _) hw

/-! ### order-insensitivity -/

theorem mixed_comm_sem (a b : Shape) : meaningEq (mixed a b) (mixed b a) := by
  unfold mixed
  apply meaningEq_oneOf_of_mem
  intro v
  simp only [mem_setOfList, List.mem_append, List.mem_cons, List.not_mem_nil, or_false,
    Bool.or_comm a.isOptional b.isOptional]
  constructor
  · rintro ((h | h) | h)
    · exact Or.inl (Or.inr h)
    · exact Or.inl (Or.inl h)
    · exact Or.inr h
  · rintro ((h | h) | h)
    · exact Or.inl (Or.inr h)
    · exact Or.inl (Or.inl h)
    · exact Or.inr h

theorem pickTuple_comm {a b : Shape} (ha : a.wf = true) (hb : b.wf = true) :
    match pickTuple a b, pickTuple b a with
    | some c, some c' => meaningEq c c'
    | none, none => True
    | _, _ => False := by
  unfold pickTuple
  by_cases s1 : isSubset a b = true <;> by_cases s2 : isSubset b a = true <;> simp only [s1, s2, if_true]
  · intro d
    apply bool_eq_of_iff
    exact ⟨subset_sound b a ha s2 d, subset_sound a b hb s1 d⟩
  · exact meaningEq_refl b
  · exact meaningEq_refl a
  · simp only [Bool.false_eq_true, if_false]
    by_cases nb : b.isNull = true <;> by_cases na : a.isNull = true <;> simp only [nb, na, if_true]
    · cases a <;> simp [isNull] at na
      cases b <;> simp [isNull] at nb
      exact meaningEq_refl _
    · exact meaningEq_refl _
    · exact meaningEq_refl _
    · simp

theorem pickAll_comm : ∀ (es os : List Shape), wfList es = true → wfList os = true →
    match pickAll es os, pickAll os es with
    | some f, some f' => Pointwise meaningEq f f'
    | none, none => True
    | _, _ => False
  | [], [], _, _ => by simp [pickAll, Pointwise]
  | [], _ :: _, _, _ => by simp [pickAll, Pointwise]
  | _ :: _, [], _, _ => by simp [pickAll, Pointwise]
  | e :: es, o :: os, he, ho => by
    simp [wfList] at he ho
    have h1 := pickTuple_comm he.1 ho.1
    have h2 := pickAll_comm es os he.2 ho.2
    simp only [pickAll]
    cases p1 : pickTuple e o <;> cases p2 : pickTuple o e <;> simp only [p1, p2] at h1 ⊢
    cases q1 : pickAll es os <;> cases q2 : pickAll os es <;> simp only [q1, q2] at h2 ⊢
    exact ⟨h1, h2⟩

theorem merger_comm_sem_aux (n : Nat) : ∀ a b : Shape, sizeOf a ≤ n → a.wf = true → b.wf = true →
    meaningEq (merger a b) (merger b a) := by
  induction n with
  | zero => intro a b h; cases a <;> simp at h
  | succ n ih =>
    intro a b hn ha hb
    cases a with
    | null => rw [merge_null_right, merge_null_left]; exact meaningEq_refl _
    | bool o =>
      cases b with
      | null => rw [merge_null_right, merge_null_left]; exact meaningEq_refl _
      | bool p => simp only [merger, Bool.or_comm o p]; exact meaningEq_refl _
      | oneOf vs p => simp only [merger]; exact meaningEq_refl _
      | _ => simp only [merger]; exact mixed_comm_sem _ _
    | number o =>
      cases b with
      | null => rw [merge_null_right, merge_null_left]; exact meaningEq_refl _
      | number p => simp only [merger, Bool.or_comm o p]; exact meaningEq_refl _
      | oneOf vs p => simp only [merger]; exact meaningEq_refl _
      | _ => simp only [merger]; exact mixed_comm_sem _ _
    | string o =>
      cases b with
      | null => rw [merge_null_right, merge_null_left]; exact meaningEq_refl _
      | string p => simp only [merger, Bool.or_comm o p]; exact meaningEq_refl _
      | oneOf vs p => simp only [merger]; exact meaningEq_refl _
      | _ => simp only [merger]; exact mixed_comm_sem _ _
    | array t o =>
      cases b with
      | null => rw [merge_null_right, merge_null_left]; exact meaningEq_refl _
      | array t' p =>
        simp only [merger, Bool.or_comm o p]
        simp only [Shape.wf] at ha hb
        exact meaningEq_array (ih t t' (by simp at hn; omega) ha hb)
      | tuple es ot => simp only [merger, Bool.or_comm o ot]; exact meaningEq_refl _
      | oneOf vs p => simp only [merger]; exact meaningEq_refl _
      | _ => simp only [merger]; exact mixed_comm_sem _ _
    | object c o =>
      cases b with
      | null => rw [merge_null_right, merge_null_left]; exact meaningEq_refl _
      | object oc p =>
        rw [merger_object_object, merger_object_object, Bool.or_comm p o]
        simp only [Shape.wf, Bool.and_eq_true] at ha hb
        apply meaningEq_object (sortedKeys_mergedContent _ _) (sortedKeys_mergedContent _ _)
        intro k
        rw [mapGet_mergedContent ha.1 hb.1, mapGet_mergedContent hb.1 ha.1]
        cases hv : mapGet k c <;> cases hov : mapGet k oc <;> simp only
        · exact meaningEq_refl _
        · exact meaningEq_refl _
        · rename_i v ov
          have : sizeOf v ≤ n := by
            have := sizeOf_lt_of_mapGet hv; simp at hn; omega
          exact ih v ov this (wf_of_mapGet ha.2 hv) (wf_of_mapGet hb.2 hov)
      | oneOf vs p => simp only [merger]; exact meaningEq_refl _
      | _ => simp only [merger]; exact mixed_comm_sem _ _
    | oneOf vs o =>
      cases b with
      | null => rw [merge_null_right, merge_null_left]; exact meaningEq_refl _
      | oneOf ws p =>
        simp only [merger, Bool.or_comm o p]
        apply meaningEq_oneOf_of_mem
        intro v; simp only [mem_setExtend]; exact Or.comm
      | _ => simp only [merger]; exact meaningEq_refl _
    | tuple es o =>
      cases b with
      | null => rw [merge_null_right, merge_null_left]; exact meaningEq_refl _
      | array t p => simp only [merger]; exact meaningEq_refl _
      | tuple os p =>
        simp only [Shape.wf] at ha hb
        have hpc := pickAll_comm es os ha hb
        simp only [merger]
        by_cases hl : es.length = os.length
        · have hl' : (es.length == os.length) = true := by simp [hl]
          have hl'' : (os.length == es.length) = true := by simp [hl]
          cases p1 : pickAll es os <;> cases p2 : pickAll os es <;> simp only [p1, p2] at hpc
          · simp only [hl', hl'', Bool.or_comm o p]
            apply meaningEq_array
            apply meaningEq_oneOf_of_mem
            intro v
            simp only [mem_setExtend, Bool.or_comm (es.any isOptional) (os.any isOptional)]
            constructor
            · rintro ((h | h) | h)
              · exact Or.inl (Or.inl h)
              · exact Or.inr h
              · exact Or.inl (Or.inr h)
            · rintro ((h | h) | h)
              · exact Or.inl (Or.inl h)
              · exact Or.inr h
              · exact Or.inl (Or.inr h)
          · simp only [hl', hl'', Bool.or_comm o p]
            exact meaningEq_tuple hpc
        · have hl' : (es.length == os.length) = false := by simp [hl]
          have hl'' : (os.length == es.length) = false := by simp [Ne.symm hl]
          simp only [hl', hl'', Bool.or_comm o p]
          apply meaningEq_array
          apply meaningEq_oneOf_of_mem
          intro v
          simp only [mem_setExtend, Bool.or_comm (es.any isOptional) (os.any isOptional)]
          constructor
          · rintro ((h | h) | h)
            · exact Or.inl (Or.inl h)
            · exact Or.inr h
            · exact Or.inl (Or.inr h)
          · rintro ((h | h) | h)
            · exact Or.inl (Or.inl h)
            · exact Or.inr h
            · exact Or.inl (Or.inr h)
      | oneOf vs p => simp only [merger]; exact meaningEq_refl _
      | _ => simp only [merger]; exact mixed_comm_sem _ _

/-- **order-insensitivity**: both orders of a merge admit exactly the same documents -/
theorem merger_comm_sem (a b : Shape) (ha : a.wf = true) (hb : b.wf = true) :
    meaningEq (merger a b) (merger b a) := merger_comm_sem_aux (sizeOf a) a b (Nat.le_refl _) ha hb

/-! ### the same laws at the level of sources -/

theorem sources_pair {d e : Doc} {sd se : Shape} (hd : inferDoc d = .ok sd) (he : inferDoc e = .ok se) :
    fromSourcesDoc [d, e] = .ok (merger sd se) := by
  simp [fromSourcesDoc, inferDocList, hd, he, merge]

/-- `from_sources([d, d]) == from_str(d)` -/
theorem sources_idem {d : Doc} {s : Shape} (h : inferDoc d = .ok s) : fromSourcesDoc [d, d] = .ok s := by
  rw [sources_pair h h, merger_idem s (infer_wf h)]

theorem inferDocList_rep {d : Doc} {s : Shape} (h : inferDoc d = .ok s) :
    ∀ k, inferDocList (List.replicate k d) = .ok (List.replicate k s)
  | 0 => rfl
  | k + 1 => by simp [List.replicate_succ, inferDocList, h, inferDocList_rep h k]

theorem foldl_merger_rep (s : Shape) (hw : s.wf = true) : ∀ k, (List.replicate k s).foldl merger s = s
  | 0 => rfl
  | k + 1 => by simp [List.replicate_succ, List.foldl_cons, merger_idem s hw, foldl_merger_rep s hw k]

/-- idempotence for any number of copies: `from_sources([d; k+1]) == from_str(d)` -/
theorem sources_idem_k {d : Doc} {s : Shape} (h : inferDoc d = .ok s) (k : Nat) :
    fromSourcesDoc (List.replicate (k + 1) d) = .ok s := by
  unfold fromSourcesDoc
  rw [inferDocList_rep h (k + 1)]
  simp [List.replicate_succ, merge, foldl_merger_rep s (infer_wf h) k]

/-- `from_sources([d, null]) == from_sources([null, d]) == optional(from_str(d))` -/
theorem sources_null {d : Doc} {s : Shape} (h : inferDoc d = .ok s) :
    fromSourcesDoc [d, .null] = .ok s.asOptional ∧ fromSourcesDoc [.null, d] = .ok s.asOptional := by
  constructor
  · rw [sources_pair h (by rfl), merge_null_right]
  · rw [sources_pair (by rfl) h, merge_null_left]

/-- `meaning(from_sources([d, e])) == meaning(from_sources([e, d]))` -/
theorem sources_comm {d e : Doc} {sd se : Shape} (hd : inferDoc d = .ok sd) (he : inferDoc e = .ok se) :
    ∃ s s', fromSourcesDoc [d, e] = .ok s ∧ fromSourcesDoc [e, d] = .ok s' ∧ meaningEq s s' :=
  ⟨_, _, sources_pair hd he, sources_pair he hd, merger_comm_sem sd se (infer_wf hd) (infer_wf he)⟩

/-- non-vacuity, and the D21 witness after the repair: both orders now give the same shape -/
example :
    merger (.tuple [.array .null true, .number false] false) (.array (.number false) false)
      = merger (.array (.number false) false) (.tuple [.array .null true, .number false] false) := by decide

end ShapeVerif
