/-
C04, the "if" half and the exact statement: every JSON text per RFC 8259 within the depth bound is
given `inferDoc` of its document by `from_str` — accepted with that shape, or rejected exactly when
`inferDoc` fails (a member name repeated with conflicting value shapes).
-/
import ShapeVerif.Props.C04Sound
import ShapeVerif.Lemmas.LexLoopComplete
import ShapeVerif.Lemmas.GrammarDet
namespace ShapeVerif
open Shape

theorem depthFrom_sig : ∀ (l : List Token) (n : Int), n ≤ 256 → depthFrom n (l.map (·.kind)) = true →
    depthFrom n ((sig l).map (·.kind)) = true
  | [], _, _, _ => rfl
  | t :: l, n, hn, h => by
    simp only [List.map_cons, depthFrom, Bool.and_eq_true, decide_eq_true_eq] at h
    by_cases hsk : isSkipTok t.kind = true
    · have : sig (t :: l) = sig l := by simp [sig, hsk]
      rw [this]
      have hk : (if (t.kind == Tok.lbrace || t.kind == Tok.lbrak) = true then n + 1
          else if (t.kind == Tok.rbrace || t.kind == Tok.rbrak) = true then n - 1 else n) = n := by
        simp only [isSkipTok, Bool.or_eq_true, beq_iff_eq] at hsk
        rcases hsk with (h' | h') | h' <;> rw [h'] <;> simp
      rw [hk] at h
      exact depthFrom_sig l n hn h.2
    · have hsk' : isSkipTok t.kind = false := by simpa using hsk
      have : sig (t :: l) = t :: sig l := by simp [sig, hsk']
      rw [this]
      simp only [List.map_cons, depthFrom, Bool.and_eq_true, decide_eq_true_eq]
      exact ⟨h.1, depthFrom_sig l _ h.1 h.2⟩

/-- **completeness**: on a JSON text within the depth bound `from_str` answers what `inferDoc` says
about its document -/
theorem json_is_inferred (src : List Char) (toks : List Token) (d : Doc) (h : JsonTextVia src toks d)
    (hdepth : depthOk (toks.map (·.kind)) = true) : fromStr src = liftS (inferDoc d) := by
  obtain ⟨htiles, htv⟩ := h
  have htv' : TValue (keyOf src) (sig toks) d := htv
  -- the lexer
  have hsp := spell_of_tiles toks 0 src htiles
  have hadj : adjOk (sig toks) = true := by
    have := value_adj htv' [] rfl (by intro b tl e; cases e)
    simpa using this
  have hd := depthFrom_sig toks 0 (by decide) hdepth
  obtain ⟨out, hlex, hsig⟩ := lexLoop_complete src.length src 0 0 0 [] (sig toks) (Nat.le_refl _) hsp hadj
    (by decide) hd
  have htk : tokenize src = ⟨out, []⟩ := by simpa [tokenize] using hlex
  have hlexd : (tokenize src).diags = [] := by rw [htk]
  have htoks : (tokenize src).tokens = out := by rw [htk]
  -- the text is not empty
  have hne : src ≠ [] := by
    rintro rfl
    obtain ⟨t, tl, e, _⟩ := first_of_value htv'
    have : sig out = [] := by
      have : out = [] := by
        have := htoks; simp [tokenize, lexLoop] at this; exact this
      rw [this]; rfl
    rw [hsig, e] at this; cases this
  -- the parser
  have lx := tokenize_ok src
  have hk := keyOk_tokenize src
  have hkinds := tokenize_kinds src
  have htokOk : TokensOk (tokenize src).tokens :=
    ⟨fun t ht => ⟨hkinds.2 hlexd t ht, hkinds.1 t ht⟩, fun t ht => (lx.toks t ht).lt⟩
  obtain ⟨sk0, sg0, hd0, hok0, hl0⟩ := takeSkips_spec (tokenize src).tokens htokOk
  have hclean : CleanSt (initState (tokenize src) (utf8Len src)) :=
    ⟨rfl, rfl, rfl, hd0, hok0, utf8Len_ne_zero hne⟩
  have hk0 : KeyOk src (keyOf src) (initState (tokenize src) (utf8Len src)).toks :=
    keyOk_of_subset hk (fun t ht => by
      have := takeSkips_yield (tokenize src).tokens
      rw [← this]; exact List.mem_append_right _ ht)
  have hs0sig : sig (initState (tokenize src) (utf8Len src)).toks = sig toks ++ [] := by
    show sig (takeSkips (tokenize src).tokens).2.1 = _
    rw [sg0, htoks, hsig]; simp
  have hfuel : 2 * (initState (tokenize src) (utf8Len src)).toks.length + 2 ≤ 2 * (tokenize src).tokens.length + 4 := by
    show 2 * (takeSkips (tokenize src).tokens).2.1.length + 2 ≤ _
    omega
  have hdone := (rules_complete src (keyOf src) _).1 _ (sig toks) [] d hclean hk0 hfuel hs0sig htv'
  have gv := (rules_sound src (keyOf src) _).1 _ hclean hk0 hfuel hdone.1
  obtain ⟨n, sk, d', ph, hitems, hsk, hvn, hev, hsigph, htvph⟩ := gv.node
  have hph : ph = sig toks := by
    rw [hdone.2] at hsigph
    have : sig (initState (tokenize src) (utf8Len src)).toks = sig toks := by simpa using hs0sig
    rw [this] at hsigph; simpa using hsigph.symm
  subst hph
  have hdd : d' = d := tvalue_unique htvph htv'
  subst hdd
  have hcur : (ruleValue (2 * (tokenize src).tokens.length + 4) (initState (tokenize src) (utf8Len src))).1.current = .eof :=
    current_of_sig_nil gv.clean hdone.2
  -- assemble `from_str`
  have hparse_diags : (parse src).diags = [] := by
    simp only [parse, parseTail, hcur, bne_self_eq_false, Bool.false_eq_true, if_false]
    rw [hdone.1]
    show (tokenize src).diags.reverse.reverse = []
    rw [hlexd]; rfl
  have hparse_root : parseCst src (parse src).root = liftS (inferDoc d') := by
    simp only [parse, parseTail, hcur, bne_self_eq_false, Bool.false_eq_true, if_false, hitems]
    exact parseCst_root src _ sk n d' sk0 hsk hvn hev
  unfold fromStr
  simp only [hparse_root, hparse_diags, rejectDiagnostics]
  cases inferDoc d' with
  | error e => simp [liftS]
  | ok s => simp [liftS]

/-- **C04, exact statement.** `from_str` returns a shape exactly for the texts that are JSON per
RFC 8259 (some cut into valid lexemes whose tokens derive `value`), keep at most 256 brackets open,
and whose document `inferDoc` accepts (no member name repeated with conflicting value shapes); and
then the shape is `inferDoc` of that document. -/
theorem accept_iff (src : List Char) (s : Shape) :
    fromStr src = .ok s ↔
      ∃ toks d, JsonTextVia src toks d ∧ depthOk (toks.map (·.kind)) = true ∧ inferDoc d = .ok s := by
  constructor
  · exact accepted_is_json src s
  · rintro ⟨toks, d, h1, h2, h3⟩
    rw [json_is_inferred src toks d h1 h2, h3]; rfl

/-- a JSON text within the depth bound is rejected only for a conflicting duplicate member name -/
theorem json_rejected_only_for_conflict (src : List Char) (toks : List Token) (d : Doc)
    (h : JsonTextVia src toks d) (hdepth : depthOk (toks.map (·.kind)) = true) (e : PErr)
    (hr : fromStr src = .err e) : ∃ ie, inferDoc d = .error ie ∧ e = inferErrToPErr ie := by
  rw [json_is_inferred src toks d h hdepth] at hr
  cases hi : inferDoc d with
  | ok s => rw [hi] at hr; simp [liftS] at hr
  | error ie => rw [hi] at hr; simp only [liftS, Outcome.err.injEq] at hr; exact ⟨ie, rfl, hr.symm⟩

end ShapeVerif

namespace ShapeVerif
open Shape

theorem fromSources_go_ok : ∀ (l : List (List Char)) (acc : List Shape),
    (∀ t ∈ l, ∃ v, fromStr t = .ok v) → ∃ vs, fromSources.go l acc = .ok vs ∧ vs.length = acc.length + l.length
  | [], acc, _ => ⟨acc.reverse, rfl, by simp⟩
  | t :: l, acc, h => by
    obtain ⟨v, hv⟩ := h t (by simp)
    obtain ⟨vs, h1, h2⟩ := fromSources_go_ok l (v :: acc) (fun x hx => h x (by simp [hx]))
    exact ⟨vs, by simp [fromSources.go, hv, h1], by simp at h2 ⊢; omega⟩

/-- a source list is accepted exactly when it is non-empty and every source is accepted -/
theorem sources_iff (srcs : List (List Char)) :
    (∃ s, fromSources srcs = .ok s) ↔ srcs ≠ [] ∧ ∀ t ∈ srcs, ∃ v, fromStr t = .ok v := by
  constructor
  · rintro ⟨s, h⟩
    refine ⟨?_, sources_accept srcs s h⟩
    rintro rfl
    simp [fromSources, fromSources.go, merge] at h
  · rintro ⟨hne, hall⟩
    obtain ⟨vs, h1, h2⟩ := fromSources_go_ok srcs [] hall
    unfold fromSources
    simp only [h1]
    cases vs with
    | nil =>
      exfalso
      cases srcs with
      | nil => exact hne rfl
      | cons a l => simp at h2
    | cons v vs' => simp [merge]

end ShapeVerif
