/-
C01 — Every source document conforms to the shape inferred from the sources; feeding one more
document never removes a previously admitted document.

Known finding D3 (see `Model/Infer.lean`, `conflictFree`): an array of objects whose elements give
one key two different value shapes keeps only the first shape. The repository's own snapshot test
pins that behaviour, so the full statement is false of the code; the theorems below are proved
under `conflictFree`, the exact complement of that class, and the negation is proved on the witness.
-/
import ShapeVerif.Lemmas.InferSound
namespace ShapeVerif
open Shape

/-- A document is a member of the shape inferred from it (outside the D3 class). -/
theorem infer_sound_C01 {d : Doc} {s : Shape} (hcf : conflictFree d = true) (h : inferDoc d = .ok s) :
    admits s d = true := infer_sound hcf h

/-- Merging never evicts: whatever either operand admits, the merge admits (all well-formed shapes). -/
theorem merger_never_evicts {a b : Shape} (ha : a.wf = true) (hb : b.wf = true) {x : Doc}
    (h : admits a x = true ∨ admits b x = true) : admits (merger a b) x = true := merger_sound ha hb h

theorem foldl_merger_wf : ∀ (ss : List Shape) (acc : Shape), acc.wf = true → wfList ss = true →
    (ss.foldl merger acc).wf = true
  | [], acc, h, _ => h
  | s :: ss, acc, h, hs => by
    simp [wfList] at hs
    exact foldl_merger_wf ss (merger acc s) (merger_wf h hs.1) hs.2

theorem foldl_merger_sound : ∀ (ss : List Shape) (acc : Shape), acc.wf = true → wfList ss = true →
    ∀ x, (admits acc x = true ∨ ∃ s ∈ ss, admits s x = true) → admits (ss.foldl merger acc) x = true
  | [], acc, _, _, x, h => by
    rcases h with h | ⟨s, hs, _⟩
    · exact h
    · cases hs
  | s :: ss, acc, ha, hs, x, h => by
    simp [wfList] at hs
    apply foldl_merger_sound ss (merger acc s) (merger_wf ha hs.1) hs.2 x
    rcases h with h | ⟨s', hs', hx⟩
    · exact Or.inl (merger_sound ha hs.1 (Or.inl h))
    · rcases List.mem_cons.1 hs' with rfl | hs'
      · exact Or.inl (merger_sound ha hs.1 (Or.inr hx))
      · exact Or.inr ⟨s', hs', hx⟩

theorem inferDocList_of_all_ok : ∀ (h : List Doc), (∀ d ∈ h, ∃ s, inferDoc d = .ok s) →
    ∃ ss, inferDocList h = .ok ss
  | [], _ => ⟨[], rfl⟩
  | d :: ds, hok => by
    obtain ⟨s, hs⟩ := hok d (by simp)
    obtain ⟨ss, hss⟩ := inferDocList_of_all_ok ds (fun d' hd' => hok d' (by simp [hd']))
    exact ⟨s :: ss, by simp [inferDocList, hs, hss]⟩

/-- **C01, main statement.** For any non-empty sequence of documents on which single-document
inference succeeds (any order, any repetition), inference from the sequence succeeds and every
document of the sequence is a member of the resulting shape. -/
theorem sources_sound (h : List Doc) (hne : h ≠ [])
    (hok : ∀ d ∈ h, ∃ s, inferDoc d = .ok s) (hcf : ∀ d ∈ h, conflictFree d = true) :
    ∃ s, fromSourcesDoc h = .ok s ∧ s.wf = true ∧ ∀ d ∈ h, admits s d = true := by
  obtain ⟨ss, hss⟩ := inferDocList_of_all_ok h hok
  have pw := inferDocList_ok h ss hss
  have hwf : wfList ss = true := by
    rw [wfList_iff]; intro s hs
    obtain ⟨d, _, hd⟩ := pw.mem_right s hs
    exact infer_wf hd
  cases ss with
  | nil =>
    have := pw.length_eq
    cases h with
    | nil => exact absurd rfl hne
    | cons _ _ => simp at this
  | cons first rest =>
    simp [wfList] at hwf
    refine ⟨rest.foldl merger first, by simp [fromSourcesDoc, hss, merge], foldl_merger_wf rest first hwf.1 hwf.2, ?_⟩
    intro d hd
    obtain ⟨s, hs, hds⟩ := pw.mem_left d hd
    have hadm : admits s d = true := infer_sound (hcf d hd) hds
    apply foldl_merger_sound rest first hwf.1 hwf.2 d
    rcases List.mem_cons.1 hs with rfl | hs
    · exact Or.inl hadm
    · exact Or.inr ⟨s, hs, hadm⟩

theorem inferDocList_append_singleton : ∀ (h : List Doc) (d : Doc) (ss : List Shape) (sd : Shape),
    inferDocList h = .ok ss → inferDoc d = .ok sd → inferDocList (h ++ [d]) = .ok (ss ++ [sd])
  | [], d, ss, sd, h1, h2 => by simp [inferDocList] at h1; subst h1; simp [inferDocList, h2]
  | x :: xs, d, ss, sd, h1, h2 => by
    simp only [inferDocList] at h1
    split at h1
    · cases h1
    · rename_i s hs
      split at h1
      · cases h1
      · rename_i ss' hss'
        cases h1
        simp [inferDocList, hs, inferDocList_append_singleton xs d ss' sd hss' h2]

theorem inferDocList_append_ok : ∀ (h : List Doc) (d : Doc) (ss' : List Shape),
    inferDocList (h ++ [d]) = .ok ss' → ∃ ss sd, inferDocList h = .ok ss ∧ inferDoc d = .ok sd
  | [], d, ss', h1 => by
    simp only [List.nil_append, inferDocList] at h1
    split at h1
    · cases h1
    · rename_i s hs; exact ⟨[], s, rfl, hs⟩
  | x :: xs, d, ss', h1 => by
    simp only [List.cons_append, inferDocList] at h1
    split at h1
    · cases h1
    · rename_i s hs
      split at h1
      · cases h1
      · rename_i ss'' hss''
        obtain ⟨ss, sd, h2, h3⟩ := inferDocList_append_ok xs d ss'' hss''
        exact ⟨s :: ss, sd, by simp [inferDocList, hs, h2], h3⟩

/-- **C01, monotonicity in the history.** Feeding one more document never removes a previously
admitted document from the shape (no side condition: holds for every history, D3 class included). -/
theorem one_more (h : List Doc) (d : Doc) (s s' : Shape) (x : Doc)
    (h1 : fromSourcesDoc h = .ok s) (h2 : fromSourcesDoc (h ++ [d]) = .ok s')
    (hx : admits s x = true) : admits s' x = true := by
  unfold fromSourcesDoc at h1 h2
  split at h2
  · cases h2
  · rename_i ss' hss'
    obtain ⟨ss, sd, hss, hsd⟩ := inferDocList_append_ok h d ss' hss'
    have := inferDocList_append_singleton h d ss sd hss hsd
    rw [this] at hss'; cases hss'
    rw [hss] at h1
    have pw := inferDocList_ok h ss hss
    have hwf : wfList ss = true := by
      rw [wfList_iff]; intro s hs
      obtain ⟨d', _, hd'⟩ := pw.mem_right s hs
      exact infer_wf hd'
    cases ss with
    | nil => simp [merge] at h1
    | cons first rest =>
      simp [merge] at h1 h2
      subst h1; subst h2
      simp [wfList] at hwf
      exact merger_sound (foldl_merger_wf rest first hwf.1 hwf.2) (infer_wf hsd) (Or.inl hx)

/-- a successful longer history has a successful prefix (inference is per document; merging never fails) -/
theorem fromSourcesDoc_prefix (h : List Doc) (d : Doc) (s' : Shape) (hne : h ≠ [])
    (h2 : fromSourcesDoc (h ++ [d]) = .ok s') : ∃ s, fromSourcesDoc h = .ok s := by
  unfold fromSourcesDoc at h2 ⊢
  split at h2
  · cases h2
  · rename_i ss' hss'
    obtain ⟨ss, sd, hss, _⟩ := inferDocList_append_ok h d ss' hss'
    rw [hss]
    have pw := inferDocList_ok h ss hss
    cases ss with
    | nil =>
      cases h with
      | nil => exact absurd rfl hne
      | cons y ys => simp [Pointwise] at pw
    | cons first rest => exact ⟨rest.foldl merger first, by simp [merge]⟩

/-- **C01, monotonicity over any extension.** Feeding any number of further documents never removes a
previously admitted document from the shape. -/
theorem many_more_aux : ∀ (n : Nat) (r : List Doc), r.length = n → ∀ (h : List Doc) (s s' : Shape) (x : Doc),
    fromSourcesDoc h = .ok s → fromSourcesDoc (h ++ r) = .ok s' → admits s x = true → admits s' x = true
  | 0, r, hr => by
    intro h s s' x h1 h2 hx
    have : r = [] := List.eq_nil_of_length_eq_zero hr
    subst this; simp at h2; rw [h1] at h2; cases h2; exact hx
  | n + 1, r, hr => by
    intro h s s' x h1 h2 hx
    have hrne : r ≠ [] := by intro e; subst e; simp at hr
    have er := List.dropLast_concat_getLast hrne
    have hl : r.dropLast.length = n := by rw [List.length_dropLast]; omega
    have hne : h ++ r.dropLast ≠ [] := by
      intro e
      have : h = [] := (List.append_eq_nil_iff.1 e).1
      subst this; simp [fromSourcesDoc, inferDocList, merge] at h1
    rw [← er, ← List.append_assoc] at h2
    obtain ⟨s1, e1⟩ := fromSourcesDoc_prefix (h ++ r.dropLast) _ s' hne h2
    exact one_more (h ++ r.dropLast) _ s1 s' x e1 h2 (many_more_aux n r.dropLast hl h s s1 x h1 e1 hx)

theorem many_more (h r : List Doc) (s s' : Shape) (x : Doc)
    (h1 : fromSourcesDoc h = .ok s) (h2 : fromSourcesDoc (h ++ r) = .ok s')
    (hx : admits s x = true) : admits s' x = true :=
  many_more_aux r.length r rfl h s s' x h1 h2 hx

/-! ### Known finding D3: the full statement is false of the code (and of the model) -/

/-- the witness: `[{"a":1},{"a":"s"}]` is not a member of its own inferred shape -/
theorem d3_counterexample :
    let d := Doc.arr [.obj [("a", .num "1")], .obj [("a", .str "s")]]
    ∃ s, inferDoc d = .ok s ∧ admits s d = false ∧ conflictFree d = false := by
  refine ⟨.array (.object [("a", .number false)] false) false, by rfl, by decide, by decide⟩

/-- non-vacuity: the hypotheses of `sources_sound` are met by a non-trivial history -/
example :
    let h := [Doc.arr [.num "1", .str "a"], .bool true, .arr [.obj [("k", .null)], .obj []], .arr []]
    h ≠ [] ∧ (∀ d ∈ h, conflictFree d = true) ∧ (∀ d ∈ h, ∃ s, inferDoc d = .ok s) := by
  refine ⟨by simp, by decide, ?_⟩
  intro d hd
  simp only [List.mem_cons, List.not_mem_nil, or_false] at hd
  rcases hd with rfl | rfl | rfl | rfl
  · exact ⟨_, rfl⟩
  · exact ⟨_, rfl⟩
  · exact ⟨_, rfl⟩
  · exact ⟨_, rfl⟩

end ShapeVerif
