/-
C09 — Accumulating sources converges: once a document is among the sources, adding it again any
number of times does not change which documents the shape admits, and the shape itself stops
changing after at most one such addition.
-/
import ShapeVerif.Lemmas.Absorb
import ShapeVerif.Props.C03
namespace ShapeVerif
open Shape Std

/-- the accumulator after `k` more copies of a shape -/
def mergeRep (a d : Shape) (k : Nat) : Shape := (List.replicate k d).foldl merger a

theorem mergeRep_succ (a d : Shape) (k : Nat) : mergeRep a d (k + 1) = merger (mergeRep a d k) d := by
  unfold mergeRep
  rw [List.replicate_succ', List.foldl_append]
  rfl

theorem mergeRep_zero (a d : Shape) : mergeRep a d 0 = a := rfl

/-- merging a shape that is already a subset: same meaning -/
theorem absorb_meaning_shapes {a d : Shape} (ha : a.wf = true) (hd : d.wf = true)
    (h : isSubset d a = true) : meaningEq (merger a d) a := by
  intro x
  apply bool_eq_of_iff
  exact ⟨fun hx => absorbed_upper ha hd h hx, fun hx => merger_sound ha hd (Or.inl hx)⟩

theorem mergeRep_props {a d : Shape} (ha : a.wf = true) (hd : d.wf = true) (hpd : d.plain = true)
    (h : isSubset d a = true) : ∀ k,
    (mergeRep a d k).wf = true ∧ isSubset d (mergeRep a d k) = true ∧ meaningEq (mergeRep a d k) a
  | 0 => ⟨ha, h, meaningEq_refl a⟩
  | k + 1 => by
    obtain ⟨w, s, m⟩ := mergeRep_props ha hd hpd h k
    rw [mergeRep_succ]
    exact ⟨merger_wf w hd, newSample hpd w hd, meaningEq_trans (absorb_meaning_shapes w hd s) m⟩

/-- **convergence of the shape**: from the first repetition on, nothing changes any more -/
theorem mergeRep_stable {a d : Shape} (ha : a.wf = true) (hd : d.wf = true) (hpd : d.plain = true)
    (h : isSubset d a = true) : ∀ k, 1 ≤ k → mergeRep a d (k + 1) = mergeRep a d k
  | 0, hk => by omega
  | k + 1, _ => by
    obtain ⟨w, s, _⟩ := mergeRep_props ha hd hpd h k
    rw [mergeRep_succ a d (k + 1), mergeRep_succ a d k]
    exact absorb_stable w hd s

theorem inferDocList_append : ∀ (h1 h2 : List Doc) (s1 s2 : List Shape),
    inferDocList h1 = .ok s1 → inferDocList h2 = .ok s2 → inferDocList (h1 ++ h2) = .ok (s1 ++ s2)
  | [], h2, s1, s2, e1, e2 => by simp [inferDocList] at e1; subst e1; simpa using e2
  | x :: xs, h2, s1, s2, e1, e2 => by
    simp only [inferDocList] at e1
    split at e1
    · cases e1
    · rename_i s hs
      split at e1
      · cases e1
      · rename_i ss hss
        cases e1
        simp [inferDocList, hs, inferDocList_append xs h2 ss s2 hss e2]

theorem inferDocList_replicate {d : Doc} {sd : Shape} (hd : inferDoc d = .ok sd) :
    ∀ k, inferDocList (List.replicate k d) = .ok (List.replicate k sd)
  | 0 => rfl
  | k + 1 => by simp [List.replicate_succ, inferDocList, hd, inferDocList_replicate hd k]

theorem fromSourcesDoc_wf {h : List Doc} {s : Shape} (hs : fromSourcesDoc h = .ok s) : s.wf = true := by
  unfold fromSourcesDoc at hs
  split at hs
  · cases hs
  · rename_i ss hss
    have pw := inferDocList_ok h ss hss
    have hwf : wfList ss = true := by
      rw [wfList_iff]; intro s hs
      obtain ⟨d, _, hd⟩ := pw.mem_right s hs
      exact infer_wf hd
    cases ss with
    | nil => simp [merge] at hs
    | cons first rest =>
      simp [merge] at hs; subst hs
      simp [wfList] at hwf
      exact foldl_merger_wf rest first hwf.1 hwf.2

/-- feeding `k` more copies of a document to a history -/
theorem sources_replicate {h : List Doc} {d : Doc} {a sd : Shape} (hne : h ≠ [])
    (ha : fromSourcesDoc h = .ok a) (hd : inferDoc d = .ok sd) (k : Nat) :
    fromSourcesDoc (h ++ List.replicate k d) = .ok (mergeRep a sd k) := by
  unfold fromSourcesDoc at ha ⊢
  split at ha
  · cases ha
  · rename_i ss hss
    rw [inferDocList_append h _ ss _ hss (inferDocList_replicate hd k)]
    cases ss with
    | nil => simp [merge] at ha
    | cons first rest =>
      simp [merge] at ha; subst ha
      simp [merge, mergeRep, List.foldl_append]

/-- **C09.** For every history `h`, every document `d` of `h` and every `k ≥ 1`:
`from_sources(h ++ [d]*k)` admits exactly the documents `from_sources(h)` admits, and
`from_sources(h ++ [d]*(k+1)) == from_sources(h ++ [d]*k)`. -/
theorem converge (h : List Doc) (d : Doc) (a : Shape) (hd : d ∈ h) (ha : fromSourcesDoc h = .ok a) :
    ∀ k, ∃ sk, fromSourcesDoc (h ++ List.replicate k d) = .ok sk ∧ meaningEq sk a ∧
      (1 ≤ k → fromSourcesDoc (h ++ List.replicate (k + 1) d) = .ok sk) := by
  intro k
  obtain ⟨sd, hsd, hsub⟩ := samples_accepted h a ha d hd
  have hne : h ≠ [] := by intro e; subst e; cases hd
  have haw := fromSourcesDoc_wf ha
  have hdw := infer_wf hsd
  have hdp := infer_plain hsd
  refine ⟨mergeRep a sd k, sources_replicate hne ha hsd k, (mergeRep_props haw hdw hdp hsub k).2.2, ?_⟩
  intro hk
  rw [sources_replicate hne ha hsd (k + 1), mergeRep_stable haw hdw hdp hsub k hk]

/-- in particular the size of the shape does not depend on how many times a document is repeated -/
theorem size_independent_of_repetitions (h : List Doc) (d : Doc) (a : Shape) (hd : d ∈ h)
    (ha : fromSourcesDoc h = .ok a) (k : Nat) (hk : 1 ≤ k) :
    fromSourcesDoc (h ++ List.replicate k d) = fromSourcesDoc (h ++ List.replicate 1 d) := by
  induction k with
  | zero => omega
  | succ k ih =>
    by_cases hk1 : 1 ≤ k
    · obtain ⟨sk, e1, _, e2⟩ := converge h d a hd ha k
      rw [e2 hk1, ← e1]; exact ih hk1
    · have : k = 0 := by omega
      subst this; rfl

/-- **C09, any re-feeding order.** After a history `h`, feeding *any* sequence `r` of documents that
are already among the sources — in any order, any number of times each, interleaved at will —
succeeds and never changes which documents the shape admits. (The shape itself may still change
between steps when different documents alternate; its meaning does not.) -/
theorem readd_any : ∀ (r h : List Doc) (a : Shape), fromSourcesDoc h = .ok a → (∀ d ∈ r, d ∈ h) →
    ∃ s, fromSourcesDoc (h ++ r) = .ok s ∧ meaningEq s a
  | [], h, a, ha, _ => ⟨a, by simpa using ha, meaningEq_refl a⟩
  | x :: r, h, a, ha, hr => by
    have hx : x ∈ h := hr x (by simp)
    obtain ⟨s1, e1, m1, _⟩ := converge h x a hx ha 1
    have e1' : fromSourcesDoc (h ++ [x]) = .ok s1 := by simpa using e1
    have hr' : ∀ d ∈ r, d ∈ h ++ [x] := fun d hd => by
      have := hr d (by simp [hd]); simp [this]
    obtain ⟨s, e, m⟩ := readd_any r (h ++ [x]) s1 e1' hr'
    exact ⟨s, by simpa using e, meaningEq_trans m m1⟩

/-- non-vacuity: a two-document history re-fed in alternation -/
example :
    let d1 := Doc.arr [.bool true, .bool false]
    let d2 := Doc.arr [.bool true, .null]
    (∃ a, fromSourcesDoc [d1, d2] = .ok a) ∧ (∀ d ∈ [d2, d1, d2, d1], d ∈ [d1, d2]) := by
  refine ⟨⟨_, rfl⟩, by simp⟩

/-- the D7 witness after the repair: `[1,2]` then `[1,"a"]` repeated — stable from the first repetition -/
example :
    let a := Shape.array (.number false) false
    let d := Shape.tuple [.number false, .string false] false
    mergeRep a d 3 = mergeRep a d 1 := by decide

end ShapeVerif
