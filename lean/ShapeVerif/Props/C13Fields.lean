/-
C13, member names: outside the recorded defect class D17 (`badFields`: some member name is not a legal
field name as it stands, is changed by snake-casing, or two member names of one object have the same
snake form) every struct of the generated module has legal, pairwise distinct field names — for every
shape, at every nesting depth. `toSnake_lower` shows the class of good names is not a technicality:
every non-empty name of lower-case ASCII letters is left unchanged by the case conversion.
-/
import ShapeVerif.Props.C14
namespace ShapeVerif
open Shape

theorem low_range {c : Char} (h : isLow c = true) : 97 ≤ c.toNat ∧ c.toNat ≤ 122 := by
  simp only [isLow, Bool.and_eq_true, decide_eq_true_eq] at h
  exact ⟨Char.le_def.1 h.1, Char.le_def.1 h.2⟩

theorem low_not_up {c : Char} (h : isLow c = true) : isUp c = false := by
  have hr := low_range h
  simp only [isUp, Bool.and_eq_false_iff, decide_eq_false_iff_not]
  right
  intro hle
  have : c.toNat ≤ 90 := Char.le_def.1 hle
  omega

theorem low_not_dig {c : Char} (h : isLow c = true) : isDig c = false := by
  have hr := low_range h
  simp only [isDig, Bool.and_eq_false_iff, decide_eq_false_iff_not]
  right
  intro hle
  have : c.toNat ≤ 57 := Char.le_def.1 hle
  omega

theorem low_not_delim {a : Char} (h : isLow a = true) : (a == '_' || a == '-' || a == ' ') = false := by
  have hr := low_range h
  simp only [Bool.or_eq_false_iff, beq_eq_false_iff_ne, ne_eq]
  refine ⟨⟨?_, ?_⟩, ?_⟩ <;> (rintro rfl; revert hr; decide)

theorem splitWords_lower : ∀ (cs cur : List Char), (cs.all isLow) = true → splitWords cs cur = [cur.reverse ++ cs]
  | [], cur, _ => by simp [splitWords]
  | [a], cur, h => by
    simp only [List.all_cons, List.all_nil, Bool.and_true] at h
    simp [splitWords, boundaryAt, low_not_delim h]
  | a :: b :: rest, cur, h => by
    have ha : isLow a = true := by simp only [List.all_cons, Bool.and_eq_true] at h; exact h.1
    have hb : isLow b = true := by simp only [List.all_cons, Bool.and_eq_true] at h; exact h.2.1
    have hrest : ((b :: rest).all isLow) = true := by simp only [List.all_cons, Bool.and_eq_true] at h ⊢; exact h.2
    have hnone : boundaryAt (a :: b :: rest) = none := by
      simp only [boundaryAt, low_not_delim ha, ha, low_not_up hb, low_not_dig hb, low_not_up ha, low_not_dig ha]
      cases rest <;> simp
    rw [splitWords, hnone]
    simp only []
    rw [splitWords_lower (b :: rest) (a :: cur) hrest]
    simp

theorem toLowerC_lower {c : Char} (h : isLow c = true) : toLowerC c = c := by
  unfold toLowerC
  simp [low_not_up h]

/-- a non-empty name of lower-case ASCII letters is its own snake form -/
theorem toSnake_lower (cs : List Char) (hne : cs ≠ []) (h : (cs.all isLow) = true) : toSnake cs = cs := by
  unfold toSnake caseWords
  have : cs.isEmpty = false := by cases cs <;> simp_all
  rw [this]
  simp only [Bool.false_eq_true, if_false]
  rw [splitWords_lower cs [] h]
  simp only [List.reverse_nil, List.nil_append, List.map_cons, List.map_nil, joinUnderscore]
  have hall : ∀ c ∈ cs, toLowerC c = c := fun c hc => toLowerC_lower (List.all_eq_true.mp h c hc)
  clear hne this h
  induction cs with
  | nil => rfl
  | cons c cs ih =>
    simp only [List.map_cons, hall c (by simp)]
    rw [ih (fun d hd => hall d (by simp [hd]))]

/-- the members of every object sub-shape of a shape outside the class D17 are usable as they stand -/
theorem goodFields_of_named_aux (n : Nat) : ∀ s : Shape, sizeOf s ≤ n → badFields s = false →
    ∀ p ∈ namedSubshapes s, ∀ c o, p.2 = .object c o →
      (c.all fun kv => fieldOk kv.1) = true ∧
        distinctStrings (c.map fun kv => String.ofList (toSnake kv.1.toList)) = true := by
  induction n with
  | zero => intro s h; cases s <;> simp at h
  | succ n ih =>
    have ihL : ∀ l : List Shape, (∀ s ∈ l, sizeOf s ≤ n) → badFieldsList l = false →
        ∀ p ∈ namedSubshapesList l, ∀ c o, p.2 = .object c o →
          (c.all fun kv => fieldOk kv.1) = true ∧
            distinctStrings (c.map fun kv => String.ofList (toSnake kv.1.toList)) = true := by
      intro l
      induction l with
      | nil => intro _ _ p hp; simp [namedSubshapesList] at hp
      | cons a l ihl =>
        intro hs hb p hp
        simp only [badFieldsList, Bool.or_eq_false_iff] at hb
        simp only [namedSubshapesList, List.mem_append] at hp
        rcases hp with hp | hp
        · exact ih a (hs a (by simp)) hb.1 p hp
        · exact ihl (fun s h => hs s (by simp [h])) hb.2 p hp
    have ihM : ∀ c : Members, (∀ kv ∈ c, sizeOf kv.2 ≤ n) → badFieldsMembers c = false →
        ∀ p ∈ namedSubshapesMembers c, ∀ c' o, p.2 = .object c' o →
          (c'.all fun kv => fieldOk kv.1) = true ∧
            distinctStrings (c'.map fun kv => String.ofList (toSnake kv.1.toList)) = true := by
      intro c
      induction c with
      | nil => intro _ _ p hp; simp [namedSubshapesMembers] at hp
      | cons a l ihl =>
        obtain ⟨k, v⟩ := a
        intro hs hb p hp
        simp only [badFieldsMembers, Bool.or_eq_false_iff] at hb
        simp only [namedSubshapesMembers, List.mem_append] at hp
        rcases hp with hp | hp
        · exact ih v (hs (k, v) (by simp)) hb.1 p hp
        · exact ihl (fun kv h => hs kv (by simp [h])) hb.2 p hp
    intro s hn hb p hp c' o' he
    cases s with
    | null => simp [namedSubshapes] at hp
    | bool o => simp [namedSubshapes] at hp
    | number o => simp [namedSubshapes] at hp
    | string o => simp [namedSubshapes] at hp
    | array t o =>
      simp only [namedSubshapes] at hp
      simp only [badFields] at hb
      exact ih t (by simp at hn; omega) hb p hp c' o' he
    | tuple es o =>
      simp only [namedSubshapes] at hp
      simp only [badFields] at hb
      exact ihL es (fun s hs => by have := List.sizeOf_lt_of_mem hs; simp at hn; omega) hb p hp c' o' he
    | oneOf vs o =>
      simp only [namedSubshapes, List.mem_cons] at hp
      simp only [badFields] at hb
      rcases hp with rfl | hp
      · cases he
      · exact ihL vs (fun s hs => by have := List.sizeOf_lt_of_mem hs; simp at hn; omega) hb p hp c' o' he
    | object c o =>
      simp only [namedSubshapes, List.mem_cons] at hp
      simp only [badFields, Bool.or_eq_false_iff, Bool.not_eq_false'] at hb
      rcases hp with rfl | hp
      · simp only [Shape.object.injEq] at he
        obtain ⟨rfl, rfl⟩ := he
        exact ⟨by simpa using hb.1.1, by simpa using hb.1.2⟩
      · refine ihM c (fun kv hkv => ?_) hb.2 p hp c' o' he
        have h1 := List.sizeOf_lt_of_mem hkv
        have h2 : sizeOf kv.2 < sizeOf kv := by cases kv; simp; omega
        simp at hn; omega

theorem fieldOk_legal {k : String} (h : fieldOk k = true) :
    legalIdent (String.ofList (toSnake k.toList)) = true := by
  simp only [fieldOk, Bool.and_eq_true, beq_iff_eq] at h
  rw [h.2]; exact h.1

/-- **legal, distinct field names**: for every shape outside the class D17, every struct of the
generated module has field names that are legal Rust identifiers (not keywords) and pairwise distinct -/
theorem fields_legal (s : Shape) (d : List String) (hb : badFields s = false) :
    ∀ it ∈ (createSubtype s d).1, ∀ n fs, it = .struct_ n fs →
      (∀ f ∈ fs, legalIdent f.1 = true) ∧ distinctStrings (fs.map (·.1)) = true := by
  intro it hit n fs he
  obtain ⟨p, hp, hpi⟩ := items_from_named s d it hit
  obtain ⟨pn, sub⟩ := p
  cases sub with
  | object c o =>
    simp only [itemOfNamed, Option.some.injEq] at hpi
    subst hpi
    simp only [structOf, GItem.struct_.injEq] at he
    obtain ⟨rfl, rfl⟩ := he
    obtain ⟨h1, h2⟩ := goodFields_of_named_aux (sizeOf s) s (Nat.le_refl _) hb (pn, .object c o) hp c o rfl
    constructor
    · intro f hf
      obtain ⟨kv, hkv, rfl⟩ := List.mem_map.1 hf
      exact fieldOk_legal (List.all_eq_true.mp h1 kv hkv)
    · simpa [List.map_map, Function.comp_def] using h2
  | oneOf vs o =>
    simp only [itemOfNamed, Option.some.injEq] at hpi
    subst hpi
    simp [enumOf] at he
  | null => simp [itemOfNamed] at hpi
  | bool o => simp [itemOfNamed] at hpi
  | number o => simp [itemOfNamed] at hpi
  | string o => simp [itemOfNamed] at hpi
  | array t o => simp [itemOfNamed] at hpi
  | tuple es o => simp [itemOfNamed] at hpi

/-- non-vacuity: lower-case names are outside D17 -/
example : badFields (.object [("id", .number false), ("tags", .array (.object [("name", .string false)] false) true)] false) = false := by
  decide

end ShapeVerif
