/-
Text-level corollaries: with `accept_iff` (C04) the theorems about document trees become theorems
about the strings given to `from_str`, `from_sources`, `is_superset`, `is_superset_checked`.
A *reading* of a text is a cut into RFC 8259 lexemes and the document they derive (scalar payloads
erased; member names unescaped), within the depth bound.
-/
import ShapeVerif.Props.C04Complete
import ShapeVerif.Props.C01
import ShapeVerif.Props.C02
import ShapeVerif.Props.C03
import ShapeVerif.Props.C07
import ShapeVerif.Props.C08
import ShapeVerif.Props.C09
import ShapeVerif.Props.C06
namespace ShapeVerif
open Shape

/-- `t` is a JSON text within the depth bound whose document is `d` -/
def Reads (t : List Char) (d : Doc) : Prop :=
  ∃ toks, JsonTextVia t toks d ∧ depthOk (toks.map (·.kind)) = true

theorem fromStr_of_reads {t : List Char} {d : Doc} (h : Reads t d) : fromStr t = liftS (inferDoc d) := by
  obtain ⟨toks, h1, h2⟩ := h
  exact json_is_inferred t toks d h1 h2

theorem reads_of_accept {t : List Char} {s : Shape} (h : fromStr t = .ok s) :
    ∃ d, Reads t d ∧ inferDoc d = .ok s := by
  obtain ⟨toks, d, h1, h2, h3⟩ := accepted_is_json t s h
  exact ⟨d, ⟨toks, h1, h2⟩, h3⟩

/-- the text-level `from_sources` is the document-level one on the readings -/
theorem fromSources_go_reads : ∀ (ps : List (List Char × Doc)) (acc : List Shape), (∀ p ∈ ps, Reads p.1 p.2) →
    fromSources.go (ps.map (·.1)) acc =
      match inferDocList (ps.map (·.2)) with
      | .ok ss => .ok (acc.reverse ++ ss)
      | .error e => .err (inferErrToPErr e)
  | [], acc, _ => by simp [fromSources.go, inferDocList]
  | (t, d) :: ps, acc, h => by
    have h1 := fromStr_of_reads (h (t, d) (by simp))
    simp only [List.map_cons, fromSources.go, inferDocList, h1]
    cases hi : inferDoc d with
    | error e => simp [liftS]
    | ok s =>
      simp only [liftS]
      rw [fromSources_go_reads ps (s :: acc) (fun p hp => h p (by simp [hp]))]
      cases inferDocList (ps.map (·.2)) with
      | error e => rfl
      | ok ss => simp

theorem fromSources_reads (ps : List (List Char × Doc)) (h : ∀ p ∈ ps, Reads p.1 p.2) (s : Shape) :
    fromSources (ps.map (·.1)) = .ok s ↔ fromSourcesDoc (ps.map (·.2)) = .ok s := by
  unfold fromSources fromSourcesDoc
  rw [fromSources_go_reads ps [] h]
  cases inferDocList (ps.map (·.2)) with
  | error e => simp
  | ok ss =>
    simp only [List.reverse_nil, List.nil_append]
    cases merge ss with
    | error e => simp
    | ok v => simp

/-- **C01 on texts**: every source text that `from_sources` accepted has a reading whose document the
inferred shape admits (for conflict-free documents: known finding D3 is the complement) -/
theorem sources_sound_text (ps : List (List Char × Doc)) (h : ∀ p ∈ ps, Reads p.1 p.2) (s : Shape)
    (hs : fromSources (ps.map (·.1)) = .ok s) (hcf : ∀ p ∈ ps, conflictFree p.2 = true) :
    ∀ p ∈ ps, admits s p.2 = true := by
  have hdoc := (fromSources_reads ps h s).1 hs
  have hne : ps.map (·.2) ≠ [] := by
    intro e
    rw [e] at hdoc
    simp [fromSourcesDoc, inferDocList, merge] at hdoc
  have hok : ∀ d ∈ ps.map (·.2), ∃ v, inferDoc d = .ok v := by
    intro d hd
    obtain ⟨sd, h1, _⟩ := samples_accepted _ s hdoc d hd
    exact ⟨sd, h1⟩
  obtain ⟨s', h1, _, h3⟩ := sources_sound (ps.map (·.2)) hne hok (by
    intro d hd; obtain ⟨p, hp, rfl⟩ := List.mem_map.1 hd; exact hcf p hp)
  rw [hdoc] at h1
  cases h1
  intro p hp
  exact h3 p.2 (List.mem_map.2 ⟨p, hp, rfl⟩)

/-- **C02 on texts**: a `true` answer of `is_superset` (or `Ok(true)` of the checked variant) means the
text is JSON and the shape admits its document -/
theorem superset_sound_text (sh : Shape) (hw : sh.wf = true) (t : List Char)
    (h : isSuperset sh t = .ok true ∨ isSupersetChecked sh t = .ok true) :
    ∃ d, Reads t d ∧ (conflictFree d = true → admits sh d = true) := by
  have : ∃ v, fromStr t = .ok v ∧ isSubset v sh = true := by
    rcases h with h | h
    · unfold isSuperset at h
      cases hf : fromStr t with
      | ok v => simp [hf] at h; exact ⟨v, rfl, h⟩
      | err e => simp [hf] at h
      | panic => simp [hf] at h
    · unfold isSupersetChecked at h
      cases hf : fromStr t with
      | ok v => simp [hf] at h; exact ⟨v, rfl, h⟩
      | err e => simp [hf] at h
      | panic => simp [hf] at h
  obtain ⟨v, hv, hsub⟩ := this
  obtain ⟨d, hr, hi⟩ := reads_of_accept hv
  exact ⟨d, hr, fun hcf => subset_sound v sh hw hsub d (infer_sound hcf hi)⟩

/-- **C03 on texts**: the shape inferred from a set of source texts accepts each of them, through
both validation entry points -/
theorem superset_of_sample_text (ps : List (List Char × Doc)) (h : ∀ p ∈ ps, Reads p.1 p.2) (s : Shape)
    (hs : fromSources (ps.map (·.1)) = .ok s) :
    ∀ p ∈ ps, isSuperset s p.1 = .ok true ∧ isSupersetChecked s p.1 = .ok true := by
  have hdoc := (fromSources_reads ps h s).1 hs
  intro p hp
  obtain ⟨sd, h1, h2⟩ := samples_accepted _ s hdoc p.2 (List.mem_map.2 ⟨p, hp, rfl⟩)
  have hf : fromStr p.1 = .ok sd := by rw [fromStr_of_reads (h p hp), h1]; rfl
  simp [isSuperset, isSupersetChecked, hf, h2]

/-- **C07 on texts**: two JSON texts whose documents differ only by the rewrites of the property
(whitespace and lexical forms of scalars do not even reach the document; member order, number of
copies, payloads are the `Rerender` relation) are given the same shape, or are both rejected -/
theorem render_independent {t t' : List Char} {d d' : Doc} (h : Reads t d) (h' : Reads t' d')
    (hr : Rerender d d') (s : Shape) : fromStr t = .ok s ↔ fromStr t' = .ok s := by
  rw [fromStr_of_reads h, fromStr_of_reads h']
  have := rerender_same_shape hr s
  cases h1 : inferDoc d with
  | ok v =>
    cases h2 : inferDoc d' with
    | ok v' =>
      simp only [liftS, Outcome.ok.injEq]
      constructor
      · rintro rfl; have := (this.1 (by rw [h1])); rw [h2] at this; cases this; rfl
      · rintro rfl; have := (this.2 (by rw [h2])); rw [h1] at this; cases this; rfl
    | error e =>
      simp only [liftS]
      constructor
      · rintro ⟨rfl⟩; have := (this.1 (by rw [h1])); rw [h2] at this; cases this
      · intro hh; cases hh
  | error e =>
    cases h2 : inferDoc d' with
    | ok v' =>
      simp only [liftS]
      constructor
      · intro hh; cases hh
      · rintro ⟨rfl⟩; have := (this.2 (by rw [h2])); rw [h1] at this; cases this
    | error e' => simp [liftS]

/-- texts with the same document (they differ in whitespace, in the lexical form of numbers and
strings, in escapes inside member names that denote the same name) get the same result -/
theorem same_document_same_result {t t' : List Char} {d : Doc} (h : Reads t d) (h' : Reads t' d) :
    fromStr t = fromStr t' := by
  rw [fromStr_of_reads h, fromStr_of_reads h']

theorem inferDoc_of_reads {t : List Char} {d : Doc} (h : Reads t d) {s : Shape} (hs : fromStr t = .ok s) :
    inferDoc d = .ok s := by
  rw [fromStr_of_reads h] at hs
  cases hi : inferDoc d with
  | ok v => rw [hi] at hs; simp only [liftS, Outcome.ok.injEq] at hs; rw [hs]
  | error e => rw [hi] at hs; simp [liftS] at hs

theorem fromSources_pair_reads {t u : List Char} {d e : Doc} (ht : Reads t d) (hu : Reads u e) (s : Shape) :
    fromSources [t, u] = .ok s ↔ fromSourcesDoc [d, e] = .ok s :=
  fromSources_reads [(t, d), (u, e)] (by
    intro p hp
    simp only [List.mem_cons, List.not_mem_nil, or_false] at hp
    rcases hp with rfl | rfl
    · exact ht
    · exact hu) s

/-- **C08 on texts**: `from_sources([t, t]) == from_str(t)` -/
theorem sources_idem_text {t : List Char} {d : Doc} (h : Reads t d) {s : Shape} (hs : fromStr t = .ok s) :
    fromSources [t, t] = .ok s :=
  (fromSources_pair_reads h h s).2 (sources_idem (inferDoc_of_reads h hs))

/-- **C08 on texts**: any number of copies of one source text give the shape of the text -/
theorem sources_idem_k_text {t : List Char} {d : Doc} (h : Reads t d) {s : Shape} (hs : fromStr t = .ok s)
    (k : Nat) : fromSources (List.replicate (k + 1) t) = .ok s := by
  have := (fromSources_reads (List.replicate (k + 1) (t, d)) (by
    intro p hp; rw [(List.mem_replicate.1 hp).2]; exact h) s).2 (by
    simpa using sources_idem_k (inferDoc_of_reads h hs) k)
  simpa using this

/-- **C08 on texts**: merging with a text that reads as `null`, on either side, gives exactly the
optional form -/
theorem sources_null_text {t tn : List Char} {d : Doc} (h : Reads t d) (hn : Reads tn .null) {s : Shape}
    (hs : fromStr t = .ok s) :
    fromSources [t, tn] = .ok s.asOptional ∧ fromSources [tn, t] = .ok s.asOptional := by
  have := sources_null (inferDoc_of_reads h hs)
  exact ⟨(fromSources_pair_reads h hn _).2 this.1, (fromSources_pair_reads hn h _).2 this.2⟩

/-- **C08 on texts**: both orders of two source texts admit the same documents -/
theorem sources_comm_text {t u : List Char} {d e : Doc} (ht : Reads t d) (hu : Reads u e) {sd se : Shape}
    (hd : fromStr t = .ok sd) (he : fromStr u = .ok se) :
    ∃ s s', fromSources [t, u] = .ok s ∧ fromSources [u, t] = .ok s' ∧ meaningEq s s' := by
  obtain ⟨s, s', h1, h2, h3⟩ := sources_comm (inferDoc_of_reads ht hd) (inferDoc_of_reads hu he)
  exact ⟨s, s', (fromSources_pair_reads ht hu s).2 h1, (fromSources_pair_reads hu ht s').2 h2, h3⟩

/-- **C09 on texts**: once a text is among the sources, feeding it again any number of times keeps
the meaning of the shape, and the shape itself is stable from the first repetition on -/
theorem converge_text (ps : List (List Char × Doc)) (h : ∀ p ∈ ps, Reads p.1 p.2) (p : List Char × Doc) (hp : p ∈ ps)
    (a : Shape) (ha : fromSources (ps.map (·.1)) = .ok a) :
    ∀ k, ∃ sk, fromSources (ps.map (·.1) ++ List.replicate k p.1) = .ok sk ∧ meaningEq sk a ∧
      (1 ≤ k → fromSources (ps.map (·.1) ++ List.replicate (k + 1) p.1) = .ok sk) := by
  intro k
  have hdoc := (fromSources_reads ps h a).1 ha
  obtain ⟨sk, h1, h2, h3⟩ := converge (ps.map (·.2)) p.2 a (List.mem_map.2 ⟨p, hp, rfl⟩) hdoc k
  have hall : ∀ n, ∀ q ∈ ps ++ List.replicate n p, Reads q.1 q.2 := by
    intro n q hq
    rcases List.mem_append.1 hq with hq | hq
    · exact h q hq
    · rw [(List.mem_replicate.1 hq).2]; exact h p hp
  have e1 : ∀ n, (ps ++ List.replicate n p).map (·.1) = ps.map (·.1) ++ List.replicate n p.1 := by
    intro n; simp
  have e2 : ∀ n, (ps ++ List.replicate n p).map (·.2) = ps.map (·.2) ++ List.replicate n p.2 := by
    intro n; simp
  refine ⟨sk, ?_, h2, ?_⟩
  · have := (fromSources_reads (ps ++ List.replicate k p) (hall k) sk).2 (by rw [e2]; exact h1)
    rwa [e1] at this
  · intro hk
    have := (fromSources_reads (ps ++ List.replicate (k + 1) p) (hall (k + 1)) sk).2 (by rw [e2]; exact h3 hk)
    rwa [e1] at this

/-- **C01 on texts, any extension**: feeding any further source texts never removes a previously
admitted document from the shape -/
theorem many_more_text (ps rs : List (List Char × Doc)) (h : ∀ p ∈ ps ++ rs, Reads p.1 p.2)
    (s s' : Shape) (x : Doc) (h1 : fromSources (ps.map (·.1)) = .ok s)
    (h2 : fromSources (ps.map (·.1) ++ rs.map (·.1)) = .ok s') (hx : admits s x = true) :
    admits s' x = true := by
  have e1 := (fromSources_reads ps (fun p hp => h p (List.mem_append.2 (Or.inl hp))) s).1 h1
  have e2 := (fromSources_reads (ps ++ rs) h s').1 (by simpa using h2)
  exact many_more (ps.map (·.2)) (rs.map (·.2)) s s' x e1 (by simpa using e2) hx

/-- **C09 on texts, any re-feeding order**: after the source texts `ps`, feeding any sequence `rs` of
texts that are already among the sources (any order, any multiplicity, interleaved) succeeds and keeps
the meaning of the shape -/
theorem readd_any_text (ps rs : List (List Char × Doc)) (h : ∀ p ∈ ps, Reads p.1 p.2)
    (hr : ∀ p ∈ rs, p ∈ ps) (a : Shape) (ha : fromSources (ps.map (·.1)) = .ok a) :
    ∃ s, fromSources (ps.map (·.1) ++ rs.map (·.1)) = .ok s ∧ meaningEq s a := by
  have hdoc := (fromSources_reads ps h a).1 ha
  obtain ⟨s, h1, h2⟩ := readd_any (rs.map (·.2)) (ps.map (·.2)) a hdoc (by
    intro d hd
    obtain ⟨q, hq, rfl⟩ := List.mem_map.1 hd
    exact List.mem_map.2 ⟨q, hr q hq, rfl⟩)
  have hall : ∀ q ∈ ps ++ rs, Reads q.1 q.2 := by
    intro q hq
    rcases List.mem_append.1 hq with hq | hq
    · exact h q hq
    · exact h q (hr q hq)
  refine ⟨s, ?_, h2⟩
  have := (fromSources_reads (ps ++ rs) hall s).2 (by simpa using h1)
  simpa using this

/-- **C06 on texts**: for a JSON text whose document has no repeated member names, the shape
`from_str` infers is the shape the value path infers from the text's value (`d.toSVal`: members sorted
by name — the model of what `serde_json::from_str::<Value>` returns for the text, compared with the
real `serde_json` on every generated text) -/
theorem paths_agree_text {t : List Char} {d : Doc} (h : Reads t d) (hnd : d.noDupKeys = true) {s : Shape}
    (hs : fromStr t = .ok s) : inferSVal d.toSVal = s :=
  paths_agree d s hnd (inferDoc_of_reads h hs)

end ShapeVerif
