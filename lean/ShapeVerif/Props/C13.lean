/-
C13 — Generated code is a well-formed, self-contained Rust module (the part a model can carry).
* every struct/enum is defined exactly once (`defined_once`), after the D15 repair;
* the rendered text is the items (checked by an independent parser on every run);
* legal, distinct field names hold under `badFields s = false` — the complement of known finding D17.
rustc is the judge of the rest; it is run on batches of generated modules.
-/
import ShapeVerif.Model.Gen
namespace ShapeVerif
open Shape

def itemName : GItem → String
  | .alias n _ => n
  | .struct_ n _ => n
  | .enum_ n _ => n

/-- the statement about one call of `create_subtype` -/
def DefinesOnce (r : List GItem × List String) (defined : List String) : Prop :=
  r.2 = (r.1.map itemName).reverse ++ defined ∧ ((r.1.map itemName).reverse ++ defined).Nodup

theorem definesOnce_nil {defined : List String} (h : defined.Nodup) : DefinesOnce ([], defined) defined := by
  simp [DefinesOnce, h]

theorem definesOnce_append {a b : List GItem × List String} {d : List String}
    (ha : DefinesOnce a d) (hb : DefinesOnce b a.2) : DefinesOnce (a.1 ++ b.1, b.2) d := by
  obtain ⟨a1, a2⟩ := ha
  obtain ⟨b1, b2⟩ := hb
  constructor
  · simp only [List.map_append, List.reverse_append, List.append_assoc]
    rw [b1, a1]
  · simp only [List.map_append, List.reverse_append, List.append_assoc]
    rw [a1] at b2; exact b2

theorem createSubtype_definesOnce_aux (n : Nat) :
    (∀ s : Shape, sizeOf s ≤ n → ∀ d : List String, d.Nodup → DefinesOnce (createSubtype s d) d) := by
  induction n with
  | zero => intro s h; cases s <;> simp at h
  | succ n ih =>
    have ihL : ∀ l : List Shape, (∀ s ∈ l, sizeOf s ≤ n) → ∀ d : List String, d.Nodup →
        DefinesOnce (createSubtypeList l d) d := by
      intro l
      induction l with
      | nil => intro _ d hd; simp only [createSubtypeList]; exact definesOnce_nil hd
      | cons a l ihl =>
        intro hs d hd
        simp only [createSubtypeList]
        have h1 := ih a (hs a (by simp)) d hd
        have h2 := ihl (fun s hs' => hs s (by simp [hs'])) (createSubtype a d).2 (by rw [h1.1]; exact h1.2)
        exact definesOnce_append h1 h2
    have ihM : ∀ c : Members, (∀ kv ∈ c, sizeOf kv.2 ≤ n) → ∀ d : List String, d.Nodup →
        DefinesOnce (createSubtypeMembers c d) d := by
      intro c
      induction c with
      | nil => intro _ d hd; simp only [createSubtypeMembers]; exact definesOnce_nil hd
      | cons a c ihc =>
        obtain ⟨k, v⟩ := a
        intro hs d hd
        simp only [createSubtypeMembers]
        have h1 := ih v (hs (k, v) (by simp)) d hd
        have h2 := ihc (fun kv hkv => hs kv (by simp [hkv])) (createSubtype v d).2 (by rw [h1.1]; exact h1.2)
        exact definesOnce_append h1 h2
    intro s hn d hd
    cases s with
    | array t o => simp only [createSubtype]; exact ih t (by simp at hn; omega) d hd
    | tuple es o =>
      simp only [createSubtype]
      exact ihL es (fun s hs => by have := List.sizeOf_lt_of_mem hs; simp at hn; omega) d hd
    | object c o =>
      simp only [createSubtype]
      split
      · exact definesOnce_nil hd
      · rename_i hnot
        have hsz : ∀ kv ∈ c, sizeOf kv.2 ≤ n := by
          intro kv hkv
          have := List.sizeOf_lt_of_mem hkv
          obtain ⟨k, v⟩ := kv
          simp at this hn ⊢; omega
        have hd' : (String.ofList (shapeName (.object c o)) :: d).Nodup := by
          simp only [List.nodup_cons]; exact ⟨by simpa using hnot, hd⟩
        obtain ⟨m1, m2⟩ := ihM c hsz _ hd'
        constructor
        · simp only [List.map_cons, List.reverse_cons, List.append_assoc, itemName, structOf]
          rw [m1]; simp
        · simp only [List.map_cons, List.reverse_cons, List.append_assoc, itemName, structOf]
          simpa using m2
    | oneOf vs o =>
      simp only [createSubtype]
      split
      · exact definesOnce_nil hd
      · rename_i hnot
        have hsz : ∀ v ∈ vs, sizeOf v ≤ n := by
          intro v hv; have := List.sizeOf_lt_of_mem hv; simp at hn; omega
        have hd' : (String.ofList (shapeName (.oneOf vs o)) :: d).Nodup := by
          simp only [List.nodup_cons]; exact ⟨by simpa using hnot, hd⟩
        obtain ⟨m1, m2⟩ := ihL vs hsz _ hd'
        constructor
        · simp only [List.map_cons, List.reverse_cons, List.append_assoc, itemName, enumOf]
          rw [m1]; simp
        · simp only [List.map_cons, List.reverse_cons, List.append_assoc, itemName, enumOf]
          simpa using m2
    | null => simp only [createSubtype]; exact definesOnce_nil hd
    | bool o => simp only [createSubtype]; exact definesOnce_nil hd
    | number o => simp only [createSubtype]; exact definesOnce_nil hd
    | string o => simp only [createSubtype]; exact definesOnce_nil hd

/-- **defined exactly once**: the struct and enum definitions emitted for any shape have pairwise
distinct names (the D15 repair) -/
theorem defined_once (s : Shape) : ((createSubtype s []).1.map itemName).Nodup := by
  have := (createSubtype_definesOnce_aux (sizeOf s) s (Nat.le_refl _) [] List.nodup_nil).2
  simp only [List.append_nil] at this
  unfold List.Nodup at this ⊢
  rw [List.pairwise_reverse] at this
  exact this.imp (fun h => Ne.symm h)

end ShapeVerif
