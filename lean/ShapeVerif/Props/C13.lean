/-
C13 — Generated code is a well-formed, self-contained Rust module (the part a model can carry).
* every struct/enum is defined exactly once (`defined_once`), after the D15 repair;
* the rendered text is the items (checked by an independent parser on every run);
* legal, distinct field names hold under `badFields s = false` — the complement of known finding D17.
rustc is the judge of the rest; it is run on batches of generated modules.
-/
import ShapeVerif.Model.Gen
namespace ShapeVerif
open Shape

def itemName : GItem → String
  | .alias n _ => n
  | .struct_ n _ => n
  | .enum_ n _ => n

/-- the statement about one call of `create_subtype` -/
def DefinesOnce (r : List GItem × List String) (defined : List String) : Prop :=
  r.2 = (r.1.map itemName).reverse ++ defined ∧ ((r.1.map itemName).reverse ++ defined).Nodup

theorem definesOnce_nil {defined : List String} (h : defined.Nodup) : DefinesOnce ([], defined) defined := by
  simp [DefinesOnce, h]

theorem definesOnce_append {a b : List GItem × List String} {d : List String}
    (ha : DefinesOnce a d) (hb : DefinesOnce b a.2) : DefinesOnce (a.1 ++ b.1, b.2) d := by
  obtain ⟨a1, a2⟩ := ha
  obtain ⟨b1, b2⟩ := hb
  constructor
  · simp only [List.map_append, List.reverse_append, List.append_assoc]
    rw [b1, a1]
  · simp only [List.map_append, List.reverse_append, List.append_assoc]
    rw [a1] at b2; exact b2

theorem createSubtype_definesOnce_aux (n : Nat) :
    (∀ s : Shape, sizeOf s ≤ n → ∀ d : List String, d.Nodup → DefinesOnce (createSubtype s d) d) := by
  induction n with
  | zero => intro s h; cases s <;> simp at h
  | succ n ih =>
    have ihL : ∀ l : List Shape, (∀ s ∈ l, sizeOf s ≤ n) → ∀ d : List String, d.Nodup →
        DefinesOnce (createSubtypeList l d) d := by
      intro l
      induction l with
      | nil => intro _ d hd; simp only [createSubtypeList]; exact definesOnce_nil hd
      | cons a l ihl =>
        intro hs d hd
        simp only [createSubtypeList]
        have h1 := ih a (hs a (by simp)) d hd
        have h2 := ihl (fun s hs' => hs s (by simp [hs'])) (createSubtype a d).2 (by rw [h1.1]; exact h1.2)
        exact definesOnce_append h1 h2
    have ihM : ∀ c : Members, (∀ kv ∈ c, sizeOf kv.2 ≤ n) → ∀ d : List String, d.Nodup →
        DefinesOnce (createSubtypeMembers c d) d := by
      intro c
      induction c with
      | nil => intro _ d hd; simp only [createSubtypeMembers]; exact definesOnce_nil hd
      | cons a c ihc =>
        obtain ⟨k, v⟩ := a
        intro hs d hd
        simp only [createSubtypeMembers]
        have h1 := ih v (hs (k, v) (by simp)) d hd
        have h2 := ihc (fun kv hkv => hs kv (by simp [hkv])) (createSubtype v d).2 (by rw [h1.1]; exact h1.2)
        exact definesOnce_append h1 h2
    intro s hn d hd
    cases s with
    | array t o => simp only [createSubtype]; exact ih t (by simp at hn; omega) d hd
    | tuple es o =>
      simp only [createSubtype]
      exact ihL es (fun s hs => by have := List.sizeOf_lt_of_mem hs; simp at hn; omega) d hd
    | object c o =>
      simp only [createSubtype]
      split
      · exact definesOnce_nil hd
      · rename_i hnot
        have hsz : ∀ kv ∈ c, sizeOf kv.2 ≤ n := by
          intro kv hkv
          have := List.sizeOf_lt_of_mem hkv
          obtain ⟨k, v⟩ := kv
          simp at this hn ⊢; omega
        have hd' : (String.ofList (shapeName (.object c o)) :: d).Nodup := by
          simp only [List.nodup_cons]; exact ⟨by simpa using hnot, hd⟩
        obtain ⟨m1, m2⟩ := ihM c hsz _ hd'
        constructor
        · simp only [List.map_cons, List.reverse_cons, List.append_assoc, itemName, structOf]
          rw [m1]; simp
        · simp only [List.map_cons, List.reverse_cons, List.append_assoc, itemName, structOf]
          simpa using m2
    | oneOf vs o =>
      simp only [createSubtype]
      split
      · exact definesOnce_nil hd
      · rename_i hnot
        have hsz : ∀ v ∈ vs, sizeOf v ≤ n := by
          intro v hv; have := List.sizeOf_lt_of_mem hv; simp at hn; omega
        have hd' : (String.ofList (shapeName (.oneOf vs o)) :: d).Nodup := by
          simp only [List.nodup_cons]; exact ⟨by simpa using hnot, hd⟩
        obtain ⟨m1, m2⟩ := ihL vs hsz _ hd'
        constructor
        · simp only [List.map_cons, List.reverse_cons, List.append_assoc, itemName, enumOf]
          rw [m1]; simp
        · simp only [List.map_cons, List.reverse_cons, List.append_assoc, itemName, enumOf]
          simpa using m2
    | null => simp only [createSubtype]; exact definesOnce_nil hd
    | bool o => simp only [createSubtype]; exact definesOnce_nil hd
    | number o => simp only [createSubtype]; exact definesOnce_nil hd
    | string o => simp only [createSubtype]; exact definesOnce_nil hd

/-- **defined exactly once**: the struct and enum definitions emitted for any shape have pairwise
distinct names (the D15 repair) -/
theorem defined_once (s : Shape) : ((createSubtype s []).1.map itemName).Nodup := by
  have := (createSubtype_definesOnce_aux (sizeOf s) s (Nat.le_refl _) [] List.nodup_nil).2
  simp only [List.append_nil] at this
  unfold List.Nodup at this ⊢
  rw [List.pairwise_reverse] at this
  exact this.imp (fun h => Ne.symm h)

/-! ### every referenced type is defined -/

mutual
/-- the named types a type expression refers to -/
def refsTy : Ty → List String
  | .named n => [n]
  | .option t => refsTy t
  | .vec t => refsTy t
  | .tuple ts => refsTys ts
  | _ => []
def refsTys : List Ty → List String
  | [] => []
  | t :: ts => refsTy t ++ refsTys ts
end

def itemRefs : GItem → List String
  | .alias _ t => refsTy t
  | .struct_ _ fs => refsTys (fs.map (·.2))
  | .enum_ _ vs => refsTys (vs.map (·.2))

/-- what one call of `create_subtype` guarantees about names: nothing already defined is forgotten,
the type written for the shape itself and every type inside the emitted items is defined afterwards -/
def Covers (s : Shape) (d : List String) (r : List GItem × List String) : Prop :=
  (∀ x ∈ d, x ∈ r.2) ∧ (∀ x ∈ refsTy (shapeRepr s), x ∈ r.2) ∧ (∀ it ∈ r.1, ∀ x ∈ itemRefs it, x ∈ r.2)

def CoversList (l : List Shape) (d : List String) (r : List GItem × List String) : Prop :=
  (∀ x ∈ d, x ∈ r.2) ∧ (∀ x ∈ refsTys (shapeReprList l), x ∈ r.2) ∧ (∀ it ∈ r.1, ∀ x ∈ itemRefs it, x ∈ r.2)

theorem refs_structOf (name : String) (c : Members) :
    itemRefs (structOf name c) = refsTys (shapeReprList (c.map (·.2))) := by
  simp only [itemRefs, structOf, List.map_map]
  congr 1
  induction c with
  | nil => rfl
  | cons kv c ih => simp [shapeReprList, ih]

theorem refs_enumOf (name : String) (vs : List Shape) :
    itemRefs (enumOf name vs) = refsTys (shapeReprList vs) := by
  simp only [itemRefs, enumOf, List.map_map]
  congr 1
  induction vs with
  | nil => rfl
  | cons v vs ih => simp [shapeReprList, ih]

theorem createSubtype_covers_aux (n : Nat) :
    ∀ s : Shape, sizeOf s ≤ n → ∀ d : List String, Covers s d (createSubtype s d) := by
  induction n with
  | zero => intro s h; cases s <;> simp at h
  | succ n ih =>
    have ihL : ∀ l : List Shape, (∀ s ∈ l, sizeOf s ≤ n) → ∀ d : List String,
        CoversList l d (createSubtypeList l d) := by
      intro l
      induction l with
      | nil => intro _ d; simp [CoversList, createSubtypeList, shapeReprList, refsTys]
      | cons a l ihl =>
        intro hs d
        simp only [createSubtypeList]
        obtain ⟨a1, a2, a3⟩ := ih a (hs a (by simp)) d
        obtain ⟨b1, b2, b3⟩ := ihl (fun s hs' => hs s (by simp [hs'])) (createSubtype a d).2
        refine ⟨fun x hx => b1 x (a1 x hx), ?_, ?_⟩
        · intro x hx
          simp only [shapeReprList, refsTys, List.mem_append] at hx
          rcases hx with hx | hx
          · exact b1 x (a2 x hx)
          · exact b2 x hx
        · intro it hit x hx
          rcases List.mem_append.1 hit with hit | hit
          · exact b1 x (a3 it hit x hx)
          · exact b3 it hit x hx
    have ihM : ∀ c : Members, (∀ kv ∈ c, sizeOf kv.2 ≤ n) → ∀ d : List String,
        CoversList (c.map (·.2)) d (createSubtypeMembers c d) := by
      intro c
      induction c with
      | nil => intro _ d; simp [CoversList, createSubtypeMembers, shapeReprList, refsTys]
      | cons a c ihc =>
        obtain ⟨k, v⟩ := a
        intro hs d
        simp only [createSubtypeMembers, List.map_cons]
        obtain ⟨a1, a2, a3⟩ := ih v (hs (k, v) (by simp)) d
        obtain ⟨b1, b2, b3⟩ := ihc (fun kv hkv => hs kv (by simp [hkv])) (createSubtype v d).2
        refine ⟨fun x hx => b1 x (a1 x hx), ?_, ?_⟩
        · intro x hx
          simp only [shapeReprList, refsTys, List.mem_append] at hx
          rcases hx with hx | hx
          · exact b1 x (a2 x hx)
          · exact b2 x hx
        · intro it hit x hx
          rcases List.mem_append.1 hit with hit | hit
          · exact b1 x (a3 it hit x hx)
          · exact b3 it hit x hx
    intro s hn d
    cases s with
    | null => simp [Covers, createSubtype, shapeRepr, refsTy]
    | bool o => cases o <;> simp [Covers, createSubtype, shapeRepr, refsTy]
    | number o => cases o <;> simp [Covers, createSubtype, shapeRepr, refsTy]
    | string o => cases o <;> simp [Covers, createSubtype, shapeRepr, refsTy]
    | array t o =>
      obtain ⟨a1, a2, a3⟩ := ih t (by simp at hn; omega) d
      simp only [createSubtype]
      refine ⟨a1, ?_, a3⟩
      cases o <;> simpa [shapeRepr, refsTy] using a2
    | tuple es o =>
      obtain ⟨a1, a2, a3⟩ := ihL es (fun s hs => by have := List.sizeOf_lt_of_mem hs; simp at hn; omega) d
      simp only [createSubtype]
      refine ⟨a1, ?_, a3⟩
      cases o <;> simpa [shapeRepr, refsTy] using a2
    | object c o =>
      have hsz : ∀ kv ∈ c, sizeOf kv.2 ≤ n := by
        intro kv hkv
        have := List.sizeOf_lt_of_mem hkv
        obtain ⟨k, v⟩ := kv
        simp at this hn ⊢; omega
      have hrefs : refsTy (shapeRepr (.object c o)) = [String.ofList (shapeName (.object c o))] := by
        cases o <;> simp [shapeRepr, refsTy]
      simp only [createSubtype]
      split
      · rename_i hc
        refine ⟨fun x hx => hx, ?_, by simp⟩
        intro x hx
        rw [hrefs] at hx
        simp only [List.mem_singleton] at hx
        subst hx
        simpa using hc
      · obtain ⟨b1, b2, b3⟩ := ihM c hsz (String.ofList (shapeName (.object c o)) :: d)
        refine ⟨fun x hx => b1 x (by simp [hx]), ?_, ?_⟩
        · intro x hx
          rw [hrefs] at hx
          simp only [List.mem_singleton] at hx
          subst hx
          exact b1 _ (by simp)
        · intro it hit x hx
          rcases List.mem_cons.1 hit with rfl | hit
          · rw [refs_structOf] at hx; exact b2 x hx
          · exact b3 it hit x hx
    | oneOf vs o =>
      have hsz : ∀ v ∈ vs, sizeOf v ≤ n := by
        intro v hv; have := List.sizeOf_lt_of_mem hv; simp at hn; omega
      have hrefs : refsTy (shapeRepr (.oneOf vs o)) = [String.ofList (shapeName (.oneOf vs o))] := by
        cases o <;> simp [shapeRepr, refsTy]
      simp only [createSubtype]
      split
      · rename_i hc
        refine ⟨fun x hx => hx, ?_, by simp⟩
        intro x hx
        rw [hrefs] at hx
        simp only [List.mem_singleton] at hx
        subst hx
        simpa using hc
      · obtain ⟨b1, b2, b3⟩ := ihL vs hsz (String.ofList (shapeName (.oneOf vs o)) :: d)
        refine ⟨fun x hx => b1 x (by simp [hx]), ?_, ?_⟩
        · intro x hx
          rw [hrefs] at hx
          simp only [List.mem_singleton] at hx
          subst hx
          exact b1 _ (by simp)
        · intro it hit x hx
          rcases List.mem_cons.1 hit with rfl | hit
          · rw [refs_enumOf] at hx; exact b2 x hx
          · exact b3 it hit x hx

theorem createSubtype_covers (s : Shape) (d : List String) : Covers s d (createSubtype s d) :=
  createSubtype_covers_aux (sizeOf s) s (Nat.le_refl _) d

theorem createSubtypeList_covers (l : List Shape) (d : List String) : CoversList l d (createSubtypeList l d) := by
  induction l generalizing d with
  | nil => simp [CoversList, createSubtypeList, shapeReprList, refsTys]
  | cons a l ihl =>
    simp only [createSubtypeList]
    obtain ⟨a1, a2, a3⟩ := createSubtype_covers a d
    obtain ⟨b1, b2, b3⟩ := ihl (createSubtype a d).2
    refine ⟨fun x hx => b1 x (a1 x hx), ?_, ?_⟩
    · intro x hx
      simp only [shapeReprList, refsTys, List.mem_append] at hx
      rcases hx with hx | hx
      · exact b1 x (a2 x hx)
      · exact b2 x hx
    · intro it hit x hx
      rcases List.mem_append.1 hit with hit | hit
      · exact b1 x (a3 it hit x hx)
      · exact b3 it hit x hx

theorem defined_names (s : Shape) : (createSubtype s []).2 = ((createSubtype s []).1.map itemName).reverse := by
  simpa using (createSubtype_definesOnce_aux (sizeOf s) s (Nat.le_refl _) [] List.nodup_nil).1

theorem definesOnce_list : ∀ (l : List Shape) (d : List String), d.Nodup → DefinesOnce (createSubtypeList l d) d
  | [], d, hd => by simp only [createSubtypeList]; exact definesOnce_nil hd
  | a :: l, d, hd => by
    simp only [createSubtypeList]
    have h1 := createSubtype_definesOnce_aux (sizeOf a) a (Nat.le_refl _) d hd
    have h2 := definesOnce_list l (createSubtype a d).2 (by rw [h1.1]; exact h1.2)
    exact definesOnce_append h1 h2

/-- **self-contained**: every named type that occurs in any item of the generated module is the name
of an item of the module, for every shape -/
theorem refs_defined (s : Shape) :
    ∀ it ∈ firstPass s, ∀ x ∈ itemRefs it, x ∈ (firstPass s).map itemName := by
  have hsub : ∀ x, x ∈ (createSubtype s []).2 → x ∈ (createSubtype s []).1.map itemName := by
    intro x hx; rw [defined_names] at hx; simpa using hx
  have hobj : ∀ it ∈ (createSubtype s []).1, ∀ x ∈ itemRefs it, x ∈ (createSubtype s []).1.map itemName :=
    fun it hit x hx => hsub x ((createSubtype_covers s []).2.2 it hit x hx)
  cases s with
  | null => simp [firstPass, itemRefs, refsTy]
  | bool o => cases o <;> simp [firstPass, itemRefs, refsTy]
  | number o => cases o <;> simp [firstPass, itemRefs, refsTy]
  | string o => cases o <;> simp [firstPass, itemRefs, refsTy]
  | object c o => simpa [firstPass] using hobj
  | oneOf vs o => simpa [firstPass] using hobj
  | array t o =>
    have hcov := createSubtype_covers t []
    have hnames : (createSubtype t []).2 = ((createSubtype t []).1.map itemName).reverse := defined_names t
    simp only [firstPass]
    intro it hit x hx
    simp only [List.map_cons, List.mem_cons]
    right
    rcases List.mem_cons.1 hit with rfl | hit
    · have : x ∈ refsTy (shapeRepr t) := by cases o <;> simpa [itemRefs, refsTy] using hx
      have := hcov.2.1 x this
      rw [hnames] at this; simpa using this
    · have := hcov.2.2 it hit x hx
      rw [hnames] at this; simpa using this
  | tuple es o =>
    have hcov := createSubtypeList_covers es []
    have hnames : (createSubtypeList es []).2 = ((createSubtypeList es []).1.map itemName).reverse := by
      simpa using (definesOnce_list es [] List.nodup_nil).1
    simp only [firstPass]
    intro it hit x hx
    simp only [List.map_cons, List.mem_cons]
    right
    rcases List.mem_cons.1 hit with rfl | hit
    · have : x ∈ refsTys (shapeReprList es) := by cases o <;> simpa [itemRefs, refsTy] using hx
      have := hcov.2.1 x this
      rw [hnames] at this; simpa using this
    · have := hcov.2.2 it hit x hx
      rw [hnames] at this; simpa using this

end ShapeVerif
