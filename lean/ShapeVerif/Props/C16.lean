/-
C16 — The build-time compiler is deterministic and consistent with its include macro.
The file system and `OUT_DIR` are parameters of the model.
-/
import ShapeVerif.Model.Gen
import ShapeVerif.Lemmas.Order
namespace ShapeVerif
open Shape

/-- where `compile_json` writes (after the D14 repair): `$OUT_DIR/<name>.gen.shape.rs` -/
def outPath (outDir name : String) : String := outDir ++ "/" ++ (name ++ ".gen.shape.rs")

/-- what `include_json_shape!(name)` reads: `concat!(env!("OUT_DIR"), concat!("/", name, ".gen.shape.rs"))` -/
def macroPath (outDir name : String) : String := outDir ++ ("/" ++ name ++ ".gen.shape.rs")

/-- the file is written where the macro reads it, for every collection name (dots included) -/
theorem path_matches (outDir name : String) : outPath outDir name = macroPath outDir name := by
  simp [outPath, macroPath, String.append_assoc]

/-- the abstract file system after a successful compilation: one binding, header + returned text -/
def compileWrites (outDir name : String) (s : Shape) : String × String :=
  (outPath outDir name, genHeader ++ generate s)

theorem file_is_header_plus_text (outDir name : String) (s : Shape) :
    (compileWrites outDir name s).2 = genHeader ++ generate s ∧
    (compileWrites outDir name s).1 = macroPath outDir name :=
  ⟨rfl, path_matches outDir name⟩

/-- compiling is a function of the inferred shape: same shape, same bytes (determinism) -/
theorem compile_deterministic (a b : Shape) (h : a = b) : generate a = generate b := by rw [h]

/-- equal sub-shapes receive the same generated type name -/
theorem name_congr (a b : Shape) (h : a = b) : shapeName a = shapeName b := by rw [h]

/-- **known finding D16**: different sub-shapes can receive the same name — the name of an object
hashes its value types only, not its keys -/
theorem name_clash_witness :
    shapeName (.object [("p", .number false)] false) = shapeName (.object [("q", .number false)] false) ∧
    Shape.object [("p", .number false)] false ≠ Shape.object [("q", .number false)] false := by
  constructor
  · simp only [shapeName, namesOfMembers, List.length_cons, List.length_nil]
  · intro h; injection h with h1 _; injection h1 with h2 _; injection h2 with h3 _; exact absurd h3 (by decide)

/-- names do separate shapes whose kind, length or optional flag differ (the readable prefix) -/
theorem name_prefix_separates (c : Members) (vs : List Shape) (o p : Bool) :
    shapeName (.object c o) ≠ shapeName (.oneOf vs p) := by
  cases o <;> cases p <;> simp [shapeName]

end ShapeVerif
