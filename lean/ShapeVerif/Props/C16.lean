/-
C16 — The build-time compiler is deterministic and consistent with its include macro.
The file system and `OUT_DIR` are parameters of the model.
-/
import ShapeVerif.Model.Gen
import ShapeVerif.Model.Build
import ShapeVerif.Lemmas.Order
import ShapeVerif.Props.C05
import ShapeVerif.Props.C04Complete
namespace ShapeVerif
open Shape

/-- where `compile_json` writes (after the D14 repair): `$OUT_DIR/<name>.gen.shape.rs` -/
def outPath (outDir name : String) : String := outDir ++ "/" ++ (name ++ ".gen.shape.rs")

/-- what `include_json_shape!(name)` reads: `concat!(env!("OUT_DIR"), concat!("/", name, ".gen.shape.rs"))` -/
def macroPath (outDir name : String) : String := outDir ++ ("/" ++ name ++ ".gen.shape.rs")

/-- the file is written where the macro reads it, for every collection name (dots included) -/
theorem path_matches (outDir name : String) : outPath outDir name = macroPath outDir name := by
  simp [outPath, macroPath, String.append_assoc]

/-- the abstract file system after a successful compilation: one binding, header + returned text -/
def compileWrites (outDir name : String) (s : Shape) : String × String :=
  (outPath outDir name, genHeader ++ generate s)

theorem file_is_header_plus_text (outDir name : String) (s : Shape) :
    (compileWrites outDir name s).2 = genHeader ++ generate s ∧
    (compileWrites outDir name s).1 = macroPath outDir name :=
  ⟨rfl, path_matches outDir name⟩

/-- compiling is a function of the inferred shape: same shape, same bytes (determinism) -/
theorem compile_deterministic (a b : Shape) (h : a = b) : generate a = generate b := by rw [h]

/-- equal sub-shapes receive the same generated type name -/
theorem name_congr (a b : Shape) (h : a = b) : shapeName a = shapeName b := by rw [h]

/-- **known finding D16**: different sub-shapes can receive the same name — the name of an object
hashes its value types only, not its keys -/
theorem name_clash_witness :
    shapeName (.object [("p", .number false)] false) = shapeName (.object [("q", .number false)] false) ∧
    Shape.object [("p", .number false)] false ≠ Shape.object [("q", .number false)] false := by
  constructor
  · simp only [shapeName, namesOfMembers, List.length_cons, List.length_nil]
  · intro h; injection h with h1 _; injection h1 with h2 _; injection h2 with h3 _; exact absurd h3 (by decide)

/-- names do separate shapes whose kind, length or optional flag differ (the readable prefix) -/
theorem name_prefix_separates (c : Members) (vs : List Shape) (o p : Bool) :
    shapeName (.object c o) ≠ shapeName (.oneOf vs p) := by
  cases o <;> cases p <;> simp [shapeName]


/-! ### `compile_json` as a state machine over an abstract file system (Model/Build.lean)

Every statement is for an arbitrary prior file system — in particular one in which the target file
already exists with an older output, or in which other collections were compiled before. -/

theorem str_append_left_cancel {a b c : String} (h : a ++ b = a ++ c) : b = c := by
  have := congrArg String.toList h
  simp at this
  exact String.toList_inj.mp this

theorem str_append_right_cancel {a b c : String} (h : b ++ a = c ++ a) : b = c := by
  have := congrArg String.toList h
  simp at this
  exact String.toList_inj.mp this

/-- different collection names are written to different files of the directory -/
theorem targetPath_inj (env : BuildEnv) (n m : String) (h : targetPath env n = targetPath env m) : n = m := by
  unfold targetPath targetFile at h
  exact str_append_right_cancel (str_append_left_cancel h)

/-- the model's target is the path the include macro reads -/
theorem target_is_macro_path (env : BuildEnv) (name : String) :
    targetPath env name = macroPath (env.outDir.getD env.cwd) name := by
  simp [targetPath, targetFile, macroPath, String.append_assoc]

theorem read_write_same (fs : FS) (p c : String) : (fs.write p c).read p = some c := by
  simp [FS.write, FS.read]

theorem read_write_other (fs : FS) (p q c : String) (h : q ≠ p) : (fs.write p c).read q = fs.read q := by
  simp [FS.write, FS.read, Ne.symm h]

/-- the four ways a request can end -/
theorem compile_cases (fs : FS) (env : BuildEnv) (name : String) (paths : List String) :
    (readSources fs paths = none ∧ compileJson fs env name paths = (fs, .err)) ∨
    (∃ texts e, readSources fs paths = some texts ∧ fromSources (texts.map String.toList) = .err e ∧
      compileJson fs env name paths = (fs, .err)) ∨
    (∃ texts, readSources fs paths = some texts ∧ fromSources (texts.map String.toList) = .panic ∧
      compileJson fs env name paths = (fs, .panic)) ∨
    (∃ texts s, readSources fs paths = some texts ∧ fromSources (texts.map String.toList) = .ok s ∧
      compileJson fs env name paths = (fs.write (targetPath env name) (genHeader ++ generate s), .ok (generate s))) := by
  cases hr : readSources fs paths with
  | none => exact .inl ⟨rfl, by simp [compileJson, hr]⟩
  | some texts =>
    cases hs : fromSources (texts.map String.toList) with
    | ok s => exact .inr (.inr (.inr ⟨texts, s, rfl, hs, by simp [compileJson, hr, hs]⟩))
    | err e => exact .inr (.inl ⟨texts, e, rfl, hs, by simp [compileJson, hr, hs]⟩)
    | panic => exact .inr (.inr (.inl ⟨texts, rfl, hs, by simp [compileJson, hr, hs]⟩))

/-- the build step never panics (through `entry_points_total`, C05) -/
theorem compile_never_panics (fs : FS) (env : BuildEnv) (name : String) (paths : List String) :
    (compileJson fs env name paths).2 ≠ .panic := by
  rcases compile_cases fs env name paths with ⟨_, h⟩ | ⟨_, _, _, _, h⟩ | ⟨texts, _, hs, _⟩ | ⟨_, _, _, _, h⟩
  · simp [h]
  · simp [h]
  · exact absurd hs (entry_points_total (texts.map String.toList) .null []).1
  · simp [h]

/-- **errors are clean**: a request that does not succeed leaves the file system exactly as it was -/
theorem compile_error_leaves_fs (fs fs' : FS) (env : BuildEnv) (name : String) (paths : List String) (out : BuildOut)
    (h : compileJson fs env name paths = (fs', out)) (ho : ∀ t, out ≠ .ok t) : fs' = fs := by
  rcases compile_cases fs env name paths with ⟨_, h'⟩ | ⟨_, _, _, _, h'⟩ | ⟨_, _, _, h'⟩ | ⟨_, _, _, _, h'⟩ <;>
    rw [h'] at h <;> simp at h
  · exact h.1.symm
  · exact h.1.symm
  · exact h.1.symm
  · exact absurd h.2.symm (ho _)

/-- **the file is the returned text**: after a successful request the file the macro reads holds the
header followed by exactly the text that was returned, whatever the directory held before, and no
other file is touched -/
theorem compile_ok_writes (fs fs' : FS) (env : BuildEnv) (name : String) (paths : List String) (t : String)
    (h : compileJson fs env name paths = (fs', .ok t)) :
    fs'.read (macroPath (env.outDir.getD env.cwd) name) = some (genHeader ++ t) ∧
    ∀ p, p ≠ targetPath env name → fs'.read p = fs.read p := by
  rw [← target_is_macro_path]
  rcases compile_cases fs env name paths with ⟨_, h'⟩ | ⟨_, _, _, _, h'⟩ | ⟨_, _, _, h'⟩ | ⟨_, s, _, _, h'⟩ <;>
    rw [h'] at h <;> simp at h
  obtain ⟨h1, h2⟩ := h
  subst h1; subst h2
  exact ⟨read_write_same _ _ _, fun p hp => read_write_other _ _ _ _ hp⟩

/-- an empty source list is an error -/
theorem compile_rejects_empty (fs : FS) (env : BuildEnv) (name : String) :
    compileJson fs env name [] = (fs, .err) := by
  simp [compileJson, readSources, fromSources, fromSources.go, merge]

theorem readSources_none_of_unreadable (fs : FS) : ∀ (paths : List String) (p : String),
    p ∈ paths → fs.read p = none → readSources fs paths = none
  | q :: ps, p, hp, hn => by
    simp only [readSources]
    rcases List.mem_cons.mp hp with rfl | hp'
    · rw [hn]
    · rw [readSources_none_of_unreadable fs ps p hp' hn]
      cases fs.read q <;> rfl

/-- a source path that cannot be read is an error -/
theorem compile_rejects_unreadable (fs : FS) (env : BuildEnv) (name : String) (paths : List String) (p : String)
    (hp : p ∈ paths) (hn : fs.read p = none) : compileJson fs env name paths = (fs, .err) := by
  simp [compileJson, readSources_none_of_unreadable fs paths p hp hn]

/-- a source text that single-document parsing does not accept is an error -/
theorem compile_rejects_invalid (fs : FS) (env : BuildEnv) (name : String) (paths : List String) (texts : List String)
    (hr : readSources fs paths = some texts) (t : String) (ht : t ∈ texts) (hbad : ∀ v, fromStr t.toList ≠ .ok v) :
    compileJson fs env name paths = (fs, .err) := by
  rcases compile_cases fs env name paths with ⟨_, h'⟩ | ⟨_, _, _, _, h'⟩ | ⟨tx, hr', hs, _⟩ | ⟨tx, s, hr', hs, _⟩
  · exact h'
  · exact h'
  · exact absurd hs (entry_points_total (tx.map String.toList) .null []).1
  · rw [hr] at hr'; cases hr'
    obtain ⟨v, hv⟩ := ((sources_iff (texts.map String.toList)).mp ⟨s, hs⟩).2 t.toList (List.mem_map.mpr ⟨t, ht, rfl⟩)
    exact absurd hv (hbad v)

/-- **determinism**: the result and the written bytes are a function of the sources' contents, the
name and the directory; compiling again without touching the sources returns the same text and
leaves every file as it is (the target is not one of its own sources) -/
theorem readSources_congr (fs fs' : FS) : ∀ (paths : List String), (∀ p ∈ paths, fs'.read p = fs.read p) →
    readSources fs' paths = readSources fs paths
  | [], _ => rfl
  | p :: ps, h => by
    simp only [readSources]
    rw [h p (by simp), readSources_congr fs fs' ps (fun q hq => h q (by simp [hq]))]

theorem compile_twice (fs fs1 : FS) (env : BuildEnv) (name : String) (paths : List String) (t : String)
    (hsrc : targetPath env name ∉ paths)
    (h : compileJson fs env name paths = (fs1, .ok t)) :
    ∃ fs2, compileJson fs1 env name paths = (fs2, .ok t) ∧ ∀ p, fs2.read p = fs1.read p := by
  have hw := compile_ok_writes fs fs1 env name paths t h
  rw [← target_is_macro_path] at hw
  have hread : readSources fs1 paths = readSources fs paths :=
    readSources_congr fs fs1 paths (fun p hp => hw.2 p (fun e => hsrc (e ▸ hp)))
  rcases compile_cases fs env name paths with ⟨_, h'⟩ | ⟨_, _, _, _, h'⟩ | ⟨_, _, _, h'⟩ | ⟨tx, s, hr, hs, h'⟩ <;>
    rw [h'] at h <;> simp at h
  obtain ⟨h1, h2⟩ := h
  have h2' : compileJson fs1 env name paths =
      (fs1.write (targetPath env name) (genHeader ++ generate s), .ok (generate s)) := by
    simp [compileJson, hread, hr, hs]
  refine ⟨_, by rw [h2', h2], ?_⟩
  intro p
  by_cases hp : p = targetPath env name
  · subst hp
    simp [read_write_same, hw.1, h2]
  · rw [read_write_other _ _ _ _ hp]

/-- the text most recently returned for `name` in a history of requests and their results -/
def lastText (name : String) : List BuildOp → List BuildOut → Option String
  | op :: ops, out :: outs =>
    match lastText name ops outs with
    | some t => some t
    | none => if op.name = name then (match out with | .ok t => some t | _ => none) else none
  | _, _ => none

/-- **histories**: after any sequence of requests into one directory (any names, any source lists,
failing requests in between, repeated names), the file of every collection holds the header and
the text returned by the *last successful* request for that name; the file of a name that never
succeeded is what it was before -/
theorem history_file_is_last_text (env : BuildEnv) : ∀ (ops : List BuildOp) (fs : FS) (name : String),
    (runBuild env fs ops).1.read (targetPath env name) =
      match lastText name ops (runBuild env fs ops).2 with
      | some t => some (genHeader ++ t)
      | none => fs.read (targetPath env name)
  | [], fs, name => by simp [runBuild, lastText]
  | op :: ops, fs, name => by
    have ih := history_file_is_last_text env ops (compileJson fs env op.name op.paths).1 name
    simp only [runBuild, lastText]
    rw [ih]
    cases hl : lastText name ops (runBuild env (compileJson fs env op.name op.paths).1 ops).2 with
    | some t => rfl
    | none =>
      simp only []
      cases hc : compileJson fs env op.name op.paths with
      | mk fs1 out =>
        simp only []
        by_cases hn : op.name = name
        · subst hn
          cases out with
          | ok t =>
            have := (compile_ok_writes fs fs1 env op.name op.paths t hc).1
            rw [← target_is_macro_path] at this
            simp [this]
          | err => simp [compile_error_leaves_fs fs fs1 env op.name op.paths .err hc (by simp)]
          | panic => simp [compile_error_leaves_fs fs fs1 env op.name op.paths .panic hc (by simp)]
        · simp only [hn, if_false]
          cases out with
          | ok t =>
            exact (compile_ok_writes fs fs1 env op.name op.paths t hc).2 _
              (fun e => hn (targetPath_inj env _ _ e).symm)
          | err => rw [compile_error_leaves_fs fs fs1 env op.name op.paths .err hc (by simp)]
          | panic => rw [compile_error_leaves_fs fs fs1 env op.name op.paths .panic hc (by simp)]

/-- **exactly when a request succeeds**: every path is readable, the list is not empty and every text
is accepted by single-source parsing (by `accept_iff`: is a JSON text within the nesting bound without
conflicting member names) — so unreadable, invalid and empty lists are errors, and nothing else is -/
theorem compile_ok_iff (fs : FS) (env : BuildEnv) (name : String) (paths : List String) :
    (∃ t, (compileJson fs env name paths).2 = .ok t) ↔
      ∃ texts, readSources fs paths = some texts ∧ texts ≠ [] ∧ ∀ t ∈ texts, ∃ v, fromStr t.toList = .ok v := by
  constructor
  · rintro ⟨t, ht⟩
    rcases compile_cases fs env name paths with ⟨_, h'⟩ | ⟨_, _, _, _, h'⟩ | ⟨_, _, _, h'⟩ | ⟨tx, s, hr, hs, _⟩
    · rw [h'] at ht; cases ht
    · rw [h'] at ht; cases ht
    · rw [h'] at ht; cases ht
    · obtain ⟨hne, hall⟩ := (sources_iff (tx.map String.toList)).mp ⟨s, hs⟩
      refine ⟨tx, hr, fun e => hne (by simp [e]), fun t ht => hall t.toList (List.mem_map.mpr ⟨t, ht, rfl⟩)⟩
  · rintro ⟨texts, hr, hne, hall⟩
    obtain ⟨s, hs⟩ := (sources_iff (texts.map String.toList)).mpr
      ⟨fun e => hne (by simpa using e), fun t ht => by
        obtain ⟨u, hu, rfl⟩ := List.mem_map.mp ht
        exact hall u hu⟩
    exact ⟨generate s, by simp [compileJson, hr, hs]⟩

/- Non-vacuity: `fromStr` does not reduce in the kernel (well-founded recursion in the lexer), so no
closed `example` is given; `compile_ok_iff` shows the success hypothesis of `compile_ok_writes` /
`compile_twice` is met exactly by readable non-empty lists of accepted texts, and the driver
evaluates `runBuild` on every `p_c16h` history of the run (e.g. stale target, `1` compiled, a missing
path, `true` compiled ↦ results ok/err/ok and the file holds the `Boolean` alias). -/

end ShapeVerif
