/-
C03 — A shape accepts every sample it was inferred from (completeness of `is_subset` along merging),
and every shape is accepted by itself.
-/
import ShapeVerif.Lemmas.MergeFlat
import ShapeVerif.Props.C17
import ShapeVerif.Props.C01
namespace ShapeVerif
open Shape Std

theorem plain_withOptional (q : Bool) (s : Shape) : (withOptional q s).plain = s.plain := by
  cases s <;> simp [withOptional, Shape.plain]

theorem classifyArray_plain {es : List Shape} {s : Shape} (hp : plainList es = true) (hwf : wfList es = true)
    (hno : noOneOfValues es) (h : classifyArray es = .ok s) : s.plain = true := by
  obtain ⟨s1, s2, s3, s4⟩ := classifyArray_spec es hwf hno
  cases es with
  | nil => rw [s1 rfl] at h; cases h; rfl
  | cons e rest =>
    by_cases hae : allEqual (e :: rest) = true
    · rw [s2 e rest rfl hae] at h; cases h
      simp [plainList] at hp
      simpa [Shape.plain] using hp.1
    · have hae' : allEqual (e :: rest) = false := by simpa using hae
      by_cases hobj : (e :: rest).all isObject = true
      · obtain ⟨M, hM, hMs, hspec⟩ := s4 (by simp) hae' hobj
        rw [hM] at h; cases h
        simp only [Shape.plain]
        rw [plainMembers_iff]
        intro ⟨k, v⟩ hkv
        have hg := mapGet_eq_some_of_mem hMs hkv
        rw [hspec k] at hg
        simp only [specLookup] at hg
        cases hf : firstValue k (e :: rest) with
        | none => simp [hf] at hg
        | some sf =>
          simp only [hf, Option.some.injEq] at hg
          obtain ⟨c, o, hm, hgc⟩ := firstValue_some hf
          have hpc := plainList_iff.1 hp _ hm
          simp only [Shape.plain] at hpc
          have hsf : sf.plain = true := plainMembers_iff.1 hpc _ (mem_of_mapGet hgc)
          split at hg <;> subst hg
          · exact hsf
          · show sf.asOptional.plain = true
            unfold asOptional; rw [plain_withOptional]; exact hsf
      · have hobj' : (e :: rest).all isObject = false := by simpa using hobj
        rw [s3 (by simp) hae' hobj'] at h; cases h
        simpa [Shape.plain] using hp

theorem infer_plain_aux (n : Nat) : ∀ (d : Doc) (s : Shape), sizeOf d ≤ n → inferDoc d = .ok s →
    s.plain = true := by
  induction n with
  | zero => intro d s h; cases d <;> simp at h
  | succ n ih =>
    intro d s hn h
    cases d with
    | null => simp [inferDoc] at h; subst h; rfl
    | bool b => simp [inferDoc] at h; subst h; rfl
    | num x => simp [inferDoc] at h; subst h; rfl
    | str x => simp [inferDoc] at h; subst h; rfl
    | arr xs =>
      have h0 := h
      simp only [inferDoc] at h
      split at h
      · cases h
      · rename_i es hes
        obtain ⟨hwf, hno, _⟩ := inferred_list_props hes
        have pw := inferDocList_ok xs es hes
        refine classifyArray_plain ?_ hwf hno h
        rw [plainList_iff]
        intro e he
        obtain ⟨x, hx, hxe⟩ := pw.mem_right e he
        have := List.sizeOf_lt_of_mem hx
        exact ih x e (by simp at hn; omega) hxe
    | obj ms =>
      obtain ⟨c, rfl, hcs, hmem, honly⟩ := infer_object ms s h
      simp only [Shape.plain]
      rw [plainMembers_iff]
      intro ⟨k, v⟩ hkv
      have hg := mapGet_eq_some_of_mem hcs hkv
      have hm := honly k v hg
      unfold hasMember at hm
      rw [List.any_eq_true] at hm
      obtain ⟨⟨k', x⟩, hkx, hkk⟩ := hm
      have : k' = k := by simpa using hkk
      subst this
      obtain ⟨sv, hsv, hget⟩ := hmem (k', x) hkx
      rw [hg] at hget; cases hget
      have hsz : sizeOf x ≤ n := by
        have := List.sizeOf_lt_of_mem hkx
        simp at this hn; omega
      exact ih x v hsz hsv

/-- every single-document shape is free of `OneOf` -/
theorem infer_plain {d : Doc} {s : Shape} (h : inferDoc d = .ok s) : s.plain = true :=
  infer_plain_aux (sizeOf d) d s (Nat.le_refl _) h

/-- invariant of the left fold of `merger` over single-document shapes -/
theorem foldl_merger_accepts : ∀ (ss : List Shape) (acc : Shape), acc.wf = true → acc.tupleFlat = true →
    wfList ss = true → plainList ss = true →
    (∀ s, s.plain = true → isSubset s acc = true → isSubset s (ss.foldl merger acc) = true) ∧
    (∀ s ∈ ss, isSubset s (ss.foldl merger acc) = true)
  | [], acc, _, _, _, _ => ⟨fun _ _ h => h, by simp⟩
  | b :: ss, acc, hw, hf, hws, hps => by
    simp [wfList] at hws
    simp [plainList] at hps
    have hw' := merger_wf hw hws.1
    have hf' := merger_tupleFlat hw hws.1 hf (plain_tupleFlat hps.1)
    obtain ⟨i1, i2⟩ := foldl_merger_accepts ss (merger acc b) hw' hf' hws.2 hps.2
    constructor
    · intro s hs hsub
      exact i1 s hs (keeps hs hw hws.1 hf hps.1 hsub)
    · intro s hs
      rcases List.mem_cons.1 hs with rfl | hs
      · exact i1 s hps.1 (newSample hps.1 hw hws.1)
      · exact i2 s hs

/-- **C03.** If a shape is inferred from a sequence of documents, the shape inferred from any single
document of the sequence is reported as a subset of the merged shape (all sequences, all orders). -/
theorem samples_accepted (h : List Doc) (s : Shape) (hs : fromSourcesDoc h = .ok s) :
    ∀ d ∈ h, ∃ sd, inferDoc d = .ok sd ∧ isSubset sd s = true := by
  unfold fromSourcesDoc at hs
  split at hs
  · cases hs
  · rename_i ss hss
    have pw := inferDocList_ok h ss hss
    have hwf : wfList ss = true := by
      rw [wfList_iff]; intro s hs
      obtain ⟨d, _, hd⟩ := pw.mem_right s hs
      exact infer_wf hd
    have hpl : plainList ss = true := by
      rw [plainList_iff]; intro s hs
      obtain ⟨d, _, hd⟩ := pw.mem_right s hs
      exact infer_plain hd
    cases ss with
    | nil => simp [merge] at hs
    | cons first rest =>
      simp [merge] at hs; subst hs
      simp [wfList] at hwf
      simp [plainList] at hpl
      obtain ⟨i1, i2⟩ := foldl_merger_accepts rest first hwf.1 (plain_tupleFlat hpl.1) hwf.2 hpl.2
      intro d hd
      obtain ⟨sd, hsd, hdsd⟩ := pw.mem_left d hd
      refine ⟨sd, hdsd, ?_⟩
      rcases List.mem_cons.1 hsd with rfl | hsd
      · exact i1 sd hpl.1 (subset_refl sd hwf.1)
      · exact i2 sd hsd

/-- the unchecked and checked superset queries on a document tree (the text layer is C04's subject) -/
def isSupersetDoc (s : Shape) (d : Doc) : Bool :=
  match inferDoc d with
  | .ok sd => isSubset sd s
  | .error _ => false

/-- `from_sources(h).is_superset(d)` for every `d` of `h` -/
theorem superset_of_sample (h : List Doc) (s : Shape) (hs : fromSourcesDoc h = .ok s) :
    ∀ d ∈ h, isSupersetDoc s d = true := by
  intro d hd
  obtain ⟨sd, hsd, hsub⟩ := samples_accepted h s hs d hd
  simp [isSupersetDoc, hsd, hsub]

/-- every (well-formed) shape is accepted by itself -/
theorem self_accepted (s : Shape) (hw : s.wf = true) : isSubset s s = true := subset_refl s hw

/-- non-vacuity, with the three D6 witnesses that were rejected before the repair -/
example :
    (∃ s, fromSourcesDoc [.null, .bool true, .num "1"] = .ok s ∧ isSupersetDoc s .null = true) ∧
    (∃ s, fromSourcesDoc [.arr [.num "1", .num "2"], .arr [.num "1", .str "a"], .bool true] = .ok s ∧
      isSupersetDoc s (.arr [.num "1", .num "2"]) = true) ∧
    (∃ s, fromSourcesDoc [.arr [], .num "1"] = .ok s ∧ isSupersetDoc s (.arr []) = true) := by
  refine ⟨⟨_, rfl, by decide⟩, ⟨_, rfl, by decide⟩, ⟨_, rfl, by decide⟩⟩

end ShapeVerif
