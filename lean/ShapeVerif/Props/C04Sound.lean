/-
C04, the "only if" half: everything `from_str` accepts is a JSON text per RFC 8259 within the depth
bound, and the shape is the one `inferDoc` gives to its document.
-/
import ShapeVerif.Lemmas.AcceptSound
import ShapeVerif.Lemmas.LexSound
namespace ShapeVerif
open Shape

/-- **soundness of acceptance** (all strings): if `from_str` returns a shape, the text is cut by the
lexer's own tokens into RFC 8259 lexemes whose non-whitespace part derives `value` in the RFC's
token grammar, no prefix has more than 256 brackets open, and the shape is `inferDoc` of the derived
document (so no member name is repeated with conflicting value shapes) -/
theorem accepted_is_json (src : List Char) (s : Shape) (h : fromStr src = .ok s) :
    ∃ toks d, JsonTextVia src toks d ∧ depthOk (toks.map (·.kind)) = true ∧ inferDoc d = .ok s := by
  obtain ⟨hlex, d, htv, hinf⟩ := accept_sound src s h
  obtain ⟨htiles, hdepth⟩ := tokenize_sound src hlex
  exact ⟨(tokenize src).tokens, d, ⟨htiles, htv⟩, hdepth, hinf⟩

/-- the same for a list of sources and for the checked superset query -/
theorem sources_accepted_are_json (srcs : List (List Char)) (s : Shape) (h : fromSources srcs = .ok s) :
    ∀ t ∈ srcs, ∃ toks d v, JsonTextVia t toks d ∧ depthOk (toks.map (·.kind)) = true ∧ inferDoc d = .ok v := by
  intro t ht
  obtain ⟨v, hv⟩ := sources_accept srcs s h t ht
  obtain ⟨toks, d, h1, h2, h3⟩ := accepted_is_json t v hv
  exact ⟨toks, d, v, h1, h2, h3⟩

theorem checked_ok_is_json (sh : Shape) (src : List Char) (b : Bool) (h : isSupersetChecked sh src = .ok b) :
    ∃ toks d v, JsonTextVia src toks d ∧ depthOk (toks.map (·.kind)) = true ∧ inferDoc d = .ok v := by
  unfold isSupersetChecked at h
  cases hf : fromStr src with
  | ok v =>
    obtain ⟨toks, d, h1, h2, h3⟩ := accepted_is_json src v hf
    exact ⟨toks, d, v, h1, h2, h3⟩
  | err e => simp [hf] at h
  | panic => simp [hf] at h

end ShapeVerif
