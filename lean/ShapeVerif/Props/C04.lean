/-
C04 — Parsing accepts exactly the JSON language (text layer).
What is a theorem so far:
* nothing the lexer or the recovering parser flags is accepted (`accept_no_diagnostics`) — the D8 repair;
* `is_superset` answers false exactly when `from_str` errs (`unchecked_false`), `is_superset_checked`
  and `from_sources` err exactly when `from_str` errs on (one of) the text(s).
The equivalence of "no diagnostic and parse_cst succeeds" with the RFC 8259 grammar is compared with
an independent parser on every generated text (see DESIGN §5 C04), not yet proved.
-/
import ShapeVerif.Model.ParseCst
namespace ShapeVerif
open Shape

/-- a text is accepted only if neither lexer nor parser reported a diagnostic and `parse_cst` succeeded -/
theorem accept_no_diagnostics (src : List Char) (s : Shape) (h : fromStr src = .ok s) :
    (parse src).diags = [] ∧ parseCst src (parse src).root = .ok s := by
  unfold fromStr at h
  simp only at h
  split at h
  · cases h
  · cases h
  · rename_i s' hs
    split at h
    · cases h
    · cases h
    · rename_i hr
      cases h
      refine ⟨?_, hs⟩
      unfold rejectDiagnostics at hr
      split at hr
      · assumption
      · cases hr

/-- the unchecked superset query answers false for every text `from_str` rejects -/
theorem unchecked_false (s : Shape) (src : List Char) (e : PErr) (h : fromStr src = .err e) :
    isSuperset s src = .ok false := by
  simp [isSuperset, h]

/-- the checked query errs exactly when `from_str` errs, with the same error -/
theorem checked_iff (s : Shape) (src : List Char) (e : PErr) :
    isSupersetChecked s src = .err e ↔ fromStr src = .err e := by
  unfold isSupersetChecked
  split <;> simp_all

/-- a source list is accepted only if every source is accepted by `from_str` -/
theorem sources_accept (srcs : List (List Char)) (s : Shape) (h : fromSources srcs = .ok s) :
    ∀ t ∈ srcs, ∃ v, fromStr t = .ok v := by
  have key : ∀ (l : List (List Char)) (acc vs : List Shape), fromSources.go l acc = .ok vs →
      ∀ t ∈ l, ∃ v, fromStr t = .ok v := by
    intro l
    induction l with
    | nil => intro _ _ _ t ht; cases ht
    | cons x l ih =>
      intro acc vs hgo t ht
      simp only [fromSources.go] at hgo
      split at hgo
      · rename_i v hv
        rcases List.mem_cons.1 ht with rfl | ht
        · exact ⟨v, hv⟩
        · exact ih _ _ hgo t ht
      · cases hgo
      · cases hgo
  unfold fromSources at h
  split at h
  · cases h
  · cases h
  · rename_i vs hvs
    exact key srcs [] vs hvs

end ShapeVerif
