/-
The typed queries of `value/subtypes.rs` are sound for the meaning of shapes: when a query answers
`true`, every document the queried part admits is of the JSON kind the query names (or `null`, exactly
when the query names an optional type or `Null`). Not one of the 17 listed properties; it extends the
model and its tie to the public query API, and `isOneOfT` is proved to be the helpers `is_subset` uses.
-/
import ShapeVerif.Model.Subtypes
import ShapeVerif.Ref.Sem
import ShapeVerif.Lemmas.Admits
namespace ShapeVerif
open Shape

/-- the JSON kind of a document matches a shape constructor (`OneOf` promises nothing) -/
def docOfKind : Kind → Doc → Bool
  | .null, d => d.isNull
  | .number, .num _ => true
  | .string, .str _ => true
  | .boolean, .bool _ => true
  | .array, .arr _ => true
  | .tuple, .arr _ => true
  | .object, .obj _ => true
  | .oneOf, _ => true
  | _, _ => false

/-- a shape with constructor `k` and flag `o` admits only documents of kind `k`, and `null` only if `o` -/
theorem hasKind_sound {k : Kind} {o : Bool} {v : Shape} (h : hasKind k o v = true) {d : Doc}
    (ha : admits v d = true) : docOfKind k d = true ∨ (d = .null ∧ o = true) := by
  simp only [hasKind, Bool.and_eq_true, beq_iff_eq, Bool.or_eq_true] at h
  obtain ⟨hk, hf⟩ := h
  cases v <;> simp only [kindOf] at hk <;> subst hk
  case null => left; simpa [docOfKind, admits] using ha
  case oneOf => left; rfl
  all_goals
    simp only [optFlagOf, reduceCtorEq, false_or] at hf
    subst hf
    cases d <;> simp_all [admits, docOfKind, Doc.isNull]

theorem isArrayOf_sound {k : Kind} {o : Bool} {s : Shape} (h : isArrayOf k o s = true) {xs : List Doc}
    (ha : admits s (.arr xs) = true) : ∀ x ∈ xs, docOfKind k x = true ∨ (x = .null ∧ o = true) := by
  cases s <;> simp only [isArrayOf] at h <;> try (cases h)
  rename_i t ao
  rcases admits_array_cases ha with ⟨e, _⟩ | ⟨ys, e, hys⟩
  · cases e
  · cases e
    intro x hx
    exact hasKind_sound h (List.all_eq_true.mp hys x hx)

theorem isObjectOf_sound {k : Kind} {o : Bool} {key : String} {c : Members} {uo : Bool}
    (hs : sortedKeys c = true) (h : isObjectOf k o key (.object c uo) = true) {ms : List (String × Doc)}
    (ha : admits (.object c uo) (.obj ms) = true) :
    ∀ v, (key, v) ∈ ms → docOfKind k v = true ∨ (v = .null ∧ o = true) := by
  simp only [isObjectOf, List.any_eq_true, Bool.and_eq_true, beq_iff_eq] at h
  obtain ⟨kv, hkv, hkey, hkind⟩ := h
  obtain ⟨k', sh⟩ := kv
  simp only at hkey hkind
  subst hkey
  rcases admits_object_cases ha with ⟨e, _⟩ | ⟨ms', e, hms, _⟩
  · cases e
  · cases e
    intro v hv
    have := List.all_eq_true.mp hms (k', v) hv
    simp only at this
    rw [admitsKey_of_mem hs hkv] at this
    exact hasKind_sound hkind this

/-! the generic `IsOneOf<T>` model is, instance by instance, the helper `is_subset` calls -/

theorem isOneOfT_null (s : Shape) : isOneOfT .null false s = isOneOfNull s := by
  cases s <;> simp [isOneOfT, isOneOfNull]

theorem isOneOfT_bool (s : Shape) : isOneOfT .boolean false s = isOneOfBool s := by
  cases s <;> simp [isOneOfT, isOneOfBool]
  congr 1; funext v
  cases v <;> simp [hasKind, kindOf, optFlagOf]
  rename_i o; cases o <;> rfl

theorem isOneOfT_number (s : Shape) : isOneOfT .number false s = isOneOfNumber s := by
  cases s <;> simp [isOneOfT, isOneOfNumber]
  congr 1; funext v
  cases v <;> simp [hasKind, kindOf, optFlagOf]
  rename_i o; cases o <;> rfl

theorem isOneOfT_string (s : Shape) : isOneOfT .string false s = isOneOfString s := by
  cases s <;> simp [isOneOfT, isOneOfString]
  congr 1; funext v
  cases v <;> simp [hasKind, kindOf, optFlagOf]
  rename_i o; cases o <;> rfl

theorem isOneOfT_optBool (s : Shape) : isOneOfT .boolean true s = isOneOfOptBool s := by
  cases s <;> simp [isOneOfT, isOneOfOptBool]
  congr 2; funext v; cases v <;> rfl

theorem isOneOfT_optNumber (s : Shape) : isOneOfT .number true s = isOneOfOptNumber s := by
  cases s <;> simp [isOneOfT, isOneOfOptNumber]
  congr 2; funext v; cases v <;> rfl

theorem isOneOfT_optString (s : Shape) : isOneOfT .string true s = isOneOfOptString s := by
  cases s <;> simp [isOneOfT, isOneOfOptString]
  congr 2; funext v; cases v <;> rfl

end ShapeVerif
