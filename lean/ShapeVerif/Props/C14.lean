/-
C14 — Generated types mirror the inferred shape (compositional core).
`decodeTy env` reads a generated type back into a shape, resolving type names through `env`.
`repr_decodes`: if every named sub-shape's name resolves to that sub-shape (which is what the
definitions provide when names do not clash — known finding D16 is the exception), the type
generated for a shape reads back as exactly that shape: Number/String/Boolean/Null ↦ f64/String/bool/(),
optional ↦ Option, Array ↦ Vec, Tuple ↦ tuple in order, Object/OneOf ↦ their named definitions.
That the definitions themselves read back (struct fields ↦ members, enum variants ↦ variants) is
checked on the real generated text by an independent parser on every run.
-/
import ShapeVerif.Model.Gen
import ShapeVerif.Lemmas.Order
namespace ShapeVerif
open Shape

mutual
/-- reading a type back; `env` gives the (non-optional) shape a type name stands for -/
def decodeTy (env : String → Option Shape) : Ty → Option Shape
  | .unit => some .null
  | .bool => some (.bool false)
  | .f64 => some (.number false)
  | .string => some (.string false)
  | .option t => (decodeTy env t).map asOptional
  | .vec t => (decodeTy env t).map (fun s => .array s false)
  | .tuple ts => (decodeTys env ts).map (fun es => .tuple es false)
  | .named n => env n
def decodeTys (env : String → Option Shape) : List Ty → Option (List Shape)
  | [] => some []
  | t :: ts =>
    match decodeTy env t, decodeTys env ts with
    | some s, some l => some (s :: l)
    | _, _ => none
end

/-- `env` resolves the name of every `Object`/`OneOf` sub-shape to its non-optional form -/
def Resolves (env : String → Option Shape) (s : Shape) : Prop :=
  ∀ p ∈ namedSubshapes s, env p.1 = some p.2.asNonOptional

theorem asOptional_asNonOptional_of_flag {s : Shape} (h : s.isOptional = true) (hn : s.isNull = false) :
    s.asNonOptional.asOptional = s := by
  cases s <;> simp_all [asOptional, asNonOptional, withOptional, isOptional, isNull]

theorem repr_decodes_aux (env : String → Option Shape) (n : Nat) :
    ∀ s : Shape, sizeOf s ≤ n → Resolves env s → decodeTy env (shapeRepr s) = some s := by
  induction n with
  | zero => intro s h; cases s <;> simp at h
  | succ n ih =>
    have ihL : ∀ l : List Shape, (∀ s ∈ l, sizeOf s ≤ n) → (∀ s ∈ l, Resolves env s) →
        decodeTys env (shapeReprList l) = some l := by
      intro l
      induction l with
      | nil => intro _ _; rfl
      | cons a l ihl =>
        intro hs hr
        simp only [shapeReprList, decodeTys, ih a (hs a (by simp)) (hr a (by simp)),
          ihl (fun s h => hs s (by simp [h])) (fun s h => hr s (by simp [h]))]
    intro s hn hr
    cases s with
    | null => rfl
    | bool o => cases o <;> rfl
    | number o => cases o <;> rfl
    | string o => cases o <;> rfl
    | array t o =>
      have ht := ih t (by simp at hn; omega) (fun p hp => hr p (by simpa [namedSubshapes] using hp))
      cases o <;> simp [shapeRepr, decodeTy, ht, asOptional, withOptional]
    | tuple es o =>
      have hes := ihL es (fun s hs => by have := List.sizeOf_lt_of_mem hs; simp at hn; omega)
        (fun s hs p hp => hr p (by
          simp only [namedSubshapes]
          clear hn ihL ih
          induction es with
          | nil => cases hs
          | cons a l ihl =>
            simp only [namedSubshapesList, List.mem_append]
            rcases List.mem_cons.1 hs with rfl | hs
            · exact Or.inl hp
            · exact Or.inr (ihl (fun p hp => hr p (by
                simp only [namedSubshapes, namedSubshapesList, List.mem_append] at hp ⊢
                exact Or.inr hp)) hs)))
      cases o <;> simp [shapeRepr, decodeTy, hes, asOptional, withOptional]
    | object c o =>
      have := hr (String.ofList (shapeName (.object c o)), .object c o) (by simp [namedSubshapes])
      cases o <;> simp_all [shapeRepr, decodeTy, asOptional, asNonOptional, withOptional]
    | oneOf vs o =>
      have := hr (String.ofList (shapeName (.oneOf vs o)), .oneOf vs o) (by simp [namedSubshapes])
      cases o <;> simp_all [shapeRepr, decodeTy, asOptional, asNonOptional, withOptional]

/-- **the generated type of a shape reads back as that shape**, given that type names resolve -/
theorem repr_decodes (env : String → Option Shape) (s : Shape) (h : Resolves env s) :
    decodeTy env (shapeRepr s) = some s := repr_decodes_aux env (sizeOf s) s (Nat.le_refl _) h

/-- shapes without `Object`/`OneOf` parts need no environment at all -/
theorem repr_decodes_nameless (s : Shape) (h : namedSubshapes s = []) :
    decodeTy (fun _ => none) (shapeRepr s) = some s :=
  repr_decodes _ s (by intro p hp; rw [h] at hp; cases hp)

example : decodeTy (fun _ => none)
    (shapeRepr (.tuple [.number true, .array (.tuple [.string false, .null] true) false] true))
    = some (.tuple [.number true, .array (.tuple [.string false, .null] true) false] true) := by decide

/-! ### the definitions themselves -/

/-- the definition generated for a named sub-shape -/
def itemOfNamed : String × Shape → Option GItem
  | (n, .object c _) => some (structOf n c)
  | (n, .oneOf vs _) => some (enumOf n vs)
  | _ => none

theorem items_from_named_aux (n : Nat) :
    ∀ s : Shape, sizeOf s ≤ n → ∀ (d : List String), ∀ it ∈ (createSubtype s d).1,
      ∃ p ∈ namedSubshapes s, itemOfNamed p = some it := by
  induction n with
  | zero => intro s h; cases s <;> simp at h
  | succ n ih =>
    have ihL : ∀ l : List Shape, (∀ s ∈ l, sizeOf s ≤ n) → ∀ (d : List String),
        ∀ it ∈ (createSubtypeList l d).1, ∃ p ∈ namedSubshapesList l, itemOfNamed p = some it := by
      intro l
      induction l with
      | nil => intro _ d it hit; simp [createSubtypeList] at hit
      | cons a l ihl =>
        intro hs d it hit
        simp only [createSubtypeList] at hit
        simp only [namedSubshapesList, List.mem_append]
        rcases List.mem_append.1 hit with hit | hit
        · obtain ⟨p, hp, e⟩ := ih a (hs a (by simp)) d it hit
          exact ⟨p, .inl hp, e⟩
        · obtain ⟨p, hp, e⟩ := ihl (fun s h => hs s (by simp [h])) _ it hit
          exact ⟨p, .inr hp, e⟩
    have ihM : ∀ c : Members, (∀ kv ∈ c, sizeOf kv.2 ≤ n) → ∀ (d : List String),
        ∀ it ∈ (createSubtypeMembers c d).1, ∃ p ∈ namedSubshapesMembers c, itemOfNamed p = some it := by
      intro c
      induction c with
      | nil => intro _ d it hit; simp [createSubtypeMembers] at hit
      | cons a c ihc =>
        obtain ⟨k, v⟩ := a
        intro hs d it hit
        simp only [createSubtypeMembers] at hit
        simp only [namedSubshapesMembers, List.mem_append]
        rcases List.mem_append.1 hit with hit | hit
        · obtain ⟨p, hp, e⟩ := ih v (hs (k, v) (by simp)) d it hit
          exact ⟨p, .inl hp, e⟩
        · obtain ⟨p, hp, e⟩ := ihc (fun kv h => hs kv (by simp [h])) _ it hit
          exact ⟨p, .inr hp, e⟩
    intro s hn d it hit
    cases s with
    | null => simp [createSubtype] at hit
    | bool o => simp [createSubtype] at hit
    | number o => simp [createSubtype] at hit
    | string o => simp [createSubtype] at hit
    | array t o =>
      simp only [createSubtype] at hit
      simpa [namedSubshapes] using ih t (by simp at hn; omega) d it hit
    | tuple es o =>
      simp only [createSubtype] at hit
      simpa [namedSubshapes] using
        ihL es (fun s hs => by have := List.sizeOf_lt_of_mem hs; simp at hn; omega) d it hit
    | object c o =>
      have hsz : ∀ kv ∈ c, sizeOf kv.2 ≤ n := by
        intro kv hkv
        have := List.sizeOf_lt_of_mem hkv
        obtain ⟨k, v⟩ := kv
        simp at this hn ⊢; omega
      simp only [createSubtype] at hit
      split at hit
      · simp at hit
      · simp only [namedSubshapes, List.mem_cons]
        rcases List.mem_cons.1 hit with rfl | hit
        · exact ⟨_, .inl rfl, rfl⟩
        · obtain ⟨p, hp, e⟩ := ihM c hsz _ it hit
          exact ⟨p, .inr hp, e⟩
    | oneOf vs o =>
      have hsz : ∀ v ∈ vs, sizeOf v ≤ n := by
        intro v hv; have := List.sizeOf_lt_of_mem hv; simp at hn; omega
      simp only [createSubtype] at hit
      split at hit
      · simp at hit
      · simp only [namedSubshapes, List.mem_cons]
        rcases List.mem_cons.1 hit with rfl | hit
        · exact ⟨_, .inl rfl, rfl⟩
        · obtain ⟨p, hp, e⟩ := ihL vs hsz _ it hit
          exact ⟨p, .inr hp, e⟩

/-- every struct/enum of the module is the definition of one of the shape's named sub-shapes -/
theorem items_from_named (s : Shape) (d : List String) :
    ∀ it ∈ (createSubtype s d).1, ∃ p ∈ namedSubshapes s, itemOfNamed p = some it :=
  items_from_named_aux (sizeOf s) s (Nat.le_refl _) d

/-- the named sub-shapes of a member / variant / element are named sub-shapes of the whole -/
theorem named_of_member {c : Members} {k : String} {v : Shape} (h : (k, v) ∈ c) :
    ∀ p ∈ namedSubshapes v, p ∈ namedSubshapesMembers c := by
  induction c with
  | nil => cases h
  | cons a c ih =>
    obtain ⟨k', v'⟩ := a
    intro p hp
    simp only [namedSubshapesMembers, List.mem_append]
    rcases List.mem_cons.1 h with e | h
    · cases e; exact .inl hp
    · exact .inr (ih h p hp)

theorem named_of_elem {l : List Shape} {v : Shape} (h : v ∈ l) :
    ∀ p ∈ namedSubshapes v, p ∈ namedSubshapesList l := by
  induction l with
  | nil => cases h
  | cons a l ih =>
    intro p hp
    simp only [namedSubshapesList, List.mem_append]
    rcases List.mem_cons.1 h with rfl | h
    · exact .inl hp
    · exact .inr (ih h p hp)

/-- sub-shapes of a named sub-shape are named sub-shapes of the whole shape -/
theorem named_trans_aux (n : Nat) : ∀ s : Shape, sizeOf s ≤ n → ∀ q ∈ namedSubshapes s,
    ∀ p ∈ namedSubshapes q.2, p ∈ namedSubshapes s := by
  induction n with
  | zero => intro s h; cases s <;> simp at h
  | succ n ih =>
    have ihL : ∀ l : List Shape, (∀ s ∈ l, sizeOf s ≤ n) → ∀ q ∈ namedSubshapesList l,
        ∀ p ∈ namedSubshapes q.2, p ∈ namedSubshapesList l := by
      intro l
      induction l with
      | nil => intro _ q hq; simp [namedSubshapesList] at hq
      | cons a l ihl =>
        intro hs q hq p hp
        simp only [namedSubshapesList, List.mem_append] at hq ⊢
        rcases hq with hq | hq
        · exact .inl (ih a (hs a (by simp)) q hq p hp)
        · exact .inr (ihl (fun s h => hs s (by simp [h])) q hq p hp)
    have ihM : ∀ c : Members, (∀ kv ∈ c, sizeOf kv.2 ≤ n) → ∀ q ∈ namedSubshapesMembers c,
        ∀ p ∈ namedSubshapes q.2, p ∈ namedSubshapesMembers c := by
      intro c
      induction c with
      | nil => intro _ q hq; simp [namedSubshapesMembers] at hq
      | cons a c ihc =>
        obtain ⟨k, v⟩ := a
        intro hs q hq p hp
        simp only [namedSubshapesMembers, List.mem_append] at hq ⊢
        rcases hq with hq | hq
        · exact .inl (ih v (hs (k, v) (by simp)) q hq p hp)
        · exact .inr (ihc (fun kv h => hs kv (by simp [h])) q hq p hp)
    intro s hn q hq p hp
    cases s with
    | null => simp [namedSubshapes] at hq
    | bool o => simp [namedSubshapes] at hq
    | number o => simp [namedSubshapes] at hq
    | string o => simp [namedSubshapes] at hq
    | array t o =>
      simp only [namedSubshapes] at hq ⊢
      exact ih t (by simp at hn; omega) q hq p hp
    | tuple es o =>
      simp only [namedSubshapes] at hq ⊢
      exact ihL es (fun s hs => by have := List.sizeOf_lt_of_mem hs; simp at hn; omega) q hq p hp
    | object c o =>
      have hsz : ∀ kv ∈ c, sizeOf kv.2 ≤ n := by
        intro kv hkv
        have := List.sizeOf_lt_of_mem hkv
        obtain ⟨k, v⟩ := kv
        simp at this hn ⊢; omega
      simp only [namedSubshapes, List.mem_cons] at hq ⊢
      rcases hq with rfl | hq
      · simpa [namedSubshapes] using hp
      · exact .inr (ihM c hsz q hq p hp)
    | oneOf vs o =>
      have hsz : ∀ v ∈ vs, sizeOf v ≤ n := by
        intro v hv; have := List.sizeOf_lt_of_mem hv; simp at hn; omega
      simp only [namedSubshapes, List.mem_cons] at hq ⊢
      rcases hq with rfl | hq
      · simpa [namedSubshapes] using hp
      · exact .inr (ihL vs hsz q hq p hp)

theorem named_trans (s : Shape) : ∀ q ∈ namedSubshapes s, ∀ p ∈ namedSubshapes q.2, p ∈ namedSubshapes s :=
  named_trans_aux (sizeOf s) s (Nat.le_refl _)

theorem decodeTys_members (env : String → Option Shape) : ∀ (c : Members),
    (∀ kv ∈ c, Resolves env kv.2) → decodeTys env (c.map fun kv => shapeRepr kv.2) = some (c.map (·.2))
  | [], _ => rfl
  | (k, v) :: c, h => by
    simp only [List.map_cons, decodeTys, repr_decodes env v (h (k, v) (by simp)),
      decodeTys_members env c (fun kv hkv => h kv (by simp [hkv]))]

theorem decodeTys_list (env : String → Option Shape) : ∀ (l : List Shape),
    (∀ v ∈ l, Resolves env v) → decodeTys env (l.map shapeRepr) = some l
  | [], _ => rfl
  | v :: l, h => by
    simp only [List.map_cons, decodeTys, repr_decodes env v (h v (by simp)),
      decodeTys_list env l (fun w hw => h w (by simp [hw]))]

/-- **the definitions mirror the shape**: under a resolver that maps every type name of the module to
the sub-shape it was generated for (it exists exactly when names do not clash — known finding D16),
every struct of the module has one field per member of its object shape, named by the snake form of
the member name and typed so that it reads back as the member's shape, in order; every enum has one
single-field variant per variant shape, reading back as that variant, in order. -/
theorem definitions_mirror (s : Shape) (env : String → Option Shape) (hr : Resolves env s) (d : List String) :
    ∀ it ∈ (createSubtype s d).1,
      (∀ n fs, it = .struct_ n fs → ∃ c o, (n, Shape.object c o) ∈ namedSubshapes s ∧
          fs.map (·.1) = c.map (fun kv => String.ofList (toSnake kv.1.toList)) ∧
          decodeTys env (fs.map (·.2)) = some (c.map (·.2))) ∧
      (∀ n vs', it = .enum_ n vs' → ∃ vs o, (n, Shape.oneOf vs o) ∈ namedSubshapes s ∧
          decodeTys env (vs'.map (·.2)) = some vs) := by
  intro it hit
  obtain ⟨p, hp, hpi⟩ := items_from_named s d it hit
  obtain ⟨n, sub⟩ := p
  have hsub : Resolves env sub := fun q hq => hr q (named_trans s (n, sub) hp q hq)
  cases sub with
  | object c o =>
    simp only [itemOfNamed, Option.some.injEq] at hpi
    subst hpi
    refine ⟨?_, by intro n' vs' h; simp [structOf] at h⟩
    intro n' fs h
    simp only [structOf, GItem.struct_.injEq] at h
    obtain ⟨rfl, rfl⟩ := h
    refine ⟨c, o, hp, by simp [List.map_map, Function.comp_def], ?_⟩
    simp only [List.map_map, Function.comp_def]
    exact decodeTys_members env c (fun kv hkv q hq => hsub q (by
      simp only [namedSubshapes, List.mem_cons]
      exact .inr (named_of_member (k := kv.1) (v := kv.2) (by simpa using hkv) q hq)))
  | oneOf vs o =>
    simp only [itemOfNamed, Option.some.injEq] at hpi
    subst hpi
    refine ⟨by intro n' fs h; simp [enumOf] at h, ?_⟩
    intro n' vs' h
    simp only [enumOf, GItem.enum_.injEq] at h
    obtain ⟨rfl, rfl⟩ := h
    refine ⟨vs, o, hp, ?_⟩
    simp only [List.map_map, Function.comp_def]
    exact decodeTys_list env vs (fun v hv q hq => hsub q (by
      simp only [namedSubshapes, List.mem_cons]
      exact .inr (named_of_elem hv q hq)))
  | null => simp [itemOfNamed] at hpi
  | bool o => simp [itemOfNamed] at hpi
  | number o => simp [itemOfNamed] at hpi
  | string o => simp [itemOfNamed] at hpi
  | array t o => simp [itemOfNamed] at hpi
  | tuple es o => simp [itemOfNamed] at hpi

/-- the resolver read off the shape: a type name stands for the first named sub-shape carrying it -/
def envOf (s : Shape) : String → Option Shape :=
  fun n => ((namedSubshapes s).find? (fun p => p.1 == n)).map (·.2.asNonOptional)

/-- no two named sub-shapes with different structure share a type name (the complement of D16) -/
def NoClash (s : Shape) : Prop :=
  ∀ p ∈ namedSubshapes s, ∀ q ∈ namedSubshapes s, p.1 = q.1 → p.2.asNonOptional = q.2.asNonOptional

theorem resolver_exists (s : Shape) (h : NoClash s) : Resolves (envOf s) s := by
  intro p hp
  unfold envOf
  cases hf : (namedSubshapes s).find? (fun q => q.1 == p.1) with
  | none =>
    have := List.find?_eq_none.1 hf p hp
    simp at this
  | some q =>
    have hq := List.mem_of_find?_eq_some hf
    have hqe : q.1 = p.1 := by simpa using List.find?_some hf
    simp only [Option.map_some]
    rw [h q hq p hp hqe]

/-- **C14 assembled**: when type names do not clash, the root type reads back as the inferred shape
and every definition mirrors its sub-shape, all with respect to one resolver read off the shape -/
theorem generated_types_mirror (s : Shape) (h : NoClash s) :
    decodeTy (envOf s) (shapeRepr s) = some s ∧
    ∀ it ∈ (createSubtype s []).1,
      (∀ n fs, it = .struct_ n fs → ∃ c o, (n, Shape.object c o) ∈ namedSubshapes s ∧
          fs.map (·.1) = c.map (fun kv => String.ofList (toSnake kv.1.toList)) ∧
          decodeTys (envOf s) (fs.map (·.2)) = some (c.map (·.2))) ∧
      (∀ n vs', it = .enum_ n vs' → ∃ vs o, (n, Shape.oneOf vs o) ∈ namedSubshapes s ∧
          decodeTys (envOf s) (vs'.map (·.2)) = some vs) :=
  ⟨repr_decodes _ s (resolver_exists s h), definitions_mirror s _ (resolver_exists s h) []⟩

example : NoClash (.object [("a", .number false), ("b", .object [("c", .string true)] true)] false) := by
  intro p hp q hq
  simp [namedSubshapes, namedSubshapesMembers] at hp hq
  rcases hp with rfl | rfl <;> rcases hq with rfl | rfl <;> simp [shapeName] <;> decide

end ShapeVerif
