/-
C14 — Generated types mirror the inferred shape (compositional core).
`decodeTy env` reads a generated type back into a shape, resolving type names through `env`.
`repr_decodes`: if every named sub-shape's name resolves to that sub-shape (which is what the
definitions provide when names do not clash — known finding D16 is the exception), the type
generated for a shape reads back as exactly that shape: Number/String/Boolean/Null ↦ f64/String/bool/(),
optional ↦ Option, Array ↦ Vec, Tuple ↦ tuple in order, Object/OneOf ↦ their named definitions.
That the definitions themselves read back (struct fields ↦ members, enum variants ↦ variants) is
checked on the real generated text by an independent parser on every run.
-/
import ShapeVerif.Model.Gen
import ShapeVerif.Lemmas.Order
namespace ShapeVerif
open Shape

mutual
/-- reading a type back; `env` gives the (non-optional) shape a type name stands for -/
def decodeTy (env : String → Option Shape) : Ty → Option Shape
  | .unit => some .null
  | .bool => some (.bool false)
  | .f64 => some (.number false)
  | .string => some (.string false)
  | .option t => (decodeTy env t).map asOptional
  | .vec t => (decodeTy env t).map (fun s => .array s false)
  | .tuple ts => (decodeTys env ts).map (fun es => .tuple es false)
  | .named n => env n
def decodeTys (env : String → Option Shape) : List Ty → Option (List Shape)
  | [] => some []
  | t :: ts =>
    match decodeTy env t, decodeTys env ts with
    | some s, some l => some (s :: l)
    | _, _ => none
end

/-- `env` resolves the name of every `Object`/`OneOf` sub-shape to its non-optional form -/
def Resolves (env : String → Option Shape) (s : Shape) : Prop :=
  ∀ p ∈ namedSubshapes s, env p.1 = some p.2.asNonOptional

theorem asOptional_asNonOptional_of_flag {s : Shape} (h : s.isOptional = true) (hn : s.isNull = false) :
    s.asNonOptional.asOptional = s := by
  cases s <;> simp_all [asOptional, asNonOptional, withOptional, isOptional, isNull]

theorem repr_decodes_aux (env : String → Option Shape) (n : Nat) :
    ∀ s : Shape, sizeOf s ≤ n → Resolves env s → decodeTy env (shapeRepr s) = some s := by
  induction n with
  | zero => intro s h; cases s <;> simp at h
  | succ n ih =>
    have ihL : ∀ l : List Shape, (∀ s ∈ l, sizeOf s ≤ n) → (∀ s ∈ l, Resolves env s) →
        decodeTys env (shapeReprList l) = some l := by
      intro l
      induction l with
      | nil => intro _ _; rfl
      | cons a l ihl =>
        intro hs hr
        simp only [shapeReprList, decodeTys, ih a (hs a (by simp)) (hr a (by simp)),
          ihl (fun s h => hs s (by simp [h])) (fun s h => hr s (by simp [h]))]
    intro s hn hr
    cases s with
    | null => rfl
    | bool o => cases o <;> rfl
    | number o => cases o <;> rfl
    | string o => cases o <;> rfl
    | array t o =>
      have ht := ih t (by simp at hn; omega) (fun p hp => hr p (by simpa [namedSubshapes] using hp))
      cases o <;> simp [shapeRepr, decodeTy, ht, asOptional, withOptional]
    | tuple es o =>
      have hes := ihL es (fun s hs => by have := List.sizeOf_lt_of_mem hs; simp at hn; omega)
        (fun s hs p hp => hr p (by
          simp only [namedSubshapes]
          clear hn ihL ih
          induction es with
          | nil => cases hs
          | cons a l ihl =>
            simp only [namedSubshapesList, List.mem_append]
            rcases List.mem_cons.1 hs with rfl | hs
            · exact Or.inl hp
            · exact Or.inr (ihl (fun p hp => hr p (by
                simp only [namedSubshapes, namedSubshapesList, List.mem_append] at hp ⊢
                exact Or.inr hp)) hs)))
      cases o <;> simp [shapeRepr, decodeTy, hes, asOptional, withOptional]
    | object c o =>
      have := hr (String.ofList (shapeName (.object c o)), .object c o) (by simp [namedSubshapes])
      cases o <;> simp_all [shapeRepr, decodeTy, asOptional, asNonOptional, withOptional]
    | oneOf vs o =>
      have := hr (String.ofList (shapeName (.oneOf vs o)), .oneOf vs o) (by simp [namedSubshapes])
      cases o <;> simp_all [shapeRepr, decodeTy, asOptional, asNonOptional, withOptional]

/-- **the generated type of a shape reads back as that shape**, given that type names resolve -/
theorem repr_decodes (env : String → Option Shape) (s : Shape) (h : Resolves env s) :
    decodeTy env (shapeRepr s) = some s := repr_decodes_aux env (sizeOf s) s (Nat.le_refl _) h

/-- shapes without `Object`/`OneOf` parts need no environment at all -/
theorem repr_decodes_nameless (s : Shape) (h : namedSubshapes s = []) :
    decodeTy (fun _ => none) (shapeRepr s) = some s :=
  repr_decodes _ s (by intro p hp; rw [h] at hp; cases hp)

example : decodeTy (fun _ => none)
    (shapeRepr (.tuple [.number true, .array (.tuple [.string false, .null] true) false] true))
    = some (.tuple [.number true, .array (.tuple [.string false, .null] true) false] true) := by decide

end ShapeVerif
