/-
C02 — Validation never accepts what the shape does not admit.
`subset_sound`: whenever `a.is_subset(b)` answers true, every document admitted by `a` is admitted
by `b` (reference semantics `admits`), for all shapes `a` and all well-formed `b`.
-/
import ShapeVerif.Lemmas.Admits
namespace ShapeVerif
open Shape

/-- the statement proved for one right-hand shape; used as induction hypothesis for its parts -/
def SoundFor (b : Shape) : Prop :=
  ∀ a, b.wf = true → isSubset a b = true → ∀ d, admits a d = true → admits b d = true

theorem zip_sound : ∀ (os es : List Shape) (xs : List Doc), (∀ o ∈ os, SoundFor o) → wfList os = true →
    zipAllSubset es os = true → es.length = os.length → admitsZip es xs = true → admitsZip os xs = true
  | [], [], xs, _, _, _, _, h => h
  | [], _ :: _, _, _, _, _, hl, _ => by simp at hl
  | _ :: _, [], _, _, _, _, hl, _ => by simp at hl
  | o :: os, e :: es, xs, ih, hw, hz, hl, h => by
    cases xs with
    | nil => simp [admitsZip] at h
    | cons x xs =>
      simp [admitsZip] at h ⊢
      simp [zipAllSubset] at hz
      simp [wfList] at hw
      refine ⟨ih o (by simp) e hw.1 hz.1 x h.1, ?_⟩
      exact zip_sound os es xs (fun o' ho' => ih o' (by simp [ho'])) hw.2 hz.2 (by simpa using hl) h.2

theorem anyObject_sound {a : Shape} {d : Doc} : ∀ (vs : List Shape), (∀ v ∈ vs, SoundFor v) →
    wfList vs = true → anyObjectSuperset a vs = true → admits a d = true → admitsAny vs d = true
  | [], _, _, h, _ => by simp [anyObjectSuperset] at h
  | v :: vs, ih, hw, h, hd => by
    simp [anyObjectSuperset] at h
    simp [wfList] at hw
    simp only [admitsAny, Bool.or_eq_true]
    rcases h with ⟨_, h⟩ | h
    · exact Or.inl (ih v (by simp) a hw.1 h d hd)
    · exact Or.inr (anyObject_sound vs (fun v' hv' => ih v' (by simp [hv'])) hw.2 h hd)

theorem any_sound {a : Shape} {d : Doc} : ∀ (vs : List Shape), (∀ v ∈ vs, SoundFor v) →
    wfList vs = true → anySuperset a vs = true → admits a d = true → admitsAny vs d = true
  | [], _, _, h, _ => by simp [anySuperset] at h
  | v :: vs, ih, hw, h, hd => by
    simp [anySuperset] at h
    simp [wfList] at hw
    simp only [admitsAny, Bool.or_eq_true]
    rcases h with h | h
    · exact Or.inl (ih v (by simp) a hw.1 h d hd)
    · exact Or.inr (any_sound vs (fun v' hv' => ih v' (by simp [hv'])) hw.2 h hd)

theorem admits_null_of_isOneOfNull {s : Shape} (h : isOneOfNull s = true) : admits s .null = true := by
  cases s <;> simp [isOneOfNull] at h
  exact admits_oneOf_of_mem' (setContains_iff.1 h)
where
  admits_oneOf_of_mem' {vs : List Shape} {o : Bool} (hv : Shape.null ∈ vs) :
      admits (.oneOf vs o) .null = true := by
    simp only [admits, Bool.or_eq_true]; left
    exact admitsAny_iff.2 ⟨.null, hv, by simp [admits, Doc.isNull]⟩

/-- `Object ⊆ Object` arm -/
theorem object_sound {c oc : Members} {ms : List (String × Doc)} (ih : ∀ kv ∈ oc, SoundFor kv.2)
    (hs : sortedKeys oc = true) (hw : wfMembers oc = true)
    (h1 : (oc.all fun kv => mapContainsKey kv.1 c || kv.2.isOptional || isOneOfNull kv.2) = true)
    (h2 : (c.all fun kv => lookupSubset kv.1 kv.2 oc) = true)
    (hm : (ms.all fun kv => admitsKey kv.1 kv.2 c) = true) (ha : absentOk c ms = true) :
    (ms.all fun kv => admitsKey kv.1 kv.2 oc) = true ∧ absentOk oc ms = true := by
  rw [List.all_eq_true] at h1 h2 hm
  rw [absentOk_iff] at ha
  constructor
  · rw [List.all_eq_true]
    intro ⟨k, x⟩ hkx
    obtain ⟨s, hsc, hsx⟩ := admitsKey_true (hm (k, x) hkx)
    obtain ⟨s', hs'oc, hsub⟩ := lookupSubset_true (h2 (k, s) hsc)
    show admitsKey k x oc = true
    rw [admitsKey_of_mem hs hs'oc]
    exact ih (k, s') hs'oc s (wfMembers_mem hw _ hs'oc) hsub x hsx
  · rw [absentOk_iff]
    intro ⟨k, s'⟩ hks'
    by_cases hmem : hasMember k ms = true
    · exact Or.inl hmem
    · right
      have := h1 (k, s') hks'
      simp only [Bool.or_eq_true] at this
      rcases this with (hck | hopt) | hnull
      rotate_left
      · exact admits_null_of_isOptional hopt
      · exact admits_null_of_isOneOfNull hnull
      · obtain ⟨s, hsc⟩ := mapContainsKey_iff.1 hck
        have hnull : admits s .null = true := by
          rcases ha (k, s) hsc with h | h
          · exact absurd h hmem
          · exact h
        have hsub := h2 (k, s) hsc
        simp only at hsub
        rw [lookupSubset_of_mem hs hks'] at hsub
        exact ih (k, s') hks' s (wfMembers_mem hw _ hks') hsub .null hnull

theorem isOneOfOptBool_sound {b : Shape} {d : Doc} (h : isOneOfOptBool b = true)
    (hd : admits (.bool true) d = true) : admits b d = true := by
  cases b <;> simp [isOneOfOptBool] at h
  rename_i vs o
  obtain ⟨⟨v, hv, hvb⟩, hn⟩ := h
  simp only [admits, Bool.or_eq_true]; left
  rw [admitsAny_iff]
  cases d <;> simp [admits] at hd
  · exact ⟨.null, setContains_iff.1 hn, admits_null_null⟩
  · cases v <;> simp [isBoolean] at hvb
    exact ⟨_, hv, by simp [admits]⟩

theorem isOneOfOptNumber_sound {b : Shape} {d : Doc} (h : isOneOfOptNumber b = true)
    (hd : admits (.number true) d = true) : admits b d = true := by
  cases b <;> simp [isOneOfOptNumber] at h
  rename_i vs o
  obtain ⟨⟨v, hv, hvb⟩, hn⟩ := h
  simp only [admits, Bool.or_eq_true]; left
  rw [admitsAny_iff]
  cases d <;> simp [admits] at hd
  · exact ⟨.null, setContains_iff.1 hn, admits_null_null⟩
  · cases v <;> simp [isNumber] at hvb
    exact ⟨_, hv, by simp [admits]⟩

theorem isOneOfOptString_sound {b : Shape} {d : Doc} (h : isOneOfOptString b = true)
    (hd : admits (.string true) d = true) : admits b d = true := by
  cases b <;> simp [isOneOfOptString] at h
  rename_i vs o
  obtain ⟨⟨v, hv, hvb⟩, hn⟩ := h
  simp only [admits, Bool.or_eq_true]; left
  rw [admitsAny_iff]
  cases d <;> simp [admits] at hd
  · exact ⟨.null, setContains_iff.1 hn, admits_null_null⟩
  · cases v <;> simp [isString] at hvb
    exact ⟨_, hv, by simp [admits]⟩

theorem admits_flag_mono_bool {o : Bool} {d : Doc} (h : admits (.bool false) d = true) :
    admits (.bool o) d = true := by cases d <;> simp_all [admits]
theorem admits_flag_mono_number {o : Bool} {d : Doc} (h : admits (.number false) d = true) :
    admits (.number o) d = true := by cases d <;> simp_all [admits]
theorem admits_flag_mono_string {o : Bool} {d : Doc} (h : admits (.string false) d = true) :
    admits (.string o) d = true := by cases d <;> simp_all [admits]

/-- membership of a variant in a `OneOf` gives admission -/
theorem admits_oneOf_of_mem {vs : List Shape} {o : Bool} {v : Shape} {d : Doc} (hv : v ∈ vs)
    (h : admits v d = true) : admits (.oneOf vs o) d = true := by
  simp only [admits, Bool.or_eq_true]; left
  exact admitsAny_iff.2 ⟨v, hv, h⟩

/-- `Tuple ⊆ Array<T>` arm: every element shape is a subset of `T` -/
theorem tuple_in_array_sound {ty : Shape} (ih : SoundFor ty) (hw : ty.wf = true) :
    ∀ (es : List Shape) (xs : List Doc),
    (es.all fun e => isSubset e ty) = true → admitsZip es xs = true →
    (xs.all fun x => admits ty x) = true
  | [], [], _, _ => by simp
  | [], _ :: _, _, h => by simp [admitsZip] at h
  | _ :: _, [], _, h => by simp [admitsZip] at h
  | e :: es, x :: xs, he, h => by
    simp [admitsZip] at h
    simp only [List.all_cons, Bool.and_eq_true] at he ⊢
    exact ⟨ih e hw he.1 x h.1, tuple_in_array_sound ih hw es xs he.2 h.2⟩

/-- the one-pass arm for an optional container against a `OneOf` -/
theorem nullOk_sound {x : Shape} {vs : List Shape} {o' : Bool} (ih : ∀ v ∈ vs, SoundFor v)
    (hw : wfList vs = true) (h : anyNullOkSuperset x (o' || setContains .null vs) vs = true)
    {d : Doc} (hd : d = .null ∨ admits x d = true) : admits (.oneOf vs o') d = true := by
  obtain ⟨v, hv, hn, hs⟩ := anyNullOkSuperset_iff.1 h
  rcases hd with rfl | hd
  · simp only [Bool.or_eq_true] at hn
    rcases hn with (ho | hc) | hopt
    · subst ho; simp [admits_oneOf, Doc.isNull]
    · exact admits_oneOf_of_mem (setContains_iff.1 hc) admits_null_null
    · exact admits_oneOf_of_mem hv (admits_null_of_isOptional hopt)
  · exact admits_oneOf_of_mem hv (ih v hv x (wfList_mem hw v hv) hs d hd)

theorem sizeOf_lt_of_mem_list {l : List Shape} {v : Shape} (h : v ∈ l) : sizeOf v < sizeOf l :=
  List.sizeOf_lt_of_mem h

theorem subset_sound_aux (n : Nat) : ∀ b : Shape, sizeOf b ≤ n → SoundFor b := by
  induction n with
  | zero => intro b hb; cases b <;> simp at hb
  | succ n ih =>
  intro b hn a hw hsub d hd
  cases a with
  | null =>
    cases d <;> simp [admits, Doc.isNull] at hd
    simp [isSubset] at hsub
    rcases hsub with (h | h) | h
    · exact admits_null_of_isOptional h
    · cases b <;> simp [isNull] at h; exact admits_null_null
    · exact admits_null_of_isOneOfNull h
  | bool o =>
    cases o
    · simp [isSubset] at hsub
      rcases hsub with (h | h) | h
      · cases b <;> simp [isBoolean] at h; exact admits_flag_mono_bool hd
      · cases b <;> simp [isOneOfBool] at h
        obtain ⟨v, hv, hvb⟩ := h
        split at hvb <;> simp at hvb
        exact admits_oneOf_of_mem hv hd
      · exact isOneOfOptBool_sound h (admits_flag_mono_bool hd)
    · simp [isSubset] at hsub
      rcases hsub with ⟨h1, h2⟩ | h
      · cases b <;> simp [isBoolean] at h1
        simp [isOptional] at h2; subst h2; exact hd
      · exact isOneOfOptBool_sound h hd
  | number o =>
    cases o
    · simp [isSubset] at hsub
      rcases hsub with (h | h) | h
      · cases b <;> simp [isNumber] at h; exact admits_flag_mono_number hd
      · cases b <;> simp [isOneOfNumber] at h
        obtain ⟨v, hv, hvb⟩ := h
        split at hvb <;> simp at hvb
        exact admits_oneOf_of_mem hv hd
      · exact isOneOfOptNumber_sound h (admits_flag_mono_number hd)
    · simp [isSubset] at hsub
      rcases hsub with ⟨h1, h2⟩ | h
      · cases b <;> simp [isNumber] at h1
        simp [isOptional] at h2; subst h2; exact hd
      · exact isOneOfOptNumber_sound h hd
  | string o =>
    cases o
    · simp [isSubset] at hsub
      rcases hsub with (h | h) | h
      · cases b <;> simp [isString] at h; exact admits_flag_mono_string hd
      · cases b <;> simp [isOneOfString] at h
        obtain ⟨v, hv, hvb⟩ := h
        split at hvb <;> simp at hvb
        exact admits_oneOf_of_mem hv hd
      · exact isOneOfOptString_sound h (admits_flag_mono_string hd)
    · simp [isSubset] at hsub
      rcases hsub with ⟨h1, h2⟩ | h
      · cases b <;> simp [isString] at h1
        simp [isOptional] at h2; subst h2; exact hd
      · exact isOneOfOptString_sound h hd
  | array t o =>
    cases b with
    | array ty o' =>
      have hsub' : isSubset t ty = true ∧ (o = true → o' = true) := by
        cases o <;> cases o' <;> simp_all [isSubset]
      simp [Shape.wf] at hw
      have hty : sizeOf ty ≤ n := by simp at hn; omega
      rcases admits_array_cases hd with ⟨rfl, ho⟩ | ⟨xs, rfl, hxs⟩
      · rw [admits_array_null]; exact hsub'.2 ho
      · rw [admits_array_arr, List.all_eq_true] at *
        intro x hx
        exact ih ty hty t hw hsub'.1 x (hxs x hx)
    | oneOf vs o' =>
      simp only [Shape.wf, Bool.and_eq_true] at hw
      have hvs : ∀ v ∈ vs, SoundFor v := fun v hv => ih v (by
        have := sizeOf_lt_of_mem_list hv; simp at hn; omega)
      cases o
      · simp [isSubset] at hsub
        rw [admits_oneOf, Bool.or_eq_true]; left
        exact any_sound vs hvs hw.2 hsub hd
      · simp only [isSubset] at hsub
        refine nullOk_sound hvs hw.2 hsub ?_
        rcases admits_array_cases hd with ⟨rfl, _⟩ | ⟨xs, rfl, hxs⟩
        · exact Or.inl rfl
        · exact Or.inr (by rw [admits_array_arr]; exact hxs)
    | _ => cases o <;> simp [isSubset] at hsub
  | tuple es o =>
    cases b with
    | tuple os o' =>
      have hsub' : zipAllSubset es os = true ∧ es.length = os.length ∧ (o = true → o' = true) := by
        cases o <;> cases o' <;> simp_all [isSubset]
      simp [Shape.wf] at hw
      have hos : ∀ o ∈ os, SoundFor o := fun o ho => ih o (by
        have := sizeOf_lt_of_mem_list ho; simp at hn; omega)
      rcases admits_tuple_cases hd with ⟨rfl, ho⟩ | ⟨xs, rfl, hxs⟩
      · rw [admits_tuple_null]; exact hsub'.2.2 ho
      · rw [admits_tuple_arr]
        exact zip_sound os es xs hos hw hsub'.1 hsub'.2.1 hxs
    | oneOf vs o' =>
      simp only [Shape.wf, Bool.and_eq_true] at hw
      have hvs : ∀ v ∈ vs, SoundFor v := fun v hv => ih v (by
        have := sizeOf_lt_of_mem_list hv; simp at hn; omega)
      cases o
      · simp [isSubset] at hsub
        rw [admits_oneOf, Bool.or_eq_true]; left
        exact any_sound vs hvs hw.2 hsub hd
      · simp only [isSubset] at hsub
        refine nullOk_sound hvs hw.2 hsub ?_
        rcases admits_tuple_cases hd with ⟨rfl, _⟩ | ⟨xs, rfl, hxs⟩
        · exact Or.inl rfl
        · exact Or.inr (by rw [admits_tuple_arr]; exact hxs)
    | array ty o' =>
      have hsub' : (es.all fun e => isSubset e ty) = true ∧ (o = true → o' = true) := by
        cases o <;> cases o' <;> simp_all [isSubset]
      simp only [Shape.wf] at hw
      have hty : SoundFor ty := ih ty (by simp at hn; omega)
      rcases admits_tuple_cases hd with ⟨rfl, ho⟩ | ⟨xs, rfl, hxs⟩
      · rw [admits_array_null]; exact hsub'.2 ho
      · rw [admits_array_arr]
        exact tuple_in_array_sound hty hw es xs hsub'.1 hxs
    | _ => cases o <;> simp [isSubset] at hsub
  | object c o =>
    cases b with
    | object oc o' =>
      have hsub' : (oc.all fun kv => mapContainsKey kv.1 c || kv.2.isOptional || isOneOfNull kv.2) = true ∧
          (c.all fun kv => lookupSubset kv.1 kv.2 oc) = true ∧ (o = true → o' = true) := by
        cases o <;> cases o' <;> simp_all [isSubset]
      simp only [Shape.wf, Bool.and_eq_true] at hw
      have hoc : ∀ kv ∈ oc, SoundFor kv.2 := fun kv hkv => ih kv.2 (by
        have := sizeOf_lt_of_mem_members hkv; simp at hn; omega)
      rcases admits_object_cases hd with ⟨rfl, ho⟩ | ⟨ms, rfl, hms, habs⟩
      · rw [admits_object_null]; exact hsub'.2.2 ho
      · rw [admits_object_obj, Bool.and_eq_true]
        exact object_sound hoc hw.1 hw.2 hsub'.1 hsub'.2.1 hms habs
    | oneOf vs o' =>
      simp only [Shape.wf, Bool.and_eq_true] at hw
      have hvs : ∀ v ∈ vs, SoundFor v := fun v hv => ih v (by
        have := sizeOf_lt_of_mem_list hv; simp at hn; omega)
      cases o
      · have hany : anyObjectSuperset (.object c false) vs = true := by simpa [isSubset] using hsub
        rw [admits_oneOf, Bool.or_eq_true]; left
        exact anyObject_sound vs hvs hw.2 hany hd
      · simp only [isSubset] at hsub
        refine nullOk_sound hvs hw.2 hsub ?_
        rcases admits_object_cases hd with ⟨rfl, _⟩ | ⟨ms, rfl, hms, habs⟩
        · exact Or.inl rfl
        · exact Or.inr (by rw [admits_object_obj, hms, habs]; rfl)
    | _ => cases o <;> simp [isSubset] at hsub
  | oneOf vs o =>
    cases b with
    | oneOf ws o' =>
      have hsub' : (setIsSubset vs ws = true ∨ (vs.all fun v => anySuperset v ws) = true)
          ∧ (o = true → o' = true) := by
        cases o <;> cases o' <;> simp_all [isSubset]
      simp only [Shape.wf, Bool.and_eq_true] at hw
      have hws : ∀ w ∈ ws, SoundFor w := fun w hw' => ih w (by
        have := sizeOf_lt_of_mem_list hw'; simp at hn; omega)
      rw [admits_oneOf, Bool.or_eq_true, Bool.and_eq_true] at hd ⊢
      rcases hd with hd | ⟨ho, hnull⟩
      · left
        obtain ⟨v, hv, hvd⟩ := admitsAny_iff.1 hd
        rcases hsub'.1 with h | h
        · unfold setIsSubset at h
          rw [List.all_eq_true] at h
          exact admitsAny_iff.2 ⟨v, setContains_iff.1 (h v hv), hvd⟩
        · rw [List.all_eq_true] at h
          exact any_sound ws hws hw.2 (h v hv) hvd
      · right; exact ⟨hsub'.2 ho, hnull⟩
    | _ => cases o <;> simp [isSubset] at hsub

/-- **C02.** Whenever a shape is reported to be a subset of another (`isSubset a b = true`), every
JSON document admitted by the first is admitted by the second — for every `a` and every well-formed `b`. -/
theorem subset_sound (a b : Shape) (hw : b.wf = true) (h : isSubset a b = true) :
    ∀ d, admits a d = true → admits b d = true :=
  subset_sound_aux (sizeOf b) b (Nat.le_refl _) a hw h

/-- non-vacuity: a non-trivial `true` answer between well-formed shapes with nested OneOf/tuple -/
example :
    let a := Shape.tuple [.number false, .object [("k", .string false)] false] true
    let b := Shape.array (.oneOf [.number false, .object [("k", .string false)] false] false) true
    b.wf = true ∧ isSubset a b = true := by decide

/-- the defect repaired by the D5 fix stays refuted in the model: an optional tuple is not a subset
of a non-optional array (the left admits `null`, the right does not) -/
example :
    isSubset (.tuple [.number false, .string false] true)
      (.array (.oneOf [.number false, .string false] false) false) = false := by decide

end ShapeVerif
