/-
C07 — Inference depends only on the type structure of the document (document-tree level):
scalar payloads and lexical forms, the number of same-shaped elements of a non-empty array, and the
order of members are irrelevant. The lift to texts goes through the text-layer model (C04).
-/
import ShapeVerif.Props.C17
namespace ShapeVerif
open Shape

mutual
/-- erase every scalar payload (which number, which string, true versus false) -/
def skel : Doc → Doc
  | .null => .null
  | .bool _ => .bool false
  | .num _ => .num ""
  | .str _ => .str ""
  | .arr xs => .arr (skelList xs)
  | .obj ms => .obj (skelMembers ms)
def skelList : List Doc → List Doc
  | [] => []
  | x :: xs => skel x :: skelList xs
def skelMembers : List (String × Doc) → List (String × Doc)
  | [] => []
  | (k, v) :: ms => (k, skel v) :: skelMembers ms
end

theorem infer_skel_aux (n : Nat) : ∀ d : Doc, sizeOf d ≤ n → inferDoc (skel d) = inferDoc d := by
  induction n with
  | zero => intro d h; cases d <;> simp at h
  | succ n ih =>
    intro d hn
    cases d with
    | null => rfl
    | bool b => rfl
    | num x => rfl
    | str x => rfl
    | arr xs =>
      have hl : ∀ l : List Doc, (∀ x ∈ l, sizeOf x ≤ n) → inferDocList (skelList l) = inferDocList l := by
        intro l
        induction l with
        | nil => intro _; rfl
        | cons x l ihl =>
          intro hs
          simp only [skelList, inferDocList, ih x (hs x (by simp)), ihl (fun y hy => hs y (by simp [hy]))]
      have hs : ∀ x ∈ xs, sizeOf x ≤ n := by
        intro x hx; have := List.sizeOf_lt_of_mem hx; simp at hn; omega
      simp only [skel, inferDoc, hl xs hs]
    | obj ms =>
      have hm : ∀ (l : List (String × Doc)) (c : Members), (∀ kv ∈ l, sizeOf kv.2 ≤ n) →
          inferDocMembers (skelMembers l) c = inferDocMembers l c := by
        intro l
        induction l with
        | nil => intro _ _; rfl
        | cons kv l ihl =>
          obtain ⟨k, v⟩ := kv
          intro c hs
          simp only [skelMembers, inferDocMembers, ih v (hs (k, v) (by simp))]
          split
          · rfl
          · split
            · rfl
            · exact ihl _ (fun y hy => hs y (by simp [hy]))
      have hs : ∀ kv ∈ ms, sizeOf kv.2 ≤ n := by
        intro kv hkv
        have := List.sizeOf_lt_of_mem hkv
        obtain ⟨k, v⟩ := kv
        simp at this hn ⊢; omega
      simp only [skel, inferDoc, hm ms [] hs]

/-- **payload independence**: which number, which string (and which escapes), true versus false do
not influence the inferred shape, at any depth -/
theorem infer_payload_independent (d : Doc) : inferDoc (skel d) = inferDoc d :=
  infer_skel_aux (sizeOf d) d (Nat.le_refl _)

/-- two documents with the same skeleton get the same shape -/
theorem infer_factors (d d' : Doc) (h : skel d = skel d') : inferDoc d = inferDoc d' := by
  rw [← infer_payload_independent d, ← infer_payload_independent d', h]

/-- **repetition independence**: a non-empty array whose elements all have shape `s` is `Array<s>`,
however many elements it has -/
theorem infer_repetition (xs : List Doc) (s : Shape) (hne : xs ≠ [])
    (h : ∀ x ∈ xs, inferDoc x = .ok s) : inferDoc (.arr xs) = .ok (.array s false) := by
  have hl : ∀ l : List Doc, (∀ x ∈ l, inferDoc x = .ok s) →
      inferDocList l = .ok (List.replicate l.length s) := by
    intro l
    induction l with
    | nil => intro _; rfl
    | cons x l ihl =>
      intro hs
      simp [inferDocList, hs x (by simp), ihl (fun y hy => hs y (by simp [hy])), List.replicate_succ]
  have hes := hl xs h
  obtain ⟨_, s2, _, _⟩ := infer_array xs _ hes
  cases xs with
  | nil => exact absurd rfl hne
  | cons x rest =>
    have hae : allEqual (List.replicate (x :: rest).length s) = true := by
      generalize (x :: rest).length = m
      induction m with
      | zero => rfl
      | succ m ihm =>
        cases m with
        | zero => rfl
        | succ m => simp only [List.replicate_succ, allEqual, cmp_refl] at ihm ⊢; simpa using ihm
    exact s2 s (List.replicate rest.length s) (by simp [List.replicate_succ]) hae

/-- the lexical form of a scalar is irrelevant: any two numbers, any two strings, either boolean -/
theorem infer_scalar_forms (a b : String) (p q : Bool) :
    inferDoc (.num a) = inferDoc (.num b) ∧ inferDoc (.str a) = inferDoc (.str b) ∧
    inferDoc (.bool p) = inferDoc (.bool q) := ⟨rfl, rfl, rfl⟩

example : inferDoc (.arr [.num "1", .num "2.5e3", .num "-0"]) = inferDoc (.arr [.num "7"]) := by rfl

end ShapeVerif
