/-
C07 — Inference depends only on the type structure of the document (document-tree level):
scalar payloads and lexical forms, the number of same-shaped elements of a non-empty array, and the
order of members are irrelevant. The lift to texts goes through the text-layer model (C04).
-/
import ShapeVerif.Props.C17
import ShapeVerif.Lemmas.MemberOrder
namespace ShapeVerif
open Shape

mutual
/-- erase every scalar payload (which number, which string, true versus false) -/
def skel : Doc → Doc
  | .null => .null
  | .bool _ => .bool false
  | .num _ => .num ""
  | .str _ => .str ""
  | .arr xs => .arr (skelList xs)
  | .obj ms => .obj (skelMembers ms)
def skelList : List Doc → List Doc
  | [] => []
  | x :: xs => skel x :: skelList xs
def skelMembers : List (String × Doc) → List (String × Doc)
  | [] => []
  | (k, v) :: ms => (k, skel v) :: skelMembers ms
end

theorem infer_skel_aux (n : Nat) : ∀ d : Doc, sizeOf d ≤ n → inferDoc (skel d) = inferDoc d := by
  induction n with
  | zero => intro d h; cases d <;> simp at h
  | succ n ih =>
    intro d hn
    cases d with
    | null => rfl
    | bool b => rfl
    | num x => rfl
    | str x => rfl
    | arr xs =>
      have hl : ∀ l : List Doc, (∀ x ∈ l, sizeOf x ≤ n) → inferDocList (skelList l) = inferDocList l := by
        intro l
        induction l with
        | nil => intro _; rfl
        | cons x l ihl =>
          intro hs
          simp only [skelList, inferDocList, ih x (hs x (by simp)), ihl (fun y hy => hs y (by simp [hy]))]
      have hs : ∀ x ∈ xs, sizeOf x ≤ n := by
        intro x hx; have := List.sizeOf_lt_of_mem hx; simp at hn; omega
      simp only [skel, inferDoc, hl xs hs]
    | obj ms =>
      have hm : ∀ (l : List (String × Doc)) (c : Members), (∀ kv ∈ l, sizeOf kv.2 ≤ n) →
          inferDocMembers (skelMembers l) c = inferDocMembers l c := by
        intro l
        induction l with
        | nil => intro _ _; rfl
        | cons kv l ihl =>
          obtain ⟨k, v⟩ := kv
          intro c hs
          simp only [skelMembers, inferDocMembers, ih v (hs (k, v) (by simp))]
          split
          · rfl
          · split
            · rfl
            · exact ihl _ (fun y hy => hs y (by simp [hy]))
      have hs : ∀ kv ∈ ms, sizeOf kv.2 ≤ n := by
        intro kv hkv
        have := List.sizeOf_lt_of_mem hkv
        obtain ⟨k, v⟩ := kv
        simp at this hn ⊢; omega
      simp only [skel, inferDoc, hm ms [] hs]

/-- **payload independence**: which number, which string (and which escapes), true versus false do
not influence the inferred shape, at any depth -/
theorem infer_payload_independent (d : Doc) : inferDoc (skel d) = inferDoc d :=
  infer_skel_aux (sizeOf d) d (Nat.le_refl _)

/-- two documents with the same skeleton get the same shape -/
theorem infer_factors (d d' : Doc) (h : skel d = skel d') : inferDoc d = inferDoc d' := by
  rw [← infer_payload_independent d, ← infer_payload_independent d', h]

/-- **repetition independence**: a non-empty array whose elements all have shape `s` is `Array<s>`,
however many elements it has -/
theorem infer_repetition (xs : List Doc) (s : Shape) (hne : xs ≠ [])
    (h : ∀ x ∈ xs, inferDoc x = .ok s) : inferDoc (.arr xs) = .ok (.array s false) := by
  have hl : ∀ l : List Doc, (∀ x ∈ l, inferDoc x = .ok s) →
      inferDocList l = .ok (List.replicate l.length s) := by
    intro l
    induction l with
    | nil => intro _; rfl
    | cons x l ihl =>
      intro hs
      simp [inferDocList, hs x (by simp), ihl (fun y hy => hs y (by simp [hy])), List.replicate_succ]
  have hes := hl xs h
  obtain ⟨_, s2, _, _⟩ := infer_array xs _ hes
  cases xs with
  | nil => exact absurd rfl hne
  | cons x rest =>
    have hae : allEqual (List.replicate (x :: rest).length s) = true := by
      generalize (x :: rest).length = m
      induction m with
      | zero => rfl
      | succ m ihm =>
        cases m with
        | zero => rfl
        | succ m => simp only [List.replicate_succ, allEqual, cmp_refl] at ihm ⊢; simpa using ihm
    exact s2 s (List.replicate rest.length s) (by simp [List.replicate_succ]) hae

/-- the lexical form of a scalar is irrelevant: any two numbers, any two strings, either boolean -/
theorem infer_scalar_forms (a b : String) (p q : Bool) :
    inferDoc (.num a) = inferDoc (.num b) ∧ inferDoc (.str a) = inferDoc (.str b) ∧
    inferDoc (.bool p) = inferDoc (.bool q) := ⟨rfl, rfl, rfl⟩

example : inferDoc (.arr [.num "1", .num "2.5e3", .num "-0"]) = inferDoc (.arr [.num "7"]) := by rfl

/-- The rewrites of a document that the property speaks about, closed under nesting: another
payload or lexical form of a scalar, another order of the members of an object, another number of
copies in an array of copies (each copy can then be rewritten on its own by the congruence rules). -/
inductive Rerender : Doc → Doc → Prop
  | refl (d : Doc) : Rerender d d
  | symm {a b : Doc} : Rerender a b → Rerender b a
  | trans {a b c : Doc} : Rerender a b → Rerender b c → Rerender a c
  | num (a b : String) : Rerender (.num a) (.num b)
  | str (a b : String) : Rerender (.str a) (.str b)
  | bool (p q : Bool) : Rerender (.bool p) (.bool q)
  | element {x y : Doc} (pre post : List Doc) : Rerender x y →
      Rerender (.arr (pre ++ x :: post)) (.arr (pre ++ y :: post))
  | member {v w : Doc} (k : String) (pre post : List (String × Doc)) : Rerender v w →
      Rerender (.obj (pre ++ (k, v) :: post)) (.obj (pre ++ (k, w) :: post))
  | order {ms ms' : List (String × Doc)} : ms.Perm ms' → Rerender (.obj ms) (.obj ms')
  | copies (x : Doc) (n m : Nat) :
      Rerender (.arr (List.replicate (n + 1) x)) (.arr (List.replicate (m + 1) x))

def SameOk (a b : Doc) : Prop := ∀ s, inferDoc a = .ok s ↔ inferDoc b = .ok s

theorem inferDocList_congr {x y : Doc} (h : SameOk x y) (post : List Doc) :
    ∀ (pre : List Doc) (ss : List Shape),
      inferDocList (pre ++ x :: post) = .ok ss ↔ inferDocList (pre ++ y :: post) = .ok ss
  | [], ss => by
    simp only [List.nil_append, inferDocList]
    cases hx : inferDoc x with
    | error e =>
      cases hy : inferDoc y with
      | error e' => simp
      | ok sy => have := (h sy).2 hy; rw [hx] at this; cases this
    | ok sx => have := (h sx).1 hx; simp [this]
  | p :: pre, ss => by
    simp only [List.cons_append, inferDocList]
    cases inferDoc p with
    | error e => simp
    | ok sp =>
      simp only
      have ih := inferDocList_congr h post pre
      cases h1 : inferDocList (pre ++ x :: post) with
      | error e =>
        cases h2 : inferDocList (pre ++ y :: post) with
        | error e' => simp
        | ok ss2 => have := (ih ss2).2 h2; rw [h1] at this; cases this
      | ok ss1 => have := (ih ss1).1 h1; simp [this]

theorem inferDocMembers_congr {v w : Doc} (h : SameOk v w) (k : String) (post : List (String × Doc)) :
    ∀ (pre : List (String × Doc)) (c r : Members),
      inferDocMembers (pre ++ (k, v) :: post) c = .ok r ↔ inferDocMembers (pre ++ (k, w) :: post) c = .ok r
  | [], c, r => by
    simp only [List.nil_append, inferDocMembers]
    cases hv : inferDoc v with
    | error e =>
      cases hw : inferDoc w with
      | error e' => simp
      | ok sw => have := (h sw).2 hw; rw [hv] at this; cases this
    | ok sv => have := (h sv).1 hv; simp [this]
  | (k', p) :: pre, c, r => by
    simp only [List.cons_append, inferDocMembers]
    cases inferDoc p with
    | error e => simp
    | ok sp =>
      simp only
      cases addMember c k' sp with
      | error e => simp
      | ok c' => exact inferDocMembers_congr h k post pre c' r

theorem arr_sameOk {l l' : List Doc}
    (h : ∀ ss, inferDocList l = .ok ss ↔ inferDocList l' = .ok ss) : SameOk (.arr l) (.arr l') := by
  intro s
  simp only [inferDoc]
  cases h1 : inferDocList l with
  | error e =>
    cases h2 : inferDocList l' with
    | error e' => simp
    | ok ss2 => have := (h ss2).2 h2; rw [h1] at this; cases this
  | ok ss1 => have := (h ss1).1 h1; simp [this]

theorem obj_sameOk {l l' : List (String × Doc)}
    (h : ∀ r, inferDocMembers l [] = .ok r ↔ inferDocMembers l' [] = .ok r) : SameOk (.obj l) (.obj l') := by
  intro s
  simp only [inferDoc]
  cases h1 : inferDocMembers l [] with
  | error e =>
    cases h2 : inferDocMembers l' [] with
    | error e' => simp
    | ok r2 => have := (h r2).2 h2; rw [h1] at this; cases this
  | ok r1 => have := (h r1).1 h1; simp [this]

theorem inferDocList_replicate_error {x : Doc} {e : InferErr} (hx : inferDoc x = .error e) (n : Nat) :
    inferDocList (List.replicate (n + 1) x) = .error e := by
  simp [List.replicate_succ, inferDocList, hx]

theorem copies_sameOk (x : Doc) (n m : Nat) :
    SameOk (.arr (List.replicate (n + 1) x)) (.arr (List.replicate (m + 1) x)) := by
  intro s
  cases hx : inferDoc x with
  | error e =>
    simp [inferDoc, inferDocList_replicate_error hx]
  | ok sx =>
    have h1 := infer_repetition (List.replicate (n + 1) x) sx (by simp [List.replicate_succ])
      (fun y hy => by rw [List.eq_of_mem_replicate hy]; exact hx)
    have h2 := infer_repetition (List.replicate (m + 1) x) sx (by simp [List.replicate_succ])
      (fun y hy => by rw [List.eq_of_mem_replicate hy]; exact hx)
    rw [h1, h2]

/-- **C07 on document trees**: every re-rendering of a document is given the same shape (and is
rejected when the original is) -/
theorem rerender_same_shape {d d' : Doc} (h : Rerender d d') : SameOk d d' := by
  induction h with
  | refl d => intro s; exact Iff.rfl
  | symm _ ih => intro s; exact (ih s).symm
  | trans _ _ ih1 ih2 => intro s; exact (ih1 s).trans (ih2 s)
  | num a b => intro s; simp [inferDoc]
  | str a b => intro s; simp [inferDoc]
  | bool p q => intro s; simp [inferDoc]
  | element pre post _ ih => exact arr_sameOk (inferDocList_congr ih post pre)
  | member k pre post _ ih => exact obj_sameOk (fun r => inferDocMembers_congr ih k post pre [] r)
  | order hp =>
    intro s
    exact ⟨infer_member_order hp, infer_member_order hp.symm⟩
  | copies x n m => exact copies_sameOk x n m

example : Rerender (.obj [("a", .num "1"), ("b", .arr [.str "x", .str "y"])])
    (.obj [("b", .arr [.str "\\u0078"]), ("a", .num "-0.0e+10")]) := by
  refine .trans (.order (List.Perm.swap _ _ [])) ?_
  refine .trans (.member "a" [("b", _)] [] (.num _ "-0.0e+10")) ?_
  refine .member "b" [] [("a", _)] ?_
  refine .trans (.element [] [.str "y"] (.str "x" "\\u0078")) ?_
  refine .trans (.element [.str "\\u0078"] [] (.str "y" "\\u0078")) ?_
  exact .copies (.str "\\u0078") 1 0

end ShapeVerif
