/-
`tokenize` is modelled with fuel = number of characters (`Model/Lexer.lean`); at fuel 0 the loop
returns what it has. The real `tokenize` is a `while let Some(..) = lexer.next()` loop without a
counter, so the model says something about it only if that cut-off is reached on empty input alone.
`lexLoopO` is the twin that fails when the fuel runs out with input left; `lexLoopO_eq` shows it
never fails from `tokenize`'s initial fuel (every `lexOne` step consumes at least one character),
and that it returns the model's result.
-/
import ShapeVerif.Lemmas.LexInv
namespace ShapeVerif

def lexLoopO : Nat → List Char → Nat → Int → Int → List Token → List Diag → Option LexResult
  | 0, [], _, _, _, toks, diags => some ⟨toks.reverse, diags.reverse⟩
  | 0, _ :: _, _, _, _, _, _ => none
  | fuel + 1, cs, pos, nBrace, nBrak, toks, diags =>
    match cs with
    | [] => some ⟨toks.reverse, diags.reverse⟩
    | _ =>
      let r := lexOne cs
      let kind := r.1
      let text := r.2.2.1
      let rest := r.2.2.2
      let stop := pos + utf8Len text
      match r.2.1 with
      | some dk =>
        lexLoopO fuel rest stop nBrace nBrak (⟨.error, pos, stop⟩ :: toks) (⟨dk, pos, stop⟩ :: diags)
      | none =>
        let diags1 := if kind == .string then (checkString pos text).reverse ++ diags else diags
        let nBrace' := if kind == .lbrace then nBrace + 1 else if kind == .rbrace then nBrace - 1 else nBrace
        let nBrak' := if kind == .lbrak then nBrak + 1 else if kind == .rbrak then nBrak - 1 else nBrak
        if nBrace' + nBrak' > 256 then
          some ⟨toks.reverse, (⟨.tooDeep, pos, stop⟩ :: diags1).reverse⟩
        else lexLoopO fuel rest stop nBrace' nBrak' (⟨kind, pos, stop⟩ :: toks) diags1

theorem lexOne_rest_lt (c : Char) (cs : List Char) : (lexOne (c :: cs)).2.2.2.length < (c :: cs).length := by
  obtain ⟨h1, h2, _⟩ := lexOne_spec c cs
  have := congrArg List.length h1
  have hp : 0 < (lexOne (c :: cs)).2.2.1.length := List.length_pos_iff.mpr h2
  simp only [List.length_append] at this
  omega

theorem lexLoopO_eq : ∀ (fuel : Nat) (cs : List Char) (pos : Nat) (nb nk : Int) (toks : List Token) (diags : List Diag),
    cs.length ≤ fuel → lexLoopO fuel cs pos nb nk toks diags = some (lexLoop fuel cs pos nb nk toks diags)
  | 0, [], _, _, _, _, _, _ => by simp [lexLoopO, lexLoop]
  | 0, _ :: _, _, _, _, _, _, h => by simp at h
  | fuel + 1, [], _, _, _, _, _, _ => by simp [lexLoopO, lexLoop]
  | fuel + 1, c :: cs, pos, nb, nk, toks, diags, h => by
    have hl := lexOne_rest_lt c cs
    have hle : (lexOne (c :: cs)).2.2.2.length ≤ fuel := by simp at h hl ⊢; omega
    simp only [lexLoopO, lexLoop]
    cases hd : (lexOne (c :: cs)).2.1 with
    | some dk => exact lexLoopO_eq fuel _ _ _ _ _ _ hle
    | none =>
      simp only []
      rw [apply_ite some]
      exact ite_congr rfl (fun _ => rfl) (fun _ => lexLoopO_eq fuel _ _ _ _ _ _ hle)

/-- **the lexer's cut-off is never reached with input left** -/
theorem tokenize_never_exhausts_fuel (cs : List Char) :
    lexLoopO cs.length cs 0 0 0 [] [] = some (tokenize cs) :=
  lexLoopO_eq cs.length cs 0 0 0 [] [] (Nat.le_refl _)

end ShapeVerif
