/-
`Shape.cmp` (the derived `Ord`) decides structural equality, is reflexive and oriented.
-/
import Std
import ShapeVerif.Model.Shape
namespace ShapeVerif
open Shape Std

mutual
theorem cmp_eq_iff : ∀ (a b : Shape), cmp a b = .eq ↔ a = b
  | .null, b => by cases b <;> simp [cmp, tag]
  | .bool o, b => by cases b <;> simp [cmp, tag]
  | .number o, b => by cases b <;> simp [cmp, tag]
  | .string o, b => by cases b <;> simp [cmp, tag]
  | .array t o, b => by
    cases b <;> simp [cmp, tag, Ordering.then_eq_eq]
    rename_i t' o'
    intro _; exact cmp_eq_iff t t'
  | .object c o, b => by
    cases b <;> simp [cmp, tag, Ordering.then_eq_eq]
    rename_i c' o'
    intro _; exact cmpMembers_eq_iff c c'
  | .oneOf v o, b => by
    cases b <;> simp [cmp, tag, Ordering.then_eq_eq]
    rename_i v' o'
    intro _; exact cmpList_eq_iff v v'
  | .tuple v o, b => by
    cases b <;> simp [cmp, tag, Ordering.then_eq_eq]
    rename_i v' o'
    intro _; exact cmpList_eq_iff v v'
theorem cmpList_eq_iff : ∀ (a b : List Shape), cmpList a b = .eq ↔ a = b
  | [], [] => by simp [cmpList]
  | [], _ :: _ => by simp [cmpList]
  | _ :: _, [] => by simp [cmpList]
  | a :: as, b :: bs => by
    simp [cmpList, Ordering.then_eq_eq]
    rw [cmp_eq_iff a b, cmpList_eq_iff as bs]
theorem cmpMembers_eq_iff : ∀ (a b : Members), cmpMembers a b = .eq ↔ a = b
  | [], [] => by simp [cmpMembers]
  | [], _ :: _ => by simp [cmpMembers]
  | _ :: _, [] => by simp [cmpMembers]
  | (k, a) :: as, (k', b) :: bs => by
    simp [cmpMembers, Ordering.then_eq_eq]
    rw [cmp_eq_iff a b, cmpMembers_eq_iff as bs]
end

theorem cmp_refl (a : Shape) : cmp a a = .eq := (cmp_eq_iff a a).2 rfl
theorem cmpList_refl (a : List Shape) : cmpList a a = .eq := (cmpList_eq_iff a a).2 rfl
theorem cmpMembers_refl (a : Members) : cmpMembers a a = .eq := (cmpMembers_eq_iff a a).2 rfl

instance : DecidableEq Shape := fun a b =>
  if h : cmp a b = .eq then isTrue ((cmp_eq_iff a b).1 h)
  else isFalse (fun e => h ((cmp_eq_iff a b).2 e))

theorem beq_iff (a b : Shape) : (cmp a b == .eq) = true ↔ a = b := by
  rw [beq_iff_eq]; exact cmp_eq_iff a b

end ShapeVerif
