/-
`merger_sound`: the merged shape admits every document that either operand admits
(for all well-formed shapes, by induction on the size of the left operand).
-/
import ShapeVerif.Lemmas.MergeSem
namespace ShapeVerif
open Shape Std

theorem admits_flag_true {s : Shape} {x : Doc} (h : admits s x = true) : admits (withOptional true s) x = true :=
  admits_asOptional h

theorem sizeOf_lt_of_mapGet {c : Members} {k : String} {v : Shape} (h : mapGet k c = some v) :
    sizeOf v < sizeOf c := sizeOf_lt_of_mem_members (kv := (k, v)) (mem_of_mapGet h)

theorem wf_of_mapGet {c : Members} {k : String} {v : Shape} (hw : wfMembers c = true)
    (h : mapGet k c = some v) : v.wf = true := wfMembers_mem hw (k, v) (mem_of_mapGet h)

/-- the object arm, given the induction hypothesis for the values of the left map -/
theorem object_merge_sound {c oc : Members} {o p : Bool} {x : Doc}
    (ih : ∀ v ov, (∃ k, mapGet k c = some v ∧ mapGet k oc = some ov) →
      ∀ y, admits v y = true ∨ admits ov y = true → admits (merger v ov) y = true)
    (hc : sortedKeys c = true) (ho : sortedKeys oc = true)
    (h : admits (.object c o) x = true ∨ admits (.object oc p) x = true) :
    admits (.object (mergedContent c oc) (o || p)) x = true := by
  have hM := sortedKeys_mergedContent c oc
  rcases h with h | h
  · rcases admits_object_cases h with ⟨rfl, ho'⟩ | ⟨ms, rfl, hms, habs⟩
    · simp [admits_object_null, ho']
    · rw [admits_object_obj, Bool.and_eq_true]
      rw [List.all_eq_true] at hms
      rw [absentOk_iff_mapGet hc] at habs
      constructor
      · rw [List.all_eq_true]
        intro ⟨k, y⟩ hky
        have := hms (k, y) hky
        simp only [admitsKey_eq_mapGet] at this ⊢
        rw [mapGet_mergedContent hc ho]
        cases hv : mapGet k c with
        | none => simp [hv] at this
        | some v =>
          simp only [hv] at this
          cases hov : mapGet k oc with
          | none => exact admits_asOptional this
          | some ov => exact ih v ov ⟨k, hv, hov⟩ y (Or.inl this)
      · rw [absentOk_iff_mapGet hM]
        intro k s hs
        rw [mapGet_mergedContent hc ho] at hs
        cases hv : mapGet k c with
        | none =>
          cases hov : mapGet k oc with
          | none => simp [hv, hov] at hs
          | some ov => simp [hv, hov] at hs; subst hs; exact Or.inr (admits_asOptional_null ov)
        | some v =>
          cases hov : mapGet k oc with
          | none => simp [hv, hov] at hs; subst hs; exact Or.inr (admits_asOptional_null v)
          | some ov =>
            simp [hv, hov] at hs; subst hs
            rcases habs k v hv with hm | hn
            · exact Or.inl hm
            · exact Or.inr (ih v ov ⟨k, hv, hov⟩ .null (Or.inl hn))
  · rcases admits_object_cases h with ⟨rfl, ho'⟩ | ⟨ms, rfl, hms, habs⟩
    · simp [admits_object_null, ho']
    · rw [admits_object_obj, Bool.and_eq_true]
      rw [List.all_eq_true] at hms
      rw [absentOk_iff_mapGet ho] at habs
      constructor
      · rw [List.all_eq_true]
        intro ⟨k, y⟩ hky
        have := hms (k, y) hky
        simp only [admitsKey_eq_mapGet] at this ⊢
        rw [mapGet_mergedContent hc ho]
        cases hov : mapGet k oc with
        | none => simp [hov] at this
        | some ov =>
          simp only [hov] at this
          cases hv : mapGet k c with
          | none => exact admits_asOptional this
          | some v => exact ih v ov ⟨k, hv, hov⟩ y (Or.inr this)
      · rw [absentOk_iff_mapGet hM]
        intro k s hs
        rw [mapGet_mergedContent hc ho] at hs
        cases hv : mapGet k c with
        | none =>
          cases hov : mapGet k oc with
          | none => simp [hv, hov] at hs
          | some ov => simp [hv, hov] at hs; subst hs; exact Or.inr (admits_asOptional_null ov)
        | some v =>
          cases hov : mapGet k oc with
          | none => simp [hv, hov] at hs; subst hs; exact Or.inr (admits_asOptional_null v)
          | some ov =>
            simp [hv, hov] at hs; subst hs
            rcases habs k ov hov with hm | hn
            · exact Or.inl hm
            · exact Or.inr (ih v ov ⟨k, hv, hov⟩ .null (Or.inr hn))

/-- array-with-tuple arms (either order): the element OneOf covers both operands -/
theorem array_tuple_sound {t : Shape} {es : List Shape} {oa ot : Bool} {x : Doc}
    (h : admits (.array t oa) x = true ∨ admits (.tuple es ot) x = true) :
    admits (.array (.oneOf (setExtend (arrayElemVariants t
      (if es.any isOptional || t.isOptional then setInsert .null [] else [])) (es.map asNonOptional)) false)
      (oa || ot)) x = true := by
  rcases h with h | h
  · rcases admits_array_cases h with ⟨rfl, ho⟩ | ⟨xs, rfl, hxs⟩
    · simp [admits_array_null, ho]
    · apply admits_array_of_variants
      rw [List.all_eq_true] at hxs
      intro y hy
      obtain ⟨v, hv, hvd⟩ := admitsAny_iff.1 (admitsAny_arrayElemVariants (init :=
        (if es.any isOptional || t.isOptional then setInsert .null [] else [])) (hxs y hy))
      exact admitsAny_iff.2 ⟨v, mem_setExtend.2 (Or.inl hv), hvd⟩
  · rcases admits_tuple_cases h with ⟨rfl, ho⟩ | ⟨xs, rfl, hxs⟩
    · simp [admits_array_null, ho]
    · apply admits_array_of_variants
      refine tuple_elems_in_variants es xs mem_setExtend_map_asNonOptional ?_ hxs
      intro hany
      apply mem_setExtend.2; left
      apply mem_arrayElemVariants_init
      simp [hany]; rw [mem_setInsert]; exact Or.inl rfl

theorem merger_sound_aux (n : Nat) : ∀ a b : Shape, sizeOf a ≤ n → a.wf = true → b.wf = true →
    ∀ x, admits a x = true ∨ admits b x = true → admits (merger a b) x = true := by
  induction n with
  | zero => intro a b h; cases a <;> simp at h
  | succ n ih =>
  intro a b hn ha hb x h
  cases a with
  | null =>
    simp only [merger]
    rcases h with h | h
    · cases x <;> simp [admits, Doc.isNull] at h; exact admits_asOptional_null b
    · exact admits_asOptional h
  | bool o =>
    cases b with
    | null =>
      simp only [merger]
      rcases h with h | h
      · exact admits_asOptional (s := .bool o) h
      · cases x <;> simp [admits, Doc.isNull] at h; simp [admits]
    | bool p =>
      simp only [merger]
      rcases h with h | h <;> cases x <;> simp_all [admits]
    | oneOf vs p =>
      simp only [merger]
      rcases h with h | h
      · exact admits_addToOneOf_new h
      · exact admits_addToOneOf_old h id
    | _ =>
      simp only [merger]
      rcases h with h | h
      · exact admits_mixed_left h
      · exact admits_mixed_right h
  | number o =>
    cases b with
    | null =>
      simp only [merger]
      rcases h with h | h
      · exact admits_asOptional (s := .number o) h
      · cases x <;> simp [admits, Doc.isNull] at h; simp [admits]
    | number p =>
      simp only [merger]
      rcases h with h | h <;> cases x <;> simp_all [admits]
    | oneOf vs p =>
      simp only [merger]
      rcases h with h | h
      · exact admits_addToOneOf_new h
      · exact admits_addToOneOf_old h id
    | _ =>
      simp only [merger]
      rcases h with h | h
      · exact admits_mixed_left h
      · exact admits_mixed_right h
  | string o =>
    cases b with
    | null =>
      simp only [merger]
      rcases h with h | h
      · exact admits_asOptional (s := .string o) h
      · cases x <;> simp [admits, Doc.isNull] at h; simp [admits]
    | string p =>
      simp only [merger]
      rcases h with h | h <;> cases x <;> simp_all [admits]
    | oneOf vs p =>
      simp only [merger]
      rcases h with h | h
      · exact admits_addToOneOf_new h
      · exact admits_addToOneOf_old h id
    | _ =>
      simp only [merger]
      rcases h with h | h
      · exact admits_mixed_left h
      · exact admits_mixed_right h
  | array t o =>
    cases b with
    | null =>
      simp only [merger]
      rcases h with h | h
      · exact admits_asOptional (s := .array t o) h
      · cases x <;> simp [admits, Doc.isNull] at h; simp [admits]
    | array t' p =>
      simp only [merger]
      simp only [Shape.wf] at ha hb
      have ht : sizeOf t ≤ n := by simp at hn; omega
      rcases h with h | h
      · rcases admits_array_cases h with ⟨rfl, ho⟩ | ⟨xs, rfl, hxs⟩
        · simp [admits_array_null, ho]
        · rw [admits_array_arr, List.all_eq_true] at *
          intro y hy; exact ih t t' ht ha hb y (Or.inl (hxs y hy))
      · rcases admits_array_cases h with ⟨rfl, ho⟩ | ⟨xs, rfl, hxs⟩
        · simp [admits_array_null, ho]
        · rw [admits_array_arr, List.all_eq_true] at *
          intro y hy; exact ih t t' ht ha hb y (Or.inr (hxs y hy))
    | tuple es ot =>
      simp only [merger]
      exact array_tuple_sound h
    | oneOf vs p =>
      simp only [merger]
      rcases h with h | h
      · exact admits_addToOneOf_new h
      · exact admits_addToOneOf_old h id
    | _ =>
      simp only [merger]
      rcases h with h | h
      · exact admits_mixed_left h
      · exact admits_mixed_right h
  | object c o =>
    cases b with
    | null =>
      simp only [merger]
      rcases h with h | h
      · exact admits_asOptional (s := .object c o) h
      · cases x <;> simp [admits, Doc.isNull] at h; simp [admits]
    | object oc p =>
      rw [merger_object_object]
      simp only [Shape.wf, Bool.and_eq_true] at ha hb
      refine object_merge_sound ?_ ha.1 hb.1 h
      rintro v ov ⟨k, hv, hov⟩ y hy
      have : sizeOf v ≤ n := by
        have := sizeOf_lt_of_mapGet hv; simp at hn; omega
      exact ih v ov this (wf_of_mapGet ha.2 hv) (wf_of_mapGet hb.2 hov) y hy
    | oneOf vs p =>
      simp only [merger]
      rcases h with h | h
      · exact admits_addToOneOf_new h
      · exact admits_addToOneOf_old h id
    | _ =>
      simp only [merger]
      rcases h with h | h
      · exact admits_mixed_left h
      · exact admits_mixed_right h
  | oneOf vs o =>
    cases b with
    | null =>
      simp only [merger]
      rcases h with h | h
      · exact admits_asOptional (s := .oneOf vs o) h
      · cases x <;> simp [admits, Doc.isNull] at h; simp [admits, Doc.isNull]
    | oneOf ws p =>
      simp only [merger]
      rw [admits_oneOf, Bool.or_eq_true, Bool.and_eq_true]
      rcases h with h | h <;> rw [admits_oneOf, Bool.or_eq_true, Bool.and_eq_true] at h
      · rcases h with h | ⟨h1, h2⟩
        · obtain ⟨v, hv, hvd⟩ := admitsAny_iff.1 h
          exact Or.inl (admitsAny_iff.2 ⟨v, mem_setExtend.2 (Or.inl hv), hvd⟩)
        · exact Or.inr ⟨by simp [h1], h2⟩
      · rcases h with h | ⟨h1, h2⟩
        · obtain ⟨v, hv, hvd⟩ := admitsAny_iff.1 h
          exact Or.inl (admitsAny_iff.2 ⟨v, mem_setExtend.2 (Or.inr hv), hvd⟩)
        · exact Or.inr ⟨by simp [h1], h2⟩
    | _ =>
      simp only [merger]
      rcases h with h | h
      · exact admits_addToOneOf_old h id
      · exact admits_addToOneOf_new h
  | tuple es o =>
    cases b with
    | null =>
      simp only [merger]
      rcases h with h | h
      · exact admits_asOptional (s := .tuple es o) h
      · cases x <;> simp [admits, Doc.isNull] at h; simp [admits]
    | array t p =>
      simp only [merger]
      have := array_tuple_sound (t := t) (es := es) (oa := p) (ot := o) (x := x) h.symm
      exact this
    | tuple os p =>
      simp only [merger]
      simp only [Shape.wf] at ha hb
      split
      · rename_i folded hlen hpick
        have hlen' : es.length = os.length := by simpa using hlen
        rcases h with h | h
        · rcases admits_tuple_cases h with ⟨rfl, ho⟩ | ⟨xs, rfl, hxs⟩
          · simp [admits_tuple_null, ho]
          · rw [admits_tuple_arr]
            exact pickAll_sound es os folded xs ha hb hlen' hpick (Or.inl hxs)
        · rcases admits_tuple_cases h with ⟨rfl, ho⟩ | ⟨xs, rfl, hxs⟩
          · simp [admits_tuple_null, ho]
          · rw [admits_tuple_arr]
            exact pickAll_sound es os folded xs ha hb hlen' hpick (Or.inr hxs)
      · rcases h with h | h
        · rcases admits_tuple_cases h with ⟨rfl, ho⟩ | ⟨xs, rfl, hxs⟩
          · simp [admits_array_null, ho]
          · apply admits_array_of_variants
            refine tuple_elems_in_variants es xs ?_ ?_ hxs
            · intro e he
              apply mem_setExtend.2; left
              exact mem_setExtend_map_asNonOptional e he
            · intro hany
              apply mem_setExtend.2; left
              apply mem_setExtend.2; left
              simp [hany]; rw [mem_setInsert]; exact Or.inl rfl
        · rcases admits_tuple_cases h with ⟨rfl, ho⟩ | ⟨xs, rfl, hxs⟩
          · simp [admits_array_null, ho]
          · apply admits_array_of_variants
            refine tuple_elems_in_variants os xs ?_ ?_ hxs
            · intro e he
              exact mem_setExtend_map_asNonOptional e he
            · intro hany
              apply mem_setExtend.2; left
              apply mem_setExtend.2; left
              simp [hany]; rw [mem_setInsert]; exact Or.inl rfl
    | oneOf vs p =>
      simp only [merger]
      rcases h with h | h
      · exact admits_addToOneOf_new h
      · exact admits_addToOneOf_old h id
    | _ =>
      simp only [merger]
      rcases h with h | h
      · exact admits_mixed_left h
      · exact admits_mixed_right h

/-- `merger a b` admits every document admitted by `a` or by `b` (all well-formed shapes). -/
theorem merger_sound {a b : Shape} (ha : a.wf = true) (hb : b.wf = true) {x : Doc}
    (h : admits a x = true ∨ admits b x = true) : admits (merger a b) x = true :=
  merger_sound_aux (sizeOf a) a b (Nat.le_refl _) ha hb x h

end ShapeVerif
