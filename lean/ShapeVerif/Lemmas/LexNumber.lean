/-
The lexer's number scanner and the RFC's `number` rule agree on the matched text.
-/
import ShapeVerif.Lemmas.LexInv
import ShapeVerif.Ref.JsonText
namespace ShapeVerif

theorem takeWhileC_all (p : Char → Bool) : ∀ cs : List Char, ∀ x ∈ (takeWhileC p cs).1, p x = true
  | [], x, hx => by simp [takeWhileC] at hx
  | c :: cs, x, hx => by
    unfold takeWhileC at hx
    split at hx
    · rename_i hc
      rcases List.mem_cons.1 hx with rfl | hx
      · exact hc
      · exact takeWhileC_all p cs x hx
    · simp at hx

/-- the rest after a maximal run does not start with a character of the run -/
theorem takeWhileC_rest (p : Char → Bool) : ∀ cs : List Char, ∀ c r, (takeWhileC p cs).2 = c :: r → p c = false
  | [], c, r, h => by simp [takeWhileC] at h
  | d :: cs, c, r, h => by
    unfold takeWhileC at h
    split at h
    · exact takeWhileC_rest p cs c r h
    · rename_i hd; simp only [List.cons.injEq] at h; rw [← h.1]; simpa using hd

theorem digits_eq (cs : List Char) : Rfc.digits cs = takeWhileC isDigitC cs := by
  induction cs with
  | nil => rfl
  | cons c cs ih =>
    unfold Rfc.digits takeWhileC
    rw [ih]
    rfl

/-- a run of digits followed by a non-digit (or nothing) is what `digits` takes -/
theorem digits_of_run : ∀ (ds x : List Char), (∀ d ∈ ds, isDigitC d = true) →
    (∀ c r, x = c :: r → isDigitC c = false) → Rfc.digits (ds ++ x) = (ds, x)
  | [], x, _, hx => by
    cases x with
    | nil => rfl
    | cons c r =>
      have h : Rfc.isDigit c = false := hx c r rfl
      simp only [List.nil_append]
      unfold Rfc.digits
      simp [h]
  | d :: ds, x, hd, hx => by
    have h1 : Rfc.isDigit d = true := hd d (by simp)
    have ih := digits_of_run ds x (fun y hy => hd y (by simp [hy])) hx
    simp only [List.cons_append]
    unfold Rfc.digits
    simp [h1, ih]

theorem numInt_cases {cs i r : List Char} (h : numInt cs = some (i, r)) :
    (i = ['0'] ∧ cs = '0' :: r) ∨
    (∃ c ds, isDigit19C c = true ∧ (∀ d ∈ ds, isDigitC d = true) ∧ i = c :: ds ∧ cs = c :: ds ++ r ∧
      (∀ x y, r = x :: y → isDigitC x = false)) := by
  cases cs with
  | nil => simp [numInt] at h
  | cons c cs =>
    by_cases hc : c = '0'
    · subst hc
      simp only [numInt, Option.some.injEq, Prod.mk.injEq] at h
      exact .inl ⟨h.1.symm, by rw [h.2]⟩
    · have : numInt (c :: cs) = if isDigit19C c then some (c :: (takeWhileC isDigitC cs).1, (takeWhileC isDigitC cs).2) else none := by
        unfold numInt
        split
        · rename_i heq; simp only [List.cons.injEq] at heq; exact absurd heq.1 hc
        · rename_i c' r' _ heq; simp only [List.cons.injEq] at heq; obtain ⟨rfl, rfl⟩ := heq; rfl
        · rename_i heq; simp at heq
      rw [this] at h
      split at h
      · rename_i h19
        simp only [Option.some.injEq, Prod.mk.injEq] at h
        refine .inr ⟨c, (takeWhileC isDigitC cs).1, h19, takeWhileC_all _ cs, h.1.symm, ?_, ?_⟩
        · simp [← h.2, takeWhileC_append]
        · rw [← h.2]; exact takeWhileC_rest _ cs
      · cases h

/-- shape of what `numFrac` takes -/
theorem numFrac_shape (cs : List Char) :
    (numFrac cs).1 = [] ∨ ∃ fd, fd ≠ [] ∧ (∀ d ∈ fd, isDigitC d = true) ∧ (numFrac cs).1 = '.' :: fd := by
  cases cs with
  | nil => exact .inl rfl
  | cons c r =>
    by_cases hc : c = '.'
    · subst hc
      simp only [numFrac]
      by_cases he : (takeWhileC isDigitC r).1.isEmpty = true
      · simp [he]
      · simp only [he, Bool.false_eq_true, if_false]
        exact .inr ⟨_, by simpa using he, takeWhileC_all _ r, rfl⟩
    · left
      unfold numFrac
      split
      · rename_i heq; simp only [List.cons.injEq] at heq; exact absurd heq.1 hc
      · rfl

theorem expSign_cases (cs : List Char) :
    ((expSign cs).1 = [] ∨ (expSign cs).1 = ['+'] ∨ (expSign cs).1 = ['-']) := by
  unfold expSign; split <;> simp

theorem expSign_eq_sign (cs : List Char) : Rfc.sign cs = expSign cs := by
  unfold Rfc.sign expSign; rfl

theorem sign_of_sg {sg ed : List Char} (hsg : sg = [] ∨ sg = ['+'] ∨ sg = ['-']) (hne : ed ≠ [])
    (hall : ∀ d ∈ ed, isDigitC d = true) : Rfc.sign (sg ++ ed) = (sg, ed) := by
  cases ed with
  | nil => exact absurd rfl hne
  | cons a l =>
    have ha : isDigitC a = true := hall a (by simp)
    have hap : a ≠ '+' := by rintro rfl; simp [isDigitC] at ha
    have ham : a ≠ '-' := by rintro rfl; simp [isDigitC] at ha
    rcases hsg with rfl | rfl | rfl
    · simp only [List.nil_append]
      unfold Rfc.sign
      split
      · rename_i heq; simp only [List.cons.injEq] at heq; exact absurd heq.1 hap
      · rename_i heq; simp only [List.cons.injEq] at heq; exact absurd heq.1 ham
      · rfl
    · rfl
    · rfl

theorem numExp_shape (cs : List Char) :
    (numExp cs).1 = [] ∨ ∃ x sg ed, (x = 'e' ∨ x = 'E') ∧ (sg = [] ∨ sg = ['+'] ∨ sg = ['-']) ∧ ed ≠ [] ∧
      (∀ d ∈ ed, isDigitC d = true) ∧ (numExp cs).1 = x :: sg ++ ed := by
  cases cs with
  | nil => exact .inl rfl
  | cons e r =>
    by_cases he : (e == 'e' || e == 'E') = true
    · have hx : e = 'e' ∨ e = 'E' := by simpa using he
      simp only [numExp, he, if_true]
      by_cases hem : (takeWhileC isDigitC (expSign r).2).1.isEmpty = true
      · simp [hem]
      · simp only [hem, Bool.false_eq_true, if_false]
        exact .inr ⟨e, (expSign r).1, _, hx, expSign_cases r, by simpa using hem, takeWhileC_all _ _, rfl⟩
    · left
      simp [numExp, he]

theorem head_not_digit_of_frac_exp {f e : List Char}
    (hf : f = [] ∨ ∃ fd, f = '.' :: fd) (he : e = [] ∨ ∃ x r, (x = 'e' ∨ x = 'E') ∧ e = x :: r) :
    ∀ c r, f ++ e = c :: r → isDigitC c = false := by
  intro c r h
  rcases hf with rfl | ⟨fd, rfl⟩
  · rcases he with rfl | ⟨x, r', hx, rfl⟩
    · simp at h
    · simp only [List.nil_append, List.cons.injEq] at h
      rw [← h.1]; rcases hx with rfl | rfl <;> decide
  · simp only [List.cons_append, List.cons.injEq] at h
    rw [← h.1]; decide

theorem intPart_of {i r x : List Char} {cs : List Char} (h : numInt cs = some (i, r))
    (hx : ∀ c y, x = c :: y → isDigitC c = false) : Rfc.intPart (i ++ x) = some (i, x) := by
  rcases numInt_cases h with ⟨hi, _⟩ | ⟨c, ds, h19, hall, rfl, _, _⟩
  · rw [hi]; rfl
  · have hne0 : c ≠ '0' := by rintro rfl; simp [isDigit19C] at h19
    have h19' : Rfc.isDigit19 c = true := h19
    have hd := digits_of_run ds x hall hx
    simp only [List.cons_append]
    unfold Rfc.intPart
    split
    · rename_i heq; simp only [List.cons.injEq] at heq; exact absurd heq.1 hne0
    · rename_i c' cs' _ heq
      simp only [List.cons.injEq] at heq
      obtain ⟨rfl, rfl⟩ := heq
      simp [h19', hd]
    · rename_i heq; simp at heq

theorem fracPart_of {f e : List Char}
    (hf : f = [] ∨ ∃ fd, fd ≠ [] ∧ (∀ d ∈ fd, isDigitC d = true) ∧ f = '.' :: fd)
    (he : e = [] ∨ ∃ x r, (x = 'e' ∨ x = 'E') ∧ e = x :: r) : Rfc.fracPart (f ++ e) = some (f, e) := by
  rcases hf with rfl | ⟨fd, hne, hall, rfl⟩
  · simp only [List.nil_append]
    rcases he with rfl | ⟨x, r, hx, rfl⟩
    · rfl
    · unfold Rfc.fracPart
      split
      · rename_i heq; simp only [List.cons.injEq] at heq; rcases hx with rfl | rfl <;> simp at heq
      · rfl
  · simp only [List.cons_append]
    have hd := digits_of_run fd e hall (fun c r h =>
      head_not_digit_of_frac_exp (f := []) (.inl rfl) he c r (by simpa using h))
    cases fd with
    | nil => exact absurd rfl hne
    | cons a l =>
      unfold Rfc.fracPart
      simp only [hd]

theorem expPart_of {e : List Char}
    (he : e = [] ∨ ∃ x sg ed, (x = 'e' ∨ x = 'E') ∧ (sg = [] ∨ sg = ['+'] ∨ sg = ['-']) ∧ ed ≠ [] ∧
      (∀ d ∈ ed, isDigitC d = true) ∧ e = x :: sg ++ ed) : Rfc.expPart e = some (e, []) := by
  rcases he with rfl | ⟨x, sg, ed, hx, hsg, hne, hall, rfl⟩
  · rfl
  · have hxe : (x == 'e' || x == 'E') = true := by rcases hx with rfl | rfl <;> decide
    have hd := digits_of_run ed [] hall (by intro c r h; cases h)
    simp only [List.append_nil] at hd
    have hs := sign_of_sg hsg hne hall
    simp only [List.cons_append]
    unfold Rfc.expPart
    simp only [hxe, if_true, hs, hd]
    cases ed with
    | nil => exact absurd rfl hne
    | cons a l => rfl

/-- **the text the number scanner matches is an RFC 8259 number** -/
theorem scanNumber_valid {cs n rest : List Char} (h : scanNumber cs = some (n, rest)) :
    Rfc.number n = some (n, []) := by
  unfold scanNumber at h
  simp only at h
  cases hi : numInt (numSign cs).2 with
  | none => simp [hi] at h
  | some ir =>
    obtain ⟨i, c2⟩ := ir
    simp only [hi, Option.some.injEq, Prod.mk.injEq] at h
    obtain ⟨hn, _⟩ := h
    have hfs := numFrac_shape c2
    have hes := numExp_shape (numFrac c2).2
    generalize (numFrac c2).1 = f at hfs hn
    generalize (numExp (numFrac c2).2).1 = e at hes hn
    have hf' : f = [] ∨ ∃ fd, f = '.' :: fd := by
      rcases hfs with h | ⟨fd, _, _, h⟩
      · exact .inl h
      · exact .inr ⟨fd, h⟩
    have he' : e = [] ∨ ∃ x r, (x = 'e' ∨ x = 'E') ∧ e = x :: r := by
      rcases hes with h | ⟨x, sg, ed, hx, _, _, _, h⟩
      · exact .inl h
      · exact .inr ⟨x, sg ++ ed, hx, by simpa using h⟩
    have hint := intPart_of (x := f ++ e) hi (head_not_digit_of_frac_exp hf' he')
    have hfrac := fracPart_of hfs he'
    have hexp := expPart_of hes
    -- the integer part starts with a digit, not with a minus
    have hi0 : ∃ c0 r0, i = c0 :: r0 ∧ c0 ≠ '-' := by
      rcases numInt_cases hi with ⟨rfl, _⟩ | ⟨c, ds, h19, _, rfl, _, _⟩
      · exact ⟨'0', [], rfl, by decide⟩
      · exact ⟨c, ds, rfl, by rintro rfl; simp [isDigit19C] at h19⟩
    subst hn
    unfold Rfc.number
    have hminus : Rfc.minus ((numSign cs).1 ++ i ++ f ++ e) = ((numSign cs).1, i ++ (f ++ e)) := by
      obtain ⟨c0, r0, rfl, hc0⟩ := hi0
      unfold numSign
      split
      · simp [Rfc.minus]
      · simp only [List.nil_append, List.cons_append, List.append_assoc]
        unfold Rfc.minus
        split
        · rename_i heq; simp only [List.cons.injEq] at heq; exact absurd heq.1 hc0
        · rfl
    simp only [List.append_assoc] at hminus ⊢
    simp only [hminus, hint, hfrac, hexp]

end ShapeVerif
