/-
The tree built by the recovering parser has exactly the lexer's tokens as its leaves, in order:
no token is dropped, duplicated or reordered by any of the recovery paths.
-/
import ShapeVerif.Model.Parser
namespace ShapeVerif

mutual
def leaves : Node → List Token
  | .tok k s e => [⟨k, s, e⟩]
  | .rule _ cs => leavesList cs
def leavesList : List Node → List Token
  | [] => []
  | n :: ns => leaves n ++ leavesList ns
end

theorem leavesList_append : ∀ (a b : List Node), leavesList (a ++ b) = leavesList a ++ leavesList b
  | [], b => by simp [leavesList]
  | n :: a, b => by simp [leavesList, leavesList_append a b]

def yieldItems (items : List Item) : List Token := leavesList (items.map (·.node))

@[simp] theorem yieldItems_nil : yieldItems [] = [] := rfl

@[simp] theorem yieldItems_append (a b : List Item) : yieldItems (a ++ b) = yieldItems a ++ yieldItems b := by
  simp [yieldItems, leavesList_append]

@[simp] theorem yieldItems_cons (i : Item) (l : List Item) : yieldItems (i :: l) = leaves i.node ++ yieldItems l := by
  simp [yieldItems, leavesList]

theorem yield_closeRule (r : Rule) (items : List Item) : yieldItems (closeRule r items) = yieldItems items := by
  unfold closeRule
  simp only [yieldItems_cons, leaves]
  have h : items = (items.reverse.dropWhile (·.skip)).reverse ++ (items.reverse.takeWhile (·.skip)).reverse := by
    rw [← List.reverse_append, List.takeWhile_append_dropWhile, List.reverse_reverse]
  conv => rhs; rw [h]
  simp [yieldItems, leavesList_append]

theorem takeSkips_yield : ∀ (ts : List Token), yieldItems (takeSkips ts).1 ++ (takeSkips ts).2.1 = ts
  | [] => by simp [takeSkips]
  | t :: ts => by
    unfold takeSkips
    split
    · simp [leaves, takeSkips_yield ts]
    · simp

theorem error_toks (s : PState) : s.error.toks = s.toks := by
  unfold PState.error; split <;> rfl

/-- the items a step emits, followed by the tokens it leaves, are the tokens it started with -/
def Yields (f : PState → PState × List Item) : Prop :=
  ∀ s, yieldItems (f s).2 ++ (f s).1.toks = s.toks

theorem advance_yields (e : Bool) : Yields (fun s => s.advance e) := by
  intro s
  simp only [PState.advance]
  cases h : s.toks with
  | nil => simp [h]
  | cons t ts => simp [leaves, takeSkips_yield ts]

theorem expect_yields (k : Tok) : Yields (fun s => s.expect k) := by
  intro s
  simp only [PState.expect]
  split
  · exact advance_yields false s
  · simp [error_toks]

theorem advanceWithError_yields : Yields PState.advanceWithError := by
  intro s
  simp only [PState.advanceWithError, yield_closeRule]
  have := advance_yields true { s.error with cooldown := true }
  simp only at this
  rw [this]
  exact error_toks s

theorem ruleBoolean_yields : Yields ruleBoolean := by
  intro s
  simp only [ruleBoolean, yield_closeRule]
  split
  · exact expect_yields _ s
  · split
    · exact expect_yields _ s
    · simp [error_toks]

theorem ruleLiteral_yields : Yields ruleLiteral := by
  intro s
  simp only [ruleLiteral, yield_closeRule]
  split
  · exact expect_yields _ s
  split
  · exact expect_yields _ s
  split
  · exact ruleBoolean_yields s
  split
  · exact expect_yields _ s
  · simp [error_toks]

theorem seq_yields {t0 t1 t2 : List Token} {i1 i2 : List Item} (h1 : yieldItems i1 ++ t1 = t0)
    (h2 : yieldItems i2 ++ t2 = t1) : yieldItems (i1 ++ i2) ++ t2 = t0 := by
  rw [yieldItems_append, List.append_assoc, h2, h1]

theorem rules_yield (fuel : Nat) :
    Yields (ruleValue fuel) ∧ Yields (ruleMember fuel) ∧ Yields (objectLoop fuel) ∧ Yields (ruleObject fuel) ∧
      Yields (arrayLoop fuel) ∧ Yields (ruleArray fuel) := by
  induction fuel with
  | zero =>
    refine ⟨?_, ?_, ?_, ?_, ?_, ?_⟩ <;> intro s <;>
      simp [ruleValue, ruleMember, objectLoop, ruleObject, arrayLoop, ruleArray]
  | succ fuel ih =>
    obtain ⟨ihV, ihM, ihOL, ihO, ihAL, ihA⟩ := ih
    refine ⟨?_, ?_, ?_, ?_, ?_, ?_⟩
    · intro s
      simp only [ruleValue]
      split
      · exact ihO s
      split
      · exact ihA s
      split
      · exact ruleLiteral_yields s
      · simp [error_toks]
    · intro s
      simp only [ruleMember, yield_closeRule]
      have h1 := expect_yields .string s
      have h2 := expect_yields .colon (s.expect .string).1
      have h3 := ihV ((s.expect .string).1.expect .colon).1
      simp only at h1 h2 h3
      rw [List.append_assoc]
      exact seq_yields h1 (seq_yields h2 h3)
    · intro s
      simp only [objectLoop]
      split
      · have h1 := expect_yields .comma s
        have h2 := ihM (s.expect .comma).1
        have h3 := ihOL (ruleMember fuel (s.expect .comma).1).1
        simp only at h1
        rw [List.append_assoc]
        exact seq_yields h1 (seq_yields h2 h3)
      split
      · simp
      · have h1 := advanceWithError_yields s
        have h2 := ihOL s.advanceWithError.1
        exact seq_yields h1 h2
    · intro s
      simp only [ruleObject, yield_closeRule]
      have h1 := expect_yields .lbrace s
      simp only at h1
      split
      · have h2 := ihM (s.expect .lbrace).1
        have h3 := ihOL (ruleMember fuel (s.expect .lbrace).1).1
        have h4 := expect_yields .rbrace (objectLoop fuel (ruleMember fuel (s.expect .lbrace).1).1).1
        simp only at h4
        rw [List.append_assoc]
        exact seq_yields h1 (seq_yields (seq_yields h2 h3) h4)
      split
      · have h4 := expect_yields .rbrace (s.expect .lbrace).1
        simp only at h4
        rw [List.append_assoc]
        exact seq_yields h1 (seq_yields (i1 := []) (by simp) h4)
      · have h4 := expect_yields .rbrace (s.expect .lbrace).1.error
        simp only at h4
        rw [List.append_assoc]
        exact seq_yields h1 (seq_yields (i1 := []) (by simp [error_toks]) h4)
    · intro s
      simp only [arrayLoop]
      split
      · have h1 := expect_yields .comma s
        have h2 := ihV (s.expect .comma).1
        have h3 := ihAL (ruleValue fuel (s.expect .comma).1).1
        simp only at h1
        rw [List.append_assoc]
        exact seq_yields h1 (seq_yields h2 h3)
      split
      · simp
      · have h1 := advanceWithError_yields s
        have h2 := ihAL s.advanceWithError.1
        exact seq_yields h1 h2
    · intro s
      simp only [ruleArray, yield_closeRule]
      have h1 := expect_yields .lbrak s
      simp only at h1
      split
      · have h2 := ihV (s.expect .lbrak).1
        have h3 := ihAL (ruleValue fuel (s.expect .lbrak).1).1
        have h4 := expect_yields .rbrak (arrayLoop fuel (ruleValue fuel (s.expect .lbrak).1).1).1
        simp only at h4
        rw [List.append_assoc]
        exact seq_yields h1 (seq_yields (seq_yields h2 h3) h4)
      split
      · have h4 := expect_yields .rbrak (s.expect .lbrak).1
        simp only at h4
        rw [List.append_assoc]
        exact seq_yields h1 (seq_yields (i1 := []) (by simp) h4)
      · have h4 := expect_yields .rbrak (s.expect .lbrak).1.error
        simp only at h4
        rw [List.append_assoc]
        exact seq_yields h1 (seq_yields (i1 := []) (by simp [error_toks]) h4)

theorem token_eta (t : Token) : (⟨t.kind, t.start, t.stop⟩ : Token) = t := by cases t; rfl

theorem yield_map_toks (f : Token → Bool) : ∀ (ts : List Token),
    yieldItems (ts.map fun t => ⟨.tok t.kind t.start t.stop, f t⟩) = ts
  | [] => rfl
  | t :: ts => by simp [leaves, token_eta, yield_map_toks f ts]

/-- **the leaves of the parse tree are the lexer's tokens**, in order (all of them when the parser
stops before the end it hangs the rest under a trailing error node; `rest` is empty then) -/
theorem parse_leaves (cs : List Char) : ∃ rest, leaves (parse cs).root ++ rest = (tokenize cs).tokens := by
  simp only [parse, leaves]
  have hsk := takeSkips_yield (tokenize cs).tokens
  have hv := (rules_yield (2 * (tokenize cs).tokens.length + 4)).1 (initState (tokenize cs) (utf8Len cs))
  have htoks : (initState (tokenize cs) (utf8Len cs)).toks = (takeSkips (tokenize cs).tokens).2.1 := rfl
  generalize ruleValue (2 * (tokenize cs).tokens.length + 4) (initState (tokenize cs) (utf8Len cs)) = rv at hv
  show ∃ rest, yieldItems ((takeSkips (tokenize cs).tokens).1 ++ rv.2 ++ (parseTail rv.1).2) ++ rest = _
  unfold parseTail
  split
  · refine ⟨[], ?_⟩
    simp only [yieldItems_append, yield_closeRule, yield_map_toks, error_toks, List.append_nil]
    rw [List.append_assoc, hv, htoks, hsk]
  · refine ⟨rv.1.toks, ?_⟩
    simp only [yieldItems_append, yieldItems_nil, List.append_nil]
    rw [List.append_assoc, hv, htoks, hsk]

end ShapeVerif
