/-
`Rfc.parse` (the executable recursive-descent reading of RFC 8259 that the run-time oracle uses) is
sound for the specification `JsonTextVia` that `accept_iff` is stated against: whenever it returns a
document, the text can be cut into lexemes whose non-whitespace part derives that document in the
token grammar (scalar payloads erased, member names unescaped — `specDoc`).
-/
import ShapeVerif.Lemmas.RfcLexemes
import ShapeVerif.Lemmas.Slice
namespace ShapeVerif
open Rfc

mutual
/-- what the specification keeps of a document: no scalar payloads, member names as the text path
reads them (`memberName` of the quoted source text) -/
def specDoc : Doc → Doc
  | .null => .null
  | .bool _ => .bool false
  | .num _ => .num ""
  | .str _ => .str ""
  | .arr xs => .arr (specDocs xs)
  | .obj ms => .obj (specMembers ms)
def specDocs : List Doc → List Doc
  | [] => []
  | x :: xs => specDoc x :: specDocs xs
def specMembers : List (String × Doc) → List (String × Doc)
  | [] => []
  | (k, v) :: ms => (memberName ('"' :: k.toList ++ ['"']), specDoc v) :: specMembers ms
end

/-! ### tiling -/

theorem tiles_append : ∀ (a b : List Token) (t1 t2 : List Char) (pos : Nat),
    TilesFrom pos a t1 → TilesFrom (pos + utf8Len t1) b t2 → TilesFrom pos (a ++ b) (t1 ++ t2)
  | [], b, t1, t2, pos, h1, h2 => by
    simp only [TilesFrom] at h1; subst h1
    simpa using h2
  | t :: a, b, t1, t2, pos, h1, h2 => by
    obtain ⟨txt, rest, e, hs, he, hl, hr⟩ := h1
    subst e
    refine ⟨txt, rest ++ t2, by simp, hs, he, hl, ?_⟩
    have : t.stop + utf8Len rest = pos + utf8Len (txt ++ rest) := by rw [he]; simp; omega
    exact tiles_append a b rest t2 t.stop hr (by rw [this]; exact h2)

theorem tiles_single (pos : Nat) (k : Tok) (txt : List Char) (h : lexemeOk k txt = true) :
    TilesFrom pos [⟨k, pos, pos + utf8Len txt⟩] txt :=
  ⟨txt, [], by simp, rfl, rfl, h, rfl⟩

/-- a run of whitespace as zero or one `Whitespace` lexeme -/
def wsToks (pos : Nat) (w : List Char) : List Token := if w.isEmpty then [] else [⟨.ws, pos, pos + utf8Len w⟩]

theorem wsToks_tiles (pos : Nat) (w : List Char) (h : (w.all isWs) = true) : TilesFrom pos (wsToks pos w) w := by
  unfold wsToks
  cases w with
  | nil => simp [TilesFrom]
  | cons c cs =>
    simp only [List.isEmpty_cons, Bool.false_eq_true, if_false]
    exact tiles_single pos .ws (c :: cs) (by simpa [lexemeOk] using h)

theorem wsToks_filter (pos : Nat) (w : List Char) : (wsToks pos w).filter (fun t => !isSkipTok t.kind) = [] := by
  unfold wsToks; split <;> simp [isSkipTok]

theorem keyOf_tile (pre txt post : List Char) :
    keyOf (pre ++ txt ++ post) ⟨.string, utf8Len pre, utf8Len pre + utf8Len txt⟩ = memberName txt := by
  unfold keyOf
  simp only []
  rw [sliceBytes_of_split]

/-- a segment of the input starting at byte `pos`: its lexemes and the non-whitespace ones among them -/
structure Seg (pos : Nat) (txt : List Char) (toks flt : List Token) : Prop where
  tiles : TilesFrom pos toks txt
  filt : toks.filter (fun t => !isSkipTok t.kind) = flt

theorem Seg.append {pos : Nat} {t1 t2 : List Char} {a b fa fb : List Token} (h1 : Seg pos t1 a fa)
    (h2 : Seg (pos + utf8Len t1) t2 b fb) : Seg pos (t1 ++ t2) (a ++ b) (fa ++ fb) :=
  ⟨tiles_append a b t1 t2 _ h1.tiles h2.tiles, by rw [List.filter_append, h1.filt, h2.filt]⟩

theorem Seg.ws (pos : Nat) (w : List Char) (h : (w.all isWs) = true) : Seg pos w (wsToks pos w) [] :=
  ⟨wsToks_tiles _ w h, wsToks_filter _ w⟩

theorem Seg.tok (pos : Nat) (txt : List Char) (k : Tok) (h : lexemeOk k txt = true) (hk : isSkipTok k = false) :
    Seg pos txt [⟨k, pos, pos + utf8Len txt⟩] [⟨k, pos, pos + utf8Len txt⟩] :=
  ⟨tiles_single _ k txt h, by simp [hk]⟩

/-- a token followed by a run of whitespace -/
theorem Seg.tokWs (pos : Nat) (txt w : List Char) (k : Tok) (h : lexemeOk k txt = true) (hk : isSkipTok k = false)
    (hw : (w.all isWs) = true) :
    Seg pos (txt ++ w) ([⟨k, pos, pos + utf8Len txt⟩] ++ wsToks (pos + utf8Len txt) w) [⟨k, pos, pos + utf8Len txt⟩] := by
  have := (Seg.tok pos txt k h hk).append (Seg.ws (pos + utf8Len txt) w hw)
  simpa using this

/-! ### inversion of one step of each reader -/

theorem value_inv {fuel : Nat} {cs rest : List Char} {d : Doc} (h : value (fuel + 1) cs = some (d, rest)) :
    (cs = 't' :: 'r' :: 'u' :: 'e' :: rest ∧ d = .bool true) ∨
    (cs = 'f' :: 'a' :: 'l' :: 's' :: 'e' :: rest ∧ d = .bool false) ∨
    (cs = 'n' :: 'u' :: 'l' :: 'l' :: rest ∧ d = .null) ∨
    (∃ r s, cs = '"' :: r ∧ stringBody r = some (s, rest) ∧ d = .str (String.ofList s)) ∨
    (∃ r, cs = '[' :: r ∧ skipWs r = ']' :: rest ∧ d = .arr []) ∨
    (∃ r xs, cs = '[' :: r ∧ elements fuel (skipWs r) = some (xs, rest) ∧ d = .arr xs) ∨
    (∃ r, cs = '{' :: r ∧ skipWs r = '}' :: rest ∧ d = .obj []) ∨
    (∃ r ms, cs = '{' :: r ∧ members fuel (skipWs r) = some (ms, rest) ∧ d = .obj ms) ∨
    (∃ n, number cs = some (n, rest) ∧ d = .num (String.ofList n)) := by
  unfold value at h
  split at h
  · simp only [Option.some.injEq, Prod.mk.injEq] at h; obtain ⟨rfl, rfl⟩ := h; exact .inl ⟨rfl, rfl⟩
  · simp only [Option.some.injEq, Prod.mk.injEq] at h; obtain ⟨rfl, rfl⟩ := h; exact .inr (.inl ⟨rfl, rfl⟩)
  · simp only [Option.some.injEq, Prod.mk.injEq] at h; obtain ⟨rfl, rfl⟩ := h; exact .inr (.inr (.inl ⟨rfl, rfl⟩))
  · rename_i r
    cases hs : stringBody r with
    | none => simp [hs] at h
    | some p =>
      obtain ⟨s, r'⟩ := p
      simp only [hs, Option.some.injEq, Prod.mk.injEq] at h
      obtain ⟨rfl, rfl⟩ := h
      exact .inr (.inr (.inr (.inl ⟨r, s, rfl, hs, rfl⟩)))
  · rename_i r
    split at h
    · rename_i r' hsk
      simp only [Option.some.injEq, Prod.mk.injEq] at h; obtain ⟨rfl, rfl⟩ := h
      exact .inr (.inr (.inr (.inr (.inl ⟨r, rfl, hsk, rfl⟩))))
    · cases he : elements fuel (skipWs r) with
      | none => simp [he] at h
      | some p =>
        obtain ⟨xs, r''⟩ := p
        simp only [he, Option.some.injEq, Prod.mk.injEq] at h
        obtain ⟨rfl, rfl⟩ := h
        exact .inr (.inr (.inr (.inr (.inr (.inl ⟨r, xs, rfl, he, rfl⟩)))))
  · rename_i r
    split at h
    · rename_i r' hsk
      simp only [Option.some.injEq, Prod.mk.injEq] at h; obtain ⟨rfl, rfl⟩ := h
      exact .inr (.inr (.inr (.inr (.inr (.inr (.inl ⟨r, rfl, hsk, rfl⟩))))))
    · cases he : members fuel (skipWs r) with
      | none => simp [he] at h
      | some p =>
        obtain ⟨ms, r''⟩ := p
        simp only [he, Option.some.injEq, Prod.mk.injEq] at h
        obtain ⟨rfl, rfl⟩ := h
        exact .inr (.inr (.inr (.inr (.inr (.inr (.inr (.inl ⟨r, ms, rfl, he, rfl⟩)))))))
  · cases hn : number cs with
    | none => simp [hn] at h
    | some p =>
      obtain ⟨n, r⟩ := p
      simp only [hn, Option.some.injEq, Prod.mk.injEq] at h
      obtain ⟨rfl, rfl⟩ := h
      exact .inr (.inr (.inr (.inr (.inr (.inr (.inr (.inr ⟨n, rfl, rfl⟩)))))))

theorem elements_inv {fuel : Nat} {cs rest : List Char} {xs : List Doc} (h : elements (fuel + 1) cs = some (xs, rest)) :
    ∃ x r, value fuel cs = some (x, r) ∧
      ((skipWs r = ']' :: rest ∧ xs = [x]) ∨
       (∃ r' ys, skipWs r = ',' :: r' ∧ elements fuel (skipWs r') = some (ys, rest) ∧ xs = x :: ys)) := by
  unfold elements at h
  cases hv : value fuel cs with
  | none => simp [hv] at h
  | some p =>
    obtain ⟨x, r⟩ := p
    simp only [hv] at h
    refine ⟨x, r, rfl, ?_⟩
    split at h
    · rename_i r' hsk
      simp only [Option.some.injEq, Prod.mk.injEq] at h; obtain ⟨rfl, rfl⟩ := h
      exact .inl ⟨hsk, rfl⟩
    · rename_i r' hsk
      cases he : elements fuel (skipWs r') with
      | none => simp [he] at h
      | some q =>
        obtain ⟨ys, r''⟩ := q
        simp only [he, Option.some.injEq, Prod.mk.injEq] at h
        obtain ⟨rfl, rfl⟩ := h
        exact .inr ⟨r', ys, hsk, he, rfl⟩
    · cases h

theorem members_inv {fuel : Nat} {cs rest : List Char} {ms : List (String × Doc)}
    (h : members (fuel + 1) cs = some (ms, rest)) :
    ∃ r k r1 r2 v r3, cs = '"' :: r ∧ stringBody r = some (k, r1) ∧ skipWs r1 = ':' :: r2 ∧
      value fuel (skipWs r2) = some (v, r3) ∧
      ((skipWs r3 = '}' :: rest ∧ ms = [(String.ofList k, v)]) ∨
       (∃ r4 ns, skipWs r3 = ',' :: r4 ∧ members fuel (skipWs r4) = some (ns, rest) ∧ ms = (String.ofList k, v) :: ns)) := by
  unfold members at h
  split at h
  · rename_i r
    cases hs : stringBody r with
    | none => simp [hs] at h
    | some p =>
      obtain ⟨k, r1⟩ := p
      simp only [hs] at h
      split at h
      · rename_i r2 hsk
        cases hv : value fuel (skipWs r2) with
        | none => simp [hv] at h
        | some q =>
          obtain ⟨v, r3⟩ := q
          simp only [hv] at h
          refine ⟨r, k, r1, r2, v, r3, rfl, hs, hsk, hv, ?_⟩
          split at h
          · rename_i r4 hsk2
            simp only [Option.some.injEq, Prod.mk.injEq] at h; obtain ⟨rfl, rfl⟩ := h
            exact .inl ⟨hsk2, rfl⟩
          · rename_i r4 hsk2
            cases hm : members fuel (skipWs r4) with
            | none => simp [hm] at h
            | some q2 =>
              obtain ⟨ns, r5⟩ := q2
              simp only [hm, Option.some.injEq, Prod.mk.injEq] at h
              obtain ⟨rfl, rfl⟩ := h
              exact .inr ⟨r4, ns, hsk2, hm, rfl⟩
          · cases h
      · cases h
  · cases h

/-! ### the three mutually recursive readers -/

theorem specDocs_cons (x : Doc) (xs : List Doc) : specDocs (x :: xs) = specDoc x :: specDocs xs := rfl

theorem value_sound (fuel : Nat) :
    (∀ cs d rest, value fuel cs = some (d, rest) → ∀ src pre, src = pre ++ cs →
      ∃ txt toks flt, cs = txt ++ rest ∧ Seg (utf8Len pre) txt toks flt ∧ TValue (keyOf src) flt (specDoc d)) ∧
    (∀ cs xs rest, elements fuel cs = some (xs, rest) → ∀ src pre, src = pre ++ cs →
      ∃ txt toks flt inner r, cs = txt ++ rest ∧ Seg (utf8Len pre) txt toks flt ∧ flt = inner ++ [r] ∧ r.kind = .rbrak ∧
        TElems (keyOf src) inner (specDocs xs)) ∧
    (∀ cs ms rest, members fuel cs = some (ms, rest) → ∀ src pre, src = pre ++ cs →
      ∃ txt toks flt inner r, cs = txt ++ rest ∧ Seg (utf8Len pre) txt toks flt ∧ flt = inner ++ [r] ∧ r.kind = .rbrace ∧
        TMembers (keyOf src) inner (specMembers ms)) := by
  induction fuel with
  | zero => exact ⟨by intro cs d rest h; simp [value] at h, by intro cs xs rest h; simp [elements] at h,
      by intro cs ms rest h; simp [members] at h⟩
  | succ fuel ih =>
    obtain ⟨ihV, ihE, ihM⟩ := ih
    refine ⟨?_, ?_, ?_⟩
    · -- value
      intro cs d rest h src pre hsrc
      rcases value_inv h with ⟨rfl, rfl⟩ | ⟨rfl, rfl⟩ | ⟨rfl, rfl⟩ | ⟨r, s0, rfl, hs, rfl⟩ | ⟨r, rfl, hsk, rfl⟩ |
        ⟨r, xs, rfl, he, rfl⟩ | ⟨r, rfl, hsk, rfl⟩ | ⟨r, ms, rfl, hm, rfl⟩ | ⟨n, hn, rfl⟩
      · exact ⟨['t', 'r', 'u', 'e'], _, _, rfl, Seg.tok _ _ .true_ (by decide) (by decide), TValue.tru rfl⟩
      · exact ⟨['f', 'a', 'l', 's', 'e'], _, _, rfl, Seg.tok _ _ .false_ (by decide) (by decide), TValue.fls rfl⟩
      · exact ⟨['n', 'u', 'l', 'l'], _, _, rfl, Seg.tok _ _ .null_ (by decide) (by decide), TValue.null rfl⟩
      · -- string
        obtain ⟨e1, e2⟩ := stringBody_split r.length r s0 rest (Nat.le_refl _) hs
        refine ⟨'"' :: s0 ++ ['"'], _, _, by rw [e1]; simp, Seg.tok _ _ .string ?_ (by decide), TValue.str rfl⟩
        simp [lexemeOk, e2 []]
      · -- empty array
        obtain ⟨w, hw1, hw2, _⟩ := skipWs_split r
        rw [hsk] at hw1
        have s1 := Seg.tokWs (utf8Len pre) ['['] w .lbrak (by decide) (by decide) hw2
        have s2 := Seg.tok (utf8Len pre + utf8Len (['['] ++ w)) [']'] .rbrak (by decide) (by decide)
        have s := s1.append s2
        refine ⟨['['] ++ w ++ [']'], _, _, by rw [hw1]; simp, s, ?_⟩
        exact TValue.arrE rfl rfl
      · -- non-empty array
        obtain ⟨w, hw1, hw2, _⟩ := skipWs_split r
        obtain ⟨txt', toks', flt', inner, rb, e', s', hflt, hrb, helems⟩ := ihE (skipWs r) xs rest he src (pre ++ ['['] ++ w)
          (by rw [hsrc]; conv => { lhs; rw [hw1] }; simp)
        subst hflt
        have s1 := Seg.tokWs (utf8Len pre) ['['] w .lbrak (by decide) (by decide) hw2
        have s := s1.append (by simpa using s')
        refine ⟨['['] ++ w ++ txt', _, _, by conv => { lhs; rw [hw1, e'] }; simp, s, ?_⟩
        have : [(⟨Tok.lbrak, utf8Len pre, utf8Len pre + utf8Len ['[']⟩ : Token)] ++ (inner ++ [rb]) =
            (⟨Tok.lbrak, utf8Len pre, utf8Len pre + utf8Len ['[']⟩ : Token) :: inner ++ [rb] := by simp
        rw [this]
        exact TValue.arr rfl hrb helems
      · -- empty object
        obtain ⟨w, hw1, hw2, _⟩ := skipWs_split r
        rw [hsk] at hw1
        have s1 := Seg.tokWs (utf8Len pre) ['{'] w .lbrace (by decide) (by decide) hw2
        have s2 := Seg.tok (utf8Len pre + utf8Len (['{'] ++ w)) ['}'] .rbrace (by decide) (by decide)
        have s := s1.append s2
        refine ⟨['{'] ++ w ++ ['}'], _, _, by rw [hw1]; simp, s, ?_⟩
        exact TValue.objE rfl rfl
      · -- non-empty object
        obtain ⟨w, hw1, hw2, _⟩ := skipWs_split r
        obtain ⟨txt', toks', flt', inner, rb, e', s', hflt, hrb, hmem⟩ := ihM (skipWs r) ms rest hm src (pre ++ ['{'] ++ w)
          (by rw [hsrc]; conv => { lhs; rw [hw1] }; simp)
        subst hflt
        have s1 := Seg.tokWs (utf8Len pre) ['{'] w .lbrace (by decide) (by decide) hw2
        have s := s1.append (by simpa using s')
        refine ⟨['{'] ++ w ++ txt', _, _, by conv => { lhs; rw [hw1, e'] }; simp, s, ?_⟩
        have : [(⟨Tok.lbrace, utf8Len pre, utf8Len pre + utf8Len ['{']⟩ : Token)] ++ (inner ++ [rb]) =
            (⟨Tok.lbrace, utf8Len pre, utf8Len pre + utf8Len ['{']⟩ : Token) :: inner ++ [rb] := by simp
        rw [this]
        exact TValue.obj rfl hrb hmem
      · -- number
        obtain ⟨e1, e2⟩ := number_self hn
        refine ⟨n, _, _, e1, Seg.tok _ _ .number ?_ (by decide), TValue.num rfl⟩
        simp [lexemeOk, e2]
    · -- elements
      intro cs xs rest h src pre hsrc
      obtain ⟨x, r, hv, hcase⟩ := elements_inv h
      obtain ⟨txt1, toks1, flt1, e1, s1, hx⟩ := ihV cs x r hv src pre hsrc
      obtain ⟨w, hw1, hw2, _⟩ := skipWs_split r
      rcases hcase with ⟨hsk, rfl⟩ | ⟨r', ys, hsk, he, rfl⟩
      · rw [hsk] at hw1
        have s2 := Seg.ws (utf8Len pre + utf8Len txt1) w hw2
        have s3 := Seg.tok (utf8Len pre + utf8Len (txt1 ++ w)) [']'] .rbrak (by decide) (by decide)
        have s := (s1.append s2).append s3
        refine ⟨_, _, _, flt1, (⟨Tok.rbrak, utf8Len pre + utf8Len (txt1 ++ w), utf8Len pre + utf8Len (txt1 ++ w) + utf8Len [']']⟩ : Token), ?_, s, by simp, rfl, TElems.one hx⟩
        rw [e1]; conv => { lhs; rw [hw1] }
        simp
      · rw [hsk] at hw1
        obtain ⟨w', hw1', hw2', _⟩ := skipWs_split r'
        obtain ⟨txt2, toks2, flt2, inner2, rb, e2, s4, hflt2, hrb, hys⟩ := ihE (skipWs r') ys rest he src
          (pre ++ txt1 ++ w ++ [','] ++ w')
          (by rw [hsrc, e1]; conv => { lhs; rw [hw1, hw1'] }; simp)
        subst hflt2
        have s2 := Seg.ws (utf8Len pre + utf8Len txt1) w hw2
        have s3 := Seg.tokWs (utf8Len pre + utf8Len (txt1 ++ w)) [','] w' .comma (by decide) (by decide) hw2'
        have s := ((s1.append s2).append s3).append (by simpa [Nat.add_assoc] using s4)
        refine ⟨_, _, _, flt1 ++ (⟨Tok.comma, utf8Len pre + utf8Len (txt1 ++ w), utf8Len pre + utf8Len (txt1 ++ w) + utf8Len [',']⟩ : Token) :: inner2, rb, ?_, s, by simp, hrb, ?_⟩
        · rw [e1]; conv => { lhs; rw [hw1, hw1', e2] }
          simp
        · rw [specDocs_cons]
          exact TElems.cons rfl hx hys
    · -- members
      intro cs ms rest h src pre hsrc
      obtain ⟨r, k, r1, r2, v, r3, rfl, hsb, hcol, hv, hcase⟩ := members_inv h
      obtain ⟨ek1, ek2⟩ := stringBody_split r.length r k r1 (Nat.le_refl _) hsb
      obtain ⟨w1, hw1, hw1ws, _⟩ := skipWs_split r1
      rw [hcol] at hw1
      obtain ⟨w2, hw2, hw2ws, _⟩ := skipWs_split r2
      have hkeyok : lexemeOk .string ('"' :: k ++ ['"']) = true := by simp [lexemeOk, ek2 []]
      have sk := Seg.tokWs (utf8Len pre) ('"' :: k ++ ['"']) w1 .string hkeyok (by decide) hw1ws
      have sc := Seg.tokWs (utf8Len pre + utf8Len (('"' :: k ++ ['"']) ++ w1)) [':'] w2 .colon (by decide) (by decide) hw2ws
      have hcs : '"' :: r = ('"' :: k ++ ['"']) ++ w1 ++ ([':'] ++ w2) ++ skipWs r2 := by
        conv => { lhs; rw [ek1, hw1, hw2] }
        simp
      obtain ⟨txtv, toksv, fltv, ev, sv, hvv⟩ := ihV (skipWs r2) v r3 hv src
        (pre ++ ('"' :: k ++ ['"']) ++ w1 ++ ([':'] ++ w2)) (by rw [hsrc, hcs]; simp)
      have hkey : keyOf src (⟨Tok.string, utf8Len pre, utf8Len pre + utf8Len ('"' :: k ++ ['"'])⟩ : Token)
          = memberName ('"' :: (String.ofList k).toList ++ ['"']) := by
        have : src = pre ++ ('"' :: k ++ ['"']) ++ (w1 ++ ([':'] ++ w2) ++ skipWs r2) := by rw [hsrc, hcs]; simp
        rw [this, keyOf_tile]
        simp
      obtain ⟨w3, hw3, hw3ws, _⟩ := skipWs_split r3
      have skc := (sk.append sc).append (by simpa [Nat.add_assoc] using sv)
      rcases hcase with ⟨hsk, rfl⟩ | ⟨r4, ns, hsk, hm, rfl⟩
      · rw [hsk] at hw3
        have s3 := Seg.ws (utf8Len pre + utf8Len ((('"' :: k ++ ['"']) ++ w1) ++ ([':'] ++ w2) ++ txtv)) w3 hw3ws
        have s4 := Seg.tok (utf8Len pre + utf8Len (((('"' :: k ++ ['"']) ++ w1) ++ ([':'] ++ w2) ++ txtv) ++ w3)) ['}'] .rbrace
          (by decide) (by decide)
        have s := (skc.append s3).append s4
        refine ⟨_, _, _, (⟨Tok.string, utf8Len pre, utf8Len pre + utf8Len ('"' :: k ++ ['"'])⟩ : Token) ::
            (⟨Tok.colon, utf8Len pre + utf8Len (('"' :: k ++ ['"']) ++ w1), utf8Len pre + utf8Len (('"' :: k ++ ['"']) ++ w1) + utf8Len [':']⟩ : Token) :: fltv,
          (⟨Tok.rbrace, utf8Len pre + utf8Len (((('"' :: k ++ ['"']) ++ w1) ++ ([':'] ++ w2) ++ txtv) ++ w3),
            utf8Len pre + utf8Len (((('"' :: k ++ ['"']) ++ w1) ++ ([':'] ++ w2) ++ txtv) ++ w3) + utf8Len ['}']⟩ : Token),
          ?_, s, by simp, rfl, ?_⟩
        · rw [hcs, ev]; conv => { lhs; rw [hw3] }
          simp
        · simp only [specMembers]
          rw [← hkey]
          exact TMembers.one rfl rfl hvv
      · rw [hsk] at hw3
        obtain ⟨w4, hw4, hw4ws, _⟩ := skipWs_split r4
        obtain ⟨txt2, toks2, flt2, inner2, rb, e2, s5, hflt2, hrb, hns⟩ := ihM (skipWs r4) ns rest hm src
          (pre ++ ((('"' :: k ++ ['"']) ++ w1) ++ ([':'] ++ w2) ++ txtv ++ w3 ++ ([','] ++ w4)))
          (by rw [hsrc, hcs, ev]; conv => { lhs; rw [hw3, hw4] }; simp)
        subst hflt2
        have s3 := Seg.ws (utf8Len pre + utf8Len ((('"' :: k ++ ['"']) ++ w1) ++ ([':'] ++ w2) ++ txtv)) w3 hw3ws
        have s4 := Seg.tokWs (utf8Len pre + utf8Len (((('"' :: k ++ ['"']) ++ w1) ++ ([':'] ++ w2) ++ txtv) ++ w3)) [',']
          w4 .comma (by decide) (by decide) hw4ws
        have s := ((skc.append s3).append s4).append (by simpa [Nat.add_assoc] using s5)
        refine ⟨_, _, _, (⟨Tok.string, utf8Len pre, utf8Len pre + utf8Len ('"' :: k ++ ['"'])⟩ : Token) ::
            (⟨Tok.colon, utf8Len pre + utf8Len (('"' :: k ++ ['"']) ++ w1), utf8Len pre + utf8Len (('"' :: k ++ ['"']) ++ w1) + utf8Len [':']⟩ : Token) :: fltv ++
            (⟨Tok.comma, utf8Len pre + utf8Len (((('"' :: k ++ ['"']) ++ w1) ++ ([':'] ++ w2) ++ txtv) ++ w3), utf8Len pre + utf8Len (((('"' :: k ++ ['"']) ++ w1) ++ ([':'] ++ w2) ++ txtv) ++ w3) + utf8Len [',']⟩ : Token) :: inner2,
          rb, ?_, s, by simp, hrb, ?_⟩
        · rw [hcs, ev]; conv => { lhs; rw [hw3, hw4, e2] }
          simp
        · simp only [specMembers]
          rw [← hkey]
          exact TMembers.cons rfl rfl rfl hvv hns

/-- **the oracle is sound for the specification**: a text `Rfc.parse` accepts is a JSON text in the
sense of `JsonTextVia`, with the document `Rfc.parse` returned (payloads erased, names unescaped) -/
theorem parse_sound (cs : List Char) (d : Doc) (h : Rfc.parse cs = some d) : JsonText cs (specDoc d) := by
  unfold Rfc.parse at h
  cases hv : value (cs.length + 1) (skipWs cs) with
  | none => simp [hv] at h
  | some p =>
    obtain ⟨d', r⟩ := p
    simp only [hv] at h
    split at h
    · rename_i hend
      obtain rfl : d' = d := by simpa using h
      obtain ⟨w0, hw0, hw0ws, _⟩ := skipWs_split cs
      obtain ⟨txt, toks, flt, e, s, hval⟩ := (value_sound (cs.length + 1)).1 (skipWs cs) d' r hv cs w0 hw0
      obtain ⟨w1, hw1, hw1ws, _⟩ := skipWs_split r
      have hr : r = w1 := by
        have : skipWs r = [] := by simpa using hend
        rw [this] at hw1; simpa using hw1
      have s0 := Seg.ws 0 w0 hw0ws
      have s2 := Seg.ws (0 + utf8Len (w0 ++ txt)) w1 hw1ws
      have sall := (s0.append (by simpa using s)).append s2
      have hcs : cs = w0 ++ txt ++ w1 := by
        conv => { lhs; rw [hw0, e, hr] }
        simp
      refine ⟨wsToks 0 w0 ++ toks ++ wsToks (0 + utf8Len (w0 ++ txt)) w1, ?_, ?_⟩
      · rw [hcs]; exact sall.tiles
      · rw [sall.filt]; simpa using hval
    · cases h

end ShapeVerif
