/-
Lexer soundness: a text that the lexer passes without diagnostics is cut by its tokens into RFC 8259
lexemes, and no prefix of the token sequence has more than 256 brackets open.
-/
import ShapeVerif.Lemmas.LexString
namespace ShapeVerif

theorem isWs_of_isWsChar {c : Char} (h : isWsChar c = true) : Rfc.isWs c = true := by
  simp only [isWsChar, Bool.or_eq_true, beq_iff_eq] at h
  rcases h with rfl | rfl <;> decide

theorem lexOne_valid (c : Char) (cs : List Char) (pos : Nat) (hn : (lexOne (c :: cs)).2.1 = none) :
    ((lexOne (c :: cs)).1 = .string → checkString pos (lexOne (c :: cs)).2.2.1 = [] →
      lexemeOk .string (lexOne (c :: cs)).2.2.1 = true) ∧
    ((lexOne (c :: cs)).1 ≠ .string → lexemeOk (lexOne (c :: cs)).1 (lexOne (c :: cs)).2.2.1 = true) := by
  by_cases h1 : isWsChar c = true
  · simp only [lexOne, h1, if_true]
    refine ⟨(by intro h; cases h), fun _ => ?_⟩
    simp only [lexemeOk, List.isEmpty_cons, Bool.not_false, Bool.true_and, List.all_cons, isWs_of_isWsChar h1,
      List.all_eq_true]
    intro x hx
    exact isWs_of_isWsChar (takeWhileC_all _ cs x hx)
  by_cases h2 : (c == '\n') = true
  · simp only [lexOne, h1, h2, if_true, if_false]
    refine ⟨(by intro h; cases h), fun _ => ?_⟩
    have : c = '\n' := by simpa using h2
    subst this; rfl
  by_cases h3 : (c == '\r') = true
  · have : c = '\r' := by simpa using h3
    subst this
    have e1 : isWsChar '\r' = false := by decide
    have e2 : ('\r' == '\n') = false := by decide
    simp only [lexOne, e1, e2, Bool.false_eq_true, if_false, beq_self_eq_true, if_true]
    split
    · exact ⟨(by intro h; cases h), fun _ => rfl⟩
    · exact ⟨(by intro h; cases h), fun _ => rfl⟩
  by_cases h4 : (c == '{') = true
  · simp only [lexOne, h1, h2, h3, h4, if_true, if_false]
    refine ⟨(by intro h; cases h), fun _ => ?_⟩
    have : c = '{' := by simpa using h4
    subst this; rfl
  by_cases h5 : (c == '}') = true
  · simp only [lexOne, h1, h2, h3, h4, h5, if_true, if_false]
    refine ⟨(by intro h; cases h), fun _ => ?_⟩
    have : c = '}' := by simpa using h5
    subst this; rfl
  by_cases h6 : (c == '[') = true
  · simp only [lexOne, h1, h2, h3, h4, h5, h6, if_true, if_false]
    refine ⟨(by intro h; cases h), fun _ => ?_⟩
    have : c = '[' := by simpa using h6
    subst this; rfl
  by_cases h7 : (c == ']') = true
  · simp only [lexOne, h1, h2, h3, h4, h5, h6, h7, if_true, if_false]
    refine ⟨(by intro h; cases h), fun _ => ?_⟩
    have : c = ']' := by simpa using h7
    subst this; rfl
  by_cases h8 : (c == ',') = true
  · simp only [lexOne, h1, h2, h3, h4, h5, h6, h7, h8, if_true, if_false]
    refine ⟨(by intro h; cases h), fun _ => ?_⟩
    have : c = ',' := by simpa using h8
    subst this; rfl
  by_cases h9 : (c == ':') = true
  · simp only [lexOne, h1, h2, h3, h4, h5, h6, h7, h8, h9, if_true, if_false]
    refine ⟨(by intro h; cases h), fun _ => ?_⟩
    have : c = ':' := by simpa using h9
    subst this; rfl
  by_cases h10 : (c == '"') = true
  · have hcq : c = '"' := by simpa using h10
    subst hcq
    simp only [lexOne, h1, h2, h3, h4, h5, h6, h7, h8, h9, h10, if_true, if_false] at hn ⊢
    by_cases hc : (scanString cs).2.2 = true
    · simp only [hc, if_true] at hn ⊢
      exact ⟨fun _ hd => string_token_valid pos cs hc hd, fun h => absurd rfl h⟩
    · simp [hc] at hn
  by_cases h11 : isAlphaC c = true
  · simp only [lexOne, h1, h2, h3, h4, h5, h6, h7, h8, h9, h10, h11, if_true, if_false] at hn ⊢
    by_cases w1 : (c :: (takeWhileC isAlnumC cs).1 == ['t', 'r', 'u', 'e']) = true
    · simp only [w1, if_true]
      exact ⟨(by intro h; cases h), fun _ => by simpa [lexemeOk] using w1⟩
    by_cases w2 : (c :: (takeWhileC isAlnumC cs).1 == ['f', 'a', 'l', 's', 'e']) = true
    · simp only [w1, w2, if_true, if_false]
      exact ⟨(by intro h; cases h), fun _ => by simpa [lexemeOk] using w2⟩
    by_cases w3 : (c :: (takeWhileC isAlnumC cs).1 == ['n', 'u', 'l', 'l']) = true
    · simp only [w1, w2, w3, if_true, if_false]
      exact ⟨(by intro h; cases h), fun _ => by simpa [lexemeOk] using w3⟩
    · simp [w1, w2, w3] at hn
  · simp only [lexOne, h1, h2, h3, h4, h5, h6, h7, h8, h9, h10, h11, if_false] at hn ⊢
    cases hnum : scanNumber (c :: cs) with
    | none => simp [hnum] at hn
    | some nr =>
      obtain ⟨n, rest⟩ := nr
      simp only
      refine ⟨(by intro h; cases h), fun _ => ?_⟩
      simp [lexemeOk, scanNumber_valid hnum]

theorem depth_step (k : Tok) (nb nk : Int) :
    (if k == .lbrace || k == .lbrak then nb + nk + 1 else if k == .rbrace || k == .rbrak then nb + nk - 1 else nb + nk) =
    (if k == Tok.lbrace then nb + 1 else if k == Tok.rbrace then nb - 1 else nb) +
      (if k == Tok.lbrak then nk + 1 else if k == Tok.rbrak then nk - 1 else nk) := by
  cases k <;> simp <;> omega

theorem lexLoop_nonempty_diags : ∀ (fuel : Nat) (cs : List Char) (pos : Nat) (nb nk : Int) (toks : List Token)
    (diags : List Diag), diags ≠ [] → (lexLoop fuel cs pos nb nk toks diags).diags ≠ [] := by
  intro fuel
  induction fuel with
  | zero => intro cs pos nb nk toks diags h; simpa [lexLoop] using h
  | succ fuel ih =>
    intro cs pos nb nk toks diags h
    cases cs with
    | nil => simpa [lexLoop] using h
    | cons c cs =>
      simp only [lexLoop]
      generalize lexOne (c :: cs) = r
      obtain ⟨kind, dk, text, rest⟩ := r
      cases dk with
      | some dkind => exact ih _ _ _ _ _ _ (by simp)
      | none =>
        simp only
        have hd1 : (if kind == .string then (checkString pos text).reverse ++ diags else diags) ≠ [] := by
          split <;> simp [h]
        generalize (if kind == .string then (checkString pos text).reverse ++ diags else diags) = diags1 at hd1 ⊢
        generalize (if kind == Tok.lbrace then nb + 1 else if kind == Tok.rbrace then nb - 1 else nb) = nb'
        generalize (if kind == Tok.lbrak then nk + 1 else if kind == Tok.rbrak then nk - 1 else nk) = nk'
        split
        · simp
        · exact ih _ _ _ _ _ _ hd1

/-- **lexer soundness**: without diagnostics, the tokens cut the text into RFC lexemes and the bracket
depth never exceeds 256 -/
theorem lexLoop_sound : ∀ (fuel : Nat) (cs : List Char) (pos : Nat) (nb nk : Int) (toks : List Token),
    cs.length ≤ fuel → (lexLoop fuel cs pos nb nk toks []).diags = [] →
    ∃ new, (lexLoop fuel cs pos nb nk toks []).tokens = toks.reverse ++ new ∧ TilesFrom pos new cs ∧
      depthFrom (nb + nk) (new.map (·.kind)) = true := by
  intro fuel
  induction fuel with
  | zero =>
    intro cs pos nb nk toks hlen _
    have : cs = [] := List.eq_nil_of_length_eq_zero (by omega)
    subst this
    exact ⟨[], by simp [lexLoop], rfl, rfl⟩
  | succ fuel ih =>
    intro cs pos nb nk toks hlen hd
    cases cs with
    | nil => exact ⟨[], by simp [lexLoop], rfl, rfl⟩
    | cons c cs =>
      simp only [lexLoop] at hd ⊢
      obtain ⟨hsplit, hne, _⟩ := lexOne_spec c cs
      have hval := lexOne_valid c cs pos
      generalize lexOne (c :: cs) = r at hd hsplit hne hval ⊢
      obtain ⟨kind, dk, text, rest⟩ := r
      simp only at hd hsplit hne hval ⊢
      have hrl : rest.length ≤ fuel := by
        have : (text ++ rest).length = (c :: cs).length := by rw [hsplit]
        have : 1 ≤ text.length := by cases text with | nil => exact absurd rfl hne | cons _ _ => simp
        simp at *; omega
      cases dk with
      | some dkind =>
        exfalso
        simp only at hd
        exact lexLoop_nonempty_diags _ _ _ _ _ _ _ (by simp) hd
      | none =>
        simp only at hd ⊢
        obtain ⟨hv1, hv2⟩ := hval rfl
        have hcs : (if kind == .string then (checkString pos text).reverse ++ [] else ([] : List Diag)) = [] := by
          by_cases hnil : (if kind == .string then (checkString pos text).reverse ++ [] else ([] : List Diag)) = []
          · exact hnil
          · exfalso
            revert hd
            generalize (if kind == .string then (checkString pos text).reverse ++ [] else ([] : List Diag)) = d1 at hnil
            generalize (if kind == Tok.lbrace then nb + 1 else if kind == Tok.rbrace then nb - 1 else nb) = nb'
            generalize (if kind == Tok.lbrak then nk + 1 else if kind == Tok.rbrak then nk - 1 else nk) = nk'
            intro hd
            split at hd
            · simp at hd
            · exact lexLoop_nonempty_diags _ _ _ _ _ _ _ hnil hd
        rw [hcs] at hd ⊢
        have hlex : lexemeOk kind text = true := by
          by_cases hk : kind = .string
          · subst hk
            apply hv1 rfl
            simpa using hcs
          · exact hv2 hk
        have hstep := depth_step kind nb nk
        generalize (if kind == Tok.lbrace then nb + 1 else if kind == Tok.rbrace then nb - 1 else nb) = nb' at hd hstep ⊢
        generalize (if kind == Tok.lbrak then nk + 1 else if kind == Tok.rbrak then nk - 1 else nk) = nk' at hd hstep ⊢
        split at hd
        · simp at hd
        · rename_i hdeep
          simp only [hdeep, if_false]
          obtain ⟨new, h1, h2, h3⟩ := ih rest (pos + utf8Len text) nb' nk' (⟨kind, pos, pos + utf8Len text⟩ :: toks) hrl hd
          refine ⟨⟨kind, pos, pos + utf8Len text⟩ :: new, by rw [h1]; simp, ?_, ?_⟩
          · exact ⟨text, rest, hsplit.symm, rfl, rfl, hlex, h2⟩
          · simp only [List.map_cons, depthFrom]
            have e : (if (kind == Tok.lbrace || kind == Tok.lbrak) = true then nb + nk + 1
                else if (kind == Tok.rbrace || kind == Tok.rbrak) = true then nb + nk - 1 else nb + nk) = nb' + nk' := hstep
            simp only [e, Bool.and_eq_true, decide_eq_true_eq]
            exact ⟨by omega, h3⟩

theorem tokenize_sound (src : List Char) (h : (tokenize src).diags = []) :
    TilesFrom 0 (tokenize src).tokens src ∧ depthOk ((tokenize src).tokens.map (·.kind)) = true := by
  obtain ⟨new, h1, h2, h3⟩ := lexLoop_sound src.length src 0 0 0 [] (Nat.le_refl _) h
  have : (tokenize src).tokens = new := by simpa [tokenize] using h1
  rw [this]
  exact ⟨h2, by simpa [depthOk] using h3⟩

end ShapeVerif
