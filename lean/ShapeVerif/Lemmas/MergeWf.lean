/-
`merger` preserves well-formedness (sorted, duplicate-free maps and sets at every level).
-/
import ShapeVerif.Lemmas.MergeSound
namespace ShapeVerif
open Shape Std

theorem wf_withOptional (q : Bool) (s : Shape) : (withOptional q s).wf = s.wf := by
  cases s <;> simp [withOptional, Shape.wf]

theorem wf_asOptional {s : Shape} (h : s.wf = true) : s.asOptional.wf = true := by
  unfold asOptional; rw [wf_withOptional]; exact h
theorem wf_asNonOptional {s : Shape} (h : s.wf = true) : s.asNonOptional.wf = true := by
  unfold asNonOptional; rw [wf_withOptional]; exact h

theorem wf_oneOf_iff {vs : List Shape} {o : Bool} :
    (Shape.oneOf vs o).wf = true ↔ sortedSet vs = true ∧ wfList vs = true := by
  simp [Shape.wf]

theorem wf_mixed {a b : Shape} (ha : a.wf = true) (hb : b.wf = true) : (mixed a b).wf = true := by
  unfold mixed
  rw [wf_oneOf_iff]
  refine ⟨sortedSet_setOfList _, ?_⟩
  rw [wfList_iff]
  intro s hs
  rw [mem_setOfList] at hs
  simp only [List.mem_append, List.mem_cons, List.not_mem_nil, or_false] at hs
  rcases hs with (rfl | rfl) | hs
  · exact wf_asNonOptional ha
  · exact wf_asNonOptional hb
  · split at hs
    · simp at hs; subst hs; rfl
    · simp at hs

theorem wf_addToOneOf {x : Shape} {vs : List Shape} (hx : x.wf = true) (hs : sortedSet vs = true)
    (hw : wfList vs = true) : sortedSet (addToOneOf x vs) = true ∧ wfList (addToOneOf x vs) = true := by
  unfold addToOneOf
  simp only
  split
  · exact ⟨sortedSet_setInsert (sortedSet_setInsert hs),
      wfList_setInsert (wf_asNonOptional hx) (wfList_setInsert rfl hw)⟩
  · exact ⟨sortedSet_setInsert hs, wfList_setInsert (wf_asNonOptional hx) hw⟩

theorem wf_arrayElemVariants {t : Shape} {init : List Shape} (ht : t.wf = true)
    (hs : sortedSet init = true) (hw : wfList init = true) :
    sortedSet (arrayElemVariants t init) = true ∧ wfList (arrayElemVariants t init) = true := by
  unfold arrayElemVariants
  split
  · rename_i inner io
    rw [wf_oneOf_iff] at ht
    split
    · exact ⟨sortedSet_setExtend (sortedSet_setInsert hs),
        wfList_setExtend (wfList_setInsert rfl hw) ht.2⟩
    · exact ⟨sortedSet_setExtend hs, wfList_setExtend hw ht.2⟩
  · exact ⟨sortedSet_setInsert hs, wfList_setInsert ht hw⟩

theorem wfList_map_asNonOptional {es : List Shape} (h : wfList es = true) :
    wfList (es.map asNonOptional) = true := by
  rw [wfList_iff] at *
  intro s hs
  obtain ⟨e, he, rfl⟩ := List.mem_map.1 hs
  exact wf_asNonOptional (h e he)

theorem wf_nullInit (c : Bool) :
    sortedSet (if c then setInsert .null [] else []) = true ∧
    wfList (if c then setInsert Shape.null [] else []) = true := by
  cases c <;> simp [setInsert, sortedSet, wfList, Shape.wf]

theorem wf_array_tuple {t : Shape} {es : List Shape} {o : Bool} (ht : t.wf = true)
    (he : wfList es = true) :
    (Shape.array (.oneOf (setExtend (arrayElemVariants t
      (if es.any isOptional || t.isOptional then setInsert .null [] else [])) (es.map asNonOptional)) false)
      o).wf = true := by
  simp only [Shape.wf, Bool.and_eq_true]
  obtain ⟨i1, i2⟩ := wf_nullInit (es.any isOptional || t.isOptional)
  obtain ⟨v1, v2⟩ := wf_arrayElemVariants ht i1 i2
  exact ⟨sortedSet_setExtend v1, wfList_setExtend v2 (wfList_map_asNonOptional he)⟩

theorem wf_pickTuple {a b c : Shape} (ha : a.wf = true) (hb : b.wf = true)
    (hp : pickTuple a b = some c) : c.wf = true := by
  unfold pickTuple at hp
  repeat' split at hp
  all_goals first
    | (cases hp; assumption)
    | (cases hp; exact wf_asOptional ha)
    | (cases hp; exact wf_asOptional hb)
    | cases hp

theorem wf_pickAll : ∀ (es os folded : List Shape), wfList es = true → wfList os = true →
    pickAll es os = some folded → wfList folded = true
  | [], _, folded, _, _, hp => by simp [pickAll] at hp; subst hp; rfl
  | _ :: _, [], folded, _, _, hp => by simp [pickAll] at hp; subst hp; rfl
  | e :: es, o :: os, folded, he, ho, hp => by
    simp only [pickAll] at hp
    split at hp
    · cases hp
    · rename_i c hc
      split at hp
      · cases hp
      · rename_i cs hcs
        cases hp
        simp [wfList] at he ho ⊢
        exact ⟨wf_pickTuple he.1 ho.1 hc, wf_pickAll es os cs he.2 ho.2 hcs⟩

theorem merger_wf_aux (n : Nat) : ∀ a b : Shape, sizeOf a ≤ n → a.wf = true → b.wf = true →
    (merger a b).wf = true := by
  induction n with
  | zero => intro a b h; cases a <;> simp at h
  | succ n ih =>
  intro a b hn ha hb
  cases a with
  | null => simp only [merger]; exact wf_asOptional hb
  | bool o =>
    cases b with
    | null => simp [merger, Shape.wf]
    | bool p => simp [merger, Shape.wf]
    | oneOf vs p =>
      simp only [merger]; rw [wf_oneOf_iff] at hb ⊢; exact wf_addToOneOf ha hb.1 hb.2
    | _ => simp only [merger]; exact wf_mixed ha hb
  | number o =>
    cases b with
    | null => simp [merger, Shape.wf]
    | number p => simp [merger, Shape.wf]
    | oneOf vs p =>
      simp only [merger]; rw [wf_oneOf_iff] at hb ⊢; exact wf_addToOneOf ha hb.1 hb.2
    | _ => simp only [merger]; exact wf_mixed ha hb
  | string o =>
    cases b with
    | null => simp [merger, Shape.wf]
    | string p => simp [merger, Shape.wf]
    | oneOf vs p =>
      simp only [merger]; rw [wf_oneOf_iff] at hb ⊢; exact wf_addToOneOf ha hb.1 hb.2
    | _ => simp only [merger]; exact wf_mixed ha hb
  | array t o =>
    cases b with
    | null => simpa [merger, Shape.wf] using ha
    | array t' p =>
      simp only [merger, Shape.wf] at ha hb ⊢
      exact ih t t' (by simp at hn; omega) ha hb
    | tuple es ot =>
      simp only [merger]
      simp only [Shape.wf] at ha hb
      exact wf_array_tuple ha hb
    | oneOf vs p =>
      simp only [merger]; rw [wf_oneOf_iff] at hb ⊢; exact wf_addToOneOf ha hb.1 hb.2
    | _ => simp only [merger]; exact wf_mixed ha hb
  | object c o =>
    cases b with
    | null => simpa [merger, Shape.wf] using ha
    | object oc p =>
      rw [merger_object_object]
      simp only [Shape.wf, Bool.and_eq_true] at ha hb ⊢
      refine ⟨sortedKeys_mergedContent c oc, ?_⟩
      rw [wfMembers_iff]
      intro ⟨k, s⟩ hks
      have hget := mapGet_eq_some_of_mem (sortedKeys_mergedContent c oc) hks
      rw [mapGet_mergedContent ha.1 hb.1] at hget
      cases hv : mapGet k c with
      | none =>
        cases hov : mapGet k oc with
        | none => simp [hv, hov] at hget
        | some ov => simp [hv, hov] at hget; subst hget; exact wf_asOptional (wf_of_mapGet hb.2 hov)
      | some v =>
        cases hov : mapGet k oc with
        | none => simp [hv, hov] at hget; subst hget; exact wf_asOptional (wf_of_mapGet ha.2 hv)
        | some ov =>
          simp [hv, hov] at hget; subst hget
          have : sizeOf v ≤ n := by
            have := sizeOf_lt_of_mapGet hv; simp at hn; omega
          exact ih v ov this (wf_of_mapGet ha.2 hv) (wf_of_mapGet hb.2 hov)
    | oneOf vs p =>
      simp only [merger]; rw [wf_oneOf_iff] at hb ⊢; exact wf_addToOneOf ha hb.1 hb.2
    | _ => simp only [merger]; exact wf_mixed ha hb
  | oneOf vs o =>
    rw [wf_oneOf_iff] at ha
    cases b with
    | null => simp only [merger]; rw [wf_oneOf_iff]; exact ha
    | oneOf ws p =>
      simp only [merger]; rw [wf_oneOf_iff] at hb ⊢
      exact ⟨sortedSet_setExtend ha.1, wfList_setExtend ha.2 hb.2⟩
    | _ => simp only [merger]; rw [wf_oneOf_iff]; exact wf_addToOneOf hb ha.1 ha.2
  | tuple es o =>
    cases b with
    | null => simpa [merger, Shape.wf] using ha
    | array t p =>
      simp only [merger]
      simp only [Shape.wf] at ha hb
      exact wf_array_tuple hb ha
    | tuple os p =>
      simp only [merger]
      simp only [Shape.wf] at ha hb
      split
      · rename_i folded _ hpick
        simp only [Shape.wf]
        exact wf_pickAll es os folded ha hb hpick
      · simp only [Shape.wf, Bool.and_eq_true]
        obtain ⟨i1, i2⟩ := wf_nullInit (es.any isOptional || os.any isOptional)
        exact ⟨sortedSet_setExtend (sortedSet_setExtend i1),
          wfList_setExtend (wfList_setExtend i2 (wfList_map_asNonOptional ha))
            (wfList_map_asNonOptional hb)⟩
    | oneOf vs p =>
      simp only [merger]; rw [wf_oneOf_iff] at hb ⊢; exact wf_addToOneOf ha hb.1 hb.2
    | _ => simp only [merger]; exact wf_mixed ha hb

theorem merger_wf {a b : Shape} (ha : a.wf = true) (hb : b.wf = true) : (merger a b).wf = true :=
  merger_wf_aux (sizeOf a) a b (Nat.le_refl _) ha hb

end ShapeVerif
