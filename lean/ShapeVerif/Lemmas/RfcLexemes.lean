/-
Prefix behaviour of the RFC lexeme functions of `Ref/Rfc8259.lean`: what `Rfc.stringBody`,
`Rfc.number` and `Rfc.skipWs` consume from the head of a longer input is a lexeme on its own, and the
remainder is returned untouched. Used to relate the recursive-descent reading `Rfc.parse` to the
lexeme-sequence specification `JsonTextVia`.
-/
import ShapeVerif.Lemmas.LexComplete
import ShapeVerif.Ref.JsonText
namespace ShapeVerif
open Rfc

theorem skipWs_split : ∀ cs : List Char, ∃ w, cs = w ++ skipWs cs ∧ (w.all isWs) = true ∧
    (∀ c r, skipWs cs = c :: r → isWs c = false)
  | [] => ⟨[], rfl, rfl, by intro c r h; simp [skipWs] at h⟩
  | c :: cs => by
    by_cases hc : isWs c = true
    · obtain ⟨w, h1, h2, h3⟩ := skipWs_split cs
      refine ⟨c :: w, ?_, by simp [hc, h2], ?_⟩
      · simp only [skipWs, hc, if_true, List.cons_append]; rw [← h1]
      · simpa [skipWs, hc] using h3
    · refine ⟨[], by simp [skipWs, hc], rfl, ?_⟩
      intro c' r h
      simp only [skipWs, hc, Bool.false_eq_true, if_false, List.cons.injEq] at h
      obtain ⟨rfl, _⟩ := h
      simpa using hc

/-- one step of `stringBody`, by the shape of the head of the input -/
theorem stringBody_inv {r s r' : List Char} (h : stringBody r = some (s, r')) :
    (∃ t, r = '"' :: t ∧ s = [] ∧ r' = t) ∨
    (∃ e t s0, r = '\\' :: e :: t ∧ e ≠ 'u' ∧ isSimpleEscape e = true ∧ stringBody t = some (s0, r') ∧ s = '\\' :: e :: s0) ∨
    (∃ a b c d t s0, r = '\\' :: 'u' :: a :: b :: c :: d :: t ∧ (isHex a && isHex b && isHex c && isHex d) = true ∧
        stringBody t = some (s0, r') ∧ s = '\\' :: 'u' :: a :: b :: c :: d :: s0) ∨
    (∃ c t s0, r = c :: t ∧ c ≠ '"' ∧ c ≠ '\\' ∧ ¬ c.toNat < 0x20 ∧ stringBody t = some (s0, r') ∧ s = c :: s0) := by
  cases r with
  | nil => simp [stringBody] at h
  | cons c cs =>
    unfold stringBody at h
    by_cases hq : c = '"'
    · subst hq
      simp only [beq_self_eq_true, if_true, Option.some.injEq, Prod.mk.injEq] at h
      exact .inl ⟨cs, rfl, h.1.symm, h.2.symm⟩
    · have hq' : (c == '"') = false := by simpa using hq
      simp only [hq', Bool.false_eq_true, if_false] at h
      by_cases hb : c = '\\'
      · subst hb
        simp only [beq_self_eq_true, if_true] at h
        cases cs with
        | nil => simp at h
        | cons e cs1 =>
          simp only at h
          by_cases hu : e = 'u'
          · subst hu
            simp only [beq_self_eq_true, if_true] at h
            match cs1, h with
            | a :: b :: c2 :: d :: cs2, h =>
              simp only at h
              split at h
              · rename_i hhex
                cases hs : stringBody cs2 with
                | none => simp [hs] at h
                | some p =>
                  obtain ⟨s0, r0⟩ := p
                  simp only [hs, Option.some.injEq, Prod.mk.injEq] at h
                  obtain ⟨rfl, rfl⟩ := h
                  exact .inr (.inr (.inl ⟨a, b, c2, d, cs2, s0, rfl, hhex, hs, rfl⟩))
              · cases h
            | [], h => simp at h
            | [_], h => simp at h
            | [_, _], h => simp at h
            | [_, _, _], h => simp at h
          · have hu' : (e == 'u') = false := by simpa using hu
            simp only [hu', Bool.false_eq_true, if_false] at h
            split at h
            · rename_i hse
              cases hs : stringBody cs1 with
              | none => simp [hs] at h
              | some p =>
                obtain ⟨s0, r0⟩ := p
                simp only [hs, Option.some.injEq, Prod.mk.injEq] at h
                obtain ⟨rfl, rfl⟩ := h
                exact .inr (.inl ⟨e, cs1, s0, rfl, hu, hse, hs, rfl⟩)
            · cases h
      · have hb' : (c == '\\') = false := by simpa using hb
        simp only [hb', Bool.false_eq_true, if_false] at h
        split at h
        · cases h
        · rename_i hctl
          cases hs : stringBody cs with
          | none => simp [hs] at h
          | some p =>
            obtain ⟨s0, r0⟩ := p
            simp only [hs, Option.some.injEq, Prod.mk.injEq] at h
            obtain ⟨rfl, rfl⟩ := h
            exact .inr (.inr (.inr ⟨c, cs, s0, rfl, hq, hb, hctl, hs, rfl⟩))

theorem stringBody_quote (t : List Char) : stringBody ('"' :: t) = some ([], t) := by
  unfold stringBody; simp

theorem stringBody_simple {e : Char} (hu : e ≠ 'u') (hs : isSimpleEscape e = true) (t : List Char) :
    stringBody ('\\' :: e :: t) = match stringBody t with | some (s, r) => some ('\\' :: e :: s, r) | none => none := by
  have hu' : (e == 'u') = false := by simpa using hu
  conv => lhs; unfold stringBody
  simp only [show ('\\' == '"') = false by decide, Bool.false_eq_true, if_false, beq_self_eq_true, if_true, hu', hs]
  cases stringBody t with
  | none => rfl
  | some p => cases p; rfl

theorem stringBody_hex {a b c d : Char} (hh : (isHex a && isHex b && isHex c && isHex d) = true) (t : List Char) :
    stringBody ('\\' :: 'u' :: a :: b :: c :: d :: t) =
      match stringBody t with | some (s, r) => some ('\\' :: 'u' :: a :: b :: c :: d :: s, r) | none => none := by
  conv => lhs; unfold stringBody
  simp only [show ('\\' == '"') = false by decide, Bool.false_eq_true, if_false, beq_self_eq_true, if_true, hh]
  cases stringBody t with
  | none => rfl
  | some p => cases p; rfl

theorem stringBody_ord {c : Char} (h1 : c ≠ '"') (h2 : c ≠ '\\') (h3 : ¬ c.toNat < 0x20) (t : List Char) :
    stringBody (c :: t) = match stringBody t with | some (s, r) => some (c :: s, r) | none => none := by
  have h1' : (c == '"') = false := by simpa using h1
  have h2' : (c == '\\') = false := by simpa using h2
  conv => lhs; unfold stringBody
  simp only [h1', h2', Bool.false_eq_true, if_false, h3]
  cases stringBody t with
  | none => rfl
  | some p => cases p; rfl

/-- `stringBody` returns the characters before the closing quote and everything after it; the same
characters followed by a quote and anything else are read the same way -/
theorem stringBody_split (n : Nat) : ∀ (r s r' : List Char), r.length ≤ n → stringBody r = some (s, r') →
    r = s ++ '"' :: r' ∧ ∀ r'', stringBody (s ++ '"' :: r'') = some (s, r'') := by
  induction n with
  | zero =>
    intro r s r' hl h
    have : r = [] := List.eq_nil_of_length_eq_zero (by omega)
    subst this
    simp [stringBody] at h
  | succ n ih =>
    intro r s r' hl h
    rcases stringBody_inv h with ⟨t, rfl, rfl, rfl⟩ | ⟨e, t, s0, rfl, hu, hse, hs, rfl⟩ |
        ⟨a, b, c, d, t, s0, rfl, hh, hs, rfl⟩ | ⟨c, t, s0, rfl, h1, h2, h3, hs, rfl⟩
    · exact ⟨rfl, fun r'' => stringBody_quote r''⟩
    · obtain ⟨e1, e2⟩ := ih t s0 r' (by simp at hl; omega) hs
      refine ⟨by rw [e1]; simp, fun r'' => ?_⟩
      simp only [List.cons_append]
      rw [stringBody_simple hu hse, e2 r'']
    · obtain ⟨e1, e2⟩ := ih t s0 r' (by simp at hl; omega) hs
      refine ⟨by rw [e1]; simp, fun r'' => ?_⟩
      simp only [List.cons_append]
      rw [stringBody_hex hh, e2 r'']
    · obtain ⟨e1, e2⟩ := ih t s0 r' (by simp at hl; omega) hs
      refine ⟨by rw [e1]; simp, fun r'' => ?_⟩
      simp only [List.cons_append]
      rw [stringBody_ord h1 h2 h3, e2 r'']

theorem minus_cases (cs : List Char) : (minus cs).1 ++ (minus cs).2 = cs ∧
    (((minus cs).1 = [] ∧ ∀ tl, cs ≠ '-' :: tl) ∨ (minus cs).1 = ['-']) := by
  unfold minus
  split
  · exact ⟨rfl, .inr rfl⟩
  · rename_i h
    exact ⟨rfl, .inl ⟨rfl, fun tl e => h tl e⟩⟩

theorem intPart_run {i x : List Char}
    (hi : i = ['0'] ∨ ∃ c ds, isDigit19C c = true ∧ (∀ d ∈ ds, isDigitC d = true) ∧ i = c :: ds)
    (hx : ∀ c y, x = c :: y → isDigitC c = false) : intPart (i ++ x) = some (i, x) := by
  rcases hi with rfl | ⟨c, ds, h19, hall, rfl⟩
  · rfl
  · have hne0 : c ≠ '0' := by rintro rfl; simp [isDigit19C] at h19
    have h19' : isDigit19 c = true := h19
    have hd := digits_of_run ds x hall hx
    simp only [List.cons_append]
    unfold intPart
    split
    · rename_i heq; simp only [List.cons.injEq] at heq; exact absurd heq.1 hne0
    · rename_i c' cs' _ heq
      simp only [List.cons.injEq] at heq
      obtain ⟨rfl, rfl⟩ := heq
      simp [h19', hd]
    · rename_i heq; simp at heq

/-- what `number` consumes from a longer input is a number on its own -/
theorem number_self {cs n r : List Char} (h : number cs = some (n, r)) : cs = n ++ r ∧ number n = some (n, []) := by
  unfold number at h
  cases hi : intPart (minus cs).2 with
  | none => simp [hi] at h
  | some ir =>
    obtain ⟨i, c2⟩ := ir
    simp only [hi] at h
    cases hfr : fracPart c2 with
    | none => simp [hfr] at h
    | some fr =>
      obtain ⟨f, c3⟩ := fr
      simp only [hfr] at h
      cases hex : expPart c3 with
      | none => simp [hex] at h
      | some er =>
        obtain ⟨e, c4⟩ := er
        simp only [hex, Option.some.injEq, Prod.mk.injEq] at h
        obtain ⟨hn, rfl⟩ := h
        obtain ⟨ia, ib⟩ := intPart_cases hi
        obtain ⟨fa, fb⟩ := fracPart_cases hfr
        obtain ⟨ea, eb⟩ := expPart_cases hex
        obtain ⟨ma, mb⟩ := minus_cases cs
        -- shapes of the three optional parts
        have hfshape : f = [] ∨ ∃ fd, fd ≠ [] ∧ (∀ d ∈ fd, isDigitC d = true) ∧ f = '.' :: fd := by
          rcases fb with ⟨rfl, _⟩ | ⟨ds, hne, hall, rfl, _⟩
          · exact .inl rfl
          · exact .inr ⟨ds, hne, hall, rfl⟩
        have heshape : e = [] ∨ ∃ x sg ed, (x = 'e' ∨ x = 'E') ∧ (sg = [] ∨ sg = ['+'] ∨ sg = ['-']) ∧ ed ≠ [] ∧
            (∀ d ∈ ed, isDigitC d = true) ∧ e = x :: sg ++ ed := by
          rcases eb with ⟨rfl, _⟩ | ⟨x, sg, ds, hx, hsg, hne, hall, rfl, _⟩
          · exact .inl rfl
          · exact .inr ⟨x, sg, ds, hx, hsg, hne, hall, rfl⟩
        have hfweak : f = [] ∨ ∃ fd, f = '.' :: fd := by
          rcases hfshape with h | ⟨fd, _, _, h⟩
          · exact .inl h
          · exact .inr ⟨fd, h⟩
        have heweak : e = [] ∨ ∃ x r, (x = 'e' ∨ x = 'E') ∧ e = x :: r := by
          rcases heshape with h | ⟨x, sg, ed, hx, _, _, _, h⟩
          · exact .inl h
          · exact .inr ⟨x, sg ++ ed, hx, by simpa using h⟩
        have hishape : i = ['0'] ∨ ∃ c ds, isDigit19C c = true ∧ (∀ d ∈ ds, isDigitC d = true) ∧ i = c :: ds := by
          rcases ib with h | ⟨c, ds, h19, hall, h, _⟩
          · exact .inl h
          · exact .inr ⟨c, ds, h19, hall, h⟩
        constructor
        · rw [← hn]
          conv => lhs; rw [← ma, ← ia, ← fa, ← ea]
          simp [List.append_assoc]
        · -- run `number` on the consumed text alone
          have hmin : minus ((minus cs).1 ++ i ++ f ++ e) = ((minus cs).1, i ++ f ++ e) := by
            rcases mb with ⟨h0, _⟩ | h1
            · rw [h0]
              simp only [List.nil_append]
              rcases hishape with rfl | ⟨c, ds, h19, _, rfl⟩
              · rfl
              · have : c ≠ '-' := by rintro rfl; simp [isDigit19C] at h19
                unfold minus
                split
                · rename_i heq; simp only [List.cons_append, List.cons.injEq] at heq; exact absurd heq.1 this
                · rfl
            · rw [h1]; rfl
          have hint : intPart (i ++ f ++ e) = some (i, f ++ e) := by
            rw [List.append_assoc]
            exact intPart_run hishape (head_not_digit_of_frac_exp hfweak heweak)
          have hfrac : fracPart (f ++ e) = some (f, e) := fracPart_of hfshape heweak
          have hexp : expPart e = some (e, []) := expPart_of heshape
          rw [← hn]
          unfold number
          simp only [hmin, hint, hfrac, hexp]

end ShapeVerif
