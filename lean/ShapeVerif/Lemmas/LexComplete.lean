/-
Lexer completeness, lexeme by lexeme: on the text of a valid RFC 8259 lexeme followed by something
that cannot extend it, one lexer step returns exactly that lexeme and raises nothing.
-/
import ShapeVerif.Lemmas.LexSound
namespace ShapeVerif

/-! ### strings -/

theorem checkGo_hex4 (start iu : Nat) {a b c d : Char} (ha : isHexC a = true) (hb : isHexC b = true)
    (hc : isHexC c = true) (hd : isHexC d = true) (pos : Nat) (t : List Char) :
    ∃ pos', checkStringGo start (.hex iu 0) pos (a :: b :: c :: d :: t) = checkStringGo start .normal pos' t := by
  refine ⟨pos + a.utf8Size + b.utf8Size + c.utf8Size + d.utf8Size, ?_⟩
  simp [checkStringGo, ha, hb, hc, hd]

/-- a string the RFC accepts is scanned to its closing quote and passes `check_string` -/
theorem string_complete_aux (start : Nat) (n : Nat) : ∀ (r b rest : List Char), r.length ≤ n →
    Rfc.stringBody r = some (b, rest) →
    scanString r = (b ++ ['"'], rest, true) ∧ ∀ pos, checkStringGo start .normal pos (b ++ ['"']) = [] := by
  induction n with
  | zero =>
    intro r b rest hl h
    cases r with
    | nil => simp [Rfc.stringBody] at h
    | cons c r => simp at hl
  | succ n ih =>
    intro r b rest hl h
    cases r with
    | nil => simp [Rfc.stringBody] at h
    | cons c r1 =>
      unfold Rfc.stringBody at h
      by_cases hq : (c == '"') = true
      · have : c = '"' := by simpa using hq
        subst this
        simp only [beq_self_eq_true, if_true, Option.some.injEq, Prod.mk.injEq] at h
        obtain ⟨rfl, rfl⟩ := h
        exact ⟨scanString_quote r1, fun pos => by simp [checkStringGo]⟩
      simp only [hq, Bool.false_eq_true, if_false] at h
      have hcq : c ≠ '"' := by simpa using hq
      by_cases hb : (c == '\\') = true
      · have : c = '\\' := by simpa using hb
        subst this
        simp only [beq_self_eq_true, if_true] at h
        cases r1 with
        | nil => simp at h
        | cons e r2 =>
          simp only at h
          by_cases hu : (e == 'u') = true
          · have : e = 'u' := by simpa using hu
            subst this
            simp only [beq_self_eq_true, if_true] at h
            match r2, h with
            | a :: b' :: c2 :: d :: r3, h =>
              simp only at h
              by_cases hhex : (Rfc.isHex a && Rfc.isHex b' && Rfc.isHex c2 && Rfc.isHex d) = true
              · simp only [hhex, if_true] at h
                cases hs : Rfc.stringBody r3 with
                | none => simp [hs] at h
                | some sr =>
                  obtain ⟨s3, rr⟩ := sr
                  simp only [hs, Option.some.injEq, Prod.mk.injEq] at h
                  obtain ⟨rfl, rfl⟩ := h
                  obtain ⟨i1, i2⟩ := ih r3 s3 rr (by simp at hl; omega) hs
                  simp only [Bool.and_eq_true] at hhex
                  obtain ⟨⟨⟨ha, hb2⟩, hc2⟩, hd2⟩ := hhex
                  have oa := isHexC_ordinary ha
                  have ob := isHexC_ordinary hb2
                  have oc := isHexC_ordinary hc2
                  have od := isHexC_ordinary hd2
                  refine ⟨?_, ?_⟩
                  · rw [scanString_escape, scanString_ordinary oa.1 oa.2, scanString_ordinary ob.1 ob.2,
                      scanString_ordinary oc.1 oc.2, scanString_ordinary od.1 od.2, i1]
                    simp
                  · intro pos
                    simp only [List.cons_append]
                    have h1 : checkStringGo start .normal pos ('\\' :: 'u' :: a :: b' :: c2 :: d :: (s3 ++ ['"'])) =
                        checkStringGo start (.hex (pos + 1) 0) (pos + 1 + 1) (a :: b' :: c2 :: d :: (s3 ++ ['"'])) := by
                      simp [checkStringGo]
                    rw [h1]
                    obtain ⟨pos', h2⟩ := checkGo_hex4 start (pos + 1) ha hb2 hc2 hd2 (pos + 1 + 1) (s3 ++ ['"'])
                    rw [h2]; exact i2 pos'
              · simp [hhex] at h
            | [], h => simp at h
            | [_], h => simp at h
            | [_, _], h => simp at h
            | [_, _, _], h => simp at h
          · simp only [hu, Bool.false_eq_true, if_false] at h
            by_cases hse : Rfc.isSimpleEscape e = true
            · simp only [hse, if_true] at h
              cases hs : Rfc.stringBody r2 with
              | none => simp [hs] at h
              | some sr =>
                obtain ⟨s2, rr⟩ := sr
                simp only [hs, Option.some.injEq, Prod.mk.injEq] at h
                obtain ⟨rfl, rfl⟩ := h
                obtain ⟨i1, i2⟩ := ih r2 s2 rr (by simp at hl; omega) hs
                refine ⟨by rw [scanString_escape, i1]; simp, ?_⟩
                intro pos
                simp only [List.cons_append]
                have hse' : (e == '"' || e == '\\' || e == '/' || e == 'b' || e == 'f' || e == 'n' || e == 'r' ||
                    e == 't') = true := by simpa [Rfc.isSimpleEscape] using hse
                simp only [checkStringGo, beq_self_eq_true, if_true, hse']
                exact i2 _
            · simp [hse] at h
      · simp only [hb, Bool.false_eq_true, if_false] at h
        have hcb : c ≠ '\\' := by simpa using hb
        by_cases hctl : c.toNat < 0x20
        · simp [hctl] at h
        · simp only [hctl, if_false] at h
          cases hs : Rfc.stringBody r1 with
          | none => simp [hs] at h
          | some sr =>
            obtain ⟨s1, rr⟩ := sr
            simp only [hs, Option.some.injEq, Prod.mk.injEq] at h
            obtain ⟨rfl, rfl⟩ := h
            obtain ⟨i1, i2⟩ := ih r1 s1 rr (by simp at hl; omega) hs
            refine ⟨by rw [scanString_ordinary hcq hcb, i1]; simp, ?_⟩
            intro pos
            simp only [List.cons_append, checkStringGo, hb, Bool.false_eq_true, if_false, hctl]
            exact i2 _

/-! ### numbers -/

/-- what follows a number or a literal name in a JSON text: whitespace, `,`, `]`, `}` or nothing -/
def ValueFollow (rest : List Char) : Prop :=
  ∀ c tl, rest = c :: tl → (Rfc.isWs c = true ∨ c = ',' ∨ c = ']' ∨ c = '}')

theorem follow_not_digit {rest : List Char} (h : ValueFollow rest) : ∀ c tl, rest = c :: tl → isDigitC c = false := by
  intro c tl e
  rcases h c tl e with h | rfl | rfl | rfl
  · simp only [Rfc.isWs, Bool.or_eq_true, beq_iff_eq] at h
    rcases h with ((rfl | rfl) | rfl) | rfl <;> decide
  all_goals decide

theorem follow_not_alnum {rest : List Char} (h : ValueFollow rest) : ∀ c tl, rest = c :: tl → isAlnumC c = false := by
  intro c tl e
  rcases h c tl e with h | rfl | rfl | rfl
  · simp only [Rfc.isWs, Bool.or_eq_true, beq_iff_eq] at h
    rcases h with ((rfl | rfl) | rfl) | rfl <;> decide
  all_goals decide

theorem follow_misc {rest : List Char} (h : ValueFollow rest) :
    ∀ c tl, rest = c :: tl → c ≠ '.' ∧ c ≠ 'e' ∧ c ≠ 'E' ∧ c ≠ '-' ∧ c ≠ '+' := by
  intro c tl e
  rcases h c tl e with h | rfl | rfl | rfl
  · simp only [Rfc.isWs, Bool.or_eq_true, beq_iff_eq] at h
    rcases h with ((rfl | rfl) | rfl) | rfl <;> decide
  all_goals decide

theorem takeWhileC_of_run (ds x : List Char) (hd : ∀ d ∈ ds, isDigitC d = true)
    (hx : ∀ c r, x = c :: r → isDigitC c = false) : takeWhileC isDigitC (ds ++ x) = (ds, x) := by
  rw [← digits_eq]; exact digits_of_run ds x hd hx

theorem rfc_digits_spec (cs : List Char) : (Rfc.digits cs).1 ++ (Rfc.digits cs).2 = cs ∧
    (∀ d ∈ (Rfc.digits cs).1, isDigitC d = true) ∧ (∀ c r, (Rfc.digits cs).2 = c :: r → isDigitC c = false) := by
  rw [digits_eq]
  exact ⟨takeWhileC_append _ cs, takeWhileC_all _ cs, takeWhileC_rest _ cs⟩

theorem intPart_cases {cs i r : List Char} (h : Rfc.intPart cs = some (i, r)) :
    i ++ r = cs ∧ ((i = ['0']) ∨ (∃ c ds, isDigit19C c = true ∧ (∀ d ∈ ds, isDigitC d = true) ∧ i = c :: ds ∧
      (∀ x y, r = x :: y → isDigitC x = false))) := by
  cases cs with
  | nil => simp [Rfc.intPart] at h
  | cons c cs =>
    by_cases hc : c = '0'
    · subst hc
      simp only [Rfc.intPart, Option.some.injEq, Prod.mk.injEq] at h
      obtain ⟨rfl, rfl⟩ := h
      exact ⟨rfl, .inl rfl⟩
    · have : Rfc.intPart (c :: cs) = if Rfc.isDigit19 c then some (c :: (Rfc.digits cs).1, (Rfc.digits cs).2) else none := by
        unfold Rfc.intPart
        split
        · rename_i heq; simp only [List.cons.injEq] at heq; exact absurd heq.1 hc
        · rename_i c' r' _ heq; simp only [List.cons.injEq] at heq; obtain ⟨rfl, rfl⟩ := heq; rfl
        · rename_i heq; simp at heq
      rw [this] at h
      split at h
      · rename_i h19
        simp only [Option.some.injEq, Prod.mk.injEq] at h
        obtain ⟨rfl, rfl⟩ := h
        obtain ⟨a1, a2, a3⟩ := rfc_digits_spec cs
        exact ⟨by simp [a1], .inr ⟨c, _, h19, a2, rfl, a3⟩⟩
      · cases h

theorem fracPart_cases {cs f r : List Char} (h : Rfc.fracPart cs = some (f, r)) :
    f ++ r = cs ∧ ((f = [] ∧ ∀ tl, cs ≠ '.' :: tl) ∨ (∃ ds, ds ≠ [] ∧ (∀ d ∈ ds, isDigitC d = true) ∧ f = '.' :: ds ∧
      (∀ x y, r = x :: y → isDigitC x = false))) := by
  cases cs with
  | nil => simp only [Rfc.fracPart, Option.some.injEq, Prod.mk.injEq] at h; obtain ⟨rfl, rfl⟩ := h
           exact ⟨rfl, .inl ⟨rfl, by intro tl e; cases e⟩⟩
  | cons c cs =>
    by_cases hc : c = '.'
    · subst hc
      obtain ⟨a1, a2, a3⟩ := rfc_digits_spec cs
      simp only [Rfc.fracPart] at h
      cases hd : Rfc.digits cs with
      | mk ds rest =>
        rw [hd] at h a1 a2 a3
        cases ds with
        | nil => simp at h
        | cons d ds' =>
          simp only [Option.some.injEq, Prod.mk.injEq] at h
          obtain ⟨rfl, rfl⟩ := h
          exact ⟨by simp at a1 ⊢; exact a1, .inr ⟨d :: ds', by simp, a2, rfl, a3⟩⟩
    · have : Rfc.fracPart (c :: cs) = some ([], c :: cs) := by
        unfold Rfc.fracPart
        split
        · rename_i heq; simp only [List.cons.injEq] at heq; exact absurd heq.1 hc
        · rfl
      rw [this] at h
      simp only [Option.some.injEq, Prod.mk.injEq] at h
      obtain ⟨rfl, rfl⟩ := h
      exact ⟨rfl, .inl ⟨rfl, by intro tl e; simp only [List.cons.injEq] at e; exact hc e.1⟩⟩

theorem expPart_cases {cs e r : List Char} (h : Rfc.expPart cs = some (e, r)) :
    e ++ r = cs ∧ ((e = [] ∧ ∀ x tl, cs = x :: tl → x ≠ 'e' ∧ x ≠ 'E') ∨
      (∃ x sg ds, (x = 'e' ∨ x = 'E') ∧ (sg = [] ∨ sg = ['+'] ∨ sg = ['-']) ∧ ds ≠ [] ∧
        (∀ d ∈ ds, isDigitC d = true) ∧ e = x :: sg ++ ds ∧ (∀ a b, r = a :: b → isDigitC a = false))) := by
  cases cs with
  | nil => simp only [Rfc.expPart, Option.some.injEq, Prod.mk.injEq] at h; obtain ⟨rfl, rfl⟩ := h
           exact ⟨rfl, .inl ⟨rfl, by intro x tl e; cases e⟩⟩
  | cons x cs =>
    by_cases hx : (x == 'e' || x == 'E') = true
    · simp only [Rfc.expPart, hx, if_true] at h
      obtain ⟨a1, a2, a3⟩ := rfc_digits_spec (Rfc.sign cs).2
      have hsg : (Rfc.sign cs).1 ++ (Rfc.sign cs).2 = cs ∧
          ((Rfc.sign cs).1 = [] ∨ (Rfc.sign cs).1 = ['+'] ∨ (Rfc.sign cs).1 = ['-']) := by
        rw [expSign_eq_sign]; exact ⟨expSign_append cs, expSign_cases cs⟩
      cases hd : Rfc.digits (Rfc.sign cs).2 with
      | mk ds rest =>
        rw [hd] at h a1 a2 a3
        cases ds with
        | nil => simp at h
        | cons d ds' =>
          simp only [Option.some.injEq, Prod.mk.injEq] at h
          obtain ⟨rfl, rfl⟩ := h
          refine ⟨?_, .inr ⟨x, (Rfc.sign cs).1, d :: ds', by simpa using hx, hsg.2, by simp, a2, rfl, a3⟩⟩
          simp only [List.cons_append, List.append_assoc, List.cons.injEq, true_and]
          have a1' : d :: (ds' ++ rest) = (Rfc.sign cs).2 := a1
          rw [a1']; exact hsg.1
    · simp only [Rfc.expPart, hx, Bool.false_eq_true, if_false, Option.some.injEq, Prod.mk.injEq] at h
      obtain ⟨rfl, rfl⟩ := h
      refine ⟨rfl, .inl ⟨rfl, ?_⟩⟩
      intro y tl e
      simp only [List.cons.injEq] at e
      obtain ⟨rfl, _⟩ := e
      simpa using hx

theorem numFrac_skip {x : List Char} (h : ∀ tl, x ≠ '.' :: tl) : numFrac x = ([], x) := by
  unfold numFrac
  split
  · rename_i r; exact absurd rfl (h r)
  · rfl

theorem numExp_skip {x : List Char} (h : ∀ c tl, x = c :: tl → c ≠ 'e' ∧ c ≠ 'E') : numExp x = ([], x) := by
  cases x with
  | nil => rfl
  | cons c tl =>
    have := h c tl rfl
    have hx : (c == 'e' || c == 'E') = false := by simp [this.1, this.2]
    simp [numExp, hx]

theorem expSign_of_sg {sg ds x : List Char} (hsg : sg = [] ∨ sg = ['+'] ∨ sg = ['-']) (hne : ds ≠ [])
    (hall : ∀ d ∈ ds, isDigitC d = true) : expSign (sg ++ ds ++ x) = (sg, ds ++ x) := by
  cases ds with
  | nil => exact absurd rfl hne
  | cons a l =>
    have ha : isDigitC a = true := hall a (by simp)
    have hap : a ≠ '+' := by rintro rfl; simp [isDigitC] at ha
    have ham : a ≠ '-' := by rintro rfl; simp [isDigitC] at ha
    rcases hsg with rfl | rfl | rfl
    · simp only [List.nil_append, List.cons_append]
      unfold expSign
      split
      · rename_i heq; simp only [List.cons.injEq] at heq; exact absurd heq.1 hap
      · rename_i heq; simp only [List.cons.injEq] at heq; exact absurd heq.1 ham
      · rfl
    · rfl
    · rfl

theorem numSign_minus {n : List Char} (hn : n ≠ []) (rest : List Char) :
    numSign (n ++ rest) = ((Rfc.minus n).1, (Rfc.minus n).2 ++ rest) := by
  cases n with
  | nil => exact absurd rfl hn
  | cons c tl =>
    by_cases hc : c = '-'
    · subst hc; rfl
    · have h1 : Rfc.minus (c :: tl) = ([], c :: tl) := by
        unfold Rfc.minus
        split
        · rename_i heq; simp only [List.cons.injEq] at heq; exact absurd heq.1 hc
        · rfl
      have h2 : numSign (c :: tl ++ rest) = ([], c :: tl ++ rest) := by
        unfold numSign
        split
        · rename_i heq; simp only [List.cons_append, List.cons.injEq] at heq; exact absurd heq.1 hc
        · rfl
      rw [h1, h2]

/-- **a number the RFC accepts, followed by something that cannot extend it, is what the scanner takes** -/
theorem number_complete {n rest : List Char} (h : Rfc.number n = some (n, [])) (hf : ValueFollow rest) :
    scanNumber (n ++ rest) = some (n, rest) := by
  unfold Rfc.number at h
  cases hi : Rfc.intPart (Rfc.minus n).2 with
  | none => simp [hi] at h
  | some ir =>
    obtain ⟨i, c2⟩ := ir
    simp only [hi] at h
    cases hfr : Rfc.fracPart c2 with
    | none => simp [hfr] at h
    | some fr =>
      obtain ⟨f, c3⟩ := fr
      simp only [hfr] at h
      cases hex : Rfc.expPart c3 with
      | none => simp [hex] at h
      | some er =>
        obtain ⟨e, c4⟩ := er
        simp only [hex, Option.some.injEq, Prod.mk.injEq] at h
        obtain ⟨hn, rfl⟩ := h
        obtain ⟨ia, ib⟩ := intPart_cases hi
        obtain ⟨fa, fb⟩ := fracPart_cases hfr
        obtain ⟨ea, eb⟩ := expPart_cases hex
        -- c3 = e, c2 = f ++ e, (minus n).2 = i ++ f ++ e
        have hc3 : e = c3 := by simpa using ea
        subst hc3
        have hc2 : f ++ e = c2 := fa
        subst hc2
        -- heads
        have hrest_nd := follow_not_digit hf
        have hrest_m := follow_misc hf
        have he_head : ∀ c r, e ++ rest = c :: r → isDigitC c = false := by
          intro c r h0
          rcases eb with ⟨rfl, _⟩ | ⟨x, sg, ds, hx, _, _, _, rfl, _⟩
          · exact hrest_nd c r (by simpa using h0)
          · simp only [List.cons_append, List.cons.injEq] at h0
            rw [← h0.1]; rcases hx with rfl | rfl <;> decide
        have hfe_head : ∀ c r, f ++ (e ++ rest) = c :: r → isDigitC c = false := by
          intro c r h0
          rcases fb with ⟨rfl, _⟩ | ⟨ds, _, _, rfl, _⟩
          · exact he_head c r (by simpa using h0)
          · simp only [List.cons_append, List.cons.injEq] at h0
            rw [← h0.1]; decide
        -- the stages of the scanner on n ++ rest
        have hnne : n ≠ [] := by
          rintro rfl
          simp [Rfc.minus, Rfc.intPart] at hi
        have hsign : numSign (n ++ rest) = ((Rfc.minus n).1, i ++ (f ++ (e ++ rest))) := by
          have hm := numSign_minus hnne rest
          rw [hm, ← ia]; simp
        have hint : numInt (i ++ (f ++ (e ++ rest))) = some (i, f ++ (e ++ rest)) := by
          rcases ib with rfl | ⟨c, ds, h19, hall, rfl, _⟩
          · rfl
          · have hne0 : c ≠ '0' := by rintro rfl; simp [isDigit19C] at h19
            have htw := takeWhileC_of_run ds (f ++ (e ++ rest)) hall hfe_head
            simp only [List.cons_append]
            unfold numInt
            split
            · rename_i heq; simp only [List.cons.injEq] at heq; exact absurd heq.1 hne0
            · rename_i c' cs' _ heq
              simp only [List.cons.injEq] at heq
              obtain ⟨rfl, rfl⟩ := heq
              simp [h19, htw]
            · rename_i heq; simp at heq
        have hfrac : numFrac (f ++ (e ++ rest)) = (f, e ++ rest) := by
          rcases fb with ⟨rfl, hnd⟩ | ⟨ds, hne, hall, rfl, _⟩
          · simp only [List.nil_append]
            apply numFrac_skip
            intro tl h0
            rcases eb with ⟨rfl, _⟩ | ⟨x, sg, ds, hx, _, _, _, rfl, _⟩
            · simp only [List.nil_append] at h0
              exact (hrest_m '.' tl h0).1 rfl
            · simp only [List.cons_append, List.cons.injEq] at h0
              rcases hx with rfl | rfl <;> simp at h0
          · simp only [List.cons_append]
            have htw := takeWhileC_of_run ds (e ++ rest) hall he_head
            simp only [numFrac, htw]
            cases ds with
            | nil => exact absurd rfl hne
            | cons a l => simp
        have hexp : numExp (e ++ rest) = (e, rest) := by
          rcases eb with ⟨rfl, _⟩ | ⟨x, sg, ds, hx, hsg, hne, hall, rfl, _⟩
          · simp only [List.nil_append]
            apply numExp_skip
            intro c tl h0
            have := hrest_m c tl h0
            exact ⟨this.2.1, this.2.2.1⟩
          · have hxe : (x == 'e' || x == 'E') = true := by rcases hx with rfl | rfl <;> decide
            have hs := expSign_of_sg (x := rest) hsg hne hall
            have htw := takeWhileC_of_run ds rest hall hrest_nd
            simp only [List.cons_append, List.append_assoc] at hs ⊢
            simp only [numExp, hxe, if_true, hs, htw]
            cases ds with
            | nil => exact absurd rfl hne
            | cons a l => simp
        unfold scanNumber
        simp only [hsign, hint, hfrac, hexp]
        rw [hn]

end ShapeVerif
