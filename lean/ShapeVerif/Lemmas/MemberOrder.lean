/-
Member order does not influence text-path inference of an object: `parse_rule` inserts the members
into an ordered map one by one, and insertions of single-document shapes commute.
-/
import ShapeVerif.Lemmas.InferSpec
import ShapeVerif.Props.C03
namespace ShapeVerif
open Shape

/-- no stored value is a `OneOf` (single-document inference never creates one) -/
def NoOneOfVals (c : Members) : Prop := ∀ k s, mapGet k c = some s → s.isOneOf = false

theorem addMember_ok_iff {c c' : Members} {k : String} {v : Shape} (hc : NoOneOfVals c) :
    addMember c k v = .ok c' ↔ (mapGet k c = some v ∧ c' = c) ∨ (mapGet k c = none ∧ c' = mapInsert k v c) := by
  unfold addMember
  cases hg : mapGet k c with
  | none => simp; exact eq_comm
  | some o =>
    have ho := hc k o hg
    cases o with
    | oneOf vs p => simp [isOneOf] at ho
    | _ =>
      simp only
      split
      · rename_i hne
        constructor
        · intro h; cases h
        · rintro (⟨h1, _⟩ | ⟨h1, _⟩)
          · cases h1; simp [cmp_refl] at hne
          · cases h1
      · rename_i hne
        simp only [bne_iff_ne, ne_eq, Decidable.not_not] at hne
        have := (cmp_eq_iff _ _).1 hne
        subst this
        simp; exact eq_comm

theorem NoOneOfVals_mapInsert {c : Members} {k : String} {v : Shape} (hc : NoOneOfVals c)
    (hv : v.isOneOf = false) : NoOneOfVals (mapInsert k v c) := by
  intro k' s h
  rw [mapGet_mapInsert] at h
  split at h
  · cases h; exact hv
  · exact hc k' s h

theorem addMember_inv {c c' : Members} {k : String} {v : Shape} (hs : sortedKeys c = true)
    (hc : NoOneOfVals c) (hv : v.isOneOf = false) (h : addMember c k v = .ok c') :
    sortedKeys c' = true ∧ NoOneOfVals c' := by
  rcases (addMember_ok_iff hc).1 h with ⟨_, rfl⟩ | ⟨_, rfl⟩
  · exact ⟨hs, hc⟩
  · exact ⟨sortedKeys_mapInsert hs, NoOneOfVals_mapInsert hc hv⟩

theorem mapInsert_comm {c : Members} {k1 k2 : String} {s1 s2 : Shape} (hs : sortedKeys c = true)
    (hne : k1 ≠ k2) : mapInsert k1 s1 (mapInsert k2 s2 c) = mapInsert k2 s2 (mapInsert k1 s1 c) := by
  apply members_ext (sortedKeys_mapInsert (sortedKeys_mapInsert hs)) (sortedKeys_mapInsert (sortedKeys_mapInsert hs))
  intro k
  simp only [mapGet_mapInsert]
  by_cases h1 : k = k1 <;> by_cases h2 : k = k2 <;> simp_all

theorem mapInsert_of_get {c : Members} {k : String} {v : Shape} (hs : sortedKeys c = true)
    (h : mapGet k c = some v) : mapInsert k v c = c := by
  apply members_ext (sortedKeys_mapInsert hs) hs
  intro k'
  rw [mapGet_mapInsert]
  by_cases hk : k' = k
  · subst hk; simp [h]
  · simp [hk]

theorem addMember_swap {c c1 c2 : Members} {k1 k2 : String} {s1 s2 : Shape} (hs : sortedKeys c = true)
    (hc : NoOneOfVals c) (h1 : s1.isOneOf = false) (h2 : s2.isOneOf = false)
    (ha : addMember c k1 s1 = .ok c1) (hb : addMember c1 k2 s2 = .ok c2) :
    ∃ c1', addMember c k2 s2 = .ok c1' ∧ addMember c1' k1 s1 = .ok c2 := by
  have ⟨hs1, hc1⟩ := addMember_inv hs hc h1 ha
  rcases (addMember_ok_iff hc).1 ha with ⟨ga, rfl⟩ | ⟨ga, rfl⟩
  · -- first member already present with the same shape: the map does not change
    rcases (addMember_ok_iff hc).1 hb with ⟨gb, rfl⟩ | ⟨gb, rfl⟩
    · exact ⟨_, (addMember_ok_iff hc).2 (.inl ⟨gb, rfl⟩), (addMember_ok_iff hc).2 (.inl ⟨ga, rfl⟩)⟩
    · refine ⟨_, (addMember_ok_iff hc).2 (.inr ⟨gb, rfl⟩), ?_⟩
      have hne : k1 ≠ k2 := by intro e; subst e; rw [ga] at gb; cases gb
      refine (addMember_ok_iff (NoOneOfVals_mapInsert hc h2)).2 (.inl ⟨?_, rfl⟩)
      rw [mapGet_mapInsert]; simp [hne, ga]
  · -- first member is new
    by_cases hk : k1 = k2
    · subst hk
      rcases (addMember_ok_iff hc1).1 hb with ⟨gb, rfl⟩ | ⟨gb, _⟩
      · rw [mapGet_mapInsert] at gb
        simp at gb; subst gb
        exact ⟨mapInsert k1 s1 c, (addMember_ok_iff hc).2 (.inr ⟨ga, rfl⟩),
          (addMember_ok_iff hc1).2 (.inl ⟨by rw [mapGet_mapInsert]; simp, rfl⟩)⟩
      · rw [mapGet_mapInsert] at gb; simp at gb
    · rcases (addMember_ok_iff hc1).1 hb with ⟨gb, rfl⟩ | ⟨gb, rfl⟩
      · rw [mapGet_mapInsert] at gb
        have : (k2 == k1) = false := by simp [Ne.symm hk]
        simp only [this, Bool.false_eq_true, if_false] at gb
        refine ⟨c, (addMember_ok_iff hc).2 (.inl ⟨gb, rfl⟩), (addMember_ok_iff hc).2 (.inr ⟨ga, rfl⟩)⟩
      · rw [mapGet_mapInsert] at gb
        have : (k2 == k1) = false := by simp [Ne.symm hk]
        simp only [this, Bool.false_eq_true, if_false] at gb
        refine ⟨mapInsert k2 s2 c, (addMember_ok_iff hc).2 (.inr ⟨gb, rfl⟩), ?_⟩
        refine (addMember_ok_iff (NoOneOfVals_mapInsert hc h2)).2 (.inr ⟨?_, mapInsert_comm hs (Ne.symm hk)⟩)
        rw [mapGet_mapInsert]; simp [hk, ga]

/-- permuting the members of an object does not change what the member loop computes -/
theorem inferDocMembers_perm {ms ms' : List (String × Doc)} (hp : ms.Perm ms') :
    ∀ (c r : Members), sortedKeys c = true → NoOneOfVals c →
      inferDocMembers ms c = .ok r → inferDocMembers ms' c = .ok r := by
  induction hp with
  | nil => intro c r _ _ h; exact h
  | cons x _ ih =>
    obtain ⟨k, v⟩ := x
    intro c r hs hc h
    simp only [inferDocMembers] at h ⊢
    cases hv : inferDoc v with
    | error e => simp [hv] at h
    | ok sv =>
      simp only [hv] at h ⊢
      cases ha : addMember c k sv with
      | error e => simp [ha] at h
      | ok c1 =>
        simp only [ha] at h ⊢
        have ⟨hs1, hc1⟩ := addMember_inv hs hc (plain_not_oneOf (infer_plain hv)) ha
        exact ih c1 r hs1 hc1 h
  | swap x y l =>
    obtain ⟨k1, v1⟩ := x
    obtain ⟨k2, v2⟩ := y
    intro c r hs hc h
    -- h is about (k2,v2) :: (k1,v1) :: l ; the goal about (k1,v1) :: (k2,v2) :: l
    simp only [inferDocMembers] at h ⊢
    cases hv2 : inferDoc v2 with
    | error e => simp [hv2] at h
    | ok s2 =>
      simp only [hv2] at h
      cases ha : addMember c k2 s2 with
      | error e => simp [ha] at h
      | ok c1 =>
        simp only [ha] at h
        cases hv1 : inferDoc v1 with
        | error e => simp [hv1] at h
        | ok s1 =>
          simp only [hv1] at h ⊢
          cases hb : addMember c1 k1 s1 with
          | error e => simp [hb] at h
          | ok c2 =>
            simp only [hb] at h
            obtain ⟨c1', e1, e2⟩ := addMember_swap hs hc (plain_not_oneOf (infer_plain hv2))
              (plain_not_oneOf (infer_plain hv1)) ha hb
            simp only [e1, e2]
            exact h
  | trans _ _ ih1 ih2 => intro c r hs hc h; exact ih2 c r hs hc (ih1 c r hs hc h)

/-- **member-order independence**: an object whose members are listed in another order is given the
same shape (including objects that repeat a member name with equal value shapes) -/
theorem infer_member_order {ms ms' : List (String × Doc)} (hp : ms.Perm ms') {s : Shape}
    (h : inferDoc (.obj ms) = .ok s) : inferDoc (.obj ms') = .ok s := by
  simp only [inferDoc] at h ⊢
  split at h
  · cases h
  · rename_i content hc
    have := inferDocMembers_perm hp [] content rfl (by intro k s hk; simp [mapGet] at hk) hc
    simp only [this]
    exact h

end ShapeVerif
