/-
Completeness of `is_subset` along merging (C03):
* `keeps`: a plain shape below the accumulator stays below the merged accumulator;
* `newSample`: the merged-in plain shape is below the result.
-/
import ShapeVerif.Lemmas.SubsetTrans
import ShapeVerif.Lemmas.MergeWf
namespace ShapeVerif
open Shape Std

theorem asOptional_isOptional (b : Shape) : b.asOptional.isOptional = true := by
  cases b <;> rfl

theorem null_sub_of_isOptional {a : Shape} (h : a.isOptional = true) : isSubset .null a = true := by
  simp [isSubset, h]

/-! ### a shape below a non-`OneOf` operand stays below `mixed` / `addToOneOf` -/

theorem sub_mixed_left {s a b : Shape} (ha : a.isOneOf = false) (h : isSubset s a = true) :
    isSubset s (mixed a b) = true := by
  unfold mixed
  refine sub_into_oneOf ha h (x' := a.asNonOptional) ?_ (Or.inr rfl) ?_
  · rw [mem_setOfList]; simp
  · intro ho; rw [mem_setOfList]; simp [ho]

theorem sub_mixed_right {s a b : Shape} (hb : b.isOneOf = false) (h : isSubset s b = true) :
    isSubset s (mixed a b) = true := by
  unfold mixed
  refine sub_into_oneOf hb h (x' := b.asNonOptional) ?_ (Or.inr rfl) ?_
  · rw [mem_setOfList]; simp
  · intro ho; rw [mem_setOfList]; simp [ho]

theorem sub_addToOneOf_new {s x : Shape} {vs : List Shape} {p : Bool} (hx : x.isOneOf = false)
    (h : isSubset s x = true) : isSubset s (.oneOf (addToOneOf x vs) p) = true :=
  sub_into_oneOf hx h mem_addToOneOf_self (Or.inr rfl) (fun ho => mem_addToOneOf_null ho)

theorem sub_addToOneOf_old {s x : Shape} {vs : List Shape} {p : Bool} (hs : s.isOneOf = false)
    (h : isSubset s (.oneOf vs p) = true) : isSubset s (.oneOf (addToOneOf x vs) p) = true :=
  sub_oneOf_mono h (fun _ hv => mem_addToOneOf_old hv) (fun hp => Or.inl hp) hs

/-- the element `OneOf` built by the array/tuple arms covers whatever the array's element type covers -/
theorem sub_arrayElemVariants {x t : Shape} {v0 V : List Shape} (hx : x.isOneOf = false)
    (h : isSubset x t = true) (hV : ∀ v ∈ arrayElemVariants t v0, v ∈ V)
    (hnull : t.isOptional = true → Shape.null ∈ V) : isSubset x (.oneOf V false) = true := by
  cases t with
  | oneOf inner io =>
    refine sub_oneOf_mono h ?_ ?_ hx
    · intro v hv
      apply hV
      simp only [arrayElemVariants]
      exact mem_setExtend.2 (Or.inr hv)
    · intro hio; right; exact hnull (by simpa [isOptional] using hio)
  | null =>
    exact sub_into_oneOf rfl h (x' := .null) (hV _ (by simp [arrayElemVariants, mem_setInsert])) (Or.inl rfl)
      (fun _ => hnull rfl)
  | bool p =>
    exact sub_into_oneOf rfl h (x' := .bool p) (hV _ (by simp [arrayElemVariants, mem_setInsert])) (Or.inl rfl) hnull
  | number p =>
    exact sub_into_oneOf rfl h (x' := .number p) (hV _ (by simp [arrayElemVariants, mem_setInsert])) (Or.inl rfl) hnull
  | string p =>
    exact sub_into_oneOf rfl h (x' := .string p) (hV _ (by simp [arrayElemVariants, mem_setInsert])) (Or.inl rfl) hnull
  | array t' p =>
    exact sub_into_oneOf rfl h (x' := .array t' p) (hV _ (by simp [arrayElemVariants, mem_setInsert])) (Or.inl rfl) hnull
  | object c p =>
    exact sub_into_oneOf rfl h (x' := .object c p) (hV _ (by simp [arrayElemVariants, mem_setInsert])) (Or.inl rfl) hnull
  | tuple c p =>
    exact sub_into_oneOf rfl h (x' := .tuple c p) (hV _ (by simp [arrayElemVariants, mem_setInsert])) (Or.inl rfl) hnull

/-- position-wise consequence of a successful zip -/
theorem zip_mem {ss es : List Shape} : zipAllSubset ss es = true → ss.length = es.length →
    ∀ s ∈ ss, ∃ e ∈ es, isSubset s e = true := by
  induction ss generalizing es with
  | nil => intro _ _ s hs; cases hs
  | cons a ss ih =>
    intro hz hl s hs
    cases es with
    | nil => simp at hl
    | cons b es =>
      simp [zipAllSubset] at hz
      rcases List.mem_cons.1 hs with rfl | hs
      · exact ⟨b, by simp, hz.1⟩
      · obtain ⟨e, he, hse⟩ := ih hz.2 (by simpa using hl) s hs
        exact ⟨e, by simp [he], hse⟩

theorem nullInit_mem {c : Bool} (h : c = true) :
    Shape.null ∈ (if c then setInsert Shape.null [] else []) := by
  subst h; simp [setInsert]

/-- one position of the `(Tuple, Tuple)` zip keeps what was below the left element -/
theorem pick_keeps {s e o c : Shape} (hs : s.isOneOf = false) (hop : o.plain = true) (how : o.wf = true)
    (hp : pickTuple e o = some c) (h : isSubset s e = true) : isSubset s c = true := by
  unfold pickTuple at hp
  split at hp
  · rename_i heo; cases hp; exact sub_trans_plain hop how h heo
  · split at hp
    · cases hp; exact h
    · split at hp
      · cases hp; exact sub_asOptional_right h hs
      · split at hp
        · rename_i hn; cases hp
          cases e <;> simp [isNull] at hn
          have := sub_null_inv h; subst this
          exact null_sub_of_isOptional (asOptional_isOptional o)
        · cases hp

/-- …and the right element is below the picked one -/
theorem pick_new {e o c : Shape} (how : o.wf = true) (hp : pickTuple e o = some c) :
    isSubset o c = true := by
  unfold pickTuple at hp
  split at hp
  · cases hp; exact subset_refl o how
  · split at hp
    · rename_i hoe; cases hp; exact hoe
    · split at hp
      · rename_i hn; cases hp
        cases o <;> simp [isNull] at hn
        exact null_sub_of_isOptional (asOptional_isOptional e)
      · split at hp
        · cases hp; exact subset_as_optional o how
        · cases hp

theorem pickAll_keeps : ∀ (ss es os folded : List Shape), (∀ s ∈ ss, s.isOneOf = false) →
    plainList os = true → wfList os = true → pickAll es os = some folded →
    zipAllSubset ss es = true → ss.length = es.length → es.length = os.length →
    zipAllSubset ss folded = true ∧ ss.length = folded.length
  | [], [], [], folded, _, _, _, hp, _, _, _ => by simp [pickAll] at hp; subst hp; simp [zipAllSubset]
  | s :: ss, e :: es, o :: os, folded, hs, hpl, hw, hp, hz, l1, l2 => by
    simp only [pickAll] at hp
    split at hp
    · cases hp
    · rename_i c hc
      split at hp
      · cases hp
      · rename_i cs hcs
        cases hp
        simp [zipAllSubset] at hz ⊢
        simp [plainList] at hpl
        simp [wfList] at hw
        obtain ⟨i1, i2⟩ := pickAll_keeps ss es os cs (fun x hx => hs x (by simp [hx])) hpl.2 hw.2 hcs hz.2
          (by simpa using l1) (by simpa using l2)
        exact ⟨⟨pick_keeps (hs s (by simp)) hpl.1 hw.1 hc hz.1, i1⟩, i2⟩
  | [], _ :: _, _, _, _, _, _, _, _, l1, _ => by simp at l1
  | _ :: _, [], _, _, _, _, _, _, _, l1, _ => by simp at l1
  | [], [], _ :: _, _, _, _, _, _, _, _, l2 => by simp at l2
  | _ :: _, _ :: _, [], _, _, _, _, _, _, _, l2 => by simp at l2

theorem pickAll_new : ∀ (es os folded : List Shape), wfList os = true → pickAll es os = some folded →
    es.length = os.length → zipAllSubset os folded = true ∧ os.length = folded.length
  | [], [], folded, _, hp, _ => by simp [pickAll] at hp; subst hp; simp [zipAllSubset]
  | e :: es, o :: os, folded, hw, hp, l => by
    simp only [pickAll] at hp
    split at hp
    · cases hp
    · rename_i c hc
      split at hp
      · cases hp
      · rename_i cs hcs
        cases hp
        simp [wfList] at hw
        obtain ⟨i1, i2⟩ := pickAll_new es os cs hw.2 hcs (by simpa using l)
        simp [zipAllSubset]
        exact ⟨⟨pick_new hw.1 hc, i1⟩, i2⟩
  | [], _ :: _, _, _, _, l => by simp at l
  | _ :: _, [], _, _, _, l => by simp at l

/-! ### syntactic nullability survives merging -/

theorem nullableSyn_simple {a : Shape} (ha : a.isOneOf = false) : nullableSyn a = a.isOptional := by
  cases a <;> simp_all [nullableSyn, isOneOfNull, Shape.isOneOf]

theorem nullableSyn_mixed_left {a b : Shape} (h : a.isOptional = true) : nullableSyn (mixed a b) = true := by
  have hm : Shape.null ∈ setOfList ([a.asNonOptional, b.asNonOptional] ++
      (if a.isOptional || b.isOptional then [Shape.null] else [])) := by
    rw [mem_setOfList]; simp [h]
  unfold mixed nullableSyn
  simp only [isOneOfNull, setContains_iff.2 hm, Bool.or_true]

theorem nullableSyn_mixed_right {a b : Shape} (h : b.isOptional = true) : nullableSyn (mixed a b) = true := by
  have hm : Shape.null ∈ setOfList ([a.asNonOptional, b.asNonOptional] ++
      (if a.isOptional || b.isOptional then [Shape.null] else [])) := by
    rw [mem_setOfList]; simp [h]
  unfold mixed nullableSyn
  simp only [isOneOfNull, setContains_iff.2 hm, Bool.or_true]

theorem nullableSyn_addToOneOf_new {x : Shape} {vs : List Shape} {p : Bool} (h : x.isOptional = true) :
    nullableSyn (.oneOf (addToOneOf x vs) p) = true := by
  unfold nullableSyn
  simp only [isOptional, isOneOfNull, Bool.or_eq_true]
  exact Or.inr (setContains_iff.2 (mem_addToOneOf_null h))

theorem nullableSyn_addToOneOf_old {x : Shape} {vs : List Shape} {p : Bool}
    (h : nullableSyn (.oneOf vs p) = true) : nullableSyn (.oneOf (addToOneOf x vs) p) = true := by
  unfold nullableSyn at h ⊢
  simp only [isOptional, isOneOfNull, Bool.or_eq_true] at h ⊢
  rcases h with h | h
  · exact Or.inl h
  · exact Or.inr (setContains_iff.2 (mem_addToOneOf_old (setContains_iff.1 h)))

theorem nullableSyn_merger_left {a b : Shape} (h : nullableSyn a = true) : nullableSyn (merger a b) = true := by
  cases a with
  | null => simp [merger, nullableSyn, asOptional_isOptional]
  | bool o =>
    have ho : o = true := by simpa [nullableSyn, isOptional, isOneOfNull] using h
    subst ho
    cases b <;> simp only [merger] <;>
      first
        | (simp [nullableSyn, isOptional]; done)
        | exact nullableSyn_mixed_left rfl
        | exact nullableSyn_addToOneOf_new rfl
  | number o =>
    have ho : o = true := by simpa [nullableSyn, isOptional, isOneOfNull] using h
    subst ho
    cases b <;> simp only [merger] <;>
      first
        | (simp [nullableSyn, isOptional]; done)
        | exact nullableSyn_mixed_left rfl
        | exact nullableSyn_addToOneOf_new rfl
  | string o =>
    have ho : o = true := by simpa [nullableSyn, isOptional, isOneOfNull] using h
    subst ho
    cases b <;> simp only [merger] <;>
      first
        | (simp [nullableSyn, isOptional]; done)
        | exact nullableSyn_mixed_left rfl
        | exact nullableSyn_addToOneOf_new rfl
  | array t o =>
    have ho : o = true := by simpa [nullableSyn, isOptional, isOneOfNull] using h
    subst ho
    cases b <;> simp only [merger] <;>
      first
        | (simp [nullableSyn, isOptional]; done)
        | exact nullableSyn_mixed_left rfl
        | exact nullableSyn_addToOneOf_new rfl
  | object c o =>
    have ho : o = true := by simpa [nullableSyn, isOptional, isOneOfNull] using h
    subst ho
    cases b <;> (try rw [merger_object_object]) <;> (try simp only [merger]) <;>
      first
        | (simp [nullableSyn, isOptional]; done)
        | exact nullableSyn_mixed_left rfl
        | exact nullableSyn_addToOneOf_new rfl
  | tuple es o =>
    have ho : o = true := by simpa [nullableSyn, isOptional, isOneOfNull] using h
    subst ho
    cases b with
    | tuple os p => simp only [merger]; split <;> simp [nullableSyn, isOptional]
    | _ =>
      simp only [merger] <;>
      first
        | (simp [nullableSyn, isOptional]; done)
        | exact nullableSyn_mixed_left rfl
        | exact nullableSyn_addToOneOf_new rfl
  | oneOf vs o =>
    cases b with
    | null => simp [merger, nullableSyn, isOptional]
    | oneOf ws p =>
      simp only [merger]
      unfold nullableSyn at h ⊢
      simp only [isOptional, isOneOfNull, Bool.or_eq_true] at h ⊢
      rcases h with h | h
      · exact Or.inl (Or.inl h)
      · exact Or.inr (setContains_iff.2 (mem_setExtend.2 (Or.inl (setContains_iff.1 h))))
    | _ => simp only [merger]; exact nullableSyn_addToOneOf_old h

end ShapeVerif
