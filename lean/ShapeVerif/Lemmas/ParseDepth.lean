/-
The depth of the tree the recovering parser builds is bounded by the bracket nesting the lexer allows.

`rule_value`, `rule_object`, `rule_member`, `rule_array` of the generated parser call each other
recursively, and `parse_cst` recurses over the tree they build; there is one stack frame per level of
the tree. This file proves that the tree of **every** input has depth at most `2·256 + 4`, because

* the lexer stops at the first token that would bring the number of open brackets above 256
  (`tokenize_depth`: every prefix of the token list has at most 256 brackets open, for every input,
  diagnostics or not), and
* the parser opens a nested object/array node only after consuming an opening bracket that is still
  open, and never consumes a closing bracket except to end the innermost open node — stray closers are
  never skipped by the recovery loops (they end the loop instead), so the part of the input consumed
  inside an open node never has more closers than openers (`rules_depth`).
-/
import ShapeVerif.Lemmas.ParseFuel
import ShapeVerif.Ref.JsonText
import ShapeVerif.Lemmas.LexSound
namespace ShapeVerif

/-- bracket weight of a token kind -/
def bw (k : Tok) : Int :=
  if k == .lbrace || k == .lbrak then 1 else if k == .rbrace || k == .rbrak then -1 else 0

/-- openers minus closers -/
def excess : List Token → Int
  | [] => 0
  | t :: ts => bw t.kind + excess ts

/-- the largest excess of a prefix (the empty prefix included, so `0 ≤ H`) -/
def H : List Token → Int
  | [] => 0
  | t :: ts => max 0 (bw t.kind + H ts)

theorem H_nonneg : ∀ ts, 0 ≤ H ts
  | [] => Int.le_refl 0
  | _ :: _ => Int.le_max_left _ _

theorem excess_append : ∀ a b, excess (a ++ b) = excess a + excess b
  | [], b => by simp [excess]
  | t :: a, b => by simp [excess, excess_append a b, Int.add_assoc]

/-- what is left after consuming `c` can open at most `H - excess c` further brackets -/
theorem H_append : ∀ c ts, excess c + H ts ≤ H (c ++ ts)
  | [], ts => by simp [excess]
  | t :: c, ts => by
    have ih := H_append c ts
    simp only [excess, List.cons_append, H]
    have : bw t.kind + H (c ++ ts) ≤ max 0 (bw t.kind + H (c ++ ts)) := Int.le_max_right _ _
    omega

theorem H_of_yield {c ts ts0 : List Token} (h : c ++ ts = ts0) : H ts ≤ H ts0 - excess c := by
  have := H_append c ts
  rw [h] at this
  omega

/-- `depthFrom` (the lexer's counter never exceeds 256 on any prefix) bounds `H` -/
theorem H_of_depthFrom : ∀ (ts : List Token) (n : Int), n ≤ 256 → depthFrom n (ts.map (·.kind)) = true → n + H ts ≤ 256
  | [], n, hn, _ => by simp [H]; omega
  | t :: ts, n, hn, h => by
    simp only [List.map_cons, depthFrom, Bool.and_eq_true, decide_eq_true_eq] at h
    obtain ⟨h1, h2⟩ := h
    have ih := H_of_depthFrom ts _ h1 h2
    simp only [H]
    have hb : (if (t.kind == Tok.lbrace || t.kind == Tok.lbrak) = true then n + 1
        else if (t.kind == Tok.rbrace || t.kind == Tok.rbrak) = true then n - 1 else n) = n + bw t.kind := by
      unfold bw
      split
      · rfl
      · split <;> omega
    rw [hb] at ih h1
    have : max 0 (bw t.kind + H ts) ≤ 256 - n := by
      apply Int.max_le.mpr
      constructor <;> omega
    omega

/-! ### the lexer keeps every prefix within the bound, for every input -/

/-- for every input: the tokens the loop adds keep the running bracket count within the bound -/
theorem lexLoop_depth : ∀ (fuel : Nat) (cs : List Char) (pos : Nat) (nb nk : Int) (toks : List Token) (diags : List Diag),
    nb + nk ≤ 256 →
    ∃ new, (lexLoop fuel cs pos nb nk toks diags).tokens = toks.reverse ++ new ∧
      depthFrom (nb + nk) (new.map (·.kind)) = true := by
  intro fuel
  induction fuel with
  | zero => intro cs pos nb nk toks diags _; exact ⟨[], by simp [lexLoop], rfl⟩
  | succ fuel ih =>
    intro cs pos nb nk toks diags hle
    cases cs with
    | nil => exact ⟨[], by simp [lexLoop], rfl⟩
    | cons c cs =>
      simp only [lexLoop]
      generalize lexOne (c :: cs) = r
      obtain ⟨kind, dk, text, rest⟩ := r
      cases dk with
      | some dkind =>
        simp only
        obtain ⟨new, h1, h2⟩ := ih rest (pos + utf8Len text) nb nk (⟨.error, pos, pos + utf8Len text⟩ :: toks)
          (⟨dkind, pos, pos + utf8Len text⟩ :: diags) hle
        refine ⟨⟨.error, pos, pos + utf8Len text⟩ :: new, by rw [h1]; simp, ?_⟩
        simp only [List.map_cons, depthFrom, Bool.and_eq_true, decide_eq_true_eq]
        exact ⟨by simpa using hle, by simpa using h2⟩
      | none =>
        simp only
        have hstep := depth_step kind nb nk
        generalize (if kind == .string then (checkString pos text).reverse ++ diags else diags) = diags1
        generalize (if kind == Tok.lbrace then nb + 1 else if kind == Tok.rbrace then nb - 1 else nb) = nb' at hstep ⊢
        generalize (if kind == Tok.lbrak then nk + 1 else if kind == Tok.rbrak then nk - 1 else nk) = nk' at hstep ⊢
        split
        · exact ⟨[], by simp, rfl⟩
        · rename_i hdeep
          have hle' : nb' + nk' ≤ 256 := by omega
          obtain ⟨new, h1, h2⟩ := ih rest (pos + utf8Len text) nb' nk' (⟨kind, pos, pos + utf8Len text⟩ :: toks) diags1 hle'
          refine ⟨⟨kind, pos, pos + utf8Len text⟩ :: new, by rw [h1]; simp, ?_⟩
          simp only [List.map_cons, depthFrom, Bool.and_eq_true, decide_eq_true_eq]
          rw [hstep]
          exact ⟨hle', h2⟩

/-- **every prefix of the token list of every input has at most 256 brackets open** -/
theorem tokenize_depth (src : List Char) : depthOk ((tokenize src).tokens.map (·.kind)) = true := by
  obtain ⟨new, h1, h2⟩ := lexLoop_depth src.length src 0 0 0 [] [] (by decide)
  have : (tokenize src).tokens = new := by simpa [tokenize] using h1
  rw [this]
  simpa [depthOk] using h2

theorem tokenize_H (src : List Char) : H (tokenize src).tokens ≤ 256 := by
  have := H_of_depthFrom (tokenize src).tokens 0 (by decide) (by simpa [depthOk] using tokenize_depth src)
  omega

/-! ### depth of the tree -/

mutual
def Node.depth : Node → Nat
  | .tok _ _ _ => 0
  | .rule _ cs => 1 + depthList cs
def depthList : List Node → Nat
  | [] => 0
  | n :: ns => max n.depth (depthList ns)
end

def itemsDepth (is : List Item) : Nat := depthList (is.map (·.node))

theorem depthList_le_iff (l : List Node) (d : Nat) : depthList l ≤ d ↔ ∀ n ∈ l, n.depth ≤ d := by
  induction l with
  | nil => simp [depthList]
  | cons n ns ih => simp [depthList, Nat.max_le, ih]

theorem itemsDepth_le_iff (l : List Item) (d : Nat) : itemsDepth l ≤ d ↔ ∀ i ∈ l, i.node.depth ≤ d := by
  simp [itemsDepth, depthList_le_iff]

theorem itemsDepth_append (a b : List Item) : itemsDepth (a ++ b) = max (itemsDepth a) (itemsDepth b) := by
  apply Nat.le_antisymm
  · rw [itemsDepth_le_iff]
    intro i hi
    rcases List.mem_append.1 hi with h | h
    · exact Nat.le_trans ((itemsDepth_le_iff a _).1 (Nat.le_refl _) i h) (Nat.le_max_left _ _)
    · exact Nat.le_trans ((itemsDepth_le_iff b _).1 (Nat.le_refl _) i h) (Nat.le_max_right _ _)
  · apply Nat.max_le.2
    constructor
    · rw [itemsDepth_le_iff]; intro i hi
      exact (itemsDepth_le_iff (a ++ b) _).1 (Nat.le_refl _) i (List.mem_append.2 (.inl hi))
    · rw [itemsDepth_le_iff]; intro i hi
      exact (itemsDepth_le_iff (a ++ b) _).1 (Nat.le_refl _) i (List.mem_append.2 (.inr hi))

@[simp] theorem itemsDepth_nil : itemsDepth [] = 0 := rfl

/-- closing a rule adds one level -/
theorem itemsDepth_closeRule (r : Rule) (items : List Item) : itemsDepth (closeRule r items) ≤ 1 + itemsDepth items := by
  unfold closeRule
  rw [itemsDepth_le_iff]
  intro i hi
  simp only [List.mem_cons, List.mem_reverse] at hi
  rcases hi with rfl | hi
  · simp only [Node.depth]
    apply Nat.add_le_add_left
    rw [depthList_le_iff]
    intro n hn
    obtain ⟨j, hj, rfl⟩ := List.mem_map.1 hn
    have : j ∈ items := by
      have := List.mem_reverse.1 hj
      exact List.mem_reverse.1 (List.dropWhile_subset _ this)
    exact (itemsDepth_le_iff items _).1 (Nat.le_refl _) j this
  · have : i ∈ items := List.mem_reverse.1 (List.takeWhile_subset _ hi)
    exact Nat.le_trans ((itemsDepth_le_iff items _).1 (Nat.le_refl _) i this) (by omega)

theorem takeSkips_items : ∀ (ts : List Token), itemsDepth (takeSkips ts).1 = 0 ∧ excess (yieldItems (takeSkips ts).1) = 0
  | [] => by simp [takeSkips, excess]
  | t :: ts => by
    unfold takeSkips
    split
    · rename_i hs
      obtain ⟨h1, h2⟩ := takeSkips_items ts
      constructor
      · have : itemsDepth (⟨.tok t.kind t.start t.stop, true⟩ :: (takeSkips ts).1) =
            max 0 (itemsDepth (takeSkips ts).1) := rfl
        rw [this, h1]; rfl
      · simp only [yieldItems_cons, leaves, List.cons_append, List.nil_append, excess, h2]
        have : bw t.kind = 0 := by
          unfold isSkipTok at hs
          unfold bw
          cases hk : t.kind <;> simp [hk] at hs ⊢
        omega
    · simp [excess]

/-- what `advance` emits: the current token and skipped tokens; no nesting, excess = weight of the token -/
theorem advance_items (s : PState) (e : Bool) (hc : Coh s) (hne : s.toks ≠ []) :
    itemsDepth (s.advance e).2 = 0 ∧ excess (yieldItems (s.advance e).2) = bw s.current := by
  unfold PState.advance
  cases ht : s.toks with
  | nil => exact absurd ht hne
  | cons t ts =>
    obtain ⟨h1, h2⟩ := takeSkips_items ts
    have hk : s.current = t.kind := by rw [hc, ht]; rfl
    constructor
    · have : itemsDepth (⟨.tok t.kind t.start t.stop, false⟩ :: (takeSkips ts).1) =
          max 0 (itemsDepth (takeSkips ts).1) := rfl
      simp only [this, h1]; rfl
    · simp only [yieldItems_cons, leaves, List.cons_append, List.nil_append, excess, h2, hk]
      omega

theorem expect_items (s : PState) (k : Tok) (hc : Coh s) (hne : k ≠ .eof) :
    itemsDepth (s.expect k).2 = 0 ∧
      excess (yieldItems (s.expect k).2) = if (s.current == k) = true then bw k else 0 := by
  unfold PState.expect
  by_cases hk : (s.current == k) = true
  · rw [if_pos hk, if_pos hk]
    have := advance_items s false hc (toks_ne_of_current hc (by simpa using hk) hne)
    rw [this.2]
    exact ⟨this.1, by rw [show s.current = k by simpa using hk]⟩
  · rw [if_neg hk, if_neg hk]
    simp [excess]

theorem advanceWithError_items (s : PState) (hc : Coh s) (hne : s.current ≠ .eof) :
    itemsDepth s.advanceWithError.2 ≤ 1 ∧ excess (yieldItems s.advanceWithError.2) = bw s.current := by
  unfold PState.advanceWithError
  have hc' : Coh { s.error with cooldown := true } := coh_stable.cooldown _ (coh_stable.error s hc)
  have hcur : ({ s.error with cooldown := true } : PState).current = s.current := by
    unfold PState.error; split <;> rfl
  have hne' : ({ s.error with cooldown := true } : PState).toks ≠ [] := by
    have := toks_ne_of_current hc rfl hne
    simpa [error_toks] using this
  have h := advance_items { s.error with cooldown := true } true hc' hne'
  constructor
  · have := itemsDepth_closeRule .error (({ s.error with cooldown := true } : PState).advance true).2
    rw [h.1] at this
    exact this
  · rw [yield_closeRule, h.2, hcur]

theorem cast_max_le {a b : Nat} {c : Int} (ha : (a : Int) ≤ c) (hb : (b : Int) ≤ c) : ((max a b : Nat) : Int) ≤ c := by
  rcases Nat.le_total a b with h | h
  · rw [Nat.max_eq_right h]; exact hb
  · rw [Nat.max_eq_left h]; exact ha

theorem H_step {f : PState → PState × List Item} (hy : Yields f) (s : PState) :
    H (f s).1.toks ≤ H s.toks - excess (yieldItems (f s).2) :=
  H_of_yield (hy s)

theorem ruleBoolean_items (s : PState) (hc : Coh s) :
    itemsDepth (ruleBoolean s).2 ≤ 1 ∧ excess (yieldItems (ruleBoolean s).2) = 0 := by
  unfold ruleBoolean
  simp only []
  rw [yield_closeRule]
  split
  · rename_i hk
    have h := expect_items s .false_ hc (by decide)
    have hd := itemsDepth_closeRule .boolean (s.expect .false_).2
    rw [h.1] at hd
    rw [h.2, if_pos hk]
    exact ⟨hd, rfl⟩
  · split
    · rename_i hk
      have h := expect_items s .true_ hc (by decide)
      have hd := itemsDepth_closeRule .boolean (s.expect .true_).2
      rw [h.1] at hd
      rw [h.2, if_pos hk]
      exact ⟨hd, rfl⟩
    · have hd := itemsDepth_closeRule .boolean []
      simp at hd
      exact ⟨hd, by simp [excess]⟩

theorem ruleLiteral_items (s : PState) (hc : Coh s) :
    itemsDepth (ruleLiteral s).2 ≤ 2 ∧ excess (yieldItems (ruleLiteral s).2) = 0 := by
  unfold ruleLiteral
  simp only []
  rw [yield_closeRule]
  have tokCase : ∀ k : Tok, k ≠ .eof → bw k = 0 → (s.current == k) = true →
      itemsDepth (closeRule .literal (s.expect k).2) ≤ 2 ∧ excess (yieldItems (s.expect k).2) = 0 := by
    intro k hne hb hk
    have h := expect_items s k hc hne
    have hd := itemsDepth_closeRule .literal (s.expect k).2
    rw [h.1] at hd
    rw [h.2, if_pos hk, hb]
    exact ⟨by omega, rfl⟩
  split
  · rename_i hk; exact tokCase .string (by decide) (by decide) hk
  split
  · rename_i hk; exact tokCase .number (by decide) (by decide) hk
  split
  · have h := ruleBoolean_items s hc
    have hd := itemsDepth_closeRule .literal (ruleBoolean s).2
    exact ⟨by omega, h.2⟩
  split
  · rename_i hk; exact tokCase .null_ (by decide) (by decide) hk
  · constructor
    · have hd := itemsDepth_closeRule .literal []
      simp at hd ⊢
      omega
    · simp [excess]

/-- what a rule function emits: at least as many openers as closers, and a tree whose depth is
bounded by the bracket nesting still possible in the remaining tokens -/
def Shallow (f : PState → PState × List Item) (c : Int) (guard : PState → Prop) : Prop :=
  ∀ s, Coh s → guard s → 0 ≤ excess (yieldItems (f s).2) ∧ (itemsDepth (f s).2 : Int) ≤ 2 * H s.toks + c

theorem rules_depth (fuel : Nat) :
    Shallow (ruleValue fuel) 2 (fun _ => True) ∧ Shallow (ruleMember fuel) 3 (fun _ => True) ∧
    Shallow (objectLoop fuel) 3 (fun _ => True) ∧
    Shallow (ruleObject fuel) 2 (fun s => (s.current == .lbrace) = true) ∧
    Shallow (arrayLoop fuel) 2 (fun _ => True) ∧
    Shallow (ruleArray fuel) 2 (fun s => (s.current == .lbrak) = true) := by
  induction fuel with
  | zero =>
    refine ⟨?_, ?_, ?_, ?_, ?_, ?_⟩ <;> intro s _ _ <;>
      simp only [ruleValue, ruleMember, objectLoop, ruleObject, arrayLoop, ruleArray, yieldItems_nil, excess,
        itemsDepth_nil] <;> (have := H_nonneg s.toks; constructor <;> omega)
  | succ fuel ih =>
    obtain ⟨ihV, ihM, ihOL, ihO, ihAL, ihA⟩ := ih
    have kV := (coh_stable.rules fuel).1
    have kM := (coh_stable.rules fuel).2.1
    have yV := (rules_yield fuel).1
    have yM := (rules_yield fuel).2.1
    refine ⟨?_, ?_, ?_, ?_, ?_, ?_⟩
    · -- rule_value
      intro s hc _
      have hH := H_nonneg s.toks
      simp only [ruleValue]
      split
      · rename_i hk; exact ihO s hc hk
      split
      · rename_i hk; exact ihA s hc hk
      split
      · have := ruleLiteral_items s hc
        exact ⟨by omega, by omega⟩
      · simp only [yieldItems_nil, excess, itemsDepth_nil]
        constructor <;> omega
    · -- rule_member
      intro s hc _
      simp only [ruleMember]
      rw [yield_closeRule]
      have c1 := coh_stable.expect .string s hc
      have c2 := coh_stable.expect .colon _ c1
      have e1 := expect_items s .string hc (by decide)
      have e2 := expect_items (s.expect .string).1 .colon c1 (by decide)
      have h1 := H_step (expect_yields .string) s
      have h2 := H_step (expect_yields .colon) (s.expect .string).1
      obtain ⟨x3, d3⟩ := ihV ((s.expect .string).1.expect .colon).1 c2 trivial
      have x1 : excess (yieldItems (s.expect .string).2) = 0 := by rw [e1.2]; split <;> rfl
      have x2 : excess (yieldItems ((s.expect .string).1.expect .colon).2) = 0 := by rw [e2.2]; split <;> rfl
      have hd := itemsDepth_closeRule .member ((s.expect .string).2 ++ ((s.expect .string).1.expect .colon).2 ++
        (ruleValue fuel ((s.expect .string).1.expect .colon).1).2)
      rw [itemsDepth_append, itemsDepth_append, e1.1, e2.1] at hd
      simp only [yieldItems_append, excess_append, x1, x2]
      constructor
      · omega
      · simp only [Nat.zero_max] at hd
        omega
    · -- the loop of rule_object
      intro s hc _
      have hH := H_nonneg s.toks
      simp only [objectLoop]
      split
      · rename_i hk
        have c1 := coh_stable.expect .comma s hc
        have e1 := expect_items s .comma hc (by decide)
        have h1 := H_step (expect_yields .comma) s
        have x1 : excess (yieldItems (s.expect .comma).2) = 0 := by rw [e1.2]; split <;> rfl
        obtain ⟨x2, d2⟩ := ihM (s.expect .comma).1 c1 trivial
        have c2 := kM _ c1
        have h2 := H_step yM (s.expect .comma).1
        obtain ⟨x3, d3⟩ := ihOL (ruleMember fuel (s.expect .comma).1).1 c2 trivial
        simp only [yieldItems_append, excess_append, x1, itemsDepth_append, e1.1]
        constructor
        · omega
        · simp only [Nat.zero_max]
          have : ((max (itemsDepth (ruleMember fuel (s.expect .comma).1).2)
              (itemsDepth (objectLoop fuel (ruleMember fuel (s.expect .comma).1).1).2) : Nat) : Int) ≤ 2 * H s.toks + 3 := by
            apply cast_max_le <;> omega
          exact this
      split
      · simp only [yieldItems_nil, excess, itemsDepth_nil]
        constructor <;> omega
      · rename_i h1 h2
        have hne : s.current ≠ .eof := by intro e; simp [e] at h2
        have hb : 0 ≤ bw s.current := by
          unfold bw
          cases hk : s.current <;> simp [hk] at h2 ⊢
        have c1 := coh_stable.advanceWithError s hc
        have e1 := advanceWithError_items s hc hne
        have hh := H_step advanceWithError_yields s
        obtain ⟨x2, d2⟩ := ihOL s.advanceWithError.1 c1 trivial
        simp only [yieldItems_append, excess_append, e1.2, itemsDepth_append]
        constructor
        · omega
        · apply cast_max_le
          · have := e1.1; omega
          · rw [e1.2] at hh; omega
    · -- rule_object behind `{`
      intro s hc hk
      have hH := H_nonneg s.toks
      simp only [ruleObject]
      rw [yield_closeRule]
      have c1 := coh_stable.expect .lbrace s hc
      have e1 := expect_items s .lbrace hc (by decide)
      have h1 := H_step (expect_yields .lbrace) s
      have x1 : excess (yieldItems (s.expect .lbrace).2) = 1 := by rw [e1.2, if_pos hk]; rfl
      rw [x1] at h1
      by_cases hs : ((s.expect .lbrace).1.current == .string) = true
      · simp only [if_pos hs]
        obtain ⟨x2, d2⟩ := ihM (s.expect .lbrace).1 c1 trivial
        have c2 := kM _ c1
        have h2 := H_step yM (s.expect .lbrace).1
        obtain ⟨x3, d3⟩ := ihOL (ruleMember fuel (s.expect .lbrace).1).1 c2 trivial
        have c3 := (coh_stable.rules fuel).2.2.1 _ c2
        have e4 := expect_items (objectLoop fuel (ruleMember fuel (s.expect .lbrace).1).1).1 .rbrace c3 (by decide)
        have x4 : -1 ≤ excess (yieldItems ((objectLoop fuel (ruleMember fuel (s.expect .lbrace).1).1).1.expect .rbrace).2) := by
          rw [e4.2]; split <;> decide
        have hd := itemsDepth_closeRule .object ((s.expect .lbrace).2 ++
          ((ruleMember fuel (s.expect .lbrace).1).2 ++ (objectLoop fuel (ruleMember fuel (s.expect .lbrace).1).1).2) ++
          ((objectLoop fuel (ruleMember fuel (s.expect .lbrace).1).1).1.expect .rbrace).2)
        simp only [itemsDepth_append, e1.1, e4.1, Nat.zero_max, Nat.max_zero] at hd
        simp only [yieldItems_append, excess_append, x1]
        constructor
        · omega
        · have : ((max (itemsDepth (ruleMember fuel (s.expect .lbrace).1).2)
              (itemsDepth (objectLoop fuel (ruleMember fuel (s.expect .lbrace).1).1).2) : Nat) : Int) ≤ 2 * H s.toks + 1 := by
            apply cast_max_le <;> omega
          omega
      · simp only [if_neg hs]
        have tail : ∀ s2 : PState, Coh s2 → s2.toks = (s.expect .lbrace).1.toks →
            0 ≤ excess (yieldItems ((s.expect .lbrace).2 ++ ([] : List Item) ++ (s2.expect .rbrace).2)) ∧
            (itemsDepth (closeRule .object ((s.expect .lbrace).2 ++ ([] : List Item) ++ (s2.expect .rbrace).2)) : Int) ≤
              2 * H s.toks + 2 := by
          intro s2 hc2 _
          have e4 := expect_items s2 .rbrace hc2 (by decide)
          have x4 : -1 ≤ excess (yieldItems (s2.expect .rbrace).2) := by rw [e4.2]; split <;> decide
          have hd := itemsDepth_closeRule .object ((s.expect .lbrace).2 ++ ([] : List Item) ++ (s2.expect .rbrace).2)
          simp only [itemsDepth_append, e1.1, e4.1, itemsDepth_nil, Nat.max_self] at hd
          simp only [yieldItems_append, excess_append, x1, yieldItems_nil, excess]
          constructor <;> omega
        by_cases hr : ((s.expect .lbrace).1.current == .rbrace) = true
        · simp only [if_pos hr]
          exact tail _ c1 rfl
        · simp only [if_neg hr]
          exact tail _ (coh_stable.error _ c1) (error_toks _)
    · -- the loop of rule_array
      intro s hc _
      have hH := H_nonneg s.toks
      simp only [arrayLoop]
      split
      · rename_i hk
        have c1 := coh_stable.expect .comma s hc
        have e1 := expect_items s .comma hc (by decide)
        have h1 := H_step (expect_yields .comma) s
        have x1 : excess (yieldItems (s.expect .comma).2) = 0 := by rw [e1.2]; split <;> rfl
        obtain ⟨x2, d2⟩ := ihV (s.expect .comma).1 c1 trivial
        have c2 := kV _ c1
        have h2 := H_step yV (s.expect .comma).1
        obtain ⟨x3, d3⟩ := ihAL (ruleValue fuel (s.expect .comma).1).1 c2 trivial
        simp only [yieldItems_append, excess_append, x1, itemsDepth_append, e1.1]
        constructor
        · omega
        · simp only [Nat.zero_max]
          apply cast_max_le <;> omega
      split
      · simp only [yieldItems_nil, excess, itemsDepth_nil]
        constructor <;> omega
      · rename_i h1 h2
        have hne : s.current ≠ .eof := by intro e; simp [e] at h2
        have hb : 0 ≤ bw s.current := by
          unfold bw
          cases hk : s.current <;> simp [hk] at h2 ⊢
        have c1 := coh_stable.advanceWithError s hc
        have e1 := advanceWithError_items s hc hne
        have hh := H_step advanceWithError_yields s
        obtain ⟨x2, d2⟩ := ihAL s.advanceWithError.1 c1 trivial
        simp only [yieldItems_append, excess_append, e1.2, itemsDepth_append]
        constructor
        · omega
        · apply cast_max_le
          · have := e1.1; omega
          · rw [e1.2] at hh; omega
    · -- rule_array behind `[`
      intro s hc hk
      have hH := H_nonneg s.toks
      simp only [ruleArray]
      rw [yield_closeRule]
      have c1 := coh_stable.expect .lbrak s hc
      have e1 := expect_items s .lbrak hc (by decide)
      have h1 := H_step (expect_yields .lbrak) s
      have x1 : excess (yieldItems (s.expect .lbrak).2) = 1 := by rw [e1.2, if_pos hk]; rfl
      rw [x1] at h1
      by_cases hs : isValueStart (s.expect .lbrak).1.current = true
      · simp only [if_pos hs]
        obtain ⟨x2, d2⟩ := ihV (s.expect .lbrak).1 c1 trivial
        have c2 := kV _ c1
        have h2 := H_step yV (s.expect .lbrak).1
        obtain ⟨x3, d3⟩ := ihAL (ruleValue fuel (s.expect .lbrak).1).1 c2 trivial
        have c3 := (coh_stable.rules fuel).2.2.2.2.1 _ c2
        have e4 := expect_items (arrayLoop fuel (ruleValue fuel (s.expect .lbrak).1).1).1 .rbrak c3 (by decide)
        have x4 : -1 ≤ excess (yieldItems ((arrayLoop fuel (ruleValue fuel (s.expect .lbrak).1).1).1.expect .rbrak).2) := by
          rw [e4.2]; split <;> decide
        have hd := itemsDepth_closeRule .array ((s.expect .lbrak).2 ++
          ((ruleValue fuel (s.expect .lbrak).1).2 ++ (arrayLoop fuel (ruleValue fuel (s.expect .lbrak).1).1).2) ++
          ((arrayLoop fuel (ruleValue fuel (s.expect .lbrak).1).1).1.expect .rbrak).2)
        simp only [itemsDepth_append, e1.1, e4.1, Nat.zero_max, Nat.max_zero] at hd
        simp only [yieldItems_append, excess_append, x1]
        constructor
        · omega
        · have : ((max (itemsDepth (ruleValue fuel (s.expect .lbrak).1).2)
              (itemsDepth (arrayLoop fuel (ruleValue fuel (s.expect .lbrak).1).1).2) : Nat) : Int) ≤ 2 * H s.toks := by
            apply cast_max_le <;> omega
          omega
      · simp only [if_neg hs]
        have tail : ∀ s2 : PState, Coh s2 → s2.toks = (s.expect .lbrak).1.toks →
            0 ≤ excess (yieldItems ((s.expect .lbrak).2 ++ ([] : List Item) ++ (s2.expect .rbrak).2)) ∧
            (itemsDepth (closeRule .array ((s.expect .lbrak).2 ++ ([] : List Item) ++ (s2.expect .rbrak).2)) : Int) ≤
              2 * H s.toks + 2 := by
          intro s2 hc2 _
          have e4 := expect_items s2 .rbrak hc2 (by decide)
          have x4 : -1 ≤ excess (yieldItems (s2.expect .rbrak).2) := by rw [e4.2]; split <;> decide
          have hd := itemsDepth_closeRule .array ((s.expect .lbrak).2 ++ ([] : List Item) ++ (s2.expect .rbrak).2)
          simp only [itemsDepth_append, e1.1, e4.1, itemsDepth_nil, Nat.max_self] at hd
          simp only [yieldItems_append, excess_append, x1, yieldItems_nil, excess]
          constructor <;> omega
        by_cases hr : ((s.expect .lbrak).1.current == .rbrak) = true
        · simp only [if_pos hr]
          exact tail _ c1 rfl
        · simp only [if_neg hr]
          exact tail _ (coh_stable.error _ c1) (error_toks _)

theorem itemsDepth_tokens (ts : List Token) (f : Token → Bool) :
    itemsDepth (ts.map fun t => (⟨.tok t.kind t.start t.stop, f t⟩ : Item)) = 0 := by
  apply Nat.le_antisymm _ (Nat.zero_le _)
  rw [itemsDepth_le_iff]
  intro i hi
  obtain ⟨t, _, rfl⟩ := List.mem_map.1 hi
  simp [Node.depth]

theorem parseTail_depth (s : PState) : itemsDepth (parseTail s).2 ≤ 1 := by
  unfold parseTail
  split
  · have := itemsDepth_closeRule .error (s.error.toks.map fun t => (⟨.tok t.kind t.start t.stop, isSkipTok t.kind⟩ : Item))
    rw [itemsDepth_tokens] at this
    exact this
  · simp

/-- **the tree of every input is shallow**: at most `2·256 + 3` levels below the root -/
theorem parse_tree_depth (cs : List Char) : (parse cs).root.depth ≤ 516 := by
  unfold parse
  simp only [Node.depth]
  have hrv := (rules_depth (2 * (tokenize cs).tokens.length + 4)).1 (initState (tokenize cs) (utf8Len cs))
    (initState_coh _ _) trivial
  have hH : H (initState (tokenize cs) (utf8Len cs)).toks ≤ 256 := by
    have h1 := tokenize_H cs
    have h2 : H (takeSkips (tokenize cs).tokens).2.1 ≤ H (tokenize cs).tokens - excess (yieldItems (takeSkips (tokenize cs).tokens).1) :=
      H_of_yield (takeSkips_yield _)
    rw [(takeSkips_items _).2] at h2
    simp only [initState]
    omega
  have htl := parseTail_depth (ruleValue (2 * (tokenize cs).tokens.length + 4) (initState (tokenize cs) (utf8Len cs))).1
  have hsk := (takeSkips_items (tokenize cs).tokens).1
  have : depthList (((takeSkips (tokenize cs).tokens).1 ++
      (ruleValue (2 * (tokenize cs).tokens.length + 4) (initState (tokenize cs) (utf8Len cs))).2 ++
      (parseTail (ruleValue (2 * (tokenize cs).tokens.length + 4) (initState (tokenize cs) (utf8Len cs))).1).2).map (·.node)) =
      itemsDepth ((takeSkips (tokenize cs).tokens).1 ++
      (ruleValue (2 * (tokenize cs).tokens.length + 4) (initState (tokenize cs) (utf8Len cs))).2 ++
      (parseTail (ruleValue (2 * (tokenize cs).tokens.length + 4) (initState (tokenize cs) (utf8Len cs))).1).2) := rfl
  rw [this, itemsDepth_append, itemsDepth_append, hsk]
  have h2 := hrv.2
  omega

end ShapeVerif
