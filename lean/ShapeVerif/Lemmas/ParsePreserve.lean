/-
Any predicate on parser states that survives `error`, `advance` and setting the cool-down flag
survives every rule function (they are compositions of these three).
-/
import ShapeVerif.Lemmas.ParseYield
namespace ShapeVerif

structure Stable (P : PState → Prop) : Prop where
  error : ∀ s, P s → P s.error
  advance : ∀ s e, P s → P (s.advance e).1
  cooldown : ∀ s, P s → P { s with cooldown := true }

variable {P : PState → Prop}

theorem Stable.expect (h : Stable P) (k : Tok) (s : PState) (hs : P s) : P (s.expect k).1 := by
  unfold PState.expect
  split
  · exact h.advance s false hs
  · exact h.error s hs

theorem Stable.advanceWithError (h : Stable P) (s : PState) (hs : P s) : P s.advanceWithError.1 := by
  unfold PState.advanceWithError
  exact h.advance _ true (h.cooldown _ (h.error s hs))

theorem Stable.ruleBoolean (h : Stable P) (s : PState) (hs : P s) : P (ruleBoolean s).1 := by
  unfold ShapeVerif.ruleBoolean
  simp only
  split
  · exact h.expect _ s hs
  · split
    · exact h.expect _ s hs
    · exact h.error s hs

theorem Stable.ruleLiteral (h : Stable P) (s : PState) (hs : P s) : P (ruleLiteral s).1 := by
  unfold ShapeVerif.ruleLiteral
  simp only
  split
  · exact h.expect _ s hs
  split
  · exact h.expect _ s hs
  split
  · exact h.ruleBoolean s hs
  split
  · exact h.expect _ s hs
  · exact h.error s hs

def Keeps (P : PState → Prop) (f : PState → PState × List Item) : Prop := ∀ s, P s → P (f s).1

theorem Stable.rules (h : Stable P) (fuel : Nat) :
    Keeps P (ruleValue fuel) ∧ Keeps P (ruleMember fuel) ∧ Keeps P (objectLoop fuel) ∧
      Keeps P (ruleObject fuel) ∧ Keeps P (arrayLoop fuel) ∧ Keeps P (ruleArray fuel) := by
  induction fuel with
  | zero =>
    refine ⟨?_, ?_, ?_, ?_, ?_, ?_⟩ <;> intro s hs <;>
      simpa [ruleValue, ruleMember, objectLoop, ruleObject, arrayLoop, ruleArray] using hs
  | succ fuel ih =>
    obtain ⟨ihV, ihM, ihOL, ihO, ihAL, ihA⟩ := ih
    refine ⟨?_, ?_, ?_, ?_, ?_, ?_⟩
    · intro s hs
      simp only [ruleValue]
      split
      · exact ihO s hs
      split
      · exact ihA s hs
      split
      · exact h.ruleLiteral s hs
      · exact h.error s hs
    · intro s hs
      simp only [ruleMember]
      exact ihV _ (h.expect _ _ (h.expect _ s hs))
    · intro s hs
      simp only [objectLoop]
      split
      · exact ihOL _ (ihM _ (h.expect _ s hs))
      split
      · exact hs
      · exact ihOL _ (h.advanceWithError s hs)
    · intro s hs
      simp only [ruleObject]
      have h1 := h.expect .lbrace s hs
      split
      · exact h.expect _ _ (ihOL _ (ihM _ h1))
      split
      · exact h.expect _ _ h1
      · exact h.expect _ _ (h.error _ h1)
    · intro s hs
      simp only [arrayLoop]
      split
      · exact ihAL _ (ihV _ (h.expect _ s hs))
      split
      · exact hs
      · exact ihAL _ (h.advanceWithError s hs)
    · intro s hs
      simp only [ruleArray]
      have h1 := h.expect .lbrak s hs
      split
      · exact h.expect _ _ (ihAL _ (ihV _ h1))
      split
      · exact h.expect _ _ h1
      · exact h.expect _ _ (h.error _ h1)

theorem Stable.parseTail (h : Stable P) (s : PState) (hs : P s) : P (parseTail s).1 := by
  unfold ShapeVerif.parseTail
  split
  · exact h.error s hs
  · exact hs

end ShapeVerif
