/-
How a subset relation survives when the right-hand side is wrapped into / widened inside a `OneOf`,
made optional, or merged.
-/
import ShapeVerif.Lemmas.SubsetInv
import ShapeVerif.Props.C10
namespace ShapeVerif
open Shape Std

theorem null_sub_oneOf {ws : List Shape} {o : Bool} (h : Shape.null ∈ ws) :
    isSubset .null (.oneOf ws o) = true := by
  simp [isSubset, isOneOfNull, setContains_iff.2 h]

theorem any_bool {ws : List Shape} {q : Bool} (h : Shape.bool q ∈ ws) : (ws.any fun v => v.isBoolean) = true :=
  List.any_eq_true.2 ⟨_, h, rfl⟩
theorem any_number {ws : List Shape} {q : Bool} (h : Shape.number q ∈ ws) : (ws.any fun v => v.isNumber) = true :=
  List.any_eq_true.2 ⟨_, h, rfl⟩
theorem any_string {ws : List Shape} {q : Bool} (h : Shape.string q ∈ ws) : (ws.any fun v => v.isString) = true :=
  List.any_eq_true.2 ⟨_, h, rfl⟩

/-- **into a `OneOf`.** If `s ⊑ x` for a non-`OneOf` `x`, and `x` (or its non-optional form) is a
variant of `ws`, with `Null` a variant whenever `x` is optional, then `s ⊑ OneOf ws`. -/
theorem sub_into_oneOf {s x x' : Shape} {ws : List Shape} {o' : Bool}
    (hx : x.isOneOf = false) (hsx : isSubset s x = true) (hmem : x' ∈ ws)
    (hx' : x' = x ∨ x' = x.asNonOptional) (hnull : x.isOptional = true → Shape.null ∈ ws) :
    isSubset s (.oneOf ws o') = true := by
  cases x with
  | oneOf vs o => simp [Shape.isOneOf] at hx
  | null =>
    have := sub_null_inv hsx; subst this
    have : x' = .null := by rcases hx' with h | h <;> simpa [asNonOptional, withOptional] using h
    subst this
    exact null_sub_oneOf hmem
  | bool p =>
    rcases sub_bool_inv hsx with ⟨ps, rfl, hp⟩ | ⟨rfl, hp⟩
    · cases ps
      · rcases hx' with rfl | rfl
        · cases p
          · simp [isSubset, isBoolean, isOneOfBool]
            exact Or.inl ⟨_, hmem, by simp⟩
          · simp only [isSubset, isBoolean, isOneOfOptBool, Bool.false_or, Bool.or_eq_true, Bool.and_eq_true]
            exact Or.inr ⟨any_bool hmem, setContains_iff.2 (hnull rfl)⟩
        · simp [isSubset, isBoolean, isOneOfBool]
          exact Or.inl ⟨_, hmem, by simp [asNonOptional, withOptional]⟩
      · have hp' := hp rfl; subst hp'
        have hb : ∃ q, x' = .bool q := by
          rcases hx' with rfl | rfl
          · exact ⟨_, rfl⟩
          · exact ⟨false, rfl⟩
        obtain ⟨q, rfl⟩ := hb
        simp only [isSubset, isBoolean, isOneOfOptBool, Bool.false_and, Bool.false_or, Bool.and_eq_true]
        exact ⟨any_bool hmem, setContains_iff.2 (hnull rfl)⟩
    · subst hp; exact null_sub_oneOf (hnull rfl)
  | number p =>
    rcases sub_number_inv hsx with ⟨ps, rfl, hp⟩ | ⟨rfl, hp⟩
    · cases ps
      · rcases hx' with rfl | rfl
        · cases p
          · simp [isSubset, isNumber, isOneOfNumber]
            exact Or.inl ⟨_, hmem, by simp⟩
          · simp only [isSubset, isNumber, isOneOfOptNumber, Bool.false_or, Bool.or_eq_true, Bool.and_eq_true]
            exact Or.inr ⟨any_number hmem, setContains_iff.2 (hnull rfl)⟩
        · simp [isSubset, isNumber, isOneOfNumber]
          exact Or.inl ⟨_, hmem, by simp [asNonOptional, withOptional]⟩
      · have hp' := hp rfl; subst hp'
        have hb : ∃ q, x' = .number q := by
          rcases hx' with rfl | rfl
          · exact ⟨_, rfl⟩
          · exact ⟨false, rfl⟩
        obtain ⟨q, rfl⟩ := hb
        simp only [isSubset, isNumber, isOneOfOptNumber, Bool.false_and, Bool.false_or, Bool.and_eq_true]
        exact ⟨any_number hmem, setContains_iff.2 (hnull rfl)⟩
    · subst hp; exact null_sub_oneOf (hnull rfl)
  | string p =>
    rcases sub_string_inv hsx with ⟨ps, rfl, hp⟩ | ⟨rfl, hp⟩
    · cases ps
      · rcases hx' with rfl | rfl
        · cases p
          · simp [isSubset, isString, isOneOfString]
            exact Or.inl ⟨_, hmem, by simp⟩
          · simp only [isSubset, isString, isOneOfOptString, Bool.false_or, Bool.or_eq_true, Bool.and_eq_true]
            exact Or.inr ⟨any_string hmem, setContains_iff.2 (hnull rfl)⟩
        · simp [isSubset, isString, isOneOfString]
          exact Or.inl ⟨_, hmem, by simp [asNonOptional, withOptional]⟩
      · have hp' := hp rfl; subst hp'
        have hb : ∃ q, x' = .string q := by
          rcases hx' with rfl | rfl
          · exact ⟨_, rfl⟩
          · exact ⟨false, rfl⟩
        obtain ⟨q, rfl⟩ := hb
        simp only [isSubset, isString, isOneOfOptString, Bool.false_and, Bool.false_or, Bool.and_eq_true]
        exact ⟨any_string hmem, setContains_iff.2 (hnull rfl)⟩
    · subst hp; exact null_sub_oneOf (hnull rfl)
  | array t p =>
    have hb : ∃ q, x' = .array t q := by
      rcases hx' with rfl | rfl
      · exact ⟨_, rfl⟩
      · exact ⟨false, rfl⟩
    obtain ⟨q, rfl⟩ := hb
    rcases sub_array_inv hsx with ⟨ts, ps, rfl, hts, hp⟩ | ⟨es, ps, rfl, hes, hp⟩ | ⟨rfl, hp⟩
    · have hin : anySuperset (.array ts false) ws = true :=
        anySuperset_of_mem hmem (sub_array_array hts (by simp))
      cases ps
      · simpa [isSubset] using hin
      · have hp' := hp rfl; subst hp'
        simp only [isSubset]
        obtain ⟨v, hv, hsv⟩ := anySuperset_iff.1 hin
        exact anyNullOkSuperset_iff.2 ⟨v, hv, by simp [setContains_iff.2 (hnull rfl)], hsv⟩
    · have hin : anySuperset (.tuple es false) ws = true :=
        anySuperset_of_mem hmem (sub_tuple_array hes (by simp))
      cases ps
      · simpa [isSubset] using hin
      · have hp' := hp rfl; subst hp'
        simp only [isSubset]
        obtain ⟨v, hv, hsv⟩ := anySuperset_iff.1 hin
        exact anyNullOkSuperset_iff.2 ⟨v, hv, by simp [setContains_iff.2 (hnull rfl)], hsv⟩
    · subst hp; exact null_sub_oneOf (hnull rfl)
  | tuple os p =>
    have hb : ∃ q, x' = .tuple os q := by
      rcases hx' with rfl | rfl
      · exact ⟨_, rfl⟩
      · exact ⟨false, rfl⟩
    obtain ⟨q, rfl⟩ := hb
    rcases sub_tuple_inv hsx with ⟨es, ps, rfl, hes, hl, hp⟩ | ⟨rfl, hp⟩
    · have hin : anySuperset (.tuple es false) ws = true :=
        anySuperset_of_mem hmem (sub_tuple_tuple hes hl (by simp))
      cases ps
      · simpa [isSubset] using hin
      · have hp' := hp rfl; subst hp'
        simp only [isSubset]
        obtain ⟨v, hv, hsv⟩ := anySuperset_iff.1 hin
        exact anyNullOkSuperset_iff.2 ⟨v, hv, by simp [setContains_iff.2 (hnull rfl)], hsv⟩
    · subst hp; exact null_sub_oneOf (hnull rfl)
  | object oc p =>
    have hb : ∃ q, x' = .object oc q := by
      rcases hx' with rfl | rfl
      · exact ⟨_, rfl⟩
      · exact ⟨false, rfl⟩
    obtain ⟨q, rfl⟩ := hb
    rcases sub_object_inv hsx with ⟨c, ps, rfl, hc, hp⟩ | ⟨rfl, hp⟩
    · cases ps
      · have : anyObjectSuperset (.object c false) ws = true :=
          anyObjectSuperset_iff.2 ⟨_, hmem, rfl, sub_object_object hc (by simp)⟩
        simpa [isSubset] using this
      · have hp' := hp rfl; subst hp'
        simp only [isSubset]
        exact anyNullOkSuperset_iff.2 ⟨_, hmem, by simp [setContains_iff.2 (hnull rfl)],
          sub_object_object hc (by simp)⟩
    · subst hp; exact null_sub_oneOf (hnull rfl)

end ShapeVerif

namespace ShapeVerif
open Shape Std

theorem anySuperset_mono {s : Shape} {vs ws : List Shape} (h : anySuperset s vs = true)
    (hsub : ∀ v ∈ vs, v ∈ ws) : anySuperset s ws = true := by
  obtain ⟨v, hv, hs⟩ := anySuperset_iff.1 h
  exact anySuperset_iff.2 ⟨v, hsub v hv, hs⟩

theorem anyObjectSuperset_mono {s : Shape} {vs ws : List Shape} (h : anyObjectSuperset s vs = true)
    (hsub : ∀ v ∈ vs, v ∈ ws) : anyObjectSuperset s ws = true := by
  obtain ⟨v, hv, ho, hs⟩ := anyObjectSuperset_iff.1 h
  exact anyObjectSuperset_iff.2 ⟨v, hsub v hv, ho, hs⟩

theorem setContains_mono {a : Shape} {vs ws : List Shape} (h : setContains a vs = true)
    (hsub : ∀ v ∈ vs, v ∈ ws) : setContains a ws = true :=
  setContains_iff.2 (hsub a (setContains_iff.1 h))

theorem any_mono {p : Shape → Bool} {vs ws : List Shape} (h : vs.any p = true)
    (hsub : ∀ v ∈ vs, v ∈ ws) : ws.any p = true := by
  obtain ⟨v, hv, hp⟩ := List.any_eq_true.1 h
  exact List.any_eq_true.2 ⟨v, hsub v hv, hp⟩

/-- **monotonicity in the variant set**: adding variants (and trading the optional flag for a `Null`
variant) keeps every non-`OneOf` subset -/
theorem sub_oneOf_mono {s : Shape} {vs ws : List Shape} {o o' : Bool}
    (h : isSubset s (.oneOf vs o) = true) (hsub : ∀ v ∈ vs, v ∈ ws)
    (hflag : o = true → o' = true ∨ Shape.null ∈ ws) (hs : s.isOneOf = false) :
    isSubset s (.oneOf ws o') = true := by
  have hnull : (o || setContains .null vs) = true → (o' || setContains .null ws) = true := by
    intro hh
    simp only [Bool.or_eq_true] at hh ⊢
    rcases hh with hh | hh
    · rcases hflag hh with h1 | h1
      · exact Or.inl h1
      · exact Or.inr (setContains_iff.2 h1)
    · exact Or.inr (setContains_mono hh hsub)
  cases s with
  | oneOf c oo => simp [Shape.isOneOf] at hs
  | null =>
    simp only [isSubset, isOptional, isNull, isOneOfNull, Bool.or_false] at h ⊢
    exact hnull h
  | bool ps =>
    cases ps <;> simp only [isSubset, isBoolean, isOptional, isOneOfBool, isOneOfOptBool, Bool.false_or,
      Bool.false_and, Bool.or_eq_true, Bool.and_eq_true] at h ⊢
    · rcases h with h | h
      · exact Or.inl (any_mono h hsub)
      · exact Or.inr ⟨any_mono h.1 hsub, setContains_mono h.2 hsub⟩
    · exact ⟨any_mono h.1 hsub, setContains_mono h.2 hsub⟩
  | number ps =>
    cases ps <;> simp only [isSubset, isNumber, isOptional, isOneOfNumber, isOneOfOptNumber, Bool.false_or,
      Bool.false_and, Bool.or_eq_true, Bool.and_eq_true] at h ⊢
    · rcases h with h | h
      · exact Or.inl (any_mono h hsub)
      · exact Or.inr ⟨any_mono h.1 hsub, setContains_mono h.2 hsub⟩
    · exact ⟨any_mono h.1 hsub, setContains_mono h.2 hsub⟩
  | string ps =>
    cases ps <;> simp only [isSubset, isString, isOptional, isOneOfString, isOneOfOptString, Bool.false_or,
      Bool.false_and, Bool.or_eq_true, Bool.and_eq_true] at h ⊢
    · rcases h with h | h
      · exact Or.inl (any_mono h hsub)
      · exact Or.inr ⟨any_mono h.1 hsub, setContains_mono h.2 hsub⟩
    · exact ⟨any_mono h.1 hsub, setContains_mono h.2 hsub⟩
  | array t ps =>
    cases ps
    · simp only [isSubset] at h ⊢; exact anySuperset_mono h hsub
    · simp only [isSubset] at h ⊢
      obtain ⟨v, hv, hn, hsv⟩ := anyNullOkSuperset_iff.1 h
      refine anyNullOkSuperset_iff.2 ⟨v, hsub v hv, ?_, hsv⟩
      simp only [Bool.or_eq_true] at hn ⊢
      rcases hn with hn | hn
      · have := hnull (by simpa using hn)
        simp only [Bool.or_eq_true] at this
        exact Or.inl this
      · exact Or.inr hn
  | tuple es ps =>
    cases ps
    · simp only [isSubset] at h ⊢; exact anySuperset_mono h hsub
    · simp only [isSubset] at h ⊢
      obtain ⟨v, hv, hn, hsv⟩ := anyNullOkSuperset_iff.1 h
      refine anyNullOkSuperset_iff.2 ⟨v, hsub v hv, ?_, hsv⟩
      simp only [Bool.or_eq_true] at hn ⊢
      rcases hn with hn | hn
      · have := hnull (by simpa using hn)
        simp only [Bool.or_eq_true] at this
        exact Or.inl this
      · exact Or.inr hn
  | object c ps =>
    cases ps
    · simp only [isSubset] at h ⊢; exact anyObjectSuperset_mono h hsub
    · simp only [isSubset] at h ⊢
      obtain ⟨v, hv, hn, hsv⟩ := anyNullOkSuperset_iff.1 h
      refine anyNullOkSuperset_iff.2 ⟨v, hsub v hv, ?_, hsv⟩
      simp only [Bool.or_eq_true] at hn ⊢
      rcases hn with hn | hn
      · have := hnull (by simpa using hn)
        simp only [Bool.or_eq_true] at this
        exact Or.inl this
      · exact Or.inr hn

/-- **monotonicity in the optional flag** -/
theorem sub_asOptional_right {s a : Shape} (h : isSubset s a = true) (hs : s.isOneOf = false) :
    isSubset s a.asOptional = true := by
  cases a with
  | null => exact h
  | bool p =>
    rcases sub_bool_inv h with ⟨ps, rfl, _⟩ | ⟨rfl, _⟩
    · cases ps <;> simp [asOptional, withOptional, isSubset, isBoolean, isOptional]
    · simp [asOptional, withOptional, isSubset, isOptional]
  | number p =>
    rcases sub_number_inv h with ⟨ps, rfl, _⟩ | ⟨rfl, _⟩
    · cases ps <;> simp [asOptional, withOptional, isSubset, isNumber, isOptional]
    · simp [asOptional, withOptional, isSubset, isOptional]
  | string p =>
    rcases sub_string_inv h with ⟨ps, rfl, _⟩ | ⟨rfl, _⟩
    · cases ps <;> simp [asOptional, withOptional, isSubset, isString, isOptional]
    · simp [asOptional, withOptional, isSubset, isOptional]
  | array t p =>
    rcases sub_array_inv h with ⟨ts, ps, rfl, hts, _⟩ | ⟨es, ps, rfl, hes, _⟩ | ⟨rfl, _⟩
    · exact sub_array_array hts (fun _ => rfl)
    · exact sub_tuple_array hes (fun _ => rfl)
    · simp [asOptional, withOptional, isSubset, isOptional]
  | tuple os p =>
    rcases sub_tuple_inv h with ⟨es, ps, rfl, hes, hl, _⟩ | ⟨rfl, _⟩
    · exact sub_tuple_tuple hes hl (fun _ => rfl)
    · simp [asOptional, withOptional, isSubset, isOptional]
  | object oc p =>
    rcases sub_object_inv h with ⟨c, ps, rfl, hc, _⟩ | ⟨rfl, _⟩
    · exact sub_object_object hc (fun _ => rfl)
    · simp [asOptional, withOptional, isSubset, isOptional]
  | oneOf vs o =>
    exact sub_oneOf_mono h (fun v hv => hv) (fun _ => Or.inl rfl) hs

end ShapeVerif
