/-
The parser model recurses on a fuel argument (`Model/Parser.lean`): at fuel 0 every rule function
returns `(s, [])`. A theorem about that model says something about the real parser — whose
`rule_*` functions recurse and loop without any counter — only if the cut-off is never reached.
This file proves that, for **every** token list (not only grammatical ones):

* `rule*O` are twins of the rule functions that return `none` when the fuel runs out and are
  otherwise identical (`twin_agrees`: whenever a twin answers, it answers what the model answers);
* `twin_total`: in every coherent parser state, `2·|remaining tokens| + 1` units of fuel are enough for
  `rule_value` — every recursive call and every iteration of the two recovery loops consumes a token
  first (`advance`, `advance_with_error`), or is guarded by a look-ahead that makes the callee consume
  one;
* `parse_never_exhausts_fuel`: `Parser::parse` as modelled (fuel `2·|tokens| + 4`) never reaches
  the cut-off, so the model's result is the result of the unbounded recursion, and the recursion
  depth + loop iterations of the real parser are bounded by `2·|tokens| + 4`.
-/
import ShapeVerif.Lemmas.ParsePreserve
namespace ShapeVerif

mutual
def ruleValueO : Nat → PState → Option (PState × List Item)
  | 0, _ => none
  | fuel + 1, s =>
    if s.current == .lbrace then ruleObjectO fuel s
    else if s.current == .lbrak then ruleArrayO fuel s
    else if isLiteralStart s.current then some (ruleLiteral s)
    else some (s.error, [])
def ruleMemberO : Nat → PState → Option (PState × List Item)
  | 0, _ => none
  | fuel + 1, s =>
    let r1 := s.expect .string
    let r2 := r1.1.expect .colon
    match ruleValueO fuel r2.1 with
    | none => none
    | some r3 => some (r3.1, closeRule .member (r1.2 ++ r2.2 ++ r3.2))
def objectLoopO : Nat → PState → Option (PState × List Item)
  | 0, _ => none
  | fuel + 1, s =>
    if s.current == .comma then
      let r1 := s.expect .comma
      match ruleMemberO fuel r1.1 with
      | none => none
      | some r2 =>
        match objectLoopO fuel r2.1 with
        | none => none
        | some r3 => some (r3.1, r1.2 ++ r2.2 ++ r3.2)
    else if s.current == .rbrace || s.current == .eof || s.current == .rbrak then some (s, [])
    else
      let r1 := s.advanceWithError
      match objectLoopO fuel r1.1 with
      | none => none
      | some r2 => some (r2.1, r1.2 ++ r2.2)
def ruleObjectO : Nat → PState → Option (PState × List Item)
  | 0, _ => none
  | fuel + 1, s =>
    let r1 := s.expect .lbrace
    let r2 : Option (PState × List Item) :=
      if r1.1.current == .string then
        match ruleMemberO fuel r1.1 with
        | none => none
        | some m =>
          match objectLoopO fuel m.1 with
          | none => none
          | some l => some (l.1, m.2 ++ l.2)
      else if r1.1.current == .rbrace then some (r1.1, [])
      else some (r1.1.error, [])
    match r2 with
    | none => none
    | some r2 =>
      let r3 := r2.1.expect .rbrace
      some (r3.1, closeRule .object (r1.2 ++ r2.2 ++ r3.2))
def arrayLoopO : Nat → PState → Option (PState × List Item)
  | 0, _ => none
  | fuel + 1, s =>
    if s.current == .comma then
      let r1 := s.expect .comma
      match ruleValueO fuel r1.1 with
      | none => none
      | some r2 =>
        match arrayLoopO fuel r2.1 with
        | none => none
        | some r3 => some (r3.1, r1.2 ++ r2.2 ++ r3.2)
    else if s.current == .rbrak || s.current == .eof || s.current == .rbrace then some (s, [])
    else
      let r1 := s.advanceWithError
      match arrayLoopO fuel r1.1 with
      | none => none
      | some r2 => some (r2.1, r1.2 ++ r2.2)
def ruleArrayO : Nat → PState → Option (PState × List Item)
  | 0, _ => none
  | fuel + 1, s =>
    let r1 := s.expect .lbrak
    let r2 : Option (PState × List Item) :=
      if isValueStart r1.1.current then
        match ruleValueO fuel r1.1 with
        | none => none
        | some v =>
          match arrayLoopO fuel v.1 with
          | none => none
          | some l => some (l.1, v.2 ++ l.2)
      else if r1.1.current == .rbrak then some (r1.1, [])
      else some (r1.1.error, [])
    match r2 with
    | none => none
    | some r2 =>
      let r3 := r2.1.expect .rbrak
      some (r3.1, closeRule .array (r1.2 ++ r2.2 ++ r3.2))
end

/-- a twin either runs out of fuel or answers exactly what the model function answers -/
def Agrees (fO : PState → Option (PState × List Item)) (f : PState → PState × List Item) : Prop :=
  ∀ s, fO s = none ∨ fO s = some (f s)

theorem twin_agrees (fuel : Nat) :
    Agrees (ruleValueO fuel) (ruleValue fuel) ∧ Agrees (ruleMemberO fuel) (ruleMember fuel) ∧
    Agrees (objectLoopO fuel) (objectLoop fuel) ∧ Agrees (ruleObjectO fuel) (ruleObject fuel) ∧
    Agrees (arrayLoopO fuel) (arrayLoop fuel) ∧ Agrees (ruleArrayO fuel) (ruleArray fuel) := by
  induction fuel with
  | zero =>
    refine ⟨?_, ?_, ?_, ?_, ?_, ?_⟩ <;> intro s <;> left <;>
      simp [ruleValueO, ruleMemberO, objectLoopO, ruleObjectO, arrayLoopO, ruleArrayO]
  | succ fuel ih =>
    obtain ⟨ihV, ihM, ihOL, ihO, ihAL, ihA⟩ := ih
    refine ⟨?_, ?_, ?_, ?_, ?_, ?_⟩
    · intro s
      simp only [ruleValueO, ruleValue]
      split
      · exact ihO s
      split
      · exact ihA s
      split <;> right <;> rfl
    · intro s
      simp only [ruleMemberO, ruleMember]
      rcases ihV ((s.expect .string).1.expect .colon).1 with h | h <;> rw [h]
      · left; rfl
      · right; rfl
    · intro s
      simp only [objectLoopO, objectLoop]
      split
      · rcases ihM (s.expect .comma).1 with h | h <;> rw [h]
        · left; rfl
        · simp only []
          rcases ihOL (ruleMember fuel (s.expect .comma).1).1 with h2 | h2 <;> rw [h2]
          · left; rfl
          · right; rfl
      split
      · right; rfl
      · rcases ihOL s.advanceWithError.1 with h | h <;> rw [h]
        · left; rfl
        · right; rfl
    · intro s
      simp only [ruleObjectO, ruleObject]
      by_cases hs : ((s.expect .lbrace).1.current == .string) = true
      · simp only [if_pos hs]
        rcases ihM (s.expect .lbrace).1 with h | h <;> rw [h]
        · left; rfl
        · simp only []
          rcases ihOL (ruleMember fuel (s.expect .lbrace).1).1 with h2 | h2 <;> rw [h2]
          · left; rfl
          · right; rfl
      · simp only [if_neg hs]
        by_cases hr : ((s.expect .lbrace).1.current == .rbrace) = true
        · simp only [if_pos hr] <;> first | trivial | (right; rfl) | (right; trivial)
        · simp only [if_neg hr] <;> first | trivial | (right; rfl) | (right; trivial)
    · intro s
      simp only [arrayLoopO, arrayLoop]
      split
      · rcases ihV (s.expect .comma).1 with h | h <;> rw [h]
        · left; rfl
        · simp only []
          rcases ihAL (ruleValue fuel (s.expect .comma).1).1 with h2 | h2 <;> rw [h2]
          · left; rfl
          · right; rfl
      split
      · right; rfl
      · rcases ihAL s.advanceWithError.1 with h | h <;> rw [h]
        · left; rfl
        · right; rfl
    · intro s
      simp only [ruleArrayO, ruleArray]
      by_cases hs : isValueStart (s.expect .lbrak).1.current = true
      · simp only [if_pos hs]
        rcases ihV (s.expect .lbrak).1 with h | h <;> rw [h]
        · left; rfl
        · simp only []
          rcases ihAL (ruleValue fuel (s.expect .lbrak).1).1 with h2 | h2 <;> rw [h2]
          · left; rfl
          · right; rfl
      · simp only [if_neg hs]
        by_cases hr : ((s.expect .lbrak).1.current == .rbrak) = true
        · simp only [if_pos hr] <;> first | trivial | (right; rfl) | (right; trivial)
        · simp only [if_neg hr] <;> first | trivial | (right; rfl) | (right; trivial)

/-- the look-ahead is the kind of the first remaining token -/
def Coh (s : PState) : Prop := s.current = headKind s.toks

theorem coh_stable : Stable Coh where
  error := by
    intro s h
    unfold PState.error
    split <;> exact h
  advance := by
    intro s e h
    unfold PState.advance
    cases ht : s.toks with
    | nil => simpa [Coh, ht] using h
    | cons t ts => simp [Coh]
  cooldown := by intro s h; exact h

def L (s : PState) : Nat := s.toks.length

theorem yields_len {f : PState → PState × List Item} (h : Yields f) (s : PState) : L (f s).1 ≤ L s := by
  have := congrArg List.length (h s)
  simp [L] at this ⊢
  omega

theorem takeSkips_len (ts : List Token) : (takeSkips ts).2.1.length ≤ ts.length := by
  have := congrArg List.length (takeSkips_yield ts)
  simp at this
  omega

/-- `advance` on a non-empty token list removes at least one token -/
theorem advance_consumes (s : PState) (e : Bool) (hne : s.toks ≠ []) : L (s.advance e).1 + 1 ≤ L s := by
  unfold PState.advance L
  cases ht : s.toks with
  | nil => exact absurd ht hne
  | cons t ts =>
    simp only [List.length_cons]
    have := takeSkips_len ts
    omega

theorem toks_ne_of_current {s : PState} (h : Coh s) {k : Tok} (hk : s.current = k) (hne : k ≠ .eof) : s.toks ≠ [] := by
  intro e
  rw [Coh, e] at h
  simp [headKind] at h
  exact hne (hk ▸ h)

/-- a successful `expect` removes at least one token -/
theorem expect_consumes (s : PState) (h : Coh s) (k : Tok) (hk : (s.current == k) = true) (hne : k ≠ .eof) :
    L (s.expect k).1 + 1 ≤ L s := by
  unfold PState.expect
  rw [if_pos hk]
  exact advance_consumes s false (toks_ne_of_current h (by simpa using hk) hne)

theorem advanceWithError_consumes (s : PState) (h : Coh s) (hne : s.current ≠ .eof) :
    L s.advanceWithError.1 + 1 ≤ L s := by
  unfold PState.advanceWithError
  have hne' : s.toks ≠ [] := toks_ne_of_current h rfl hne
  have h1 : ({ s.error with cooldown := true } : PState).toks ≠ [] := by simpa [error_toks] using hne'
  have := advance_consumes { s.error with cooldown := true } true h1
  simpa [L, error_toks] using this

theorem expect_len (s : PState) (k : Tok) : L (s.expect k).1 ≤ L s := yields_len (expect_yields k) s

theorem twin_total (fuel : Nat) :
    (∀ s, Coh s → 2 * L s + 1 ≤ fuel → (ruleValueO fuel s).isSome) ∧
    (∀ s, Coh s → 2 * L s + 2 ≤ fuel → (ruleMemberO fuel s).isSome) ∧
    (∀ s, Coh s → (s.current == .string) = true → 2 * L s ≤ fuel → (ruleMemberO fuel s).isSome) ∧
    (∀ s, Coh s → 2 * L s + 1 ≤ fuel → (objectLoopO fuel s).isSome) ∧
    (∀ s, Coh s → (s.current == .lbrace) = true → 2 * L s ≤ fuel → (ruleObjectO fuel s).isSome) ∧
    (∀ s, Coh s → 2 * L s + 1 ≤ fuel → (arrayLoopO fuel s).isSome) ∧
    (∀ s, Coh s → (s.current == .lbrak) = true → 2 * L s ≤ fuel → (ruleArrayO fuel s).isSome) := by
  induction fuel with
  | zero =>
    refine ⟨?_, ?_, ?_, ?_, ?_, ?_, ?_⟩
    · intro s _ h; omega
    · intro s _ h; omega
    · intro s hc hk h
      have := toks_ne_of_current hc (by simpa using hk) (by decide)
      have : 0 < L s := List.length_pos_iff.mpr this
      omega
    · intro s _ h; omega
    · intro s hc hk h
      have := toks_ne_of_current hc (by simpa using hk) (by decide)
      have : 0 < L s := List.length_pos_iff.mpr this
      omega
    · intro s _ h; omega
    · intro s hc hk h
      have := toks_ne_of_current hc (by simpa using hk) (by decide)
      have : 0 < L s := List.length_pos_iff.mpr this
      omega
  | succ fuel ih =>
    obtain ⟨ihV, ihM, ihMs, ihOL, ihO, ihAL, ihA⟩ := ih
    obtain ⟨agV, agM, agOL, _, agAL, _⟩ := twin_agrees fuel
    have kV := (coh_stable.rules fuel).1
    have kM := (coh_stable.rules fuel).2.1
    have yV := (rules_yield fuel).1
    have yM := (rules_yield fuel).2.1
    -- a twin that answers, answers the model's result
    have someV : ∀ s, (ruleValueO fuel s).isSome → ruleValueO fuel s = some (ruleValue fuel s) := by
      intro s h; rcases agV s with e | e
      · rw [e] at h; cases h
      · exact e
    have someM : ∀ s, (ruleMemberO fuel s).isSome → ruleMemberO fuel s = some (ruleMember fuel s) := by
      intro s h; rcases agM s with e | e
      · rw [e] at h; cases h
      · exact e
    have someOL : ∀ s, (objectLoopO fuel s).isSome → objectLoopO fuel s = some (objectLoop fuel s) := by
      intro s h; rcases agOL s with e | e
      · rw [e] at h; cases h
      · exact e
    have someAL : ∀ s, (arrayLoopO fuel s).isSome → arrayLoopO fuel s = some (arrayLoop fuel s) := by
      intro s h; rcases agAL s with e | e
      · rw [e] at h; cases h
      · exact e
    refine ⟨?_, ?_, ?_, ?_, ?_, ?_, ?_⟩
    · -- rule_value
      intro s hc h
      simp only [ruleValueO]
      split
      · rename_i hk; exact ihO s hc hk (by omega)
      split
      · rename_i hk; exact ihA s hc hk (by omega)
      split <;> rfl
    · -- rule_member, no look-ahead known
      intro s hc h
      simp only [ruleMemberO]
      have c1 := coh_stable.expect .string s hc
      have c2 := coh_stable.expect .colon _ c1
      have l1 := expect_len s .string
      have l2 := expect_len (s.expect .string).1 .colon
      rw [someV _ (ihV _ c2 (by omega))]
      rfl
    · -- rule_member behind the look-ahead `String`
      intro s hc hk h
      simp only [ruleMemberO]
      have c1 := coh_stable.expect .string s hc
      have c2 := coh_stable.expect .colon _ c1
      have l1 := expect_consumes s hc .string hk (by decide)
      have l2 := expect_len (s.expect .string).1 .colon
      rw [someV _ (ihV _ c2 (by omega))]
      rfl
    · -- the loop of rule_object
      intro s hc h
      simp only [objectLoopO]
      split
      · rename_i hk
        have c1 := coh_stable.expect .comma s hc
        have l1 := expect_consumes s hc .comma hk (by decide)
        rw [someM _ (ihM _ c1 (by omega))]
        simp only []
        have c2 := kM _ c1
        have l2 := yields_len yM (s.expect .comma).1
        rw [someOL _ (ihOL _ c2 (by omega))]
        rfl
      split
      · rfl
      · rename_i h1 h2
        have hne : s.current ≠ .eof := by
          intro e; simp [e] at h2
        have c1 := coh_stable.advanceWithError s hc
        have l1 := advanceWithError_consumes s hc hne
        rw [someOL _ (ihOL _ c1 (by omega))]
        rfl
    · -- rule_object behind the look-ahead `{`
      intro s hc hk h
      simp only [ruleObjectO]
      have c1 := coh_stable.expect .lbrace s hc
      have l1 := expect_consumes s hc .lbrace hk (by decide)
      by_cases hs : ((s.expect .lbrace).1.current == .string) = true
      · simp only [if_pos hs]
        rw [someM _ (ihMs _ c1 hs (by omega))]
        simp only []
        have c2 := kM _ c1
        have l2 := yields_len yM (s.expect .lbrace).1
        rw [someOL _ (ihOL _ c2 (by omega))]
        rfl
      · simp only [if_neg hs]
        by_cases hr : ((s.expect .lbrace).1.current == .rbrace) = true
        · simp only [if_pos hr] <;> first | trivial | rfl
        · simp only [if_neg hr] <;> first | trivial | rfl
    · -- the loop of rule_array
      intro s hc h
      simp only [arrayLoopO]
      split
      · rename_i hk
        have c1 := coh_stable.expect .comma s hc
        have l1 := expect_consumes s hc .comma hk (by decide)
        rw [someV _ (ihV _ c1 (by omega))]
        simp only []
        have c2 := kV _ c1
        have l2 := yields_len yV (s.expect .comma).1
        rw [someAL _ (ihAL _ c2 (by omega))]
        rfl
      split
      · rfl
      · rename_i h1 h2
        have hne : s.current ≠ .eof := by
          intro e; simp [e] at h2
        have c1 := coh_stable.advanceWithError s hc
        have l1 := advanceWithError_consumes s hc hne
        rw [someAL _ (ihAL _ c1 (by omega))]
        rfl
    · -- rule_array behind the look-ahead `[`
      intro s hc hk h
      simp only [ruleArrayO]
      have c1 := coh_stable.expect .lbrak s hc
      have l1 := expect_consumes s hc .lbrak hk (by decide)
      by_cases hs : isValueStart (s.expect .lbrak).1.current = true
      · simp only [if_pos hs]
        rw [someV _ (ihV _ c1 (by omega))]
        simp only []
        have c2 := kV _ c1
        have l2 := yields_len yV (s.expect .lbrak).1
        rw [someAL _ (ihAL _ c2 (by omega))]
        rfl
      · simp only [if_neg hs]
        by_cases hr : ((s.expect .lbrak).1.current == .rbrak) = true
        · simp only [if_pos hr] <;> first | trivial | rfl
        · simp only [if_neg hr] <;> first | trivial | rfl

theorem initState_coh (lx : LexResult) (m : Nat) : Coh (initState lx m) := by
  simp [Coh, initState]

theorem initState_len (lx : LexResult) (m : Nat) : L (initState lx m) ≤ lx.tokens.length := by
  simp only [L, initState]
  exact takeSkips_len lx.tokens

/-- **the cut-off is never reached**: for every input, the fuel `Parser::parse` is modelled with is
enough — the twin that fails on fuel exhaustion answers, and it answers the model's result -/
theorem parse_never_exhausts_fuel (cs : List Char) :
    let lx := tokenize cs
    ruleValueO (2 * lx.tokens.length + 4) (initState lx (utf8Len cs)) =
      some (ruleValue (2 * lx.tokens.length + 4) (initState lx (utf8Len cs))) := by
  intro lx
  have hsome := (twin_total (2 * lx.tokens.length + 4)).1 (initState lx (utf8Len cs)) (initState_coh _ _)
    (by have := initState_len lx (utf8Len cs); omega)
  rcases (twin_agrees (2 * lx.tokens.length + 4)).1 (initState lx (utf8Len cs)) with e | e
  · rw [e] at hsome; cases hsome
  · exact e

/-- more fuel never changes the result: the model's answer is the answer of the unbounded recursion -/
theorem ruleValue_fuel_irrelevant (s : PState) (hc : Coh s) (f g : Nat) (hf : 2 * L s + 1 ≤ f) (hg : 2 * L s + 1 ≤ g) :
    ruleValueO f s = some (ruleValue f s) ∧ ruleValueO g s = some (ruleValue g s) := by
  constructor
  · rcases (twin_agrees f).1 s with e | e
    · have := (twin_total f).1 s hc hf; rw [e] at this; cases this
    · exact e
  · rcases (twin_agrees g).1 s with e | e
    · have := (twin_total g).1 s hc hg; rw [e] at this; cases this
    · exact e

end ShapeVerif
