/-
Lemmas about the list models of `BTreeSet<Value>` and `BTreeMap<String, Value>`.
-/
import ShapeVerif.Lemmas.Order
namespace ShapeVerif
open Shape Std

theorem setContains_iff {a : Shape} {l : List Shape} : setContains a l = true ↔ a ∈ l := by
  unfold setContains
  rw [List.any_eq_true]
  constructor
  · rintro ⟨b, hb, h⟩
    rw [beq_iff] at h
    subst h; exact hb
  · intro h
    exact ⟨a, h, (beq_iff a a).2 rfl⟩

theorem setContains_false_iff {a : Shape} {l : List Shape} : setContains a l = false ↔ a ∉ l := by
  rw [← setContains_iff]; simp

theorem mem_setInsert {x a : Shape} {l : List Shape} : x ∈ setInsert a l ↔ x = a ∨ x ∈ l := by
  induction l with
  | nil => simp [setInsert]
  | cons b l ih =>
    unfold setInsert
    cases h : cmp a b with
    | lt => simp
    | eq =>
      have : a = b := (cmp_eq_iff a b).1 h
      subst this
      simp
    | gt =>
      simp [ih]
      constructor
      · rintro (h | h | h) <;> simp [h]
      · rintro (h | h | h) <;> simp [h]

theorem mem_setExtend {x : Shape} {s add : List Shape} : x ∈ setExtend s add ↔ x ∈ s ∨ x ∈ add := by
  unfold setExtend
  induction add generalizing s with
  | nil => simp
  | cons a add ih =>
    simp only [List.foldl_cons]
    rw [ih, mem_setInsert]
    simp only [List.mem_cons]
    constructor
    · rintro ((h | h) | h) <;> simp [h]
    · rintro (h | h | h) <;> simp [h]

theorem mem_setOfList {x : Shape} {l : List Shape} : x ∈ setOfList l ↔ x ∈ l := by
  unfold setOfList; rw [mem_setExtend]; simp

/-! maps -/

theorem mapContainsKey_iff {k : String} {m : Members} :
    mapContainsKey k m = true ↔ ∃ v, (k, v) ∈ m := by
  unfold mapContainsKey
  rw [List.any_eq_true]
  constructor
  · rintro ⟨⟨k', v⟩, h, hk⟩
    simp at hk
    subst hk
    exact ⟨v, h⟩
  · rintro ⟨v, h⟩
    exact ⟨(k, v), h, by simp⟩

theorem sortedKeys_tail {kv : String × Shape} {l : Members} (h : sortedKeys (kv :: l) = true) :
    sortedKeys l = true := by
  cases l with
  | nil => rfl
  | cons kv' l =>
    obtain ⟨k, v⟩ := kv; obtain ⟨k', v'⟩ := kv'
    simp [sortedKeys] at h
    exact h.2

theorem sortedKeys_head_lt {k : String} {v : Shape} {l : Members}
    (h : sortedKeys ((k, v) :: l) = true) : ∀ kv ∈ l, compare k kv.1 = .lt := by
  induction l generalizing k v with
  | nil => simp
  | cons kv' l ih =>
    obtain ⟨k', v'⟩ := kv'
    simp [sortedKeys] at h
    intro kv hkv
    rcases List.mem_cons.1 hkv with rfl | hkv
    · exact h.1
    · exact TransCmp.lt_trans h.1 (ih h.2 kv hkv)

theorem sortedKeys_head_ne {k : String} {v : Shape} {l : Members}
    (h : sortedKeys ((k, v) :: l) = true) : ∀ kv ∈ l, kv.1 ≠ k := by
  intro kv hkv heq
  have := sortedKeys_head_lt h kv hkv
  rw [heq] at this
  simp [ReflCmp.compare_self] at this

theorem sizeOf_lt_of_mem_members {oc : Members} {kv : String × Shape} (h : kv ∈ oc) :
    sizeOf kv.2 < sizeOf oc := by
  have := List.sizeOf_lt_of_mem h
  obtain ⟨k, v⟩ := kv
  simp at this ⊢
  omega


end ShapeVerif
