/-
The tick-counting twin of `is_subset` (`subsetT`, Model/Cost.lean) computes the same Boolean as
`isSubset`: the cost theorems of C12 are therefore statements about `isSubset`'s own evaluation.
-/
import ShapeVerif.Model.Cost
import ShapeVerif.Lemmas.Containers
namespace ShapeVerif
open Shape

theorem allT_fst {α : Type} (f : α → Bool × Nat) (g : α → Bool) :
    ∀ (l : List α), (∀ x ∈ l, (f x).1 = g x) → (allT f l).1 = l.all g
  | [], _ => rfl
  | x :: l, h => by
    have hx := h x (by simp)
    have ih := allT_fst f g l (fun y hy => h y (by simp [hy]))
    simp only [allT, List.all_cons]
    split
    · rename_i h1; rw [← hx, h1, ih]; simp
    · rename_i h1; rw [← hx]; simp at h1; simp [h1]

def TwinFor (b : Shape) : Prop := ∀ a, (subsetT a b).1 = isSubset a b

theorem zipAllT_fst : ∀ (es os : List Shape), (∀ b ∈ os, TwinFor b) → (zipAllT es os).1 = zipAllSubset es os
  | [], _, _ => by cases ‹List Shape› <;> simp [zipAllT, zipAllSubset]
  | _ :: _, [], _ => by simp [zipAllT, zipAllSubset]
  | a :: as, b :: bs, h => by
    have hb := h b (by simp) a
    have ih := zipAllT_fst as bs (fun y hy => h y (by simp [hy]))
    simp only [zipAllT, zipAllSubset]
    split
    · rename_i h1; rw [← hb, h1, ih]; simp
    · rename_i h1; rw [← hb]; simp at h1; simp [h1]

theorem lookupT_fst (k : String) (v : Shape) : ∀ (oc : Members), (∀ kv ∈ oc, TwinFor kv.2) →
    (lookupT k v oc).1 = lookupSubset k v oc
  | [], _ => rfl
  | (k', ov) :: l, h => by
    simp only [lookupT, lookupSubset]
    split
    · exact h (k', ov) (by simp) v
    · exact lookupT_fst k v l (fun y hy => h y (by simp [hy]))

theorem anySupT_fst (s : Shape) : ∀ (vs : List Shape), (∀ v ∈ vs, TwinFor v) → (anySupT s vs).1 = anySuperset s vs
  | [], _ => rfl
  | v :: l, h => by
    have hv := h v (by simp) s
    have ih := anySupT_fst s l (fun y hy => h y (by simp [hy]))
    simp only [anySupT, anySuperset]
    split
    · rename_i h1; rw [← hv, h1]; simp
    · rename_i h1; rw [← hv]; simp at h1; simp [h1, ih]

theorem anyObjT_fst (s : Shape) : ∀ (vs : List Shape), (∀ v ∈ vs, TwinFor v) →
    (anyObjT s vs).1 = anyObjectSuperset s vs
  | [], _ => rfl
  | v :: l, h => by
    have hv := h v (by simp) s
    have ih := anyObjT_fst s l (fun y hy => h y (by simp [hy]))
    simp only [anyObjT, anyObjectSuperset]
    split
    · rename_i ho
      split
      · rename_i h1; rw [← hv, h1, ho]; simp
      · rename_i h1; rw [← hv]; simp at h1; simp [h1, ih, ho]
    · rename_i ho; simp at ho; simp [ho, ih]

theorem anyNullOkT_fst (s : Shape) (nullOk : Bool) : ∀ (vs : List Shape), (∀ v ∈ vs, TwinFor v) →
    (anyNullOkT s nullOk vs).1 = anyNullOkSuperset s nullOk vs
  | [], _ => rfl
  | v :: l, h => by
    have hv := h v (by simp) s
    have ih := anyNullOkT_fst s nullOk l (fun y hy => h y (by simp [hy]))
    simp only [anyNullOkT, anyNullOkSuperset]
    split
    · rename_i ho
      split
      · rename_i h1; rw [← hv, h1, ho]; simp
      · rename_i h1; rw [← hv]; simp at h1; simp [h1, ih, ho]
    · rename_i ho; simp only [Bool.not_eq_true] at ho; simp [ho, ih]

set_option maxHeartbeats 400000 in
theorem subsetT_fst_aux (n : Nat) : ∀ b : Shape, sizeOf b ≤ n → TwinFor b := by
  induction n with
  | zero => intro b h; cases b <;> simp at h
  | succ n ih =>
    intro b hn a
    cases b with
    | null => cases a <;> (try rename_i o; cases o) <;> simp [subsetT, isSubset]
    | bool p => cases a <;> (try rename_i o; cases o) <;> simp [subsetT, isSubset]
    | number p => cases a <;> (try rename_i o; cases o) <;> simp [subsetT, isSubset]
    | string p => cases a <;> (try rename_i o; cases o) <;> simp [subsetT, isSubset]
    | array ty p =>
      have ihty : TwinFor ty := ih ty (by simp at hn; omega)
      cases a with
      | array t o => have := ihty t; cases o <;> cases p <;> simp [subsetT, isSubset, this]
      | tuple es o =>
        have hall := allT_fst (fun e => subsetT e ty) (fun e => isSubset e ty) es (fun e _ => ihty e)
        cases o <;> cases p <;> simp [subsetT, isSubset, hall]
      | null => simp [subsetT, isSubset]
      | bool o => cases o <;> simp [subsetT, isSubset]
      | number o => cases o <;> simp [subsetT, isSubset]
      | string o => cases o <;> simp [subsetT, isSubset]
      | object c o => cases o <;> simp [subsetT, isSubset]
      | oneOf c o => cases o <;> simp [subsetT, isSubset]
    | tuple os p =>
      have ihos : ∀ b ∈ os, TwinFor b := fun b hb => ih b (by
        have := List.sizeOf_lt_of_mem hb; simp at hn; omega)
      cases a with
      | tuple es o =>
        have := zipAllT_fst es os ihos
        cases o <;> cases p <;> simp [subsetT, isSubset, this]
      | null => simp [subsetT, isSubset]
      | bool o => cases o <;> simp [subsetT, isSubset]
      | number o => cases o <;> simp [subsetT, isSubset]
      | string o => cases o <;> simp [subsetT, isSubset]
      | array t o => cases o <;> simp [subsetT, isSubset]
      | object c o => cases o <;> simp [subsetT, isSubset]
      | oneOf c o => cases o <;> simp [subsetT, isSubset]
    | object oc p =>
      have ihoc : ∀ kv ∈ oc, TwinFor kv.2 := fun kv hkv => ih kv.2 (by
        have := sizeOf_lt_of_mem_members hkv; simp at hn this; omega)
      cases a with
      | object c o =>
        have hall := allT_fst (fun kv => lookupT kv.1 kv.2 oc) (fun kv => lookupSubset kv.1 kv.2 oc) c
          (fun kv _ => lookupT_fst kv.1 kv.2 oc ihoc)
        by_cases hk : (oc.all fun kv => mapContainsKey kv.1 c || kv.2.isOptional || isOneOfNull kv.2) = true
        · cases o <;> cases p <;> simp only [subsetT, isSubset, hk, if_true, hall, Bool.true_and]
        · have hk' : (oc.all fun kv => mapContainsKey kv.1 c || kv.2.isOptional || isOneOfNull kv.2) = false := by
            simpa using hk
          cases o <;> cases p <;> simp only [subsetT, isSubset, hk', Bool.false_eq_true, if_false, Bool.false_and]
      | null => simp [subsetT, isSubset]
      | bool o => cases o <;> simp [subsetT, isSubset]
      | number o => cases o <;> simp [subsetT, isSubset]
      | string o => cases o <;> simp [subsetT, isSubset]
      | array t o => cases o <;> simp [subsetT, isSubset]
      | tuple c o => cases o <;> simp [subsetT, isSubset]
      | oneOf c o => cases o <;> simp [subsetT, isSubset]
    | oneOf ws p =>
      have ihws : ∀ v ∈ ws, TwinFor v := fun v hv => ih v (by
        have := List.sizeOf_lt_of_mem hv; simp at hn; omega)
      cases a with
      | null => simp [subsetT, isSubset]
      | bool o => cases o <;> simp [subsetT, isSubset]
      | number o => cases o <;> simp [subsetT, isSubset]
      | string o => cases o <;> simp [subsetT, isSubset]
      | array t o =>
        cases o
        · simp [subsetT, isSubset, anySupT_fst _ ws ihws]
        · simp [subsetT, isSubset, anyNullOkT_fst _ _ ws ihws]
      | tuple es o =>
        cases o
        · simp [subsetT, isSubset, anySupT_fst _ ws ihws]
        · simp [subsetT, isSubset, anyNullOkT_fst _ _ ws ihws]
      | object c o =>
        cases o
        · simp [subsetT, isSubset, anyObjT_fst _ ws ihws]
        · simp [subsetT, isSubset, anyNullOkT_fst _ _ ws ihws]
      | oneOf vs o =>
        have hall := allT_fst (fun v => anySupT v ws) (fun v => anySuperset v ws) vs
          (fun v _ => anySupT_fst v ws ihws)
        by_cases hk : setIsSubset vs ws = true
        · cases o <;> cases p <;> simp only [subsetT, isSubset, hk, if_true, Bool.true_or]
        · have hk' : setIsSubset vs ws = false := by simpa using hk
          cases o <;> cases p <;> simp only [subsetT, isSubset, hk', Bool.false_eq_true, if_false, Bool.false_or, hall]

/-- the Boolean computed by the counting twin is `isSubset` -/
theorem subsetT_fst (a b : Shape) : (subsetT a b).1 = isSubset a b :=
  subsetT_fst_aux (sizeOf b) b (Nat.le_refl _) a

end ShapeVerif
